(* Soundness of the sweep-order / restart monitor of C12 (Model/FdlSweep.v: smonitor, sweep_poll, rules
   P12_sweep_order, P12_offline_forgets_ring) on the transcripts of the MODEL.

   The monitor has state: k0 (state kind of the previous view) and `last` (address of the last own GAP request of the
   current uninterrupted polling phase).  Invariant of the induction over FdlOracleSound1.model_events:
     FdlRingSound.RJ (Rep + parameters + PHY buffer holds bytes), k0 = kind_of (f_state f), and
     last = Some a -> f_gap f = GapDoPoll a /\ f_state f <> Offline.
   One poll (sweep_core, all station states with Rep): from C12Proofs.poll_sweep_rel (the GAP sweep poll by poll),
   poll_transmissions (what a transmission can be) and poll_gap_state_frame:
   - a transmission that the monitor reads as the station's own GAP request (status request with SA = TS, no
     application transmitted in this poll - app_sent of the call log; an application's own status request does not
     count, and a GAP request of do_pass_token / do_claim_token never comes with a transmitting application call) is
     the request of exactly one GAP step: gap_visit_step f = Ok (GapDoPoll a), hence a = gap_succ HSA cursor and the
     new cursor is a; no u8 overflow can hide in next_gap_poll when it returns;
   - a poll without such a transmission leaves a polling cursor where it was, or ends the polling phase
     (GapWaiting), or is the claim of the token (self-token from ListenToken / ActiveIdle / ClaimToken = claim_tx,
     cursor := TS), or re-creates the station.
   P12_offline_forgets_ring: set_offline f = fdl_new (f_p f), and the view of a fresh station is fresh_view
   (C02Proofs.ring_new_ok).

   HISTORY OF THE MONITOR: a first version kept `last` over a poll that ends Offline.  That was a false positive,
   found while proving this file: the station re-creates itself INSIDE a poll (second address collision while
   listening: listen_token_telegram calls set_offline, the GAP cursor goes back to DoPoll{TS}), no API event marks
   it, and after set_online and an entry into the ring without a claim the first GAP request (TS+1) was compared with
   the stale `last` (reproduced on the unmodified crate; witness corpus/fdl/sweep-recreated-in-poll.cases, and
   sweep_recreated_in_poll_accepted below: the model transcript of that history, with its in-poll re-creation, is
   accepted now).  sweep_poll now forgets `last` after a poll that ends Offline, and the soundness below is
   UNCONDITIONAL: every model transcript, no exclusion.
   No hypothesis on the applications beyond totality (apps_total): app_sends_data is not needed, the monitor itself
   discards what an application transmitted. *)
From Coq Require Import Arith.
From PB Require Import Common Tables FdlTables Telegram Phy TokenRing Params Fdl FdlOracle FdlSweep FdlProofs FdlStepProofs.
From PB Require Import LasRep C02Proofs C05Proofs C11Proofs C12Proofs C13Proofs C15Proofs.
From PB Require Import FdlOracleSound1 FdlOracleSound2 FdlOracleSound3 FdlOracleSound6 C12OracleSound FdlRingSound.

(* ------------------------------------------------------------------------------------------ *)
(* small facts                                                                                  *)

(* when next_gap_poll returns a new cursor it is the cyclic successor below HSA - its u8 arithmetic either panics
   or is exact *)
Lemma next_gap_poll_succ f c a : next_gap_poll f c = Ok (GapDoPoll a) -> a = gap_succ (p_hsa (f_p f)) c.
Proof.
  unfold next_gap_poll, gap_succ, u8_sub, u8_add.
  destruct (0 <=? p_hsa (f_p f) - 1); cbn [bind]; [|discriminate].
  destruct (c =? p_hsa (f_p f) - 1); cbn [bind].
  - destruct (in_gapb _ _ 0); intros H; [injection H as <-; reflexivity|discriminate H].
  - destruct (c + 1 <=? 255); cbn [bind]; [|discriminate].
    destruct (in_gapb _ _ (c + 1)); intros H; [injection H as <-; reflexivity|discriminate H].
Qed.

Lemma kind_offline s : kind_of s = KOffline -> s = Offline.
Proof. destruct s; cbn; intros H; try discriminate H; reflexivity. Qed.

Lemma own_gap_poll_y p s : own_gap_poll (p_address p) s = y_gap_poll p s.
Proof. unfold own_gap_poll, y_gap_poll, y_txt, y_ts. destruct (s_tx s); reflexivity. Qed.

(* the fresh station *)
Lemma fdl_new_fresh p f0 : fdl_new p = Ok f0 -> fresh_view (p_address p) (view_of f0) = true.
Proof.
  unfold fdl_new. destruct (negb (p_address p <=? 127)) eqn:E1; [discriminate|].
  destruct (negb (p_hsa p <=? 126)); [discriminate|].
  apply negb_false_iff, Z.leb_le in E1.
  destruct (Z_lt_le_dec (p_address p) 0) as [L|L]; [rewrite ring_new_panics by lia; discriminate|].
  destruct (ring_new_ok (p_address p)) as (r & Er & _ & _ & Hs & Hn & Hps & Ho); [lia|].
  rewrite Er. cbn [bind]. intros H. injection H as <-.
  unfold fresh_view, view_of. cbn [v_las_valid v_ns v_ps v_active f_ring]. rewrite Hs, Hn, Hps, Ho, Z.eqb_refl. reflexivity.
Qed.

(* ------------------------------------------------------------------------------------------ *)
(* ONE POLL                                                                                     *)

Section Step.
Variable A : Type.
Variable ops : app_ops A.
Variable p : params.

(* which states a poll can end listening from: not from a token-holding state that takes GAP steps *)
Lemma claim_early_poll f now pin (apps : list A) f' o apps' calls st0 :
  poll ops f now pin apps = Ok (f', o, apps', calls) -> f_state f = ClaimToken st0 ->
  st0 = StepFirstToken \/ st0 = StepSecondToken -> kind_of (f_state f') = KClaimToken.
Proof.
  intros E Es Hst. apply poll_unfold in E. destruct E as (w' & Hi & _).
  assert (Hk : online_entry_kind (kind_of (f_state f)) = false /\ passive_entry_kind (kind_of (f_state f)) = false)
    by (rewrite Es; split; reflexivity).
  apply C12Proofs.poll_inner_cases in Hi. destruct Hi as [Hpre|(f3 & w3 & Hpre & _ & Hd)].
  - rewrite (pre_rel_state _ _ _ _ _ Hpre (proj1 Hk) (proj2 Hk)), Es. reflexivity.
  - pose proof (pre_rel_state _ _ _ _ _ Hpre (proj1 Hk) (proj2 Hk)) as Hs.
    unfold C12Proofs.dispatch in Hd. rewrite Hs, Es in Hd. cbn [kind_of poll_dispatch] in Hd.
    apply do_claim_token_spec in Hd. destruct Hd as (st1 & Est & _ & _ & _ & _ & Hc).
    rewrite Hs, Es in Est. injection Est as <-.
    destruct Hst as [-> | ->]; destruct Hc as (_ & [(_ & S & _)|(_ & _ & S & _)]); rewrite S; try reflexivity;
      rewrite Hs, Es; reflexivity.
Qed.

Lemma poll_to_listen_gap f now pin (apps : list A) f' o apps' calls :
  poll ops f now pin apps = Ok (f', o, apps', calls) -> kind_of (f_state f') = KListenToken -> f_gap f' = f_gap f.
Proof.
  intros E K'.
  destruct (poll_gap_state_frame A ops _ _ _ _ _ _ _ _ E) as [H|[(Ho & _)|[K|[(S & _)|(S & _)]]]]; [exact H| | | |]; exfalso.
  - destruct Ho as [(att & S)|Hu].
    + destruct (pass_token_performs_gap_step A ops _ _ _ _ _ _ _ _ _ E S) as
        [(_ & S' & _)|(_ & [(a & _ & S' & _)|(k & _ & _ & _ & [S'|S'])])]; rewrite S' in K'; try rewrite S in K'; discriminate K'.
    + destruct (poll_state_cases A ops _ _ _ _ _ _ _ _ E) as [(_ & _ & Hq)|(tk & _ & Hv & _)].
      * destruct Hq as [(S' & _)|(_ & s3 & Hpro & _ & Hsame)]; [rewrite S' in K'; discriminate K'|].
        assert (Hiv : in_visit (kind_of (f_state f)) = true) by (destruct Hu as [Hu|Hu]; rewrite Hu; reflexivity).
        destruct Hpro as [->|(C & _)]; [|rewrite C in Hiv; discriminate Hiv].
        rewrite (Hsame Hiv) in K'. destruct Hu as [Hu|Hu]; rewrite Hu in K'; discriminate K'.
      * destruct Hv as [(S' & _)|[(S' & _)|[(fa' & S')|[(a & fa' & S')|[Hpk|S']]]]];
          try (rewrite S' in K'; try (destruct Hu as [Hu|Hu]; rewrite Hu in K'); discriminate K').
        rewrite K' in Hpk. discriminate Hpk.
  - destruct (f_state f) as [ | | | | |st0| | | | ] eqn:Es; try discriminate K.
    destruct st0 as [ | | |a0].
    + rewrite (claim_early_poll _ _ _ _ _ _ _ _ _ E Es (or_introl eq_refl)) in K'. discriminate K'.
    + rewrite (claim_early_poll _ _ _ _ _ _ _ _ _ E Es (or_intror eq_refl)) in K'. discriminate K'.
    + destruct (claim_scan_step A ops _ _ _ _ _ _ _ _ E (or_introl Es)) as
        (_ & [(_ & [S'|[S'|[S'|(S' & _)]]])|(a & (_ & [S'|S']) & _)]); rewrite S' in K'; try rewrite Es in K'; discriminate K'.
    + destruct (claim_scan_step A ops _ _ _ _ _ _ _ _ E (or_intror (ex_intro _ a0 Es))) as
        (_ & [(_ & [S'|[S'|[S'|(S' & _)]]])|(a & (_ & [S'|S']) & _)]); rewrite S' in K'; try rewrite Es in K'; discriminate K'.
  - rewrite S in K'. discriminate K'.
  - rewrite S in K'. discriminate K'.
Qed.

(* ---- what the monitor reads from the transmission of a poll ---- *)
Section OnePoll.
Variables (f f' : fdl) (now : Z) (busy : bool) (rxb : bytes) (apps apps' : list A) (o : phy_out) (calls : list call).
Hypothesis R : Rep (length apps) f.
Hypothesis Hp : f_p f = p.
Hypothesis E : poll ops f now (mkPhyIn busy rxb) apps = Ok (f', o, apps', calls).
Let s := poll_event now busy rxb f' o calls.

Lemma sw_ts : ts f = p_address p. Proof. unfold ts. rewrite Hp. reflexivity. Qed.

Lemma sw_cursor_ok : gap_cursor_ok f.
Proof.
  pose proof (Rep_ts _ _ R) as Hts. split; [lia|]. intros c Ec. pose proof (rep_gap _ _ R) as G. rewrite Ec in G. exact G.
Qed.

(* a transmission read as the station's own GAP request IS the GAP request of do_pass_token / do_claim_token: no
   application transmitted in this poll *)
Lemma own_gap_poll_tx a : own_gap_poll (p_address p) s = Some a ->
  tx o = Some (sr_wire a (ts f)) /\ app_sent calls = false /\ tx_gap f f' (sr_wire a (ts f)) /\
  decode_one (sr_wire a (ts f)) = Some (TData (status_request_header a (ts f)) []).
Proof.
  unfold own_gap_poll. cbn [s poll_event s_tx s_calls]. destruct (tx o) as [wire|] eqn:Etx; [|discriminate].
  destruct (decode_one wire) as [t|] eqn:Hd; [|discriminate]. destruct t as [h pdu|da sa|]; try discriminate.
  destruct (is_fdl_status_request h && (h_sa h =? p_address p) && negb (app_sent (map (conv_call (Some wire)) calls))) eqn:Ec; [|discriminate].
  intros H. injection H as <-.
  apply andb_true_iff in Ec. destruct Ec as (Ec & Hns). apply andb_true_iff in Ec. destruct Ec as (Hsr & _).
  rewrite app_sent_conv in Hns. apply negb_true_iff in Hns.
  pose proof (Rep_ts _ _ R) as Hts.
  destruct (poll_transmissions A ops _ _ _ _ _ _ _ _ _ E Etx) as [(cs & i & hp & er & Hcs & _)|(_ & [Htok|[Hgap|Hrep]])].
  - rewrite Hcs, app_sent_last in Hns. discriminate Hns.
  - destruct Htok as (da & Hw & _). rewrite Hw, decode_one_token in Hd. discriminate Hd.
  - pose proof Hgap as (a & Hw & Hin & Hrng & _). specialize (Hrng sw_cursor_ok).
    assert (Hwf : wf_header (status_request_header a (ts f))) by (unfold wf_header, is_addr7; cbn; lia).
    assert (Hd' : decode_one (sr_wire a (ts f)) = Some (TData (status_request_header a (ts f)) []))
      by (unfold sr_wire; apply (decode_one_data _ [] Hwf); cbn; lia).
    rewrite Hw, Hd' in Hd. injection Hd as <- _. cbn [h_da status_request_header].
    rewrite <- Hw. split; [reflexivity|]. split; [exact Hns|]. split; [exact Hgap|rewrite Hw; exact Hd'].
  - exfalso. destruct Hrep as (src & st & Hw & Hrs).
    assert (Hsrc : 0 <= src < 128).
    { pose proof (rep_st _ _ R) as St. destruct Hrs as [(cc & Es & _)|(nps & cc & Es & _)]; rewrite Es in St; cbn in St; tauto. }
    assert (Hwf : wf_header (status_response_header src (ts f) st status_reply_status)) by (unfold wf_header, is_addr7; cbn; lia).
    rewrite Hw in Hd. unfold reply_wire in Hd. rewrite (decode_one_data _ [] Hwf) in Hd by (cbn; lia).
    injection Hd as <- _. discriminate Hsr.
Qed.

Lemma gap_tx_own a : tx o = Some (sr_wire a (ts f)) -> Forall no_send calls -> 0 <= a < 128 ->
  own_gap_poll (p_address p) s = Some a.
Proof.
  intros Htx Hns Ha. rewrite own_gap_poll_y. pose proof (Rep_ts _ _ R) as Hts.
  apply (L_poll p f f' now busy rxb o calls Hp a Htx Hns Ha). lia.
Qed.

Lemma claim_tx_true : tx o = Some (encode_token (ts f) (ts f)) ->
  kind_of (f_state f) = KListenToken \/ kind_of (f_state f) = KActiveIdle \/ kind_of (f_state f) = KClaimToken ->
  claim_tx (p_address p) (kind_of (f_state f)) s = true.
Proof.
  intros Htx Hk. unfold claim_tx. cbn [s poll_event s_tx]. rewrite Htx, decode_one_token, sw_ts, Z.eqb_refl.
  destruct Hk as [K|[K|K]]; rewrite K; reflexivity.
Qed.

Lemma tx_gap_kinds w : tx_gap f f' w ->
  (kind_of (f_state f) = KPassToken \/ kind_of (f_state f) = KUseToken \/ kind_of (f_state f) = KAwaitDataResponse \/
   kind_of (f_state f) = KClaimToken) /\
  f_state f' <> Offline /\ kind_of (f_state f') <> KListenToken.
Proof.
  intros (a & _ & _ & _ & _ & _ & Hst).
  destruct Hst as [(S' & Ho)|(S' & Ho)]; (split; [|rewrite S'; split; discriminate]).
  - destruct Ho as [(att & S)|[Hu|Hu]]; [rewrite S; left; reflexivity|right; left; exact Hu|right; right; left; exact Hu].
  - right. right. right. destruct Ho as [S|(a0 & S)]; rewrite S; reflexivity.
Qed.

(* THE STEP.  From any station state with Rep, and any `last` that names the cursor of a polling phase: the rule is
   silent, and a new `last` names the new cursor of a station that is not Offline. *)
Lemma sweep_core last :
  (forall a0, last = Some a0 -> f_gap f = GapDoPoll a0 /\ f_state f <> Offline) ->
  snd (sweep_poll p (kind_of (f_state f)) last s) = [] /\
  (forall a, fst (sweep_poll p (kind_of (f_state f)) last s) = Some a ->
     f_gap f' = GapDoPoll a /\ f_state f' <> Offline).
Proof.
  intros HL. pose proof (poll_sweep_rel A ops _ _ _ _ _ _ _ _ E) as Hsw. cbn [tx_busy rx] in Hsw.
  pose proof (bv_not_short_slot f (rep_p _ _ R)) as Hss.
  unfold sweep_poll. destruct (own_gap_poll (p_address p) s) as [a|] eqn:Eo.
  - (* the station's own GAP request *)
    destruct (own_gap_poll_tx a Eo) as (Htx & Hns & Hgap & Hd).
    destruct (tx_gap_kinds _ Hgap) as (Hkf & Hoff' & Hnl').
    pose proof Hgap as (a' & Hw & _ & _ & _ & Hg' & _). apply sr_wire_inj in Hw. subst a'.
    cbn [fst snd]. split.
    + destruct last as [a0|]; [|reflexivity]. destruct (HL a0 eq_refl) as (Hg0 & _).
      assert (Ha : a = gap_succ (p_hsa p) a0); [|rewrite <- Ha, Z.eqb_refl; reflexivity].
      rewrite <- Hp. rewrite Htx in Hsw.
      destruct Hsw as [Hr|[(a' & Ht & _ & Hstep & _)|[(da & Ht & _)|(Hq & _)]]].
      * exfalso. destruct Hr as [K|[K|[K|[K|[(Ht & _)|K]]]]].
        -- destruct Hkf as [K1|[K1|[K1|K1]]]; rewrite K1 in K; discriminate K.
        -- destruct Hkf as [K1|[K1|[K1|K1]]]; rewrite K1 in K; discriminate K.
        -- apply Hoff', kind_offline, K.
        -- exact (Hnl' K).
        -- assert (Ht' : sr_wire a (ts f) = encode_token (ts f) (ts f)) by congruence.
           rewrite Ht', decode_one_token in Hd. discriminate Hd.
        -- exact (Hss K).
      * assert (Ht' : sr_wire a (ts f) = sr_wire a' (ts f)) by congruence. apply sr_wire_inj in Ht'. subst a'.
        unfold gap_visit_step in Hstep. rewrite Hg0 in Hstep. exact (next_gap_poll_succ _ _ _ Hstep).
      * exfalso. assert (Ht' : sr_wire a (ts f) = encode_token da (ts f)) by congruence.
        rewrite Ht', decode_one_token in Hd. discriminate Hd.
      * exfalso. destruct Hq as [Ht|[(wire & cs & i & hp & er & _ & Hcs)|[(src & st & _ & K)|(da & _ & K)]]].
        -- discriminate Ht.
        -- rewrite Hcs, app_sent_last in Hns. discriminate Hns.
        -- destruct Hkf as [K1|[K1|[K1|K1]]]; destruct K as [K|K]; rewrite K1 in K; discriminate K.
        -- destruct Hkf as [K1|[K1|[K1|K1]]]; rewrite K1 in K; discriminate K.
    + intros a1 H1. split; [|exact Hoff'].
      destruct (v_gap_due (s_view s)); [injection H1 as <-; exact Hg'|discriminate H1].
  - (* no GAP request of the station in this poll *)
    cbn [fst snd]. split; [reflexivity|]. intros a H1.
    destruct (v_gap_due (s_view s) && negb (claim_tx (p_address p) (kind_of (f_state f)) s) &&
              negb (state_kind_eqb (v_kind (s_view s)) KOffline)) eqn:Ec; [|discriminate H1].
    subst last. destruct (HL a eq_refl) as (Hg0 & Hnoff).
    apply andb_true_iff in Ec. destruct Ec as (Ec & Hk'). apply negb_true_iff in Hk'.
    assert (Hoff' : f_state f' <> Offline).
    { intros C. cbn [s poll_event s_view view_of v_kind] in Hk'. rewrite C in Hk'. discriminate Hk'. }
    split; [|exact Hoff'].
    apply andb_true_iff in Ec. destruct Ec as (Hdue & Hcl). apply negb_true_iff in Hcl.
    cbn [s poll_event s_view view_of v_gap_due] in Hdue.
    destruct Hsw as [Hr|[(a' & Ht & (l & Hl & Hf) & Hstep & _)|[(da & _ & _ & _ & _ & Hc)|(_ & Hc)]]].
    + destruct Hr as [K|[K|[K|[K|[(Ht & Hk & _)|K]]]]].
      * contradiction (Hnoff (kind_offline _ K)).
      * exfalso. pose proof (rep_st _ _ R) as St. destruct (f_state f); try discriminate K. exact St.
      * contradiction (Hoff' (kind_offline _ K)).
      * rewrite (poll_to_listen_gap _ _ _ _ _ _ _ _ E K). exact Hg0.
      * rewrite (claim_tx_true Ht Hk) in Hcl. discriminate Hcl.
      * contradiction (Hss K).
    + exfalso. cbn [app] in Hl. subst l.
      destruct (gap_visit_step_in_gap f a' Hstep) as (_ & Hrng). specialize (Hrng sw_cursor_ok).
      pose proof (Rep_ts _ _ R) as Hts.
      rewrite (gap_tx_own a' Ht Hf) in Eo by lia. discriminate Eo.
    + destruct Hc as [(_ & _ & (k & Hk))|(_ & Hg)]; [rewrite Hk in Hdue; discriminate Hdue|rewrite Hg; exact Hg0].
    + destruct Hc as [(Hg & _)|(_ & _ & _ & _ & (k & Hk) & _)]; [rewrite Hg; exact Hg0|rewrite Hk in Hdue; discriminate Hdue].
Qed.

End OnePoll.

End Step.

(* ------------------------------------------------------------------------------------------ *)
(* unfolding the monitor at an API event                                                        *)

Lemma api_errs_nil (ts : Z) (a : api_call) (v : view) (tl : list FdlOracle.event) :
  (a = ApiOffline \/ a = ApiNew -> fresh_view ts v = true) ->
  match a, tl with
  | (ApiOffline | ApiNew), EPanic :: _ => []
  | (ApiOffline | ApiNew), _ => if fresh_view ts v then [] else [P12_offline_forgets_ring]
  | _, _ => []
  end = [].
Proof.
  intros H. destruct a; try reflexivity; (rewrite H by tauto); destruct tl as [|[ | | | ] ?]; reflexivity.
Qed.

Lemma smonitor_from_api p i k0 last a v tl :
  (a = ApiOffline \/ a = ApiNew -> fresh_view (p_address p) v = true) ->
  smonitor_from p i k0 last (EApi a v :: tl) =
  smonitor_from p (S i) (v_kind v) (match a with ApiOffline | ApiNew => None | _ => last end) tl.
Proof. intros H. cbn [smonitor_from]. rewrite api_errs_nil by exact H. reflexivity. Qed.

(* ------------------------------------------------------------------------------------------ *)
(* ONE POLL, as theorems over all station states                                                *)

(* the invariant that ties the monitor state to the station *)
Definition sweep_inv (f : fdl) (k0 : state_kind) (last : option Z) : Prop :=
  k0 = kind_of (f_state f) /\ forall a0, last = Some a0 -> f_gap f = GapDoPoll a0 /\ f_state f <> Offline.

Section StepTheorems.
Variable A : Type.
Variable ops : app_ops A.
Variable p : params.
Hypothesis Happs : apps_total A ops.

Lemma poll_keeps_rep f now busy rxb (apps : list A) f' o apps' calls :
  Rep (length apps) f -> f_p f = p -> time_ok now -> all_bytes rxb ->
  poll ops f now (mkPhyIn busy rxb) apps = Ok (f', o, apps', calls) ->
  Rep (length apps') f' /\ f_p f' = p.
Proof.
  intros R Hp Hnow Hrx E.
  destruct (poll_rep_step A ops Happs f now (mkPhyIn busy rxb) apps R Hnow Hrx) as (f'' & o'' & apps'' & c'' & E' & R' & L').
  rewrite E in E'. injection E' as <- <- <- <-. split; [rewrite L'; exact R'|].
  rewrite (poll_keeps_parameters A ops _ _ _ _ _ _ _ _ E). exact Hp.
Qed.

(* one poll of the model, from every state *)
Theorem sweep_step_sound f now busy rxb (apps : list A) f' o apps' calls k0 last :
  Rep (length apps) f -> f_p f = p -> time_ok now -> all_bytes rxb -> sweep_inv f k0 last ->
  poll ops f now (mkPhyIn busy rxb) apps = Ok (f', o, apps', calls) ->
  let s := poll_event now busy rxb f' o calls in
  snd (sweep_poll p k0 last s) = [] /\
  Rep (length apps') f' /\ f_p f' = p /\ sweep_inv f' (v_kind (s_view s)) (fst (sweep_poll p k0 last s)).
Proof.
  intros R Hp Hnow Hrx (-> & HL) E s.
  destruct (sweep_core A ops p f f' now busy rxb apps apps' o calls R Hp E last HL) as (H1 & H2). fold s in H1, H2.
  split; [exact H1|]. destruct (poll_keeps_rep _ _ _ _ _ _ _ _ _ R Hp Hnow Hrx E) as (R' & Hp').
  split; [exact R'|]. split; [exact Hp'|]. split; [reflexivity|exact H2].
Qed.

End StepTheorems.

(* ------------------------------------------------------------------------------------------ *)
(* TRANSCRIPTS                                                                                  *)

Section Transcripts.
Variable A : Type.
Variable ops : app_ops A.
Variable p : params.
Hypothesis Happs : apps_total A ops.
Hypothesis Hbv : builder_valid p.

Lemma sweep_inv_api a f f' last :
  api_result p a f = Ok f' -> sweep_inv f (kind_of (f_state f)) last ->
  sweep_inv f' (v_kind (view_of f')) (match a with ApiOffline | ApiNew => None | _ => last end) /\
  (a = ApiOffline \/ a = ApiNew -> fdl_new p = Ok f' \/ fdl_new (f_p f) = Ok f').
Proof.
  intros Ea (_ & HL). destruct a; cbn [api_result] in Ea.
  - split; [split; [reflexivity|discriminate]|]. intros _. left. exact Ea.
  - unfold set_online, set_state in Ea. injection Ea as <-. split; [|intros [C|C]; discriminate C].
    split; [reflexivity|]. exact HL.
  - split; [split; [reflexivity|discriminate]|]. intros _. right. exact Ea.
  - discriminate Ea.
Qed.

Theorem smonitor_from_sound : forall ins f apps buf tl i last,
  RJ A p f apps buf -> sweep_inv f (kind_of (f_state f)) last -> ins_ok tl ins ->
  smonitor_from p i (kind_of (f_state f)) last (model_events A ops p f apps buf ins) = [].
Proof.
  induction ins as [|x ins IH]; intros f apps buf tl i last HJ HI Hok; [reflexivity|].
  destruct x as [a|now busy nb]; cbn [model_events] in *; cbn [ins_ok] in Hok.
  - destruct (api_result p a f) as [f'| |] eqn:Ea.
    + destruct (sweep_inv_api a f f' last Ea HI) as (HI' & Hnew).
      rewrite smonitor_from_api.
      * exact (IH _ _ _ _ _ _ (rj_api A p Hbv _ _ _ _ _ HJ Ea) HI' Hok).
      * intros Ha. destruct HJ as (_ & Hp & _).
        destruct (Hnew Ha) as [En|En]; [|rewrite Hp in En]; exact (fdl_new_fresh _ _ En).
    + destruct a; reflexivity.
    + destruct a; reflexivity.
  - destruct Hok as (_ & Hnow & Hnb & Hok).
    destruct (poll ops f now (mkPhyIn busy (buf ++ nb)) apps) as [[[[f' o] apps'] calls]| |] eqn:Ep; try reflexivity.
    cbn [smonitor_from] in *.
    destruct HJ as (R & Hp & Hb).
    assert (Hrx : all_bytes (buf ++ nb)) by (unfold all_bytes in *; apply Forall_app; split; assumption).
    destruct (sweep_step_sound A ops p Happs f now busy (buf ++ nb) apps f' o apps' calls _ last R Hp Hnow Hrx HI Ep) as (H1 & _ & _ & HI').
    destruct (sweep_poll p (kind_of (f_state f)) last (poll_event now busy (buf ++ nb) f' o calls)) as [last' errs].
    cbn [fst snd] in H1, HI'. subst errs. cbn [map app].
    exact (IH _ _ _ _ _ _ (rj_poll A ops p Happs _ _ _ _ _ _ _ _ _ _ (conj R (conj Hp Hb)) Hnow Hnb Ep) HI' Hok).
Qed.

End Transcripts.

(* the monitor as the check runs it: for all parameters (it only looks at builder-valid ones), EVERY model transcript *)
Theorem sweep_monitor_sound (A : Type) (ops : app_ops A) (p : params) :
  apps_total A ops ->
  forall (apps : list A) (ins : list minput), ins_ok 0 ins ->
  smonitor p (model_transcript A ops p apps ins) = [].
Proof.
  intros Happs apps ins Hok. unfold smonitor. destruct (builder_validb p) eqn:Eb; [|reflexivity].
  apply builder_validb_valid in Eb. unfold model_transcript in *.
  destruct (fdl_new p) as [f0| |] eqn:E0; try reflexivity.
  rewrite smonitor_from_api by (intros _; exact (fdl_new_fresh _ _ E0)).
  assert (HI : sweep_inv f0 (kind_of (f_state f0)) None) by (split; [reflexivity|discriminate]).
  exact (smonitor_from_sound A ops p Happs Eb ins f0 apps [] 0 1%nat None
           (rj_new A p Eb _ _ _ E0 (Forall_nil _)) HI Hok).
Qed.

(* ------------------------------------------------------------------------------------------ *)
(* NON-VACUITY                                                                                  *)

(* (1) Station 3 alone on the bus, HSA = 5 (GAP = {4, 0, 1, 2}), one poll every 2 ms: it claims the token, scans the
   GAP (4 0 1 2 in ClaimToken), and then polls 4, 0, 1, 2 in CONSECUTIVE token visits (AwaitStatusResponse), twice
   over; the monitor accepts the transcript. *)
Definition ex_sweep_params : params := mkParams 3 B19200 100 80000 1 5 1 11 None.
Definition ex_sweep_ins : list minput :=
  InApi ApiOnline :: map (fun k => InPoll (1000 + 2000 * Z.of_nat k) false []) (seq 0 120).
Definition ex_sweep_tr : list FdlOracle.event := model_transcript unit unit_app_ops ex_sweep_params [tt] ex_sweep_ins.
Definition gap_polls_in (k : state_kind) (ts : Z) (events : list FdlOracle.event) : list Z :=
  flat_map (fun e => match e with
                     | EPoll s => if state_kind_eqb (v_kind (s_view s)) k
                                  then match own_gap_poll ts s with Some a => [a] | None => [] end else []
                     | _ => []
                     end) events.

Lemma sweep_example_accepted :
  builder_validb ex_sweep_params = true /\
  gap_polls_in KClaimToken 3 ex_sweep_tr = [4; 0; 1; 2] /\
  gap_polls_in KAwaitStatusResponse 3 ex_sweep_tr = [4; 0; 1; 2; 4; 0; 1; 2] /\
  smonitor ex_sweep_params ex_sweep_tr = [].
Proof. vm_compute. repeat split; reflexivity. Qed.

(* (2) hand-made events: the same address polled twice in one polling phase (seeded change R5-C12-2: the cursor is
   thrown back), and a view with a valid LAS right after set_offline (R5-C12-1) *)
Definition ex_view_poll (a : Z) : view := mkView ConnOnline true KAwaitStatusResponse 3 3 true [3] true false.
Definition ex_gap_request (now a : Z) : FdlOracle.event :=
  EPoll (mkPStep now false [] (Some (sr_wire a 3)) 0 [] (ex_view_poll a)).
Definition ex_fresh : view := mkView ConnOffline false KOffline 3 3 false [3] true false.
Definition ex_stale : view := mkView ConnOffline false KOffline 3 3 true [3] true false.

Lemma sweep_example_rejected :
  smonitor ex_sweep_params [EApi ApiNew ex_fresh; ex_gap_request 1000 4; ex_gap_request 9000 0] = [] /\
  smonitor ex_sweep_params [EApi ApiNew ex_fresh; ex_gap_request 1000 4; ex_gap_request 9000 4] = [(2%nat, P12_sweep_order)] /\
  smonitor ex_sweep_params [EApi ApiNew ex_fresh; ex_gap_request 1000 4; ex_gap_request 9000 1] = [(2%nat, P12_sweep_order)] /\
  smonitor ex_sweep_params [EApi ApiNew ex_fresh; EApi ApiOnline ex_fresh; EApi ApiOffline ex_stale] = [(2%nat, P12_offline_forgets_ring)] /\
  smonitor ex_sweep_params [EApi ApiNew ex_fresh; EApi ApiOnline ex_fresh; EApi ApiOffline ex_fresh] = [].
Proof. vm_compute. repeat split; reflexivity. Qed.

(* (3) the corner that the first version of the monitor got wrong (see the head of this file), as a MODEL transcript.
   Station 3 (HSA 16) claims the token, polls 4 in its post-claim scan (`last` = 4), gives the token up on a foreign
   token telegram, hears its own address twice (ActiveIdle -> ListenToken), twice again: listen_token_telegram calls
   set_offline INSIDE the poll (event 8: the view goes Offline out of ListenToken, the cursor back to DoPoll{3}, no
   API event).  After set_online it hears two identical rotations 2 -> 5 -> 2, answers the status request of 2,
   receives the token from 2 and polls 4 = TS + 1 again.  Accepted.  The same history on the crate:
   corpus/fdl/sweep-recreated-in-poll.cases. *)
Definition ex_fp_params : params := mkParams 3 B19200 100 80000 1 16 1 11 None.
Definition ex_tk (da sa : Z) : bytes := [220; da; sa].
Definition ex_fp_ins : list minput :=
 [InApi ApiOnline; InPoll 1000 false []; InPoll 70000 false []; InPoll 75000 false []; InPoll 80000 false [];
  InPoll 84000 false (ex_tk 8 9);
  InPoll 85000 false (ex_tk 9 3 ++ ex_tk 9 3);
  InPoll 86000 false (ex_tk 9 3 ++ ex_tk 9 3);
  InApi ApiOnline;
  InPoll 87000 false [];
  InPoll 88000 false (ex_tk 5 2); InPoll 89000 false (ex_tk 2 5);
  InPoll 90000 false (ex_tk 5 2); InPoll 91000 false (ex_tk 2 5);
  InPoll 92000 false (ex_tk 5 2); InPoll 93000 false (ex_tk 2 5);
  InPoll 94000 false [16; 3; 2; 73; 78; 22];
  InPoll 97000 false [];
  InPoll 101000 false (ex_tk 3 2);
  InPoll 104000 false [];
  InPoll 107000 false []].
Definition ex_fp_tr : list FdlOracle.event := model_transcript unit unit_app_ops ex_fp_params [tt] ex_fp_ins.
(* the kinds of the views of the transcript, to show the in-poll re-creation *)
Definition view_kinds (events : list FdlOracle.event) : list state_kind :=
  flat_map (fun e => match e with EApi _ v => [v_kind v] | EPoll s => [v_kind (s_view s)] | _ => [] end) events.

Lemma sweep_recreated_in_poll_accepted :
  builder_validb ex_fp_params = true /\ ins_ok 0 ex_fp_ins /\
  gap_polls_in KClaimToken 3 ex_fp_tr = [4] /\ gap_polls_in KAwaitStatusResponse 3 ex_fp_tr = [4] /\
  firstn 3 (skipn 6 (view_kinds ex_fp_tr)) = [KActiveIdle; KListenToken; KOffline] /\
  smonitor ex_fp_params ex_fp_tr = [].
Proof.
  split; [vm_compute; reflexivity|]. split.
  { unfold ex_fp_ins, ex_tk, ins_ok, time_ok, all_bytes. repeat split; try lia; repeat constructor; unfold is_byte; lia. }
  vm_compute. repeat split; reflexivity.
Qed.
