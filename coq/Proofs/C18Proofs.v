(* C18: the models of LiveList and DpScanner are simulated by the sweep machine of
   Proofs/ScanMachine.v; the oracle theorems of the machine transfer to both. *)
From PB Require Import Common Telegram ScanBase LiveList Scan ScanOracle ScanMachine C09Proofs.

Definition addr_ok (a : Z) : Prop := 0 <= a <= 125.

(* ---------------------------------------------------------------- shared facts *)

Lemma send_request_ok h : wf_header h ->
  send_request h = Ok (mkTx h (frame_spec h []) (tx_expects_reply h)).
Proof.
  intros W. unfold send_request, encode_data.
  rewrite (encode_data_in_spec tx_buffer_size h [] W).
  - reflexivity.
  - unfold length_byte. destruct (h_dsap h), (h_ssap h); cbn; lia.
  - unfold telegram_len_data, length_byte.
    destruct (h_dsap h), (h_ssap h); apply Nat.leb_le; vm_compute; reflexivity.
Qed.

Lemma bs_get_in n s i : 0 <= i < n -> bs_get n s i = Some (Z.testbit s i).
Proof.
  intros H. unfold bs_get. destruct (Z.leb_spec 0 i) as [A|A]; [|lia].
  destruct (Z.ltb_spec i n) as [B|B]; [|lia]. reflexivity.
Qed.

Lemma bs_set_in n s i v : 0 <= i < n ->
  bs_set n s i v = Ok (if v then Z.setbit s i else Z.clearbit s i).
Proof.
  intros H. unfold bs_set. destruct (Z.leb_spec 0 i) as [A|A]; [|lia].
  destruct (Z.ltb_spec i n) as [B|B]; [|lia]. reflexivity.
Qed.

Lemma bs_get_out n s i : n <= i -> bs_get n s i = None.
Proof.
  intros H. unfold bs_get. destruct (Z.ltb_spec i n) as [B|B]; [lia|]. rewrite andb_false_r. reflexivity.
Qed.

(* ---------------------------------------------------------------- generic simulation *)

Section Sim.
  Variables St Ev P : Type.
  Variable tx : Z -> St -> res (St * option txout).
  Variable rx : St -> Z -> telegram -> res St.
  Variable tmo : St -> Z -> res St.
  Variable take : St -> St * option Ev.
  Variable bits : St -> Z.
  Variable classify : telegram -> cls P.
  Variable abs_ev : Ev -> aev P.
  Variables other_sets requery : bool.
  Variable view : St -> ast.
  Variable Rep : St -> Prop.

  Definition cf (e : Z -> reaction) : Z -> cls P := fun da => abs_react classify (Some (e da)).

  Hypothesis view_bits : forall s, a_bits (view s) = bits s.
  Hypothesis Rep_cur : forall s, Rep s -> cur_ok (view s).
  Hypothesis H_step : forall ts s e, addr_ok ts -> Rep s ->
    exists s' o, poll tx rx tmo take bits ts s e = Ok (s', o) /\ Rep s' /\
      abs_poll classify abs_ev o = a_obs P other_sets requery (view s) (cf e) /\
      view s' = a_next P other_sets (view s) (cf e).

  Lemma sim_run h : forall ts s, addr_ok ts -> Rep s ->
    exists s' tr, run tx rx tmo take bits ts s h = Ok (s', tr) /\ Rep s' /\
      map (abs_poll classify abs_ev) tr = a_trace P other_sets requery (view s) (map cf h) /\
      view s' = a_final P other_sets (view s) (map cf h) /\
      length tr = length h.
  Proof.
    induction h as [|e h IH]; intros ts s Hts R.
    - exists s, []. repeat split; try reflexivity. exact R.
    - destruct (H_step ts s e Hts R) as [s1 [o [Hp [R1 [Ho Hv]]]]].
      destruct (IH ts s1 Hts R1) as [s2 [tr [Hr [R2 [Ht [Hf Hl]]]]]].
      exists s2, (o :: tr). cbn [run map a_trace a_final length].
      rewrite Hp. cbn [bind]. rewrite Hr. cbn [bind].
      repeat split.
      + exact R2.
      + rewrite Ho, Ht, Hv. reflexivity.
      + rewrite Hf, Hv. reflexivity.
      + rewrite Hl. reflexivity.
  Qed.

  (* whatever holds of all machine traces holds of the application's abstract transcripts *)
  Lemma sim_run_inv ts s h s' tr : addr_ok ts -> Rep s ->
    run tx rx tmo take bits ts s h = Ok (s', tr) ->
    Rep s' /\
    map (abs_poll classify abs_ev) tr = a_trace P other_sets requery (view s) (map cf h) /\
    view s' = a_final P other_sets (view s) (map cf h) /\
    length tr = length h.
  Proof.
    intros Hts R E. destruct (sim_run h ts s Hts R) as [s2 [tr2 [E2 Rest]]].
    rewrite E in E2. injection E2 as E2 E3. subst s2 tr2. exact Rest.
  Qed.
End Sim.

(* ================================================================ live list *)

Definition ll_rep (s : ll) : Prop := 0 <= ll_cursor s <= 125 /\ ll_pending s = None.
Definition ll_view (s : ll) : ast := mkA (ll_cursor s) (ll_done s) (ll_stations s).

Lemma ll_request_wf ts a : 0 <= ts <= 125 -> 0 <= a <= 125 -> wf_header (ll_request ts a).
Proof. intros H1 H2. unfold wf_header, ll_request, is_addr7, wf_sap. cbn. lia. Qed.

Lemma ll_timeout_ok s a : 0 <= a <= 125 ->
  ll_timeout s a = Ok (if Z.testbit (ll_stations s) a
                       then mkLl (Z.clearbit (ll_stations s) a) (ll_cursor s) (Some (LlLost a)) true
                       else mkLl (ll_stations s) (ll_cursor s) (ll_pending s) true).
Proof.
  intros H. unfold ll_timeout. rewrite bs_get_in by (unfold LL_BITS; lia).
  destruct (Z.testbit (ll_stations s) a); [|reflexivity].
  rewrite bs_set_in by (unfold LL_BITS; lia). reflexivity.
Qed.

Lemma ll_receive_ok s a t : 0 <= a <= 125 ->
  ll_receive s a t = Ok (if Z.testbit (ll_stations s) a
                         then mkLl (ll_stations s) (ll_cursor s) None true
                         else mkLl (Z.setbit (ll_stations s) a) (ll_cursor s)
                                   (match ll_reply_state t with
                                    | Some st => Some (LlDiscovered a st) | None => None end) true).
Proof.
  intros H. unfold ll_receive. rewrite bs_get_in by (unfold LL_BITS; lia).
  destruct (Z.testbit (ll_stations s) a); cbn [negb]; [reflexivity|].
  rewrite bs_set_in by (unfold LL_BITS; lia). reflexivity.
Qed.

Lemma ll_step ts s e : addr_ok ts -> ll_rep s ->
  exists s' o, ll_poll ts s e = Ok (s', o) /\ ll_rep s' /\
    ll_abs o = a_obs resp_state true false (ll_view s) (cf resp_state ll_classify e) /\
    ll_view s' = a_next resp_state true (ll_view s) (cf resp_state ll_classify e).
Proof.
  intros Hts [Hc Hp]. unfold addr_ok in Hts.
  unfold ll_poll, poll, ll_transmit, ll_abs, abs_poll, a_obs, a_next, ll_view, cf. cbn [a_dn a_cur a_bits].
  destruct s as [st cur pend dn]. cbn [ll_cursor ll_pending ll_done ll_stations] in *. subst pend.
  destruct dn.
  - (* the probe is complete: only advance *)
    cbn [bind ll_take ll_pending ll_stations ll_cursor ll_done].
    eexists. eexists. split; [reflexivity|]. split; [|split].
    + unfold ll_rep. cbn [ll_cursor ll_pending]. split; [|reflexivity].
      unfold LL_LAST, LL_FIRST. destruct (Z.ltb_spec cur 125); lia.
    + reflexivity.
    + reflexivity.
  - rewrite (send_request_ok _ (ll_request_wf ts cur Hts Hc)). cbn [bind ll_take ll_pending ll_stations ll_cursor ll_done].
    change (tx_expects_reply (ll_request ts cur)) with (Some cur). cbn [tx_exp tx_h].
    cbn [abs_react].
    destruct (e cur) as [|t].
    + (* time-out *)
      rewrite (ll_timeout_ok _ cur Hc). cbn [bind ll_stations ll_cursor ll_pending].
      destruct (Z.testbit st cur) eqn:B; cbn [ll_take ll_pending ll_stations ll_cursor ll_done];
        (eexists; eexists; split; [reflexivity|]); cbn [po_req po_react po_ev_tx po_ev_re po_bits tx_h ll_request h_da opt_list app map abs_react spec_evs spec_bits ll_abs_ev];
        rewrite B; (split; [split; [exact Hc|reflexivity]|split; reflexivity]).
    + (* a reply *)
      rewrite (ll_receive_ok _ cur t Hc). cbn [bind ll_stations ll_cursor ll_pending].
      unfold ll_classify.
      destruct (Z.testbit st cur) eqn:B; destruct (ll_reply_state t) as [rs|] eqn:S;
        cbn [ll_take ll_pending ll_stations ll_cursor ll_done];
        (eexists; eexists; split; [reflexivity|]); cbn [po_req po_react po_ev_tx po_ev_re po_bits tx_h ll_request h_da opt_list app map abs_react spec_evs spec_bits ll_abs_ev];
        unfold ll_classify; rewrite ?S, ?B; cbn [andb negb spec_evs spec_bits];
        rewrite ?B; (split; [split; [exact Hc|reflexivity]|split; reflexivity]).
Qed.

Lemma ll_view_bits s : a_bits (ll_view s) = ll_stations s.
Proof. reflexivity. Qed.
Lemma ll_rep_cur s : ll_rep s -> cur_ok (ll_view s).
Proof. intros [H _]. exact H. Qed.

Definition ll_h (h : list (Z -> reaction)) := map (cf resp_state ll_classify) h.

Lemma ll_sim ts s h s' tr : addr_ok ts -> ll_rep s -> ll_run ts s h = Ok (s', tr) ->
  ll_rep s' /\ map ll_abs tr = a_trace resp_state true false (ll_view s) (ll_h h) /\
  ll_view s' = a_final resp_state true (ll_view s) (ll_h h) /\ length tr = length h.
Proof.
  intros Hts R E.
  exact (sim_run_inv ll ll_event resp_state ll_transmit ll_receive ll_timeout ll_take ll_stations
           ll_classify ll_abs_ev true false ll_view ll_rep ll_step ts s h s' tr Hts R E).
Qed.

Lemma ll_total ts s h : addr_ok ts -> ll_rep s ->
  exists s' tr, ll_run ts s h = Ok (s', tr) /\ ll_rep s' /\ length tr = length h.
Proof.
  intros Hts R.
  destruct (sim_run ll ll_event resp_state ll_transmit ll_receive ll_timeout ll_take ll_stations
              ll_classify ll_abs_ev true false ll_view ll_rep ll_step h ts s Hts R)
    as [s' [tr [E [R' [_ [_ L]]]]]].
  exists s', tr. split; [exact E|split; [exact R'|exact L]].
Qed.

Lemma ll_new_rep : ll_rep ll_new.
Proof. unfold ll_rep, ll_new, LL_FIRST. cbn. split; [lia|reflexivity]. Qed.

(* ================================================================ DP scanner *)

Definition sc_rep (s : scanner) : Prop := 0 <= sc_cursor s <= 125 /\ sc_pending s = None.
Definition sc_view (s : scanner) : ast := mkA (sc_cursor s) (sc_done s) (sc_stations s).

(* the diagnostics parser: explicit form on a long enough PDU, and totality *)
Lemma sc_parse_data h b0 b1 b2 b3 b4 b5 rest :
  opt_eqb (h_dsap h) SAP_MASTER_MS0 = true -> opt_eqb (h_ssap h) SAP_SLAVE_DIAGNOSIS = true ->
  sc_parse (TData h (b0 :: b1 :: b2 :: b3 :: b4 :: b5 :: rest)) =
  Ok (Some (mkDiag (Z.land (b0 + 256 * b1) (Z.lxor 65535 SC_FLAG_PERMANENT_BIT))
                   (if b3 =? SC_NO_MASTER then None else Some b3) (256 * b4 + b5))).
Proof.
  intros D S. unfold sc_parse. rewrite D, S. cbn [negb].
  unfold SC_MIN_DIAG_LEN, SC_MASTER_IDX, SC_FLAGS_LO, SC_FLAGS_HI, SC_IDENT_LO, SC_IDENT_HI, SC_EXT_FROM.
  unfold get, slice_range, slice_from, two_bytes.
  cbn [length Nat.ltb Nat.leb nth_error bind Nat.sub skipn firstn].
  destruct (negb (Z.land (Z.land (b0 + 256 * b1) (Z.lxor 65535 SC_FLAG_PERMANENT_BIT)) SC_FLAG_EXT_DIAG =? 0));
    reflexivity.
Qed.

Lemma sc_parse_total t : exists r, sc_parse t = Ok r.
Proof.
  destruct t as [h pdu| |]; try (eexists; reflexivity).
  destruct (opt_eqb (h_dsap h) SAP_MASTER_MS0) eqn:D.
  2:{ exists None. unfold sc_parse. rewrite D. reflexivity. }
  destruct (opt_eqb (h_ssap h) SAP_SLAVE_DIAGNOSIS) eqn:S.
  2:{ exists None. unfold sc_parse. rewrite D, S. reflexivity. }
  destruct pdu as [|b0 [|b1 [|b2 [|b3 [|b4 [|b5 rest]]]]]];
    try (exists None; unfold sc_parse; rewrite D, S; reflexivity).
  eexists. apply sc_parse_data; assumption.
Qed.

Lemma sc_request_wf ts a : 0 <= ts <= 125 -> 0 <= a <= 125 -> wf_header (sc_request ts a).
Proof.
  intros H1 H2. unfold wf_header, sc_request, is_addr7, wf_sap, is_byte.
  unfold SAP_SLAVE_DIAGNOSIS, SAP_MASTER_MS0. cbn. lia.
Qed.

Lemma sc_timeout_ok s a : 0 <= a <= 125 ->
  sc_timeout s a = Ok (if Z.testbit (sc_stations s) a
                       then mkSc (Z.clearbit (sc_stations s) a) (sc_cursor s) (Some (ScLost a)) true
                       else mkSc (sc_stations s) (sc_cursor s) (sc_pending s) true).
Proof.
  intros H. unfold sc_timeout. rewrite bs_get_in by (unfold SC_BITS; lia).
  destruct (Z.testbit (sc_stations s) a); [|reflexivity].
  rewrite bs_set_in by (unfold SC_BITS; lia). reflexivity.
Qed.

Lemma sc_receive_ok s a t d : 0 <= a <= 125 -> sc_parse t = Ok d ->
  sc_receive s a t =
  Ok (match d with
      | Some diag =>
          let desc := mkDesc a (dg_ident diag) (dg_master diag) in
          if Z.testbit (sc_stations s) a
          then mkSc (sc_stations s) (sc_cursor s) (Some (ScRequery desc)) true
          else mkSc (Z.setbit (sc_stations s) a) (sc_cursor s) (Some (ScFound desc)) true
      | None => mkSc (sc_stations s) (sc_cursor s) None true
      end).
Proof.
  intros H Pd. unfold sc_receive. rewrite bs_get_in by (unfold SC_BITS; lia). rewrite Pd. cbn [bind].
  destruct d as [diag|]; destruct (Z.testbit (sc_stations s) a); cbn [negb andb bind]; try reflexivity.
  rewrite bs_set_in by (unfold SC_BITS; lia). reflexivity.
Qed.

Definition sc_pay := (Z * option Z)%type.

Lemma sc_step ts s e : addr_ok ts -> sc_rep s ->
  exists s' o, sc_poll ts s e = Ok (s', o) /\ sc_rep s' /\
    sc_abs o = a_obs sc_pay false true (sc_view s) (cf sc_pay sc_classify e) /\
    sc_view s' = a_next sc_pay false (sc_view s) (cf sc_pay sc_classify e).
Proof.
  intros Hts [Hc Hp]. unfold addr_ok in Hts.
  unfold sc_poll, poll, sc_transmit, sc_abs, abs_poll, a_obs, a_next, sc_view, cf. cbn [a_dn a_cur a_bits].
  destruct s as [st cur pend dn]. cbn [sc_cursor sc_pending sc_done sc_stations] in *. subst pend.
  destruct dn.
  - cbn [bind sc_take sc_pending sc_stations sc_cursor sc_done].
    eexists. eexists. split; [reflexivity|]. split; [|split].
    + unfold sc_rep. cbn [sc_cursor sc_pending]. split; [|reflexivity].
      unfold SC_LAST, SC_FIRST. destruct (Z.ltb_spec cur 125); lia.
    + reflexivity.
    + reflexivity.
  - rewrite (send_request_ok _ (sc_request_wf ts cur Hts Hc)). cbn [bind sc_take sc_pending sc_stations sc_cursor sc_done].
    change (tx_expects_reply (sc_request ts cur)) with (Some cur). cbn [tx_exp tx_h].
    cbn [abs_react].
    destruct (e cur) as [|t].
    + rewrite (sc_timeout_ok _ cur Hc). cbn [bind sc_stations sc_cursor sc_pending].
      destruct (Z.testbit st cur) eqn:B; cbn [sc_take sc_pending sc_stations sc_cursor sc_done];
        (eexists; eexists; split; [reflexivity|]); cbn [po_req po_react po_ev_tx po_ev_re po_bits tx_h sc_request h_da opt_list app map abs_react spec_evs spec_bits sc_abs_ev];
        rewrite B; (split; [split; [exact Hc|reflexivity]|split; reflexivity]).
    + destruct (sc_parse_total t) as [d Pd].
      rewrite (sc_receive_ok _ cur t d Hc Pd). cbn [bind sc_stations sc_cursor sc_pending].
      unfold sc_classify. rewrite Pd.
      destruct d as [diag|]; cbv zeta; destruct (Z.testbit st cur) eqn:B;
        cbn [sc_take sc_pending sc_stations sc_cursor sc_done];
        (eexists; eexists; split; [reflexivity|]); cbn [po_req po_react po_ev_tx po_ev_re po_bits tx_h sc_request h_da opt_list app map abs_react spec_evs spec_bits sc_abs_ev sd_address sd_ident sd_master];
        unfold sc_classify; rewrite ?Pd, ?B; cbn [andb negb spec_evs spec_bits];
        rewrite ?B; (split; [split; [exact Hc|reflexivity]|split; reflexivity]).
Qed.

Lemma sc_rep_cur s : sc_rep s -> cur_ok (sc_view s).
Proof. intros [H _]. exact H. Qed.

Definition sc_h (h : list (Z -> reaction)) := map (cf sc_pay sc_classify) h.

Lemma sc_sim ts s h s' tr : addr_ok ts -> sc_rep s -> sc_run ts s h = Ok (s', tr) ->
  sc_rep s' /\ map sc_abs tr = a_trace sc_pay false true (sc_view s) (sc_h h) /\
  sc_view s' = a_final sc_pay false (sc_view s) (sc_h h) /\ length tr = length h.
Proof.
  intros Hts R E.
  exact (sim_run_inv scanner sc_event sc_pay sc_transmit sc_receive sc_timeout sc_take sc_stations
           sc_classify sc_abs_ev false true sc_view sc_rep sc_step ts s h s' tr Hts R E).
Qed.

Lemma sc_total ts s h : addr_ok ts -> sc_rep s ->
  exists s' tr, sc_run ts s h = Ok (s', tr) /\ sc_rep s' /\ length tr = length h.
Proof.
  intros Hts R.
  destruct (sim_run scanner sc_event sc_pay sc_transmit sc_receive sc_timeout sc_take sc_stations
              sc_classify sc_abs_ev false true sc_view sc_rep sc_step h ts s Hts R)
    as [s' [tr [E [R' [_ [_ L]]]]]].
  exists s', tr. split; [exact E|split; [exact R'|exact L]].
Qed.

Lemma sc_new_rep : sc_rep sc_new.
Proof. unfold sc_rep, sc_new, SC_FIRST. cbn. split; [lia|reflexivity]. Qed.

(* ================================================================ theorems: live list *)

Lemma ll_cursor_thm ts s h s' tr : addr_ok ts -> ll_rep s -> ll_run ts s h = Ok (s', tr) ->
  cursor_walk (ll_cursor s) (ll_done s) (map ll_abs tr) = true.
Proof.
  intros Hts R E. destruct (ll_sim ts s h s' tr Hts R E) as [_ [T _]]. rewrite T.
  exact (a_cursor resp_state true false (ll_h h) (ll_view s) (ll_rep_cur s R)).
Qed.

Lemma cursor_meaning (P : Type) (tr : list (apoll P)) c dn :
  0 <= c <= 125 -> cursor_walk c dn tr = true ->
  probed tr = sweep_from (if dn then next_addr c else c) (length (probed tr)) /\
  Forall (fun a => 0 <= a <= 125) (probed tr).
Proof.
  intros Hc W. pose proof (cursor_walk_closed_form P tr c dn Hc W) as E. split; [exact E|].
  rewrite E. apply sweep_from_range.
Qed.

Lemma ll_converges_thm ts s h s' tr m : addr_ok ts -> ll_rep s -> ll_run ts s h = Ok (s', tr) ->
  (sweep_polls <= length h)%nat -> consistent m (map ll_abs tr) = true ->
  forall a, 0 <= a <= 125 -> Z.testbit (ll_stations s') a = m a.
Proof.
  intros Hts R E L C a Ha. destruct (ll_sim ts s h s' tr Hts R E) as [_ [T [V _]]].
  rewrite T in C. change (ll_stations s') with (a_bits (ll_view s')). rewrite V.
  apply (a_converges resp_state true false m (ll_h h) (ll_view s) (ll_rep_cur s R)); try assumption.
  unfold ll_h. rewrite map_length. exact L.
Qed.

Lemma ll_alt_o1_thm ts s h s' tr : addr_ok ts -> ll_rep s -> ll_run ts s h = Ok (s', tr) ->
  alt_walk true (ll_stations s) (map ll_abs tr) = Some (ll_stations s').
Proof.
  intros Hts R E. destruct (ll_sim ts s h s' tr Hts R E) as [_ [T [V _]]]. rewrite T.
  change (ll_stations s') with (a_bits (ll_view s')). rewrite V.
  exact (a_alt_silent resp_state true false (ll_h h) (ll_view s) (ll_rep_cur s R)).
Qed.

Lemma ll_alt_thm ts s h s' tr : addr_ok ts -> ll_rep s -> ll_run ts s h = Ok (s', tr) ->
  no_other (map ll_abs tr) = true ->
  alt_walk false (ll_stations s) (map ll_abs tr) = Some (ll_stations s') /\
  forall a, 0 <= a ->
    alt_from (Z.testbit (ll_stations s) a) (kinds_of a (map ll_abs tr)) = Some (Z.testbit (ll_stations s') a).
Proof.
  intros Hts R E N. destruct (ll_sim ts s h s' tr Hts R E) as [_ [T [V _]]].
  assert (W : alt_walk false (ll_stations s) (map ll_abs tr) = Some (ll_stations s')).
  { rewrite T in *. change (ll_stations s') with (a_bits (ll_view s')). rewrite V.
    apply (a_alt_strict resp_state true false (ll_h h) (ll_view s) (ll_rep_cur s R)). right. exact N. }
  split; [exact W|]. intros a Ha. exact (alt_walk_per_address resp_state a _ Ha _ _ W).
Qed.

Lemma ll_alt_ns_thm ts s h s' tr : addr_ok ts -> ll_rep s -> ll_run ts s h = Ok (s', tr) ->
  no_silent (ll_stations s) (map ll_abs tr) = true ->
  alt_walk false (ll_stations s) (map ll_abs tr) = Some (ll_stations s').
Proof.
  intros Hts R E N. destruct (ll_sim ts s h s' tr Hts R E) as [_ [T [V _]]].
  rewrite T in *. change (ll_stations s') with (a_bits (ll_view s')). rewrite V.
  exact (a_alt_strict_ns resp_state true false (ll_h h) (ll_view s) (ll_rep_cur s R) N).
Qed.

Lemma resp_state_eqb_refl p : resp_state_eqb p p = true.
Proof. unfold resp_state_eqb. apply Z.eqb_refl. Qed.

Lemma ll_evs_match_thm ts s h s' tr : addr_ok ts -> ll_rep s -> ll_run ts s h = Ok (s', tr) ->
  evs_matchb resp_state_eqb true (map ll_abs tr) = true.
Proof.
  intros Hts R E. destruct (ll_sim ts s h s' tr Hts R E) as [_ [T _]]. rewrite T.
  exact (a_evs_match resp_state resp_state_eqb resp_state_eqb_refl true false true (ll_h h) (ll_view s)).
Qed.

(* --- the environment form: a fixed responder set R, answers are response telegrams,
       nothing is lost; the own address does not answer (O5) *)
Definition ll_answers (ts : Z) (R : Z -> bool) (e : Z -> reaction) : Prop :=
  forall da, 0 <= da <= 125 ->
    if R da && negb (da =? ts)
    then exists t st, e da = RReply t /\ ll_reply_state t = Some st
    else e da = RTimeout.

Definition minus_ts (ts : Z) (R : Z -> bool) : Z -> bool := fun a => R a && negb (a =? ts).

Lemma ll_answers_consistent ts R h : forall st, cur_ok st -> Forall (ll_answers ts R) h ->
  consistent (minus_ts ts R) (a_trace resp_state true false st (ll_h h)) = true.
Proof.
  induction h as [|e h IH]; intros st H F; [reflexivity|].
  inversion F as [|e' h' Fe Fh]; subst.
  change (ll_h (e :: h)) with (cf resp_state ll_classify e :: ll_h h). cbn [a_trace].
  unfold consistent. cbn [forallb]. fold (consistent (minus_ts ts R) (a_trace resp_state true false (a_next resp_state true st (cf resp_state ll_classify e)) (ll_h h))).
  rewrite (IH _ (a_next_cur_ok resp_state true st _ H) Fh), andb_true_r.
  unfold a_obs. destruct (a_dn st); cbn [ap_da ap_cls]; [reflexivity|].
  unfold cf, abs_react. specialize (Fe (a_cur st) H). unfold minus_ts.
  destruct (R (a_cur st) && negb (a_cur st =? ts)).
  - destruct Fe as [t [rs [E S]]]. rewrite E. unfold ll_classify. rewrite S. reflexivity.
  - rewrite Fe. reflexivity.
Qed.

Lemma ll_answers_no_other h : forall st,
  Forall (fun e : Z -> reaction => forall da t, e da = RReply t -> ll_reply_state t <> None) h ->
  no_other (a_trace resp_state true false st (ll_h h)) = true.
Proof.
  induction h as [|e h IH]; intros st F; [reflexivity|].
  inversion F as [|e' h' Fe Fh]; subst.
  change (ll_h (e :: h)) with (cf resp_state ll_classify e :: ll_h h). cbn [a_trace no_other forallb].
  fold (no_other (a_trace resp_state true false (a_next resp_state true st (cf resp_state ll_classify e)) (ll_h h))).
  rewrite (IH _ Fh), andb_true_r.
  unfold a_obs. destruct (a_dn st); cbn [ap_cls]; [reflexivity|].
  unfold cf, abs_react. destruct (e (a_cur st)) as [|t] eqn:E; [reflexivity|].
  unfold ll_classify. destruct (ll_reply_state t) eqn:S; [reflexivity|].
  exfalso. exact (Fe _ _ E S).
Qed.

(* the list view of a station set whose bits 126 and 127 are clear *)
Lemma ones_filter (s : Z) (m : Z -> bool) :
  (forall a, 0 <= a <= 125 -> Z.testbit s a = m a) ->
  Z.testbit s 126 = false -> Z.testbit s 127 = false ->
  bs_ones 128 s = filter m (addr_list 126).
Proof.
  intros H B6 B7. unfold bs_ones.
  change (addr_list (Z.to_nat 128)) with (addr_list 126 ++ [126; 127]).
  rewrite filter_app. cbn [filter]. rewrite B6, B7, app_nil_r.
  apply filter_ext_in. intros a I. apply addr_list_in in I. apply H. lia.
Qed.

Lemma filter_below (m : Z -> bool) n : (n <= 256)%nat ->
  forallb (fun a => a <? 256) (filter m (addr_list n)) = true.
Proof.
  intros L. apply forallb_forall. intros a I. apply filter_In in I. destruct I as [I _].
  apply addr_list_in in I. apply Z.ltb_lt. lia.
Qed.

(* headline: any history h0 from the initial state, then a stable phase h1 of one sweep *)
Lemma ll_history_converges ts R h0 h1 s' tr : addr_ok ts ->
  Forall (ll_answers ts R) h1 -> (sweep_polls <= length h1)%nat ->
  ll_run ts ll_new (h0 ++ h1) = Ok (s', tr) ->
  (forall a, 0 <= a <= 125 -> Z.testbit (ll_stations s') a = R a && negb (a =? ts)) /\
  ll_iter_stations s' = Ok (filter (minus_ts ts R) (addr_list 126)).
Proof.
  intros Hts F L E.
  destruct (ll_sim ts ll_new (h0 ++ h1) s' tr Hts ll_new_rep E) as [_ [_ [V _]]].
  unfold ll_h in V. rewrite map_app, a_final_app in V. fold (ll_h h0) in V. fold (ll_h h1) in V.
  set (st := a_final resp_state true (ll_view ll_new) (ll_h h0)) in *.
  assert (Hst : cur_ok st) by (apply a_final_cur_ok; exact (ll_rep_cur _ ll_new_rep)).
  assert (Bits : forall a, 0 <= a <= 125 -> Z.testbit (ll_stations s') a = minus_ts ts R a).
  { intros a Ha. change (ll_stations s') with (a_bits (ll_view s')). rewrite V.
    apply (a_converges resp_state true false (minus_ts ts R) (ll_h h1) st Hst).
    - unfold ll_h. rewrite map_length. exact L.
    - apply ll_answers_consistent; assumption.
    - exact Ha. }
  split; [exact Bits|].
  assert (Hi : forall a, 125 < a -> Z.testbit (ll_stations s') a = false).
  { intros a Ha. change (ll_stations s') with (a_bits (ll_view s')). rewrite V.
    rewrite (a_bits_outside resp_state true (ll_h h1) st a Hst Ha). unfold st.
    rewrite (a_bits_outside resp_state true (ll_h h0) (ll_view ll_new) a (ll_rep_cur _ ll_new_rep) Ha).
    apply Z.testbit_0_l. }
  unfold ll_iter_stations. change LL_BITS with 128.
  rewrite (ones_filter (ll_stations s') (minus_ts ts R) Bits (Hi 126 ltac:(lia)) (Hi 127 ltac:(lia))).
  rewrite filter_below by lia. reflexivity.
Qed.

(* outside the contract the index operations do panic: addresses beyond the bit array *)
Lemma ll_panic_sites s a t : 128 <= a ->
  ll_timeout s a = Panic SiteUnwrap /\ ll_receive s a t = Panic SiteUnwrap.
Proof.
  intros H. unfold ll_timeout, ll_receive. rewrite bs_get_out by (unfold LL_BITS; lia). split; reflexivity.
Qed.

(* observation O1 on the model: station 0 answers the status request with a bare SC; it is
   marked without Discovered, and one sweep later - silent - it is reported Lost.  The strict
   alternation oracle rejects this transcript, the O1-aware one accepts it. *)
Definition o1_history : list (Z -> reaction) :=
  (fun _ => RReply TShortConf) :: repeat (fun _ => RTimeout) 253.

Lemma ll_o1_observation :
  match ll_run 1 ll_new o1_history with
  | Ok (s', tr) =>
      flat_map ap_evs (map ll_abs tr) = [ADown 0] /\
      alt_walk false 0 (map ll_abs tr) = None /\
      alt_walk true 0 (map ll_abs tr) = Some 0
  | _ => False
  end.
Proof. vm_compute. repeat split; reflexivity. Qed.

(* ================================================================ theorems: DP scanner *)

Lemma sc_cursor_thm ts s h s' tr : addr_ok ts -> sc_rep s -> sc_run ts s h = Ok (s', tr) ->
  cursor_walk (sc_cursor s) (sc_done s) (map sc_abs tr) = true.
Proof.
  intros Hts R E. destruct (sc_sim ts s h s' tr Hts R E) as [_ [T _]]. rewrite T.
  exact (a_cursor sc_pay false true (sc_h h) (sc_view s) (sc_rep_cur s R)).
Qed.

Lemma sc_converges_thm ts s h s' tr m : addr_ok ts -> sc_rep s -> sc_run ts s h = Ok (s', tr) ->
  (sweep_polls <= length h)%nat -> consistent m (map sc_abs tr) = true ->
  forall a, 0 <= a <= 125 -> Z.testbit (sc_stations s') a = m a.
Proof.
  intros Hts R E L C a Ha. destruct (sc_sim ts s h s' tr Hts R E) as [_ [T [V _]]].
  rewrite T in C. change (sc_stations s') with (a_bits (sc_view s')). rewrite V.
  apply (a_converges sc_pay false true m (sc_h h) (sc_view s) (sc_rep_cur s R)); try assumption.
  unfold sc_h. rewrite map_length. exact L.
Qed.

Lemma sc_alt_thm ts s h s' tr : addr_ok ts -> sc_rep s -> sc_run ts s h = Ok (s', tr) ->
  alt_walk false (sc_stations s) (map sc_abs tr) = Some (sc_stations s') /\
  forall a, 0 <= a ->
    alt_from (Z.testbit (sc_stations s) a) (kinds_of a (map sc_abs tr)) = Some (Z.testbit (sc_stations s') a).
Proof.
  intros Hts R E. destruct (sc_sim ts s h s' tr Hts R E) as [_ [T [V _]]].
  assert (W : alt_walk false (sc_stations s) (map sc_abs tr) = Some (sc_stations s')).
  { rewrite T. change (sc_stations s') with (a_bits (sc_view s')). rewrite V.
    apply (a_alt_strict sc_pay false true (sc_h h) (sc_view s) (sc_rep_cur s R)). left. reflexivity. }
  split; [exact W|]. intros a Ha. exact (alt_walk_per_address sc_pay a _ Ha _ _ W).
Qed.

Lemma sc_pay_eqb_refl p : sc_pay_eqb p p = true.
Proof.
  unfold sc_pay_eqb. rewrite Z.eqb_refl. destruct (snd p) as [x|]; cbn [opt_eqb andb]; [apply Z.eqb_refl|reflexivity].
Qed.

Lemma sc_pay_eqb_eq p q : sc_pay_eqb p q = true -> p = q.
Proof.
  destruct p as [i m], q as [j n]. unfold sc_pay_eqb. cbn [fst snd]. intros H.
  apply andb_prop in H. destruct H as [A B]. apply Z.eqb_eq in A. subst j.
  destruct m as [x|], n as [y|]; cbn [opt_eqb] in B; try discriminate B; [|reflexivity].
  apply Z.eqb_eq in B. subst y. reflexivity.
Qed.

Lemma sc_evs_match_thm ts s h s' tr : addr_ok ts -> sc_rep s -> sc_run ts s h = Ok (s', tr) ->
  evs_matchb sc_pay_eqb false (map sc_abs tr) = true.
Proof.
  intros Hts R E. destruct (sc_sim ts s h s' tr Hts R E) as [_ [T _]]. rewrite T.
  exact (a_evs_match sc_pay sc_pay_eqb sc_pay_eqb_refl false true false (sc_h h) (sc_view s)).
Qed.

(* the environment form: D a = Some (ident, master) for the DP peripherals on the bus; they
   answer the diagnostics request with a telegram the scanner's parser accepts and that
   carries these values; every other address stays silent *)
Definition sc_on_bus (ts : Z) (D : Z -> option sc_pay) : Z -> option sc_pay :=
  fun a => if a =? ts then None else D a.
Definition is_some {A} (o : option A) : bool := match o with Some _ => true | None => false end.

Definition sc_answers (ts : Z) (D : Z -> option sc_pay) (e : Z -> reaction) : Prop :=
  forall da, 0 <= da <= 125 ->
    match sc_on_bus ts D da with
    | Some p => exists t d, e da = RReply t /\ sc_parse t = Ok (Some d) /\ (dg_ident d, dg_master d) = p
    | None => e da = RTimeout
    end.

Lemma sc_answers_consistent ts D h : forall st, cur_ok st -> Forall (sc_answers ts D) h ->
  consistent (fun a => is_some (sc_on_bus ts D a)) (a_trace sc_pay false true st (sc_h h)) = true /\
  pay_consistent sc_pay_eqb (sc_on_bus ts D) (a_trace sc_pay false true st (sc_h h)) = true.
Proof.
  induction h as [|e h IH]; intros st H F; [split; reflexivity|].
  inversion F as [|e' h' Fe Fh]; subst.
  change (sc_h (e :: h)) with (cf sc_pay sc_classify e :: sc_h h). cbn [a_trace].
  destruct (IH _ (a_next_cur_ok sc_pay false st (cf sc_pay sc_classify e) H) Fh) as [I1 I2].
  unfold consistent, pay_consistent in *. cbn [forallb]. rewrite I1, I2, !andb_true_r.
  unfold a_obs. destruct (a_dn st); cbn [ap_da ap_cls]; [split; reflexivity|].
  unfold cf, abs_react. specialize (Fe (a_cur st) H).
  destruct (sc_on_bus ts D (a_cur st)) as [p|].
  - destruct Fe as [t [d [E [S Pp]]]]. rewrite E. unfold sc_classify. rewrite S, Pp.
    cbn [is_some]. rewrite sc_pay_eqb_refl. split; reflexivity.
  - rewrite Fe. split; reflexivity.
Qed.

Lemma tinv_none st : tinv sc_pay (fun _ => None) st.
Proof. intros a _. reflexivity. Qed.

(* headline for the scanner *)
Lemma sc_history_converges ts D h0 h1 s' tr : addr_ok ts ->
  Forall (sc_answers ts D) h1 -> (sweep_polls <= length h1)%nat ->
  sc_run ts sc_new (h0 ++ h1) = Ok (s', tr) ->
  (forall a, 0 <= a <= 125 -> Z.testbit (sc_stations s') a = is_some (sc_on_bus ts D a)) /\
  bs_ones SC_BITS (sc_stations s') = filter (fun a => is_some (sc_on_bus ts D a)) (addr_list 126) /\
  (forall a, 0 <= a <= 125 -> track (fun _ => None) (map sc_abs tr) a = sc_on_bus ts D a).
Proof.
  intros Hts F L E.
  destruct (sc_sim ts sc_new (h0 ++ h1) s' tr Hts sc_new_rep E) as [_ [T [V _]]].
  unfold sc_h in V, T. rewrite map_app in V, T. rewrite a_final_app in V. rewrite a_trace_app in T.
  fold (sc_h h0) in V, T. fold (sc_h h1) in V, T.
  set (st := a_final sc_pay false (sc_view sc_new) (sc_h h0)) in *.
  assert (Hst : cur_ok st) by (apply a_final_cur_ok; exact (sc_rep_cur _ sc_new_rep)).
  destruct (sc_answers_consistent ts D h1 st Hst F) as [C1 C2].
  assert (L' : (sweep_polls <= length (sc_h h1))%nat) by (unfold sc_h; rewrite map_length; exact L).
  assert (Bits : forall a, 0 <= a <= 125 -> Z.testbit (sc_stations s') a = is_some (sc_on_bus ts D a)).
  { intros a Ha. change (sc_stations s') with (a_bits (sc_view s')). rewrite V.
    exact (a_converges sc_pay false true _ (sc_h h1) st Hst L' C1 a Ha). }
  split; [exact Bits|].
  assert (Hi : forall a, 125 < a -> Z.testbit (sc_stations s') a = false).
  { intros a Ha. change (sc_stations s') with (a_bits (sc_view s')). rewrite V.
    rewrite (a_bits_outside sc_pay false (sc_h h1) st a Hst Ha). unfold st.
    rewrite (a_bits_outside sc_pay false (sc_h h0) (sc_view sc_new) a (sc_rep_cur _ sc_new_rep) Ha).
    apply Z.testbit_0_l. }
  split.
  - change SC_BITS with 128.
    exact (ones_filter (sc_stations s') _ Bits (Hi 126 ltac:(lia)) (Hi 127 ltac:(lia))).
  - intros a Ha. rewrite T, track_app.
    rewrite (a_track_converges sc_pay sc_pay_eqb false true (fun a => is_some (sc_on_bus ts D a)) (sc_on_bus ts D)
               eq_refl sc_pay_eqb_eq (sc_h h1) _ st Hst).
    + destruct (sc_on_bus ts D a); reflexivity.
    + apply (a_tinv sc_pay false true eq_refl (sc_h h0) (fun _ => None) (sc_view sc_new) (sc_rep_cur _ sc_new_rep)).
      apply tinv_none.
    + exact L'.
    + exact C1.
    + exact C2.
    + exact Ha.
Qed.

Lemma sc_panic_sites s a t : 128 <= a ->
  sc_timeout s a = Panic SiteUnwrap /\ sc_receive s a t = Panic SiteUnwrap.
Proof.
  intros H. unfold sc_timeout, sc_receive. rewrite bs_get_out by (unfold SC_BITS; lia). split; reflexivity.
Qed.

(* observation O8 on the model: a peripheral that was found and then keeps answering with
   something that is not a diagnostics reply (here an FDL status response) stays in the
   station set and is never reported lost. *)
Definition o8_diag : telegram :=
  TData (mkHeader 1 0 (Some 62) (Some 60) (FcResponse RsSlave StDataLow)) [0; 4; 0; 255; 11; 22].
Definition o8_other : telegram := TData (mkHeader 1 0 None None (FcResponse RsSlave StOk)) [].
Definition o8_history : list (Z -> reaction) :=
  (fun _ => RReply o8_diag) :: repeat (fun _ => RTimeout) 251 ++
  (fun _ => RReply o8_other) :: repeat (fun _ => RTimeout) 251 ++
  (fun _ => RReply o8_other) :: repeat (fun _ => RTimeout) 251.

Lemma sc_o8_observation :
  match sc_run 1 sc_new o8_history with
  | Ok (s', tr) =>
      flat_map ap_evs (map sc_abs tr) = [AUp 0 (2838, None)] /\
      sc_stations s' = 1
  | _ => False
  end.
Proof. vm_compute. split; reflexivity. Qed.

(* ================================================================ environment forms *)

Definition answers_are_responses (e : Z -> reaction) : Prop :=
  forall da t, e da = RReply t -> ll_reply_state t <> None.

Lemma ll_alt_env_thm ts s h s' tr : addr_ok ts -> ll_rep s -> ll_run ts s h = Ok (s', tr) ->
  Forall answers_are_responses h ->
  alt_walk false (ll_stations s) (map ll_abs tr) = Some (ll_stations s') /\
  forall a, 0 <= a ->
    alt_from (Z.testbit (ll_stations s) a) (kinds_of a (map ll_abs tr)) = Some (Z.testbit (ll_stations s') a).
Proof.
  intros Hts R E F. apply (ll_alt_thm ts s h s' tr Hts R E).
  destruct (ll_sim ts s h s' tr Hts R E) as [_ [T _]]. rewrite T.
  apply ll_answers_no_other. exact F.
Qed.

Lemma ll_history_converges_two_sweeps ts R h0 h1 s' tr : addr_ok ts ->
  Forall (ll_answers ts R) h1 -> (2 * sweep_polls <= length h1)%nat ->
  ll_run ts ll_new (h0 ++ h1) = Ok (s', tr) ->
  ll_iter_stations s' = Ok (filter (minus_ts ts R) (addr_list 126)).
Proof.
  intros Hts F L E. apply (ll_history_converges ts R h0 h1 s' tr Hts F); [|exact E].
  unfold sweep_polls in *. lia.
Qed.

(* non-vacuity: the population of the crate's own test (7 scans; 3 8 11 67 125 answer) *)
Definition ex_R (a : Z) : bool := existsb (Z.eqb a) [3; 8; 11; 67; 125; 7].
Definition ex_reply (a : Z) : telegram := TData (mkHeader 7 a None None (FcResponse RsSlave StOk)) [].
Definition ex_env : Z -> reaction := fun da => if ex_R da && negb (da =? 7) then RReply (ex_reply da) else RTimeout.

Lemma ex_env_answers : ll_answers 7 ex_R ex_env.
Proof.
  intros da H. unfold ex_env. destruct (ex_R da && negb (da =? 7)); [|reflexivity].
  exists (ex_reply da), RsSlave. split; reflexivity.
Qed.

Lemma ex_run :
  match ll_run 7 ll_new (repeat ex_env 252) with
  | Ok (s', _) => ll_iter_stations s' = Ok [3; 8; 11; 67; 125]
  | _ => False
  end.
Proof. vm_compute. reflexivity. Qed.

(* ================================================================ the requests *)

Lemma ll_request_thm ts s : addr_ok ts -> ll_rep s -> ll_done s = false ->
  ll_transmit ts s =
  Ok (s, Some (mkTx (ll_request ts (ll_cursor s)) (frame_spec (ll_request ts (ll_cursor s)) []) (Some (ll_cursor s)))).
Proof.
  intros Hts [Hc _] D. unfold ll_transmit. rewrite D.
  rewrite (send_request_ok _ (ll_request_wf ts (ll_cursor s) Hts Hc)). reflexivity.
Qed.

Lemma sc_request_thm ts s : addr_ok ts -> sc_rep s -> sc_done s = false ->
  sc_transmit ts s =
  Ok (s, Some (mkTx (sc_request ts (sc_cursor s)) (frame_spec (sc_request ts (sc_cursor s)) []) (Some (sc_cursor s)))).
Proof.
  intros Hts [Hc _] D. unfold sc_transmit. rewrite D.
  rewrite (send_request_ok _ (sc_request_wf ts (sc_cursor s) Hts Hc)). reflexivity.
Qed.

(* ================================================================ the oracle suite of the check *)

Lemma hi_clear_zero c d : hi_clear (mkA c d 0).
Proof. intros a _. apply Z.testbit_0_l. Qed.

(* every oracle the check runs on the implementation's transcript is a theorem of the model's *)
Lemma ll_oracle_sound ts h s' tr : addr_ok ts -> ll_run ts ll_new h = Ok (s', tr) ->
  cursor_walk 0 false (map ll_abs tr) = true /\
  evs_matchb resp_state_eqb true (map ll_abs tr) = true /\
  alt_walk true 0 (map ll_abs tr) = Some (ll_stations s') /\
  (no_silent 0 (map ll_abs tr) = true -> alt_walk false 0 (map ll_abs tr) = Some (ll_stations s')) /\
  forall n fuel, snd (converge_scan resp_state_eqb false n fuel [] (map ll_abs tr) (O, O)) = O.
Proof.
  intros Hts E. pose proof ll_new_rep as R.
  split; [exact (ll_cursor_thm ts ll_new h s' tr Hts R E)|].
  split; [exact (ll_evs_match_thm ts ll_new h s' tr Hts R E)|].
  split; [exact (ll_alt_o1_thm ts ll_new h s' tr Hts R E)|].
  split; [intros N; exact (ll_alt_ns_thm ts ll_new h s' tr Hts R E N)|].
  intros n fuel. destruct (ll_sim ts ll_new h s' tr Hts R E) as [_ [T _]]. rewrite T.
  exact (a_converge_scan_ok resp_state resp_state_eqb resp_state_eqb_refl true false false n (ll_view ll_new)
           (ll_rep_cur _ R) (hi_clear_zero _ _) ltac:(discriminate) fuel [] (ll_h h) (O, O) eq_refl).
Qed.

Lemma sc_oracle_sound ts h s' tr : addr_ok ts -> sc_run ts sc_new h = Ok (s', tr) ->
  cursor_walk 0 false (map sc_abs tr) = true /\
  evs_matchb sc_pay_eqb false (map sc_abs tr) = true /\
  alt_walk false 0 (map sc_abs tr) = Some (sc_stations s') /\
  forall n fuel, snd (converge_scan sc_pay_eqb true n fuel [] (map sc_abs tr) (O, O)) = O.
Proof.
  intros Hts E. pose proof sc_new_rep as R.
  split; [exact (sc_cursor_thm ts sc_new h s' tr Hts R E)|].
  split; [exact (sc_evs_match_thm ts sc_new h s' tr Hts R E)|].
  split; [exact (proj1 (sc_alt_thm ts sc_new h s' tr Hts R E))|].
  intros n fuel. destruct (sc_sim ts sc_new h s' tr Hts R E) as [_ [T _]]. rewrite T.
  exact (a_converge_scan_ok sc_pay sc_pay_eqb sc_pay_eqb_refl false true true n (sc_view sc_new)
           (sc_rep_cur _ R) (hi_clear_zero _ _) (fun _ => conj eq_refl sc_pay_eqb_eq) fuel [] (sc_h h) (O, O) eq_refl).
Qed.

(* ================================================================ a sweep is 252 calls *)

(* Whatever the state and whatever the environment does: within any 252 consecutive calls of
   transmit_telegram every address 0..125 is probed.  (HighPrioOnly is not an input of the
   model: both applications ignore it, DESIGN O4.)  This is what makes "the population has
   been stable for two sweeps" a statement about TIME in the ground-truth oracle. *)
Lemma ll_sweep_covers ts s h s' tr : addr_ok ts -> ll_rep s -> ll_run ts s h = Ok (s', tr) ->
  (sweep_polls <= length h)%nat -> forall a, 0 <= a <= 125 -> In a (probed (map ll_abs tr)).
Proof.
  intros Hts R E L a Ha. destruct (ll_sim ts s h s' tr Hts R E) as [_ [T _]]. rewrite T.
  apply (walk_cover resp_state (a_cur (ll_view s)) (a_dn (ll_view s))).
  - exact (ll_rep_cur s R).
  - exact (a_cursor resp_state true false (ll_h h) (ll_view s) (ll_rep_cur s R)).
  - rewrite a_trace_length. unfold ll_h. rewrite map_length. exact L.
  - exact Ha.
Qed.

Lemma sc_sweep_covers ts s h s' tr : addr_ok ts -> sc_rep s -> sc_run ts s h = Ok (s', tr) ->
  (sweep_polls <= length h)%nat -> forall a, 0 <= a <= 125 -> In a (probed (map sc_abs tr)).
Proof.
  intros Hts R E L a Ha. destruct (sc_sim ts s h s' tr Hts R E) as [_ [T _]]. rewrite T.
  apply (walk_cover sc_pay (a_cur (sc_view s)) (a_dn (sc_view s))).
  - exact (sc_rep_cur s R).
  - exact (a_cursor sc_pay false true (sc_h h) (sc_view s) (sc_rep_cur s R)).
  - rewrite a_trace_length. unfold sc_h. rewrite map_length. exact L.
  - exact Ha.
Qed.
