(* C16 - the receive path reassembles the byte stream independent of chunking. *)
From PB Require Import Common Telegram CodecOracle ByteFacts DecodeSpec C09Proofs Params Phy SimBus PhyRx PhyRxOracle.

(* ------------------------------------------------------------- decoder facts *)

Lemma body_spec_accept da' sa' fcb payload cks e bl t n :
  body_spec da' sa' fcb payload cks e bl = Accept t n -> n = bl.
Proof.
  unfold body_spec. destruct (fc_from_byte fcb); [|discriminate].
  destruct (take_sap _ payload) as [[dsap p1]|]; [|discriminate].
  destruct (take_sap _ p1) as [[ssap p2]|]; [|discriminate].
  destruct (negb (cks =? _)); [discriminate|]. destruct (negb (e =? ED)); [discriminate|].
  intros H. injection H as _ H. symmetry. exact H.
Qed.

Lemma header_spec_bounds l b n bl :
  header_spec l = Some (b, n, bl) -> (n + 6 <= length b)%nat -> (1 <= bl <= length l)%nat.
Proof.
  unfold header_spec. destruct l as [|b0 [|b1 [|b2 [|b3 t]]]]; try discriminate.
  destruct (b0 =? SD1).
  { intros H. injection H as <- <- <-. cbn [length]. lia. }
  destruct (b0 =? SD2).
  { destruct (negb (b1 =? b2)); [discriminate|]. destruct (negb (b3 =? SD2)); [discriminate|].
    destruct (Z.ltb_spec b1 3) as [H3|H3]; [discriminate|].
    intros H. injection H as <- <- <-. cbn [skipn length]. lia. }
  destruct (b0 =? SD3); [|discriminate].
  intros H. injection H as <- <- <-. cbn [length]. lia.
Qed.

Lemma decode_spec_accept_bounds l t n : decode_spec l = Accept t n -> (1 <= n <= length l)%nat.
Proof.
  unfold decode_spec. destruct l as [|b0 r]; [discriminate|].
  destruct (b0 =? SC). { intros H. injection H as _ <-. cbn [length]. lia. }
  destruct (b0 =? SD4).
  { destruct (Nat.ltb_spec (length (b0 :: r)) 3) as [H3|H3]; [discriminate|].
    intros H. injection H as _ <-. lia. }
  destruct ((b0 =? SD1) || (b0 =? SD2) || (b0 =? SD3)); [|discriminate].
  destruct (Nat.ltb_spec (length (b0 :: r)) 6) as [H6|H6]; [discriminate|].
  destruct (header_spec (b0 :: r)) as [[[b m] bl]|] eqn:HS; [|discriminate].
  destruct (Nat.ltb_spec (length b) (m + 6)) as [Hs|Hl]; [discriminate|].
  unfold body_of. intros H. apply body_spec_accept in H. subst n.
  eapply header_spec_bounds; eassumption.
Qed.

Lemma decode_accept_bounds l t n : decode l = Ok (Accept t n) -> (1 <= n <= length l)%nat.
Proof. rewrite decode_is_spec. intros H. injection H as H. eapply decode_spec_accept_bounds, H. Qed.

Lemma decode_total l : exists d, decode l = Ok d.
Proof. exists (decode_spec l). apply decode_is_spec. Qed.

(* ------------------------------------------------------------- frames *)

Lemma frame_len_data h pdu : frame_len (TData h pdu) = telegram_len_data h (length pdu).
Proof. unfold frame_len. cbn [encode]. apply frame_spec_length. Qed.

Lemma frame_len_pos t : (1 <= frame_len t)%nat.
Proof.
  destruct t as [h pdu|da sa|]; [|cbn; lia|cbn; lia].
  rewrite frame_len_data. unfold telegram_len_data, length_byte.
  destruct (_ || _)%bool; lia.
Qed.

Lemma decode_encode t rest : valid_telegram t ->
  decode (encode t ++ rest) = Ok (Accept t (frame_len t)).
Proof.
  destruct t as [h pdu|da sa|]; intros V.
  - destruct V as (Hwf & Hlb & _). rewrite frame_len_data. cbn [encode]. apply decode_data_frame; assumption.
  - apply decode_token_frame.
  - apply decode_sc_frame.
Qed.

(* ------------------------------------------------------------- a proper prefix of a valid frame waits *)

Lemma firstn_length_lt {A} (l : list A) k : (k <= length l)%nat -> length (firstn k l) = k.
Proof. intros H. rewrite firstn_length. lia. Qed.

Lemma c16_prefix_needmore t k : valid_telegram t -> (k < frame_len t)%nat ->
  decode (firstn k (encode t)) = Ok NeedMore.
Proof.
  intros V Hk. rewrite decode_is_spec. f_equal.
  destruct k as [|k]; [reflexivity|].
  destruct t as [h pdu|da sa|].
  - destruct V as (Hwf & Hlb & _).
    pose proof (frame_spec_length h pdu) as FL. rewrite frame_len_data in Hk. rewrite <- FL in Hk.
    assert (LK : length (firstn (S k) (frame_spec h pdu)) = S k) by (apply firstn_length_lt; lia).
    revert Hk LK FL. cbn [encode]. unfold frame_spec, telegram_len_data. rewrite <- frame_body_length in *.
    pose proof (frame_body_length h pdu) as BL.
    assert (B3 : (3 <= length (frame_body h pdu))%nat) by (rewrite BL; unfold length_byte; lia).
    set (body := frame_body h pdu) in *.
    destruct (Nat.eqb_spec (length body) 3) as [E3|E3]; [|destruct (Nat.eqb_spec (length body) 11) as [E11|E11]]; cbn [orb].
    + (* SD1: 6 bytes *)
      cbn [app firstn]. intros Hk LK _. unfold decode_spec. delim_eval. cbn [orb].
      destruct (Nat.ltb_spec (length (SD1 :: firstn k (body ++ [sum8 body; ED]))) 6) as [_|H6]; [reflexivity|].
      exfalso. cbn [length app] in Hk. rewrite app_length in Hk. cbn [length] in Hk. lia.
    + (* SD3: 14 bytes *)
      cbn [app firstn]. intros Hk LK _. unfold decode_spec. delim_eval. cbn [orb].
      destruct (Nat.ltb_spec (length (SD3 :: firstn k (body ++ [sum8 body; ED]))) 6) as [_|H6]; [reflexivity|].
      cbn [length] in LK, H6.
      destruct (firstn k (body ++ [sum8 body; ED])) as [|b1 [|b2 [|b3 r]]] eqn:EF; cbn [length] in H6; try lia.
      unfold header_spec. delim_eval. cbv iota.
      destruct (Nat.ltb_spec (length (SD3 :: b1 :: b2 :: b3 :: r)) (8 + 6)) as [_|H14]; [reflexivity|].
      exfalso. cbn [length app] in Hk. rewrite app_length in Hk. cbn [length] in Hk, H14, LK. lia.
    + (* SD2: length byte + 6 *)
      cbn [app firstn]. intros Hk LK _. unfold decode_spec. delim_eval. cbn [orb].
      destruct (Nat.ltb_spec (length (SD2 :: firstn k (Z.of_nat (length body) :: Z.of_nat (length body) :: SD2 :: body ++ [sum8 body; ED]))) 6) as [_|H6]; [reflexivity|].
      cbn [length] in LK, H6.
      destruct k as [|[|[|k]]]; cbn [firstn length] in H6; try lia.
      cbn [firstn]. unfold header_spec. delim_eval. rewrite Z.eqb_refl. cbn [negb].
      destruct (Z.ltb_spec (Z.of_nat (length body)) 3) as [H|_]; [lia|].
      cbn [skipn].
      destruct (Nat.ltb_spec (length (SD2 :: firstn k (body ++ [sum8 body; ED])))
                             (Z.to_nat (Z.of_nat (length body) - 3) + 6)) as [_|HL]; [reflexivity|].
      exfalso. cbn [length firstn app] in Hk, LK, HL. rewrite ?app_length in Hk. cbn [length] in Hk. lia.
  - (* token *)
    cbn in Hk. cbn [encode]. unfold encode_token.
    destruct k as [|[|k]]; [| |lia]; cbn [firstn]; unfold decode_spec; delim_eval; reflexivity.
  - cbn in Hk. lia.
Qed.

(* ------------------------------------------------------------- one loop iteration, every buffer *)

Lemma receive_all_step {St R} (f : St -> telegram -> bool -> res (St * R)) fuel s buf :
  receive_all f (S fuel) s buf =
  match decode_spec buf with
  | Reject => Ok (s, [], None)
  | NeedMore => Ok (s, buf, None)
  | Accept t n =>
      let is_last := Nat.eqb n (length buf) in
      let* x := f s t is_last in
      let '(s', r) := x in
      if is_last then Ok (s', skipn n buf, Some r) else receive_all f fuel s' (skipn n buf)
  end.
Proof.
  cbn [receive_all]. rewrite decode_is_spec. cbn [bind].
  destruct (decode_spec buf) as [| |t n]; reflexivity.
Qed.

Lemma skipn_nil_iff {A} (l : list A) n : (n <= length l)%nat -> (skipn n l = [] <-> n = length l).
Proof.
  intros H. split.
  - intros E. apply (f_equal (@length A)) in E. rewrite skipn_length in E. cbn in E. lia.
  - intros ->. apply skipn_all.
Qed.

(* the flag handed to the callback is true exactly when no byte is buffered behind the telegram *)
Lemma receive_all_is_last {St R} (f : St -> telegram -> bool -> res (St * R)) fuel s buf t n :
  decode buf = Ok (Accept t n) ->
  receive_all f (S fuel) s buf =
  let* x := f s t (is_nil (skipn n buf)) in
  let '(s', r) := x in
  if is_nil (skipn n buf) then Ok (s', [], Some r) else receive_all f fuel s' (skipn n buf).
Proof.
  intros D. pose proof (decode_accept_bounds _ _ _ D) as [_ Hn].
  rewrite receive_all_step. rewrite decode_is_spec in D. injection D as ->. cbv zeta.
  destruct (Nat.eqb_spec n (length buf)) as [E|E].
  - subst n. rewrite skipn_all. reflexivity.
  - destruct (skipn n buf) eqn:SK; [|reflexivity].
    exfalso. apply E. apply skipn_nil_iff; assumption.
Qed.

Lemma receive_all_needmore {St R} (f : St -> telegram -> bool -> res (St * R)) fuel s buf :
  decode buf = Ok NeedMore -> receive_all f (S fuel) s buf = Ok (s, buf, None).
Proof. intros D. rewrite receive_all_step. rewrite decode_is_spec in D. injection D as ->. reflexivity. Qed.

Lemma receive_all_reject {St R} (f : St -> telegram -> bool -> res (St * R)) fuel s buf :
  decode buf = Ok Reject -> receive_all f (S fuel) s buf = Ok (s, [], None).
Proof. intros D. rewrite receive_all_step. rewrite decode_is_spec in D. injection D as ->. reflexivity. Qed.

(* ------------------------------------------------------------- termination, no panic: every buffer, every callback *)

Lemma receive_all_terminates {St R} (f : St -> telegram -> bool -> res (St * R)) :
  (forall s t l, f s t l <> OutOfFuel) ->
  forall fuel buf s, (length buf < fuel)%nat -> receive_all f fuel s buf <> OutOfFuel.
Proof.
  intros Hf. induction fuel as [|fuel IH]; intros buf s Hl; [lia|].
  rewrite receive_all_step. destruct (decode_spec buf) as [| |t n] eqn:D; try discriminate.
  apply decode_spec_accept_bounds in D. cbv zeta.
  destruct (f s t (Nat.eqb n (length buf))) as [[s' r]| |] eqn:F; cbn [bind]; [|discriminate|exfalso; eapply Hf, F].
  destruct (Nat.eqb n (length buf)); [discriminate|].
  apply IH. rewrite skipn_length. lia.
Qed.

(* every iteration that continues has consumed at least one byte *)
Lemma receive_all_progress buf t n : decode buf = Ok (Accept t n) ->
  (length (skipn n buf) < length buf)%nat /\ (length (skipn n buf) + n = length buf)%nat.
Proof. intros D. apply decode_accept_bounds in D. rewrite skipn_length. lia. Qed.

Lemma receive_all_no_panic {St R} (f : St -> telegram -> bool -> res (St * R)) :
  (forall s t l, is_panic (f s t l) = false) ->
  forall fuel buf s, is_panic (receive_all f fuel s buf) = false.
Proof.
  intros Hf. induction fuel as [|fuel IH]; intros buf s; [reflexivity|].
  rewrite receive_all_step. destruct (decode_spec buf) as [| |t n]; try reflexivity.
  cbv zeta. pose proof (Hf s t (Nat.eqb n (length buf))) as F.
  destruct (f s t (Nat.eqb n (length buf))) as [[s' r]| |]; cbn [bind]; [|discriminate F|reflexivity].
  destruct (Nat.eqb n (length buf)); [reflexivity|apply IH].
Qed.

Lemma receive_all_ok {St R} (f : St -> telegram -> bool -> res (St * R)) :
  (forall s t l, exists y, f s t l = Ok y) ->
  forall fuel buf s, (length buf < fuel)%nat -> exists y, receive_all f fuel s buf = Ok y.
Proof.
  intros Hf fuel buf s Hl.
  destruct (receive_all f fuel s buf) as [y|e|] eqn:E; [exists y; reflexivity| |].
  - exfalso. assert (P : is_panic (receive_all f fuel s buf) = false).
    { apply receive_all_no_panic. intros s0 t l. destruct (Hf s0 t l) as [y ->]. reflexivity. }
    rewrite E in P. discriminate.
  - exfalso. revert E. apply receive_all_terminates; [|exact Hl].
    intros s0 t l. destruct (Hf s0 t l) as [y ->]. discriminate.
Qed.

Lemma receive_telegram_total {R} (f : telegram -> R) buf : exists y, receive_telegram f buf = Ok y.
Proof.
  unfold receive_telegram. rewrite decode_is_spec. cbn [bind].
  destruct (decode_spec buf); eexists; reflexivity.
Qed.

(* the number of bytes the helpers ask the PHY to drop never exceeds what the PHY showed *)
Lemma drop_within buf t n : decode buf = Ok (Accept t n) -> (1 <= n <= length buf)%nat.
Proof. apply decode_accept_bounds. Qed.

(* ------------------------------------------------------------- list splitting *)

Lemma app_split_le {A} (c : list A) : forall a b d, a ++ b = c ++ d -> (length c <= length a)%nat ->
  exists a', a = c ++ a' /\ a' ++ b = d.
Proof.
  induction c as [|x c IH]; intros a b d E L.
  - exists a. split; [reflexivity|exact E].
  - destruct a as [|y a]; [cbn in L; lia|]. cbn [app] in E. injection E as -> E.
    destruct (IH a b d E) as (a' & -> & E'); [cbn in L; lia|]. exists a'. split; [reflexivity|exact E'].
Qed.

Lemma app_split_lt {A} (a : list A) : forall b c d, a ++ b = c ++ d -> (length a <= length c)%nat ->
  a = firstn (length a) c.
Proof.
  induction a as [|x a IH]; intros b c d E L; [reflexivity|].
  destruct c as [|y c]; [cbn in L; lia|]. cbn [app] in E. injection E as -> E.
  cbn [length firstn]. f_equal. eapply IH; [exact E|cbn in L; lia].
Qed.

(* ------------------------------------------------------------- take_frames *)

Lemma take_frames_zero ts : take_frames ts 0 = ([], ts, 0%nat).
Proof.
  destruct ts as [|t ts]; [reflexivity|]. cbn [take_frames].
  pose proof (frame_len_pos t). destruct (Nat.leb_spec (frame_len t) 0); [lia|reflexivity].
Qed.

Lemma take_frames_le ts : forall n, (snd (take_frames ts n) <= n)%nat.
Proof.
  induction ts as [|t ts IH]; intros n; [cbn; lia|]. cbn [take_frames].
  destruct (Nat.leb_spec (frame_len t) n) as [L|L]; [|cbn; lia].
  specialize (IH (n - frame_len t)%nat). destruct (take_frames ts (n - frame_len t)) as [[d rem] r]. cbn [snd] in *. lia.
Qed.

Lemma stream_cons t ts : stream (t :: ts) = encode t ++ stream ts.
Proof. reflexivity. Qed.

(* ------------------------------------------------------------- one poll on a fault-free stream:
   buf is what has arrived of stream ts (fut is still to come); any callback, any state *)
Lemma receive_all_stream {St R} (f : St -> telegram -> bool -> res (St * R)) :
  forall ts buf fut fuel s, Forall valid_telegram ts -> buf ++ fut = stream ts -> (length buf < fuel)%nat ->
  receive_all f fuel s buf =
  let '(d, rem, r) := take_frames ts (length buf) in
  let* x := feed f s d in
  let '(s', ro) := x in
  Ok (s', skipn (length buf - r) buf, ro).
Proof.
  induction ts as [|t ts IH]; intros buf fut fuel s V E Hf.
  - apply app_eq_nil in E. destruct E as [-> _]. destruct fuel as [|fuel]; [lia|]. reflexivity.
  - destruct fuel as [|fuel]; [lia|]. inversion V as [|? ? Vt Vts]; subst.
    rewrite stream_cons in E. cbn [take_frames].
    destruct (Nat.leb_spec (frame_len t) (length buf)) as [L|L].
    + destruct (app_split_le _ _ _ _ E L) as (buf' & -> & E').
      rewrite (receive_all_is_last f fuel s _ t (frame_len t)) by (apply decode_encode, Vt).
      rewrite skipn_app_exact by reflexivity.
      rewrite app_length. fold (frame_len t).
      replace (frame_len t + length buf' - frame_len t)%nat with (length buf') by lia.
      destruct buf' as [|b buf'].
      * (* the frame ends the buffer: flagged last *)
        cbn [is_nil length]. rewrite take_frames_zero.
        replace (Nat.eqb (frame_len t) (frame_len t + 0)) with true by (symmetry; apply Nat.eqb_eq; lia).
        cbn [feed]. destruct (f s t true) as [[s' r0]| |]; cbn [bind]; try reflexivity.
        rewrite Nat.sub_0_r. rewrite skipn_all2 by (rewrite app_length; cbn [length]; unfold frame_len; lia). reflexivity.
      * cbn [is_nil].
        replace (Nat.eqb (frame_len t) (frame_len t + length (b :: buf'))) with false
          by (symmetry; apply Nat.eqb_neq; cbn [length]; lia).
        rewrite app_length in Hf. fold (frame_len t) in Hf. pose proof (frame_len_pos t) as P.
        pose proof (take_frames_le ts (length (b :: buf'))) as TL.
        destruct (take_frames ts (length (b :: buf'))) as [[d rem] r] eqn:TF. cbn [snd] in TL.
        cbn [feed]. destruct (f s t false) as [[s' r0]| |]; cbn [bind]; try reflexivity.
        rewrite (IH (b :: buf') fut fuel s' Vts E') by lia. rewrite TF.
        destruct (feed f s' d) as [[s'' ro]| |]; cbn [bind]; try reflexivity.
        do 2 f_equal. f_equal.
        replace (frame_len t + length (b :: buf') - r)%nat with (length (encode t) + (length (b :: buf') - r))%nat
          by (unfold frame_len; lia).
        rewrite <- skipn_skipn'. rewrite skipn_app_exact by reflexivity. reflexivity.
    + (* the first outstanding frame is incomplete: nothing delivered, nothing dropped *)
      assert (PF : buf = firstn (length buf) (encode t)).
      { eapply app_split_lt; [exact E|unfold frame_len in L; lia]. }
      rewrite receive_all_needmore by (rewrite PF; apply c16_prefix_needmore; [exact Vt|exact L]).
      cbn [feed bind]. rewrite Nat.sub_diag. reflexivity.
Qed.

(* ------------------------------------------------------------- the recording callback *)

Fixpoint sane (d : rlog) : Prop :=
  match d with
  | [] => True
  | (_, l) :: d' => (l = true -> d' = []) /\ sane d'
  end.

Lemma take_frames_sane ts : forall n, sane (fst (fst (take_frames ts n))).
Proof.
  induction ts as [|t ts IH]; intros n; [exact I|]. cbn [take_frames].
  destruct (Nat.leb_spec (frame_len t) n) as [L|L]; [|exact I].
  specialize (IH (n - frame_len t)%nat).
  destruct (take_frames ts (n - frame_len t)) as [[d rem] r] eqn:TF. cbn [fst] in *. split; [|exact IH].
  intros E. apply Nat.eqb_eq in E. replace (n - frame_len t)%nat with 0%nat in TF by lia.
  rewrite take_frames_zero in TF. injection TF as <- _ _. reflexivity.
Qed.

Lemma ret_all_cons_false t d : ret_all ((t, false) :: d) = ret_all d.
Proof. unfold ret_all. destruct d as [|x d]; reflexivity. Qed.

Lemma feed_rec d : forall log, sane d -> feed rec_cb log d = Ok (log ++ d, ret_all d).
Proof.
  induction d as [|[t l] d IH]; intros log Sn.
  - cbn [feed]. rewrite app_nil_r. reflexivity.
  - destruct Sn as [Sl Sd]. cbn [feed rec_cb bind]. destruct l.
    + rewrite (Sl eq_refl). reflexivity.
    + rewrite (IH _ Sd). rewrite <- app_assoc. cbn [app]. rewrite ret_all_cons_false. reflexivity.
Qed.

Lemma poll_all_stream ts buf fut : Forall valid_telegram ts -> buf ++ fut = stream ts ->
  poll_all buf =
  let '(d, rem, r) := take_frames ts (length buf) in Ok (mkPO d (ret_all d) (skipn (length buf - r) buf)).
Proof.
  intros V E. unfold poll_all, receive_all_fuel.
  rewrite (receive_all_stream rec_cb ts buf fut (S (length buf)) [] V E) by lia.
  pose proof (take_frames_sane ts (length buf)) as Sn.
  destruct (take_frames ts (length buf)) as [[d rem] r]. cbn [fst] in Sn.
  rewrite (feed_rec d [] Sn). reflexivity.
Qed.

(* ------------------------------------------------------------- what take_frames says about the bytes *)

Lemma stream_app a b : stream (a ++ b) = stream a ++ stream b.
Proof. unfold stream. rewrite map_app, concat_app. reflexivity. Qed.

Lemma take_frames_split ts : forall buf fut, buf ++ fut = stream ts ->
  let '(d, rem, r) := take_frames ts (length buf) in
  let tail := skipn (length buf - r) buf in
  ts = map fst d ++ rem /\ buf = stream (map fst d) ++ tail /\ tail ++ fut = stream rem /\
  length tail = r /\ short rem tail.
Proof.
  induction ts as [|t ts IH]; intros buf fut E.
  - apply app_eq_nil in E. destruct E as [-> ->]. cbn. repeat split; reflexivity.
  - rewrite stream_cons in E. cbn [take_frames].
    destruct (Nat.leb_spec (frame_len t) (length buf)) as [L|L].
    + destruct (app_split_le _ _ _ _ E L) as (buf' & -> & E').
      rewrite app_length. fold (frame_len t).
      replace (frame_len t + length buf' - frame_len t)%nat with (length buf') by lia.
      specialize (IH buf' fut E'). pose proof (take_frames_le ts (length buf')) as TL.
      destruct (take_frames ts (length buf')) as [[d rem] r]. cbn [snd] in TL. cbv zeta in *.
      destruct IH as (I1 & I2 & I3 & I4 & I5).
      replace (skipn (frame_len t + length buf' - r) (encode t ++ buf')) with (skipn (length buf' - r) buf').
      2:{ replace (frame_len t + length buf' - r)%nat with (length (encode t) + (length buf' - r))%nat by (unfold frame_len; lia).
          rewrite <- skipn_skipn'. rewrite skipn_app_exact by reflexivity. reflexivity. }
      cbn [map fst]. rewrite stream_cons. repeat split; try assumption.
      * cbn [app]. f_equal. exact I1.
      * rewrite <- app_assoc. f_equal. exact I2.
    + rewrite Nat.sub_diag. cbn [skipn map stream concat app]. repeat split; try assumption; try reflexivity.
Qed.

Lemma Forall_app_r {A} (P : A -> Prop) a b : Forall P (a ++ b) -> Forall P b.
Proof. intros H. apply Forall_app in H. apply H. Qed.

Lemma short_stream_nil ts buf : short ts buf -> buf = stream ts -> ts = [].
Proof.
  destruct ts as [|t ts]; [reflexivity|]. cbn [short]. intros S ->. exfalso.
  rewrite stream_cons, app_length in S. unfold frame_len in S. lia.
Qed.

(* ------------------------------------------------------------- chunk after chunk: receive_all_telegrams *)

Lemma last_default {A} (l : list A) x d d' : last (x :: l) d = last (x :: l) d'.
Proof. revert x. induction l as [|y l IH]; intros x; [reflexivity|]. cbn [last] in *. apply IH. Qed.

Lemma final_buffer_cons buf o outs : final_buffer buf (o :: outs) = final_buffer (po_rest o) outs.
Proof.
  unfold final_buffer. cbn [map]. destruct (map po_rest outs) as [|x l]; [reflexivity|].
  change (last (po_rest o :: x :: l) buf) with (last (x :: l) buf). apply last_default.
Qed.

Lemma run_polls_all_stream : forall cs ts buf, Forall valid_telegram ts -> buf ++ concat cs = stream ts ->
  exists outs, run_polls poll_all buf cs = Ok outs /\
    map obs_of outs = spec_polls true ts (length buf) (map (@length Z) cs) /\
    history_ok ts buf cs outs /\
    (short ts buf -> delivered outs = ts /\ final_buffer buf outs = []).
Proof.
  induction cs as [|c cs IH]; intros ts buf V E.
  - exists []. cbn. repeat split; try reflexivity; cbn [concat] in E; rewrite app_nil_r in E.
    + symmetry. eapply short_stream_nil; eassumption.
    + unfold final_buffer. cbn. pose proof (short_stream_nil _ _ H E) as ->. exact E.
  - cbn [concat] in E. rewrite app_assoc in E. cbn [run_polls].
    rewrite (poll_all_stream ts (buf ++ c) (concat cs) V E).
    pose proof (take_frames_split ts (buf ++ c) (concat cs) E) as SP.
    cbn [map spec_polls]. unfold spec_poll. rewrite <- app_length.
    destruct (take_frames ts (length (buf ++ c))) as [[d rem] r]. cbv zeta in SP.
    destruct SP as (S1 & S2 & S3 & S4 & S5). cbn [bind po_rest].
    assert (Vr : Forall valid_telegram rem) by (rewrite S1 in V; eapply Forall_app_r, V).
    destruct (IH rem _ Vr S3) as (outs & R & O & H & F). rewrite R. cbn [bind].
    eexists. split; [reflexivity|]. split; [|split].
    + cbn [map]. unfold obs_of at 1. cbn [po_deliv po_ret po_rest]. rewrite S4. f_equal. rewrite <- S4. exact O.
    + cbn [history_ok po_deliv po_rest]. exists rem. repeat split; assumption.
    + intros _. destruct (F S5) as [F1 F2]. split.
      * unfold delivered in *. cbn [map concat po_deliv]. rewrite map_app, F1. symmetry. exact S1.
      * rewrite final_buffer_cons. exact F2.
Qed.

(* ------------------------------------------------------------- receive_telegram, one call per poll *)

Lemma poll_single_stream ts buf fut : Forall valid_telegram ts -> buf ++ fut = stream ts ->
  poll_single buf =
  let '(d, rem, r) := take_one ts (length buf) in Ok (mkPO d (ret_one d) (skipn (length buf - r) buf)).
Proof.
  intros V E. unfold poll_single, receive_telegram. destruct ts as [|t ts].
  - apply app_eq_nil in E. destruct E as [-> _]. reflexivity.
  - inversion V as [|? ? Vt Vts]; subst. rewrite stream_cons in E. cbn [take_one].
    destruct (Nat.leb_spec (frame_len t) (length buf)) as [L|L].
    + destruct (app_split_le _ _ _ _ E L) as (buf' & -> & E').
      rewrite decode_encode by exact Vt. cbn [bind ret_one].
      rewrite skipn_app_exact by reflexivity.
      rewrite app_length. fold (frame_len t).
      replace (frame_len t + length buf' - (frame_len t + length buf' - frame_len t))%nat with (length (encode t)) by (unfold frame_len; lia).
      rewrite skipn_app_exact by reflexivity. reflexivity.
    + assert (PF : buf = firstn (length buf) (encode t)).
      { eapply app_split_lt; [exact E|unfold frame_len in L; lia]. }
      rewrite PF at 1. rewrite c16_prefix_needmore by assumption. cbn [bind ret_one].
      rewrite Nat.sub_diag. reflexivity.
Qed.

Lemma take_one_split ts buf fut : buf ++ fut = stream ts ->
  let '(d, rem, r) := take_one ts (length buf) in
  let tail := skipn (length buf - r) buf in
  ts = map fst d ++ rem /\ buf = stream (map fst d) ++ tail /\ tail ++ fut = stream rem /\ length tail = r.
Proof.
  intros E. destruct ts as [|t ts].
  - apply app_eq_nil in E. destruct E as [-> ->]. cbn. repeat split; reflexivity.
  - rewrite stream_cons in E. cbn [take_one].
    destruct (Nat.leb_spec (frame_len t) (length buf)) as [L|L].
    + destruct (app_split_le _ _ _ _ E L) as (buf' & -> & E'). cbv zeta.
      rewrite app_length. fold (frame_len t).
      replace (frame_len t + length buf' - (frame_len t + length buf' - frame_len t))%nat with (length (encode t)) by (unfold frame_len; lia).
      rewrite skipn_app_exact by reflexivity. cbn [map fst]. unfold stream at 1. cbn [map concat]. rewrite app_nil_r.
      repeat split; try assumption; try reflexivity. lia.
    + cbv zeta. rewrite Nat.sub_diag. cbn [skipn map stream concat app]. repeat split; try assumption; reflexivity.
Qed.

(* nothing is ever lost: delivered ++ outstanding = ts and the buffer holds exactly the
   outstanding bytes that have arrived *)
Lemma run_polls_single_stream : forall cs ts buf, Forall valid_telegram ts -> buf ++ concat cs = stream ts ->
  exists outs, run_polls poll_single buf cs = Ok outs /\
    map obs_of outs = spec_polls false ts (length buf) (map (@length Z) cs) /\
    exists rem, ts = delivered outs ++ rem /\ final_buffer buf outs = stream rem.
Proof.
  induction cs as [|c cs IH]; intros ts buf V E.
  - exists []. cbn. repeat split; try reflexivity. exists ts. cbn [concat] in E. rewrite app_nil_r in E.
    split; [reflexivity|exact E].
  - cbn [concat] in E. rewrite app_assoc in E. cbn [run_polls].
    rewrite (poll_single_stream ts (buf ++ c) (concat cs) V E).
    pose proof (take_one_split ts (buf ++ c) (concat cs) E) as SP.
    cbn [map spec_polls]. unfold spec_poll. rewrite <- app_length.
    destruct (take_one ts (length (buf ++ c))) as [[d rem] r]. cbv zeta in SP.
    destruct SP as (S1 & S2 & S3 & S4). cbn [bind po_rest].
    assert (Vr : Forall valid_telegram rem) by (rewrite S1 in V; eapply Forall_app_r, V).
    destruct (IH rem _ Vr S3) as (outs & R & O & rem' & F1 & F2). rewrite R. cbn [bind].
    eexists. split; [reflexivity|]. split.
    + cbn [map]. unfold obs_of at 1. cbn [po_deliv po_ret po_rest]. rewrite S4. f_equal. rewrite <- S4. exact O.
    + exists rem'. split.
      * unfold delivered in *. cbn [map concat po_deliv]. rewrite map_app, <- app_assoc, <- F1. exact S1.
      * rewrite final_buffer_cons. exact F2.
Qed.

(* polling again without new bytes drains the buffer, one telegram per call *)
Lemma run_polls_single_drain : forall k ts, Forall valid_telegram ts -> (length ts <= k)%nat ->
  exists outs, run_polls poll_single (stream ts) (repeat [] k) = Ok outs /\
    delivered outs = ts /\ final_buffer (stream ts) outs = [].
Proof.
  induction k as [|k IH]; intros ts V L.
  - destruct ts; [|cbn in L; lia]. exists []. repeat split; reflexivity.
  - cbn [repeat run_polls]. rewrite app_nil_r. destruct ts as [|t ts].
    + cbn [stream map concat].
      assert (P0 : poll_single [] = Ok (mkPO [] None [])) by reflexivity. rewrite P0. cbn [bind po_rest].
      destruct (IH [] V ltac:(cbn; lia)) as (outs & R & D & F). cbn [stream map concat] in R, F. rewrite R. cbn [bind].
      eexists. split; [reflexivity|]. split.
      * unfold delivered in *. cbn [map concat po_deliv app]. exact D.
      * rewrite final_buffer_cons. exact F.
    + inversion V as [|? ? Vt Vts]; subst.
      rewrite (poll_single_stream (t :: ts) (stream (t :: ts)) [] V) by apply app_nil_r.
      cbn [take_one]. rewrite stream_cons, app_length. fold (frame_len t).
      destruct (Nat.leb_spec (frame_len t) (frame_len t + length (stream ts))) as [_|H]; [|lia].
      replace (frame_len t + length (stream ts) - (frame_len t + length (stream ts) - frame_len t))%nat with (length (encode t)) by (unfold frame_len; lia).
      rewrite skipn_app_exact by reflexivity. cbn [bind po_rest].
      destruct (IH ts Vts ltac:(cbn in L; lia)) as (outs & R & D & F). rewrite R. cbn [bind].
      eexists. split; [reflexivity|]. split.
      * unfold delivered in *. cbn [map concat po_deliv app fst]. f_equal. exact D.
      * rewrite final_buffer_cons. exact F.
Qed.

Lemma run_polls_app poll : forall cs1 cs2 buf,
  run_polls poll buf (cs1 ++ cs2) =
  let* o1 := run_polls poll buf cs1 in
  let* o2 := run_polls poll (final_buffer buf o1) cs2 in
  Ok (o1 ++ o2).
Proof.
  induction cs1 as [|c cs1 IH]; intros cs2 buf.
  - cbn [app run_polls bind]. unfold final_buffer. cbn [map last].
    destruct (run_polls poll buf cs2); reflexivity.
  - cbn [app run_polls]. destruct (poll (buf ++ c)) as [o| |]; cbn [bind]; try reflexivity.
    rewrite IH. destruct (run_polls poll (po_rest o) cs1) as [o1| |]; cbn [bind]; try reflexivity.
    rewrite final_buffer_cons.
    destruct (run_polls poll (final_buffer (po_rest o) o1) cs2); reflexivity.
Qed.

Lemma delivered_app a b : delivered (a ++ b) = delivered a ++ delivered b.
Proof. unfold delivered. rewrite map_app, concat_app, map_app. reflexivity. Qed.

Lemma final_buffer_app buf a b : final_buffer buf (a ++ b) = final_buffer (final_buffer buf a) b.
Proof.
  revert buf. induction a as [|o a IH]; intros buf; [reflexivity|].
  cbn [app]. rewrite !final_buffer_cons. apply IH.
Qed.

Lemma run_polls_single_complete cs ts : Forall valid_telegram ts -> concat cs = stream ts ->
  exists outs, run_polls poll_single [] (cs ++ repeat [] (length ts)) = Ok outs /\
    delivered outs = ts /\ final_buffer [] outs = [].
Proof.
  intros V E. destruct (run_polls_single_stream cs ts [] V E) as (o1 & R1 & _ & rem & D1 & F1).
  rewrite run_polls_app, R1. cbn [bind]. rewrite F1.
  assert (Vr : Forall valid_telegram rem) by (rewrite D1 in V; eapply Forall_app_r, V).
  assert (Lr : (length rem <= length ts)%nat).
  { apply (f_equal (@length telegram)) in D1. rewrite app_length in D1. lia. }
  destruct (run_polls_single_drain (length ts) rem Vr Lr) as (o2 & R2 & D2 & F2). rewrite R2. cbn [bind].
  eexists. split; [reflexivity|]. split.
  - rewrite delivered_app, D2. symmetry. exact D1.
  - rewrite final_buffer_app, F1. exact F2.
Qed.

(* ------------------------------------------------------------- resynchronisation *)

Lemma poll_all_reject buf : decode buf = Ok Reject -> poll_all buf = Ok (mkPO [] None []).
Proof. intros D. unfold poll_all, receive_all_fuel. rewrite receive_all_reject by exact D. reflexivity. Qed.

Lemma poll_single_reject buf : decode buf = Ok Reject -> poll_single buf = Ok (mkPO [] None []).
Proof. intros D. unfold poll_single, receive_telegram. rewrite D. reflexivity. Qed.

Lemma resync_all garbage cs ts : decode garbage = Ok Reject -> Forall valid_telegram ts -> concat cs = stream ts ->
  exists outs, run_polls poll_all [] (garbage :: cs) = Ok (mkPO [] None [] :: outs) /\
    delivered outs = ts /\ final_buffer [] outs = [] /\
    map obs_of outs = spec_polls true ts 0 (map (@length Z) cs).
Proof.
  intros D V E. cbn [run_polls app]. rewrite (poll_all_reject _ D). cbn [bind po_rest].
  destruct (run_polls_all_stream cs ts [] V E) as (outs & R & O & _ & F). rewrite R. cbn [bind].
  assert (Sh : short ts []) by (destruct ts as [|t ts]; [reflexivity|cbn; apply frame_len_pos]).
  destruct (F Sh) as [F1 F2]. exists outs. repeat split; assumption.
Qed.

Lemma resync_single garbage cs ts : decode garbage = Ok Reject -> Forall valid_telegram ts -> concat cs = stream ts ->
  exists outs, run_polls poll_single [] (garbage :: cs ++ repeat [] (length ts)) = Ok (mkPO [] None [] :: outs) /\
    delivered outs = ts /\ final_buffer [] outs = [].
Proof.
  intros D V E. cbn [run_polls app]. rewrite (poll_single_reject _ D). cbn [bind po_rest].
  destruct (run_polls_single_complete cs ts V E) as (outs & R & F1 & F2). rewrite R. cbn [bind].
  exists outs. repeat split; assumption.
Qed.

(* ------------------------------------------------------------- the boolean oracle accepts the model's observations *)

Lemma bytes_eqb_refl l : bytes_eqb l l = true.
Proof. induction l as [|x l IH]; [reflexivity|]. cbn [bytes_eqb]. rewrite Z.eqb_refl, IH. reflexivity. Qed.

Lemma opt_eqb_refl o : opt_eqb o o = true.
Proof. destruct o; [apply Z.eqb_refl|reflexivity]. Qed.

Lemma telegram_eqb_refl t : telegram_eqb t t = true.
Proof.
  destruct t as [h pdu|da sa|]; cbn [telegram_eqb]; [|rewrite !Z.eqb_refl; reflexivity|reflexivity].
  unfold header_eqb, fcode_eqb. rewrite !Z.eqb_refl, !opt_eqb_refl, bytes_eqb_refl. reflexivity.
Qed.

Lemma rlog_eqb_refl d : rlog_eqb d d = true.
Proof. induction d as [|[t l] d IH]; [reflexivity|]. cbn [rlog_eqb]. rewrite telegram_eqb_refl, IH. destruct l; reflexivity. Qed.

Lemma obs_eqb_refl o : obs_eqb o o = true.
Proof.
  unfold obs_eqb. rewrite rlog_eqb_refl, Nat.eqb_refl. destruct (ob_ret o); cbn [opt_telegram_eqb]; [rewrite telegram_eqb_refl|]; reflexivity.
Qed.

Lemma obs_list_eqb_refl l : obs_list_eqb l l = true.
Proof. induction l as [|o l IH]; [reflexivity|]. cbn [obs_list_eqb]. rewrite obs_eqb_refl, IH. reflexivity. Qed.

Lemma oracle_accepts_model (all : bool) cs ts : Forall valid_telegram ts -> concat cs = stream ts ->
  exists outs, run_polls (if all then poll_all else poll_single) [] cs = Ok outs /\
    c16_clean_ok all ts (map (@length Z) cs) (map obs_of outs) = true.
Proof.
  intros V E. destruct all.
  - destruct (run_polls_all_stream cs ts [] V E) as (outs & R & O & _). exists outs. split; [exact R|].
    unfold c16_clean_ok. rewrite O. apply obs_list_eqb_refl.
  - destruct (run_polls_single_stream cs ts [] V E) as (outs & R & O & _). exists outs. split; [exact R|].
    unfold c16_clean_ok. rewrite O. apply obs_list_eqb_refl.
Qed.

(* ------------------------------------------------------------- the helpers over an abstract PHY *)

Lemma receive_all_phy_refines {P St R} (ops : phy_ops P) (f : St -> telegram -> bool -> res (St * R)) :
  phy_coherent ops ->
  forall fuel s p buf, phy_view ops p = Ok buf ->
  match receive_all f fuel s buf with
  | Ok (s', rest, r) => exists p', receive_all_phy ops f fuel s p = Ok (s', p', r) /\ phy_view ops p' = Ok rest
  | Panic e => receive_all_phy ops f fuel s p = Panic e
  | OutOfFuel => receive_all_phy ops f fuel s p = OutOfFuel
  end.
Proof.
  intros C. induction fuel as [|fuel IH]; intros s p buf Vw; [reflexivity|].
  rewrite receive_all_step. cbn [receive_all_phy]. unfold receive_data_phy. rewrite Vw. cbn [bind].
  rewrite decode_is_spec. cbn [bind].
  destruct (decode_spec buf) as [| |t n] eqn:D; cbn [bind].
  - (* NeedMore *)
    destruct (Nat.ltb_spec (length buf) 0) as [H|_]; [lia|]. cbn [bind].
    exists (phy_drop ops p 0). split; [reflexivity|]. rewrite (C p buf 0%nat Vw) by lia. reflexivity.
  - (* Reject *)
    destruct (Nat.ltb_spec (length buf) (length buf)) as [H|_]; [lia|]. cbn [bind].
    exists (phy_drop ops p (length buf)). split; [reflexivity|]. rewrite (C p buf _ Vw) by lia. rewrite skipn_all. reflexivity.
  - apply decode_spec_accept_bounds in D. cbv zeta.
    destruct (f s t (Nat.eqb n (length buf))) as [[s' r]| |]; cbn [bind]; try reflexivity.
    destruct (Nat.ltb_spec (length buf) n) as [H|_]; [lia|]. cbn [bind].
    pose proof (C p buf n Vw ltac:(lia)) as Vw'.
    destruct (Nat.eqb n (length buf)).
    + exists (phy_drop ops p n). split; [reflexivity|exact Vw'].
    + apply IH. exact Vw'.
Qed.

Lemma receive_telegram_phy_refines {P R} (ops : phy_ops P) (f : telegram -> R) :
  phy_coherent ops ->
  forall p buf, phy_view ops p = Ok buf ->
  exists rest r p', receive_telegram f buf = Ok (rest, r) /\
    receive_telegram_phy ops f p = Ok (p', r) /\ phy_view ops p' = Ok rest.
Proof.
  intros C p buf Vw. unfold receive_telegram, receive_telegram_phy, receive_data_phy. rewrite Vw. cbn [bind].
  rewrite decode_is_spec. cbn [bind].
  destruct (decode_spec buf) as [| |t n] eqn:D; cbn [bind].
  - destruct (Nat.ltb_spec (length buf) 0) as [H|_]; [lia|].
    do 3 eexists. split; [reflexivity|]. split; [reflexivity|]. rewrite (C p buf 0%nat Vw) by lia. reflexivity.
  - destruct (Nat.ltb_spec (length buf) (length buf)) as [H|_]; [lia|].
    do 3 eexists. split; [reflexivity|]. split; [reflexivity|]. rewrite (C p buf _ Vw) by lia. rewrite skipn_all. reflexivity.
  - apply decode_spec_accept_bounds in D.
    destruct (Nat.ltb_spec (length buf) n) as [H|_]; [lia|].
    do 3 eexists. split; [reflexivity|]. split; [reflexivity|]. apply C; [exact Vw|lia].
Qed.

Lemma buf_phy_coherent : phy_coherent buf_phy.
Proof. intros p buf n Vw _. cbn in *. injection Vw as ->. reflexivity. Qed.

Lemma slice_ok l a b buf : slice l a b = Ok buf ->
  (a <= b <= length l)%nat /\ buf = firstn (b - a) (skipn a l) /\ length buf = (b - a)%nat.
Proof.
  unfold slice. destruct (Nat.ltb_spec b a) as [H|H]; [discriminate|].
  destruct (Nat.ltb_spec (length l) b) as [H'|H']; [discriminate|].
  intros E. injection E as <-. repeat split; try lia.
  rewrite firstn_length, skipn_length. lia.
Qed.

Lemma sim_phy_coherent bus : phy_coherent (sim_phy bus).
Proof.
  intros p buf n Vw Hn. cbn [sim_phy phy_view phy_drop] in *. unfold sim_view in *.
  unfold sim_poll_transmission in *. cbn [sim_drop ph_name ph_cursor].
  destruct (is_active bus) as [a| |]; cbn [bind] in *; try discriminate.
  destruct (match a with Some n0 => n0 =? ph_name p | None => false end); [discriminate|].
  unfold bus_pending in *. destruct (current_cursor bus) as [cur| |]; cbn [bind] in *; try discriminate.
  apply slice_ok in Vw. destruct Vw as ((H1 & H2) & -> & HL). rewrite HL in Hn.
  unfold slice. destruct (Nat.ltb_spec cur (ph_cursor p + n)) as [H|_]; [lia|].
  destruct (Nat.ltb_spec (length (sb_stream bus)) cur) as [H|_]; [lia|].
  f_equal. rewrite skipn_firstn_comm. rewrite skipn_skipn'. f_equal. lia.
Qed.

(* ------------------------------------------------------------- simulator: byte availability *)

Lemma baud_rate_pos b : 0 < baud_to_rate b.
Proof. destruct b; reflexivity. Qed.

Lemma avail_value bus c rest t : sb_telegrams bus = c :: rest -> bus_wf bus -> c_ts c <= t -> no_overflow bus c t ->
  avail bus t = Ok (length (sb_stream bus) - c_len c +
                    Z.to_nat (Z.min ((t - c_ts c) * baud_to_rate (sb_baud bus) / 1000000 / 11) (Z.of_nat (c_len c))))%nat.
Proof.
  intros HT WF Ht [O1 O2]. unfold avail, current_cursor, set_bus_time. cbn [sb_telegrams sb_time sb_baud sb_stream]. rewrite HT.
  unfold tx_bytes. cbn [sb_time sb_baud]. unfold instant_diff, i64_ok.
  destruct (Z.leb_spec (-9223372036854775808) (t - c_ts c)) as [_|H]; [|lia].
  destruct (Z.leb_spec (t - c_ts c) 9223372036854775807) as [_|H]; [|lia]. cbn [andb bind].
  rewrite Z.abs_eq by lia. unfold time_to_bits_chk, u64_ok, time_to_bits.
  pose proof (baud_rate_pos (sb_baud bus)) as RP.
  destruct (Z.leb_spec 0 ((t - c_ts c) * baud_to_rate (sb_baud bus))) as [_|H]; [|nia].
  destruct (Z.leb_spec ((t - c_ts c) * baud_to_rate (sb_baud bus)) 18446744073709551615) as [_|H]; [|lia]. cbn [andb bind].
  unfold bus_wf in WF. rewrite HT in WF. destruct WF as [WF1 WF2].
  destruct (Nat.ltb_spec (length (sb_stream bus)) (c_len c)) as [H|_]; [lia|]. reflexivity.
Qed.

Lemma sim_monotone bus c rest t1 t2 :
  sb_telegrams bus = c :: rest -> bus_wf bus -> c_ts c <= t1 <= t2 -> no_overflow bus c t2 ->
  exists a1 a2, avail bus t1 = Ok a1 /\ avail bus t2 = Ok a2 /\
    (length (sb_stream bus) - c_len c <= a1 <= a2)%nat /\ (a2 <= length (sb_stream bus))%nat /\
    firstn a1 (firstn a2 (sb_stream bus)) = firstn a1 (sb_stream bus).
Proof.
  intros HT WF [Ha Hb] [O1 O2]. pose proof (baud_rate_pos (sb_baud bus)) as RP.
  assert (NO1 : no_overflow bus c t1) by (split; nia).
  rewrite (avail_value bus c rest t1 HT WF Ha NO1).
  rewrite (avail_value bus c rest t2 HT WF ltac:(lia) (conj O1 O2)).
  do 2 eexists. split; [reflexivity|]. split; [reflexivity|].
  unfold bus_wf in WF. rewrite HT in WF. destruct WF as [WF1 WF2].
  assert (M : (t1 - c_ts c) * baud_to_rate (sb_baud bus) / 1000000 / 11 <= (t2 - c_ts c) * baud_to_rate (sb_baud bus) / 1000000 / 11).
  { apply Z.div_le_mono; [lia|]. apply Z.div_le_mono; [lia|]. nia. }
  assert (P1 : 0 <= (t1 - c_ts c) * baud_to_rate (sb_baud bus) / 1000000 / 11).
  { apply Z.div_pos; [|lia]. apply Z.div_pos; [nia|lia]. }
  split; [|split].
  - lia.
  - lia.
  - rewrite firstn_firstn. f_equal. lia.
Qed.

Lemma sim_reaches_all bus c rest t :
  sb_telegrams bus = c :: rest -> bus_wf bus ->
  c_ts c + bits_to_time (sb_baud bus) (11 * Z.of_nat (c_len c)) + 1 <= t -> no_overflow bus c t ->
  avail bus t = Ok (length (sb_stream bus)).
Proof.
  intros HT WF Ht NO. pose proof (baud_rate_pos (sb_baud bus)) as RP.
  unfold bits_to_time in Ht.
  assert (Q0 : 0 <= 11 * Z.of_nat (c_len c) * 1000000 / baud_to_rate (sb_baud bus)) by (apply Z.div_pos; lia).
  rewrite (avail_value bus c rest t HT WF ltac:(lia) NO). f_equal.
  unfold bus_wf in WF. rewrite HT in WF. destruct WF as [WF1 WF2].
  set (N := 11 * Z.of_nat (c_len c) * 1000000) in *. set (rate := baud_to_rate (sb_baud bus)) in *.
  assert (B : N < (N / rate + 1) * rate).
  { pose proof (Z.div_mod N rate ltac:(lia)) as DM. pose proof (Z.mod_pos_bound N rate RP). nia. }
  assert (G : N <= (t - c_ts c) * rate) by nia.
  assert (G2 : 11 * Z.of_nat (c_len c) <= (t - c_ts c) * rate / 1000000).
  { apply Z.div_le_lower_bound; [lia|]. unfold N in G. lia. }
  assert (G3 : Z.of_nat (c_len c) <= (t - c_ts c) * rate / 1000000 / 11).
  { apply Z.div_le_lower_bound; lia. }
  rewrite Z.min_r by lia. lia.
Qed.

Lemma avail_empty bus t : sb_telegrams bus = [] -> bus_wf bus -> avail bus t = Ok (length (sb_stream bus)).
Proof.
  intros HT WF. unfold avail, current_cursor, set_bus_time. cbn [sb_telegrams]. rewrite HT.
  unfold bus_wf in WF. rewrite HT in WF. rewrite WF. reflexivity.
Qed.

(* enqueue only appends: nothing is reordered or duplicated, the invariant is kept *)
Lemma enqueue_appends bus name data bus' : enqueue bus name data = Ok bus' ->
  sb_stream bus' = sb_stream bus ++ data /\ (bus_wf bus -> bus_wf bus').
Proof.
  unfold enqueue. destruct (is_active bus) as [[a|]| |]; cbn [bind]; try discriminate.
  destruct data as [|x data]. { intros E. injection E as <-. rewrite app_nil_r. split; [reflexivity|tauto]. }
  destruct (decode (x :: data)) as [d| |]; cbn [bind]; try discriminate.
  match goal with |- (let* _ := ?X in _) = _ -> _ => destruct X as [[tm sa]| |] end; cbn [bind]; try discriminate.
  match goal with |- (let* _ := ?X in _) = _ -> _ => destruct X as [u| |] end; cbn [bind]; try discriminate.
  intros E. injection E as <-. cbn [sb_stream sb_telegrams]. split; [reflexivity|].
  intros _. unfold bus_wf. cbn [sb_telegrams sb_stream c_index c_len]. rewrite app_length. cbn [length]. lia.
Qed.

Lemma bus_new_wf b : bus_wf (bus_new b).
Proof. reflexivity. Qed.

(* ------------------------------------------------------------- packaged statements *)

Lemma progress_all buf t n : decode buf = Ok (Accept t n) ->
  (1 <= n <= length buf)%nat /\
  (length (skipn n buf) < length buf)%nat /\ (length (skipn n buf) + n = length buf)%nat.
Proof. intros D. split; [exact (drop_within buf t n D)|exact (receive_all_progress buf t n D)]. Qed.

Lemma short_nil ts : short ts [].
Proof. destruct ts as [|t ts]; [reflexivity|cbn; apply frame_len_pos]. Qed.

Lemma reassembly_all ts cs : Forall valid_telegram ts -> concat cs = stream ts ->
  exists outs, run_polls poll_all [] cs = Ok outs /\
    delivered outs = ts /\ final_buffer [] outs = [] /\
    map obs_of outs = spec_polls true ts 0 (map (@length Z) cs).
Proof.
  intros V E. destruct (run_polls_all_stream cs ts [] V E) as (outs & R & O & _ & F).
  destruct (F (short_nil ts)) as [F1 F2]. exists outs. repeat split; assumption.
Qed.

Lemma history_all ts cs : Forall valid_telegram ts -> concat cs = stream ts ->
  exists outs, run_polls poll_all [] cs = Ok outs /\ history_ok ts [] cs outs.
Proof.
  intros V E. destruct (run_polls_all_stream cs ts [] V E) as (outs & R & _ & H & _).
  exists outs. split; assumption.
Qed.

(* the boolean domain test used by the driver implies the Prop used by the theorems *)
Lemma is_byteb_sound b : is_byteb b = true -> is_byte b.
Proof. unfold is_byteb, is_byte. intros H. apply andb_prop in H. destruct H as [H1 H2]. apply Z.leb_le in H1. apply Z.ltb_lt in H2. lia. Qed.

Lemma valid_telegramb_sound t : valid_telegramb t = true -> valid_telegram t.
Proof.
  destruct t as [h pdu|da sa|]; cbn [valid_telegramb valid_telegram]; intros H; [| |exact I].
  - apply andb_prop in H. destruct H as [H Hp]. apply andb_prop in H. destruct H as [Hh Hl].
    split; [|split].
    + unfold wf_headerb in Hh. unfold wf_header, is_addr7, wf_sap.
      repeat (apply andb_prop in Hh; destruct Hh as [Hh ?]).
      repeat match goal with
             | H : (_ <=? _) = true |- _ => apply Z.leb_le in H
             | H : (_ <? _) = true |- _ => apply Z.ltb_lt in H
             end.
      repeat split; try lia.
      * destruct (h_dsap h); [apply is_byteb_sound; assumption|exact I].
      * destruct (h_ssap h); [apply is_byteb_sound; assumption|exact I].
    + apply Nat.leb_le, Hl.
    + unfold all_bytesb in Hp. unfold all_bytes. apply Forall_forall. intros x Hx.
      rewrite forallb_forall in Hp. apply is_byteb_sound, Hp, Hx.
  - apply andb_prop in H. destruct H as [H1 H2]. split; apply is_byteb_sound; assumption.
Qed.

Lemma valid_all_sound ts : forallb valid_telegramb ts = true -> Forall valid_telegram ts.
Proof. intros H. apply Forall_forall. intros t Ht. rewrite forallb_forall in H. apply valid_telegramb_sound, H, Ht. Qed.

(* ------------------------------------------------------------- a transmit call that sends nothing
   (transmit_telegram whose closure returns None: transmit_data with length 0) changes neither
   the bus nor what receive_data shows to the PHY that made the call *)
Lemma sim_idle_transmit_noop bus p bus' p' : sim_transmit bus p [] = Ok (bus', p') ->
  bus' = bus /\ p' = p /\ phy_view (sim_phy bus') p' = phy_view (sim_phy bus) p.
Proof.
  unfold sim_transmit. cbn [length]. destruct (Nat.ltb_spec sim_tx_buffer 0) as [H|_]; [unfold sim_tx_buffer in H; lia|].
  unfold enqueue. destruct (is_active bus) as [[a|]| |]; cbn [bind]; try discriminate.
  intros E. injection E as <- <-. rewrite Nat.add_0_r. destruct p as [c n]. cbn [ph_cursor ph_name].
  repeat split; reflexivity.
Qed.

(* it is accepted exactly when nobody is sending *)
Lemma sim_idle_transmit_ok bus p : is_active bus = Ok None -> sim_transmit bus p [] = Ok (bus, p).
Proof.
  intros A. unfold sim_transmit. cbn [length]. destruct (Nat.ltb_spec sim_tx_buffer 0) as [H|_]; [unfold sim_tx_buffer in H; lia|].
  unfold enqueue. rewrite A. cbn [bind]. rewrite Nat.add_0_r. destruct p; reflexivity.
Qed.
