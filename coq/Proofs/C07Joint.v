(* C07, definitions (no proofs in this file): the joint system peripheral x reference slave, the projection
   onto the control abstraction of C07Abs.v and the hypotheses on a joint state. *)
From PB Require Export C07Abs.

(* ================================================================== 1. the joint system *)

(* what the FDL hands to the application for the slave's answer: a telegram that decodes completely and is
   admissible for the pending request; anything else is a timeout *)
Definition deliver (own da : Z) (reply : option bytes) : option telegram :=
  match reply with
  | None => None
  | Some w =>
      match decode w with
      | Ok (Accept t n) => if Nat.eqb n (length w) && admissible own da t then Some t else None
      | _ => None
      end
  end.

Definition jstate : Set := (periph * slave)%type.

(* one fault-free DP cycle of the pair: returns the new pair and the peripheral events of the cycle *)
Definition joint_cycle (pa : params) (op : opstate) (st : jstate) : res (jstate * list pevent) :=
  let (p, s) := st in
  let* (p1, r) := p_transmit pa op p in
  match r with
  | PtxSkip ev => Ok ((p1, s), match ev with Some e => [e] | None => [] end)
  | PtxSend h pdu =>
      let (s1, reply) := slave_step s (frame_spec h pdu) in
      match deliver (p_address pa) (pe_addr p) reply with
      | Some t =>
          let* (p2, ev) := p_receive_reply p1 t in
          Ok ((p2, s1), match ev with Some e => [e] | None => [] end)
      | None => Ok ((p1, s1), [])                       (* handle_timeout: nothing *)
      end
  end.

Fixpoint joint_run (pa : params) (op : opstate) (n : nat) (st : jstate) : res (jstate * list pevent) :=
  match n with
  | O => Ok (st, [])
  | S n' =>
      let* (st1, e1) := joint_cycle pa op st in
      let* (st2, e2) := joint_run pa op n' st1 in
      Ok (st2, e1 ++ e2)
  end.

(* ================================================================== projection of the concrete pair *)

(* class of a reply telegram, as far as the peripheral's control flow can tell replies apart *)
Definition dg_class (h : header) (pdu : bytes) : dgc :=
  if opt_eqb (h_dsap h) dp_diag_reply_dsap && opt_eqb (h_ssap h) dp_diag_reply_ssap &&
     Nat.leb dp_diag_min_len (length pdu) then
    let flags := flags_remove (nth 0 pdu 0 + 256 * nth 1 pdu 0) DF_PERMANENT_BIT in
    let fault := flags_contains flags DF_PARAMETER_FAULT || flags_contains flags DF_CONFIGURATION_FAULT in
    let prm := flags_contains flags DF_PARAMETER_REQUIRED in
    let nrdy := flags_contains flags DF_STATION_NOT_READY in
    if fault then (if prm then DgFaultPrm else DgFault)
    else if prm then DgPrm else if nrdy then DgNotReady else DgReady
  else DgNone.

Definition dx_class (inlen : nat) (h : header) (pdu : bytes) : dxc :=
  match h_fc h with
  | FcResponse _ st =>
      match st with
      | StSapNotEnabled => XSapNE
      | StOk | StDataLow => if Nat.eqb (length pdu) inlen then XOk else XIgnore
      | StDataHigh => if Nat.eqb (length pdu) inlen then XHigh else XHighBad
      | _ => XIgnore
      end
  | FcRequest _ _ => XIgnore
  end.

Definition class_of (inlen : nat) (t : option telegram) : areply :=
  match t with
  | None => ANone
  | Some TShortConf => ASc
  | Some (TData h pdu) => AData (dg_class h pdu) (dx_class inlen h pdu)
  | Some (TToken _ _) => ANone
  end.

(* the attributes of the device that never change *)
Definition fix_of (s : slave) : afix :=
  mkFix (sl_stat_diag s) (Nat.eqb (sl_in_len s) 0) (Nat.eqb (6 + length (sl_ext s)) (sl_in_len s)) (sl_ready_delay s).

Definition proj (pa : params) (st : jstate) : ust * nat :=
  let (p, s) := st in
  (mkU (pe_state p) (pe_fcb p) (pe_diag_needed p) (pe_diag_in_flight p)
       (sl_st s) (sl_fcb s) (class_of (sl_in_len s) (deliver (p_address pa) (sl_addr s) (sl_resp s)))
       (sl_prm_fault s) (sl_cfg_fault s) (sl_diag_pending s) (sl_not_ready s),
   Z.to_nat (pe_retry p)).

(* The hypotheses of C07 on a joint state: master and device fit together (address, ident, configuration,
   image lengths: DpOracle.healthy), the device is not scripted to misbehave, sizes respect the frame format,
   and the range invariants: frame count bit not Inactive (no constructor of the crate produces it for a
   peripheral), retry counter not negative, "not ready" delays at most 2 diagnostics cycles. *)
Record jinv (pa : params) (p : periph) (s : slave) : Prop := mkJinv {
  ji_own : 0 <= p_address pa <= 125;
  ji_addr : 0 <= pe_addr p <= 125;
  ji_sladdr : sl_addr s = pe_addr p;
  ji_ident : sl_ident s = o_ident (pe_opts p);
  ji_prm : exists user, o_user_prm (pe_opts p) = Some user /\ (length user <= 237)%nat;
  ji_cfg : exists cfg, o_config (pe_opts p) = Some cfg /\ bytes_eqb cfg (sl_exp_cfg s) = true /\
                       (length cfg <= 244)%nat;
  ji_in : length (pe_pi_i p) = sl_in_len s /\ (sl_in_len s <= 244)%nat;
  ji_out : length (pe_pi_q p) = sl_out_len s /\ (sl_out_len s <= 244)%nat;
  ji_fcb : pe_fcb p <> FcbInactive;
  ji_retry : 0 <= pe_retry p;
  ji_M : 1 <= p_max_retry pa <= 15;
  ji_healthy : sl_silent s = false /\ sl_force1 s = 0 /\ sl_force2 s = 0;
  ji_delay : (sl_ready_delay s <= 2)%nat /\ (sl_not_ready s <= 2)%nat;
  ji_ext : (length (sl_ext s) <= 238)%nat }.

(* the device attributes and the master's configuration of it are not changed by a cycle *)
Definition same_setup (p : periph) (s : slave) (p' : periph) (s' : slave) : Prop :=
  pe_addr p' = pe_addr p /\ pe_opts p' = pe_opts p /\ pe_pi_q p' = pe_pi_q p /\
  length (pe_pi_i p') = length (pe_pi_i p) /\
  sl_addr s' = sl_addr s /\ sl_ident s' = sl_ident s /\ sl_exp_cfg s' = sl_exp_cfg s /\
  sl_in_len s' = sl_in_len s /\ sl_out_len s' = sl_out_len s /\ sl_silent s' = sl_silent s /\
  sl_ready_delay s' = sl_ready_delay s /\ sl_stat_diag s' = sl_stat_diag s /\
  sl_force1 s' = sl_force1 s /\ sl_force2 s' = sl_force2 s /\ sl_ext s' = sl_ext s.

(* ================================================================== the vocabulary of the C07 theorems *)

(* cycles within which the pair is back in data exchange: max_retry + 11 (DpOracle.c07_bound allows max_retry + 16) *)
Definition c07_cycles (max_retry : Z) : nat := Z.to_nat max_retry + c07_units.

(* master in DataExchange with the slave in Data_Exch *)
Definition in_dx (st : jstate) : Prop :=
  pe_state (fst st) = PsDataExchange /\ sl_st (snd st) = SlDataExch.

(* Known finding F15 as a set of joint states.  Core: the master polls diagnostics in ValidateConfig, the slave
   is still in Wait_Cfg (it never saw the Chk_Cfg whose forged acknowledgement the master accepted), reports
   neither fault nor Prm_Req, the next request is not taken for a retransmission and the retries are not used
   up.  Class: the states whose fault-free continuation enters the core within the recovery bound. *)
Definition f15_core (pa : params) (st : jstate) : Prop :=
  let (p, s) := st in
  pe_state p = PsValidateConfig /\ sl_st s = SlWaitCfg /\ sl_prm_fault s = false /\ sl_cfg_fault s = false /\
  fresh (pe_fcb p) (sl_fcb s) = true /\ pe_retry p <= p_max_retry pa.

Definition f15_class (pa : params) (op : opstate) (st : jstate) : Prop :=
  exists n st' evs, (n <= c07_cycles (p_max_retry pa))%nat /\ joint_run pa op n st = Ok (st', evs) /\ f15_core pa st'.

(* an explicit superset of the class: slave in Wait_Cfg while the master is past Chk_Cfg, or is about to
   repeat a Chk_Cfg that the slave will take for a retransmission *)
Definition f15_suspect (st : jstate) : Prop :=
  let (p, s) := st in
  sl_st s = SlWaitCfg /\
  (pe_state p = PsValidateConfig \/ pe_state p = PsPreDataExchange \/ pe_state p = PsDataExchange \/
   (pe_state p = PsWaitForConfig /\ fresh (pe_fcb p) (sl_fcb s) = false)).

(* ------------------------------------------------------------------ histories of one peripheral (C07_online_again) *)

(* everything that can happen to a peripheral: its turn in the cycle, a reply (any telegram), the user asking
   for diagnostics or writing outputs; a timeout is no call at all *)
Inductive pop : Set :=
| PopTx
| PopRx (t : telegram)
| PopReqDiag
| PopWriteQ (q : bytes).

Definition tx_events (r : ptx) : list pevent :=
  match r with PtxSkip (Some e) => [e] | _ => [] end.

Definition pop_step (pa : params) (op : opstate) (p : periph) (o : pop) : res (periph * list pevent) :=
  match o with
  | PopTx => let* (p1, r) := p_transmit pa op p in Ok (p1, tx_events r)
  | PopRx t => let* (p1, ev) := p_receive_reply p t in Ok (p1, match ev with Some e => [e] | None => [] end)
  | PopReqDiag => Ok (p_request_diagnostics p, [])
  | PopWriteQ q => Ok (set_pi_q p q, [])
  end.

Fixpoint run_pops (pa : params) (op : opstate) (p : periph) (ops : list pop) : res (periph * list pevent) :=
  match ops with
  | [] => Ok (p, [])
  | o :: r =>
      let* (p1, e1) := pop_step pa op p o in
      let* (p2, e2) := run_pops pa op p1 r in
      Ok (p2, e1 ++ e2)
  end.

(* the life-cycle automaton of DpOracle (Off -Online-> On -Configured-> Cfg, back to Off by Offline / errors)
   run over an event list *)
Fixpoint life_run (l : lstate) (evs : list pevent) : option lstate :=
  match evs with
  | [] => Some l
  | e :: r => match l_step l e with Some l' => life_run l' r | None => None end
  end.

(* a life-cycle state fits a peripheral: Off exactly when it is Offline; (Pre)DataExchange only when Cfg *)
Definition life_fits (l : lstate) (p : periph) : Prop :=
  (l = LOff <-> pe_state p = PsOffline) /\
  (pe_state p = PsPreDataExchange \/ pe_state p = PsDataExchange -> l = LCfg).

(* an Offline peripheral has not used up its retries (it has at most one probe outstanding) *)
Definition off_inv (pa : params) (p : periph) : Prop := pe_state p = PsOffline -> pe_retry p <= p_max_retry pa.

(* the request a live peripheral has pending (after the in-flight latch) *)
Definition live_req (pa : params) (op : opstate) (p : periph) : ptx :=
  match pe_state p with
  | PsOffline | PsValidateConfig => diag_request pa p
  | PsWaitForParam => match o_user_prm (pe_opts p) with Some u => prm_request pa p u | None => PtxSkip None end
  | PsWaitForConfig => match o_config (pe_opts p) with Some c => cfg_request pa p c | None => PtxSkip None end
  | PsPreDataExchange | PsDataExchange =>
      if pe_diag_in_flight p then diag_request pa p else dx_request pa op p
  end.

(* the latch of Peripheral::transmit_telegram (F10 fix) *)
Definition latch (p : periph) : periph :=
  match pe_state p with
  | PsPreDataExchange | PsDataExchange =>
      if pe_retry p =? 0 then set_diag_in_flight p (pe_diag_needed p) else p
  | _ => p
  end.

(* ------------------------------------------------------------------ a silent peripheral (C07_silent_goes_offline) *)

(* n consecutive turns without any reply: the requests sent *)
Fixpoint tx_silent (pa : params) (op : opstate) (n : nat) (p : periph) : res (periph * list ptx) :=
  match n with
  | O => Ok (p, [])
  | S n' =>
      let* (p1, r) := p_transmit pa op p in
      let* (p2, l) := tx_silent pa op n' p1 in
      Ok (p2, r :: l)
  end.

(* ------------------------------------------------------------------ concrete states for the Examples of C07.v *)

Definition c07_opts : poptions := mkOpts 4660 false false 0 0 false (Some [1; 2; 3]) (Some [17; 33]).
(* a fresh master-side peripheral and a fresh device that fit together: 2 input bytes, 1 output byte *)
Definition c07_periph0 : periph := periph_new 5 c07_opts [0; 0] [0] 0.
Definition c07_slave0 : slave := slave_new 5 4660 [17; 33] 2 1.
(* the F15 configuration: master polling diagnostics in ValidateConfig, device still in Wait_Cfg *)
Definition f15_periph : periph := set_fcb (set_state c07_periph0 PsValidateConfig) FcbLow.
Definition f15_slave : slave :=
  slave_dyn c07_slave0 SlWaitCfg (Some 1) false false false false false 0 false [0] 0 None.

Definition pair_states (r : res (jstate * list pevent)) : option (pstate * sl_state) :=
  match r with Ok ((p, s), _) => Some (pe_state p, sl_st s) | _ => None end.
