(* C07, definitions (no proofs in this file): the joint system peripheral x reference slave, the projection
   onto the control abstraction of C07Abs.v and the hypotheses on a joint state. *)
From PB Require Export C07Abs.

(* ================================================================== 1. the joint system *)

(* what the FDL hands to the application for the slave's answer: a telegram that decodes completely and is
   admissible for the pending request; anything else is a timeout *)
Definition deliver (own da : Z) (reply : option bytes) : option telegram :=
  match reply with
  | None => None
  | Some w =>
      match decode w with
      | Ok (Accept t n) => if Nat.eqb n (length w) && admissible own da t then Some t else None
      | _ => None
      end
  end.

Definition jstate : Set := (periph * slave)%type.

(* one fault-free DP cycle of the pair: returns the new pair and the peripheral events of the cycle *)
Definition joint_cycle (pa : params) (op : opstate) (st : jstate) : res (jstate * list pevent) :=
  let (p, s) := st in
  let* (p1, r) := p_transmit pa op p in
  match r with
  | PtxSkip ev => Ok ((p1, s), match ev with Some e => [e] | None => [] end)
  | PtxSend h pdu =>
      let (s1, reply) := slave_step s (frame_spec h pdu) in
      match deliver (p_address pa) (pe_addr p) reply with
      | Some t =>
          let* (p2, ev) := p_receive_reply p1 t in
          Ok ((p2, s1), match ev with Some e => [e] | None => [] end)
      | None => Ok ((p1, s1), [])                       (* handle_timeout: nothing *)
      end
  end.

Fixpoint joint_run (pa : params) (op : opstate) (n : nat) (st : jstate) : res (jstate * list pevent) :=
  match n with
  | O => Ok (st, [])
  | S n' =>
      let* (st1, e1) := joint_cycle pa op st in
      let* (st2, e2) := joint_run pa op n' st1 in
      Ok (st2, e1 ++ e2)
  end.

(* ================================================================== projection of the concrete pair *)

(* class of a reply telegram, as far as the peripheral's control flow can tell replies apart *)
Definition dg_class (h : header) (pdu : bytes) : dgc :=
  if opt_eqb (h_dsap h) dp_diag_reply_dsap && opt_eqb (h_ssap h) dp_diag_reply_ssap &&
     Nat.leb dp_diag_min_len (length pdu) then
    let flags := flags_remove (nth 0 pdu 0 + 256 * nth 1 pdu 0) DF_PERMANENT_BIT in
    let fault := flags_contains flags DF_PARAMETER_FAULT || flags_contains flags DF_CONFIGURATION_FAULT in
    let prm := flags_contains flags DF_PARAMETER_REQUIRED in
    let nrdy := flags_contains flags DF_STATION_NOT_READY in
    if fault then (if prm then DgFaultPrm else DgFault)
    else if prm then DgPrm else if nrdy then DgNotReady else DgReady
  else DgNone.

Definition dx_class (inlen : nat) (h : header) (pdu : bytes) : dxc :=
  match h_fc h with
  | FcResponse _ st =>
      match st with
      | StSapNotEnabled => XSapNE
      | StOk | StDataLow => if Nat.eqb (length pdu) inlen then XOk else XIgnore
      | StDataHigh => if Nat.eqb (length pdu) inlen then XHigh else XHighBad
      | _ => XIgnore
      end
  | FcRequest _ _ => XIgnore
  end.

Definition class_of (inlen : nat) (t : option telegram) : areply :=
  match t with
  | None => ANone
  | Some TShortConf => ASc
  | Some (TData h pdu) => AData (dg_class h pdu) (dx_class inlen h pdu)
  | Some (TToken _ _) => ANone
  end.

(* the attributes of the device that never change *)
Definition fix_of (s : slave) : afix :=
  mkFix (sl_stat_diag s) (Nat.eqb (sl_in_len s) 0) (Nat.eqb (6 + length (sl_ext s)) (sl_in_len s)) (sl_ready_delay s).

Definition proj (pa : params) (st : jstate) : ust * nat :=
  let (p, s) := st in
  (mkU (pe_state p) (pe_fcb p) (pe_diag_needed p) (pe_diag_in_flight p)
       (sl_st s) (sl_fcb s) (class_of (sl_in_len s) (deliver (p_address pa) (sl_addr s) (sl_resp s)))
       (sl_prm_fault s) (sl_cfg_fault s) (sl_diag_pending s) (sl_not_ready s),
   Z.to_nat (pe_retry p)).

(* The hypotheses of C07 on a joint state: master and device fit together (address, ident, configuration,
   image lengths: DpOracle.healthy), the device is not scripted to misbehave, sizes respect the frame format,
   and the range invariants: frame count bit not Inactive (no constructor of the crate produces it for a
   peripheral), retry counter not negative, "not ready" delays at most 2 diagnostics cycles. *)
Record jinv (pa : params) (p : periph) (s : slave) : Prop := mkJinv {
  ji_own : 0 <= p_address pa <= 125;
  ji_addr : 0 <= pe_addr p <= 125;
  ji_sladdr : sl_addr s = pe_addr p;
  ji_ident : sl_ident s = o_ident (pe_opts p);
  ji_prm : exists user, o_user_prm (pe_opts p) = Some user /\ (length user <= 237)%nat;
  ji_cfg : exists cfg, o_config (pe_opts p) = Some cfg /\ bytes_eqb cfg (sl_exp_cfg s) = true /\
                       (length cfg <= 244)%nat;
  ji_in : length (pe_pi_i p) = sl_in_len s /\ (sl_in_len s <= 244)%nat;
  ji_out : length (pe_pi_q p) = sl_out_len s /\ (sl_out_len s <= 244)%nat;
  ji_fcb : pe_fcb p <> FcbInactive;
  ji_retry : 0 <= pe_retry p;
  ji_M : 1 <= p_max_retry pa <= 15;
  ji_healthy : sl_silent s = false /\ sl_force1 s = 0 /\ sl_force2 s = 0;
  ji_delay : (sl_ready_delay s <= 2)%nat /\ (sl_not_ready s <= 2)%nat;
  ji_ext : (length (sl_ext s) <= 238)%nat }.

(* the device attributes and the master's configuration of it are not changed by a cycle *)
Definition same_setup (p : periph) (s : slave) (p' : periph) (s' : slave) : Prop :=
  pe_addr p' = pe_addr p /\ pe_opts p' = pe_opts p /\ pe_pi_q p' = pe_pi_q p /\
  length (pe_pi_i p') = length (pe_pi_i p) /\
  sl_addr s' = sl_addr s /\ sl_ident s' = sl_ident s /\ sl_exp_cfg s' = sl_exp_cfg s /\
  sl_in_len s' = sl_in_len s /\ sl_out_len s' = sl_out_len s /\ sl_silent s' = sl_silent s /\
  sl_ready_delay s' = sl_ready_delay s /\ sl_stat_diag s' = sl_stat_diag s /\
  sl_force1 s' = sl_force1 s /\ sl_force2 s' = sl_force2 s /\ sl_ext s' = sl_ext s.
