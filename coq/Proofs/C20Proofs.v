(* Proofs for property C20 (parameter block packing). *)
From PB Require Import Common PrmTables Prm PrmOracle ByteFacts.

(* ------------------------------------------------------------------ lists *)

Lemma nth_firstn_lt {A} (l : list A) d : forall n i, (i < n)%nat -> nth i (firstn n l) d = nth i l d.
Proof.
  induction l as [|a l IH]; intros n i H.
  - rewrite firstn_nil. reflexivity.
  - destruct n as [|n]; [lia|]. destruct i as [|i]; [reflexivity|]. cbn [firstn nth]. apply IH. lia.
Qed.

Lemma nth_skipn_add {A} (l : list A) d : forall n i, nth i (skipn n l) d = nth (n + i) l d.
Proof.
  induction l as [|a l IH]; intros n i.
  - rewrite skipn_nil. destruct i, n; reflexivity.
  - destruct n as [|n]; [reflexivity|]. cbn [skipn Nat.add nth]. apply IH.
Qed.

Lemma skipn_cons_nth (p : bytes) off : (off < length p)%nat -> skipn off p = nth off p 0 :: skipn (S off) p.
Proof.
  revert off. induction p as [|a p IH]; intros off H; cbn [length] in H; [lia|].
  destruct off as [|off]; [reflexivity|]. cbn [skipn nth]. apply IH. lia.
Qed.

Lemma length_splice p off data : (off + length data <= length p)%nat -> length (splice p off data) = length p.
Proof. intros H. unfold splice. rewrite !app_length, firstn_length, skipn_length. lia. Qed.

Lemma nth_splice p off data i : (off + length data <= length p)%nat ->
  nth i (splice p off data) 0 =
  if Nat.ltb i off then nth i p 0 else if Nat.ltb i (off + length data) then nth (i - off) data 0 else nth i p 0.
Proof.
  intros H. unfold splice.
  assert (Lf : length (firstn off p) = off) by (rewrite firstn_length; lia).
  destruct (Nat.ltb_spec i off) as [H1|H1].
  - rewrite app_nth1 by lia. apply nth_firstn_lt. exact H1.
  - rewrite app_nth2 by lia. rewrite Lf.
    destruct (Nat.ltb_spec i (off + length data)) as [H2|H2].
    + rewrite app_nth1 by lia. reflexivity.
    + rewrite app_nth2 by lia. rewrite nth_skipn_add. f_equal. lia.
Qed.

Lemma length_mapi_from g : forall l s, length (mapi_from s g l) = length l.
Proof. induction l as [|x l IH]; intros s; cbn [mapi_from length]; [reflexivity|]. rewrite IH. reflexivity. Qed.

Lemma nth_mapi_from g : forall l s i, (i < length l)%nat -> nth i (mapi_from s g l) 0 = g (s + i)%nat (nth i l 0).
Proof.
  induction l as [|x l IH]; intros s i H; cbn [length] in H; [lia|].
  destruct i as [|i]; cbn [mapi_from nth].
  - rewrite Nat.add_0_r. reflexivity.
  - rewrite IH by lia. f_equal. lia.
Qed.

Lemma length_grow p n : length (grow p n) = Nat.max (length p) n.
Proof. unfold grow. rewrite app_length, repeat_length. lia. Qed.

Lemma all_bytes_nth p : all_bytes p <-> (forall i, (i < length p)%nat -> is_byte (nth i p 0)).
Proof.
  unfold all_bytes. rewrite Forall_nth. split.
  - intros H i Hi. apply H. exact Hi.
  - intros H i d Hi. rewrite (nth_indep p d 0 Hi). apply H. exact Hi.
Qed.

Lemma all_bytes_grow p n : all_bytes p -> all_bytes (grow p n).
Proof.
  unfold all_bytes, grow. intros H. apply Forall_app. split; [exact H|].
  apply Forall_forall. intros x Hx. apply repeat_spec in Hx. subst x. unfold is_byte. lia.
Qed.

Lemma all_bytes_splice p off data : (off + length data <= length p)%nat ->
  all_bytes p -> all_bytes data -> all_bytes (splice p off data).
Proof.
  intros H Hp Hd. apply all_bytes_nth. intros i Hi. rewrite length_splice in Hi by exact H.
  rewrite nth_splice by exact H.
  destruct (Nat.ltb_spec i off) as [H1|H1].
  - apply all_bytes_nth; [exact Hp|lia].
  - destruct (Nat.ltb_spec i (off + length data)) as [H2|H2].
    + apply all_bytes_nth; [exact Hd|lia].
    + apply all_bytes_nth; [exact Hp|lia].
Qed.

Lemma list_eq_nth (a b : bytes) : length a = length b ->
  (forall i, (i < length a)%nat -> nth i a 0 = nth i b 0) -> a = b.
Proof. intros HL H. apply (nth_ext a b 0 0 HL H). Qed.

Lemma bytes_eqb_refl l : bytes_eqb l l = true.
Proof. induction l as [|x l IH]; cbn [bytes_eqb]; [reflexivity|]. rewrite Z.eqb_refl, IH. reflexivity. Qed.

(* ------------------------------------------------------------------ bits of a byte *)

Lemma in_bit_positions k : 0 <= k < 8 -> In k bit_positions.
Proof.
  intros H. assert (E : k = 0 \/ k = 1 \/ k = 2 \/ k = 3 \/ k = 4 \/ k = 5 \/ k = 6 \/ k = 7) by lia.
  unfold bit_positions. cbn [In]. intuition.
Qed.

Lemma bit_positions_range k : In k bit_positions -> 0 <= k < 8.
Proof. unfold bit_positions. cbn [In]. intros H. lia. Qed.

Lemma byte_of_bits_ext f g : (forall k, 0 <= k < 8 -> f k = g k) -> byte_of_bits f = byte_of_bits g.
Proof.
  intros H. unfold byte_of_bits.
  rewrite (H 0), (H 1), (H 2), (H 3), (H 4), (H 5), (H 6), (H 7) by lia. reflexivity.
Qed.

Lemma byte_of_bits_range f : 0 <= byte_of_bits f < 256.
Proof.
  unfold byte_of_bits, b2z.
  destruct (f 0), (f 1), (f 2), (f 3), (f 4), (f 5), (f 6), (f 7); lia.
Qed.

Lemma byte_of_bits_testbit x : 0 <= x < 256 -> byte_of_bits (Z.testbit x) = x.
Proof.
  intros H.
  pose proof (sweep256 (fun x => byte_of_bits (Z.testbit x) =? x) ltac:(vm_compute; reflexivity) x H) as S.
  apply Z.eqb_eq. exact S.
Qed.

Lemma testbit_byte_of_bits f k : 0 <= k < 8 -> Z.testbit (byte_of_bits f) k = f k.
Proof.
  intros H. assert (E : k = 0 \/ k = 1 \/ k = 2 \/ k = 3 \/ k = 4 \/ k = 5 \/ k = 6 \/ k = 7) by lia.
  unfold byte_of_bits, b2z.
  destruct E as [->|[->|[->|[->|[->|[->|[->| ->]]]]]]];
    destruct (f 0), (f 1), (f 2), (f 3), (f 4), (f 5), (f 6), (f 7); reflexivity.
Qed.

Lemma byte_eq_of_bits y f : 0 <= y < 256 -> (forall k, 0 <= k < 8 -> Z.testbit y k = f k) -> y = byte_of_bits f.
Proof.
  intros Hy H. rewrite <- (byte_of_bits_testbit y Hy). apply byte_of_bits_ext. exact H.
Qed.

(* ------------------------------------------------------------------ to_be_bytes *)

Lemma length_be_bytes v : forall n, length (be_bytes n v) = n.
Proof. induction n as [|n IH]; cbn [be_bytes length]; [reflexivity|]. rewrite IH. reflexivity. Qed.

Lemma nth_be_bytes v : forall n j, (j < n)%nat ->
  nth j (be_bytes n v) 0 = (v / 2 ^ (8 * Z.of_nat (n - 1 - j))) mod 256.
Proof.
  induction n as [|n IH]; intros j H; [lia|].
  cbn [be_bytes]. destruct j as [|j]; cbn [nth].
  - replace (S n - 1 - 0)%nat with n by lia. reflexivity.
  - rewrite IH by lia. replace (S n - 1 - S j)%nat with (n - 1 - j)%nat by lia. reflexivity.
Qed.

Lemma all_bytes_be_bytes v n : all_bytes (be_bytes n v).
Proof.
  apply all_bytes_nth. intros i Hi. rewrite length_be_bytes in Hi. rewrite nth_be_bytes by exact Hi.
  unfold is_byte. apply Z.mod_pos_bound. lia.
Qed.

(* bit k of byte number m/8 (counted from the least significant byte) is bit m+k of the value,
   also for negative values: two's complement *)
Lemma testbit_be_byte v m k : 0 <= m -> 0 <= k < 8 ->
  Z.testbit ((v / 2 ^ m) mod 256) k = Z.testbit v (m + k).
Proof.
  intros Hm Hk. change 256 with (2 ^ 8).
  rewrite Z.mod_pow2_bits_low by lia.
  rewrite Z.div_pow2_bits by lia. f_equal. lia.
Qed.

(* ------------------------------------------------------------------ the two bit-field byte formulas, by sweep *)

Definition bit_check (x : Z) : bool :=
  forallb (fun b => forallb (fun v =>
    let y := bit_byte b v x in
    is_byteb y &&
    forallb (fun k => Bool.eqb (Z.testbit y k) (if k =? b then Z.testbit v (k - b) else Z.testbit x k)) bit_positions)
    [0; 1]) bit_positions.

Lemma bit_byte_spec b v x : 0 <= b <= 7 -> v = 0 \/ v = 1 -> 0 <= x < 256 ->
  0 <= bit_byte b v x < 256 /\
  forall k, 0 <= k < 8 -> Z.testbit (bit_byte b v x) k = if k =? b then Z.testbit v (k - b) else Z.testbit x k.
Proof.
  intros Hb Hv Hx.
  pose proof (sweep256 bit_check ltac:(vm_compute; reflexivity) x Hx) as S.
  unfold bit_check in S. rewrite forallb_forall in S.
  specialize (S b (in_bit_positions b ltac:(lia))). rewrite forallb_forall in S.
  assert (Iv : In v [0; 1]) by (cbn [In]; lia).
  specialize (S v Iv). cbv zeta in S. apply andb_prop in S. destruct S as [S1 S2].
  split.
  - unfold is_byteb in S1. apply andb_prop in S1. destruct S1 as [A B].
    apply Z.leb_le in A. apply Z.ltb_lt in B. lia.
  - intros k Hk. rewrite forallb_forall in S2. specialize (S2 k (in_bit_positions k Hk)).
    apply Bool.eqb_prop in S2. exact S2.
Qed.

Definition bitarea_check (v : Z) : bool :=
  forallb (fun f => forallb (fun l =>
    implb ((f <=? l) && (v <? 2 ^ (l - f + 1)))
      (let y := bitarea_byte f v in
       is_byteb y &&
       forallb (fun k => Bool.eqb (Z.testbit y k) (if (f <=? k) && (k <=? l) then Z.testbit v (k - f) else false)) bit_positions))
    bit_positions) bit_positions.

Lemma bitarea_byte_spec f l v : 0 <= f -> f <= l -> l <= 7 -> 0 <= v < 2 ^ (l - f + 1) ->
  0 <= bitarea_byte f v < 256 /\
  forall k, 0 <= k < 8 ->
    Z.testbit (bitarea_byte f v) k = if (f <=? k) && (k <=? l) then Z.testbit v (k - f) else false.
Proof.
  intros Hf Hfl Hl Hv.
  assert (Hv256 : 0 <= v < 256).
  { split; [lia|]. apply Z.lt_le_trans with (2 ^ (l - f + 1)); [lia|].
    change 256 with (2 ^ 8). apply Z.pow_le_mono_r; lia. }
  pose proof (sweep256 bitarea_check ltac:(vm_compute; reflexivity) v Hv256) as S.
  unfold bitarea_check in S. rewrite forallb_forall in S.
  specialize (S f (in_bit_positions f ltac:(lia))). rewrite forallb_forall in S.
  specialize (S l (in_bit_positions l ltac:(lia))).
  destruct (Z.leb_spec f l) as [_|C]; [|lia].
  destruct (Z.ltb_spec v (2 ^ (l - f + 1))) as [_|C]; [|lia].
  cbn [andb implb] in S. cbv zeta in S. apply andb_prop in S. destruct S as [S1 S2].
  split.
  - unfold is_byteb in S1. apply andb_prop in S1. destruct S1 as [A B].
    apply Z.leb_le in A. apply Z.ltb_lt in B. lia.
  - intros k Hk. rewrite forallb_forall in S2. specialize (S2 k (in_bit_positions k Hk)).
    apply Bool.eqb_prop in S2. exact S2.
Qed.

(* no bit outside the area *)
Lemma outside_bits_false f l x : outside_bits f l x = false ->
  forall k, 0 <= k < 8 -> (f <=? k) && (k <=? l) = false -> Z.testbit x k = false.
Proof.
  intros H k Hk Ha. unfold outside_bits in H.
  destruct (Z.testbit x k) eqn:T; [|reflexivity].
  assert (E : existsb (fun k => negb ((f <=? k) && (k <=? l)) && Z.testbit x k) bit_positions = true).
  { apply existsb_exists. exists k. split; [apply in_bit_positions; exact Hk|]. rewrite Ha, T. reflexivity. }
  rewrite E in H. discriminate.
Qed.

(* ------------------------------------------------------------------ one field write = spec_write *)

Lemma dt_size_spec dt : dt_size dt = spec_size dt.
Proof. destruct dt; reflexivity. Qed.

Lemma in_field_outside off dt i k : (i < off \/ off + spec_size dt <= i)%nat -> in_field off dt i k = false.
Proof.
  intros H. destruct dt; cbn [in_field spec_size] in *;
    try (destruct (Nat.leb_spec off i) as [A|A]; [|reflexivity];
         match goal with |- context [Nat.ltb ?a ?b] => destruct (Nat.ltb_spec a b) as [B|B] end; [lia|reflexivity]);
    (destruct (Nat.eqb_spec i off) as [E|E]; [lia|reflexivity]).
Qed.

Lemma splice_is_spec p off dt v data :
  length data = spec_size dt -> (off + spec_size dt <= length p)%nat -> all_bytes p ->
  (forall j, (j < spec_size dt)%nat ->
     0 <= nth j data 0 < 256 /\
     forall k, 0 <= k < 8 ->
       Z.testbit (nth j data 0) k =
       if in_field off dt (off + j) k then field_bit off dt v (off + j) k else Z.testbit (nth (off + j) p 0) k) ->
  splice p off data = spec_write off dt v p.
Proof.
  intros HL Hc Hp Hd. unfold spec_write. apply list_eq_nth.
  - rewrite length_splice, length_mapi_from by lia. reflexivity.
  - intros i Hi. rewrite length_splice in Hi by lia. rewrite nth_splice by lia.
    rewrite nth_mapi_from by exact Hi. cbn [Nat.add]. unfold spec_byte.
    assert (Out : (i < off \/ off + spec_size dt <= i)%nat ->
                  nth i p 0 = byte_of_bits (fun k => if in_field off dt i k then field_bit off dt v i k else Z.testbit (nth i p 0) k)).
    { intros O. apply byte_eq_of_bits.
      - apply all_bytes_nth; assumption.
      - intros k Hk. rewrite (in_field_outside off dt i k O). reflexivity. }
    destruct (Nat.ltb_spec i off) as [H1|H1]; [apply Out; lia|].
    rewrite HL. destruct (Nat.ltb_spec i (off + spec_size dt)) as [H2|H2]; [|apply Out; lia].
    destruct (Hd (i - off)%nat ltac:(lia)) as [R B].
    replace (off + (i - off))%nat with i in B by lia.
    apply byte_eq_of_bits; [exact R|exact B].
Qed.

(* the value range the generated conversion table gives each integer type is the GSD range *)
Lemma write_value_int dt n lo hi v s : dt_int dt = Some (n, lo, hi) ->
  write_value dt v s =
  if Nat.ltb (length s) n then Panic SiteIndex
  else if (lo <=? v) && (v <=? hi) then Ok (true, be_bytes n v ++ skipn n s) else Ok (false, s).
Proof. intros H. unfold write_value. rewrite H. reflexivity. Qed.

Lemma int_type_facts dt : match dt_int dt with
  | Some (n, lo, hi) => n = spec_size dt /\ (forall v, in_type_range dt v = (lo <=? v) && (v <=? hi)) /\
                        (forall off i k, in_field off dt i k = Nat.leb off i && Nat.ltb i (off + spec_size dt)) /\
                        (forall off v i k, field_bit off dt v i k = Z.testbit v (8 * Z.of_nat (off + spec_size dt - 1 - i) + k))
  | None => match dt with DtBit _ | DtBitArea _ _ => True | _ => False end
  end.
Proof. destruct dt; cbn [dt_int]; try exact I; (split; [reflexivity|split; [intros v; reflexivity|split; intros; reflexivity]]). Qed.

Lemma firstn_skipn_splice p off data : (off + length data <= length p)%nat ->
  firstn off p ++ data ++ skipn (length data) (skipn off p) = splice p off data.
Proof. intros H. unfold splice. rewrite skipn_skipn'. reflexivity. Qed.

Lemma splice_single (p : bytes) off y : firstn off p ++ y :: skipn (S off) p = splice p off [y].
Proof. unfold splice. cbn [length app]. rewrite Nat.add_1_r. reflexivity. Qed.

Lemma write_in_ok p off dt v :
  (off + dt_size dt <= length p)%nat -> all_bytes p ->
  in_type_range dt v = true -> known_write off dt p = false ->
  write_in p off dt v = Ok (true, spec_write off dt v p).
Proof.
  intros Hc Hp Hr Hk. rewrite dt_size_spec in Hc.
  unfold write_in, slice_from.
  destruct (Nat.leb_spec off (length p)) as [_|C]; [|lia]. cbn [bind].
  pose proof (int_type_facts dt) as F.
  destruct (dt_int dt) as [[[n lo] hi]|] eqn:E.
  - destruct F as [Fn [Fr [Ff Fb]]]. subst n.
    rewrite (write_value_int dt _ lo hi v _ E). rewrite skipn_length.
    destruct (Nat.ltb_spec (length p - off) (spec_size dt)) as [C|_]; [lia|].
    rewrite <- Fr, Hr. cbn [bind]. do 2 f_equal.
    rewrite <- (length_be_bytes v (spec_size dt)) at 2.
    rewrite firstn_skipn_splice by (rewrite length_be_bytes; lia).
    apply splice_is_spec; [apply length_be_bytes|exact Hc|exact Hp|].
    intros j Hj. split.
    + apply (proj1 (all_bytes_nth _) (all_bytes_be_bytes v (spec_size dt))). rewrite length_be_bytes. exact Hj.
    + intros k Hk8. rewrite nth_be_bytes by exact Hj. rewrite Ff, Fb.
      destruct (Nat.leb_spec off (off + j)) as [_|C]; [|lia].
      destruct (Nat.ltb_spec (off + j) (off + spec_size dt)) as [_|C]; [|lia]. cbn [andb].
      rewrite testbit_be_byte by lia. f_equal.
      replace (off + spec_size dt - 1 - (off + j))%nat with (spec_size dt - 1 - j)%nat by lia. reflexivity.
  - destruct dt as [| | | | | |b|f l]; try contradiction; cbn [spec_size] in Hc.
    + (* Bit *)
      cbn [in_type_range] in Hr. unfold zrange in Hr.
      apply andb_prop in Hr. destruct Hr as [Hb Hv].
      apply andb_prop in Hb. destruct Hb as [Hb0 Hb7]. apply Z.leb_le in Hb0. apply Z.leb_le in Hb7.
      apply andb_prop in Hv. destruct Hv as [Hv0 Hv1]. apply Z.leb_le in Hv0. apply Z.leb_le in Hv1.
      unfold write_value. cbn [dt_int].
      destruct (Z.ltb_spec 7 b) as [C|_]; [lia|].
      assert (Ev : (v =? 0) || (v =? 1) = true).
      { destruct (Z.eqb_spec v 0) as [|N0]; [reflexivity|]. destruct (Z.eqb_spec v 1) as [|N1]; [reflexivity|lia]. }
      rewrite Ev. cbn [orb negb].
      rewrite (skipn_cons_nth p off) by lia. cbn [bind]. do 2 f_equal.
      rewrite splice_single.
      assert (Hx : 0 <= nth off p 0 < 256) by (apply all_bytes_nth; [exact Hp|lia]).
      destruct (bit_byte_spec b v (nth off p 0) ltac:(lia) ltac:(lia) Hx) as [R B].
      apply splice_is_spec; [reflexivity|cbn [spec_size]; lia|exact Hp|].
      cbn [spec_size]. intros j Hj. assert (j = 0%nat) by lia. subst j. rewrite Nat.add_0_r. cbn [nth].
      split; [exact R|]. intros k Hk8. rewrite (B k Hk8). cbn [in_field field_bit]. rewrite Nat.eqb_refl. cbn [andb]. reflexivity.
    + (* BitArea *)
      cbn [in_type_range] in Hr.
      apply andb_prop in Hr. destruct Hr as [Hr Hv2]. apply andb_prop in Hr. destruct Hr as [Hr Hv0].
      apply andb_prop in Hr. destruct Hr as [Hr Hl7]. apply andb_prop in Hr. destruct Hr as [Hf0 Hfl].
      apply Z.leb_le in Hf0. apply Z.leb_le in Hfl. apply Z.leb_le in Hl7. apply Z.leb_le in Hv0. apply Z.ltb_lt in Hv2.
      unfold write_value. cbn [dt_int].
      destruct (Z.ltb_spec l f) as [C|_]; [lia|]. destruct (Z.ltb_spec 7 l) as [C|_]; [lia|]. cbn [orb].
      destruct (Z.ltb_spec v 0) as [C|_]; [lia|]. destruct (Z.leb_spec (2 ^ (l - f + 1)) v) as [C|_]; [lia|]. cbn [orb].
      destruct (bitarea_byte_spec f l v Hf0 Hfl Hl7 ltac:(lia)) as [R B].
      assert (Hv256 : v < 256).
      { apply Z.lt_le_trans with (2 ^ (l - f + 1)); [lia|]. change 256 with (2 ^ 8). apply Z.pow_le_mono_r; lia. }
      destruct (Z.ltb_spec 255 v) as [C|_]; [lia|].
      rewrite (skipn_cons_nth p off) by lia. cbn [bind]. do 2 f_equal.
      rewrite splice_single.
      apply splice_is_spec; [reflexivity|cbn [spec_size]; lia|exact Hp|].
      cbn [spec_size]. intros j Hj. assert (j = 0%nat) by lia. subst j. rewrite Nat.add_0_r. cbn [nth].
      split; [exact R|]. intros k Hk8. rewrite (B k Hk8). cbn [in_field field_bit]. rewrite Nat.eqb_refl. cbn [andb].
      destruct ((f <=? k) && (k <=? l)) eqn:A; [reflexivity|].
      cbn [known_write] in Hk. symmetry. apply (outside_bits_false f l _ Hk k Hk8 A).
Qed.

(* ------------------------------------------------------------------ shape of every write_value result *)

Lemma is_byteb_spec b : is_byteb b = true -> 0 <= b < 256.
Proof. unfold is_byteb. intros H. apply andb_prop in H. destruct H as [A B]. apply Z.leb_le in A. apply Z.ltb_lt in B. lia. Qed.

Lemma all_bytes_single y : 0 <= y < 256 -> all_bytes [y].
Proof. intros H. unfold all_bytes. constructor; [exact H|constructor]. Qed.

Lemma all_bytes_head x r : all_bytes (x :: r) -> 0 <= x < 256.
Proof. unfold all_bytes. intros H. inversion H. assumption. Qed.

Lemma write_value_shape dt v s : (dt_size dt <= length s)%nat ->
  write_value dt v s = Ok (false, s) \/
  exists data, length data = dt_size dt /\ write_value dt v s = Ok (true, data ++ skipn (dt_size dt) s) /\
               (dt_u8 dt = true -> all_bytes s -> all_bytes data).
Proof.
  intros Hs. pose proof (int_type_facts dt) as F.
  destruct (dt_int dt) as [[[n lo] hi]|] eqn:E.
  - destruct F as [Fn _]. rewrite dt_size_spec in *. subst n.
    rewrite (write_value_int dt _ lo hi v s E).
    destruct (Nat.ltb_spec (length s) (spec_size dt)) as [C|_]; [lia|].
    destruct ((lo <=? v) && (v <=? hi)); [right|left; reflexivity].
    exists (be_bytes (spec_size dt) v). split; [apply length_be_bytes|]. split; [reflexivity|].
    intros _ _. apply all_bytes_be_bytes.
  - destruct dt as [| | | | | |b|f l]; try contradiction; cbn [dt_size] in *; unfold write_value; cbn [dt_int].
    + destruct (Z.ltb_spec 7 b) as [_|Hb7]; [left; reflexivity|].
      destruct ((v =? 0) || (v =? 1)) eqn:Ev; [|left; reflexivity]. cbn [orb negb].
      destruct s as [|x r]; [cbn [length] in Hs; lia|]. right.
      exists [bit_byte b v x]. split; [reflexivity|]. split; [reflexivity|].
      intros Hu Hb. cbn [dt_u8] in Hu. apply is_byteb_spec in Hu. apply all_bytes_head in Hb.
      apply all_bytes_single.
      assert (Hv : v = 0 \/ v = 1).
      { apply orb_prop in Ev. destruct Ev as [A|A]; apply Z.eqb_eq in A; lia. }
      apply (bit_byte_spec b v x ltac:(lia) Hv Hb).
    + destruct ((l <? f) || (7 <? l)); [left; reflexivity|].
      destruct ((v <? 0) || (2 ^ (l - f + 1) <=? v)); [left; reflexivity|].
      destruct (255 <? v); [left; reflexivity|].
      destruct s as [|x r]; [cbn [length] in Hs; lia|]. right.
      exists [bitarea_byte f v]. split; [reflexivity|]. split; [reflexivity|].
      intros _ _. apply all_bytes_single. unfold bitarea_byte. apply Z.mod_pos_bound. lia.
Qed.

Lemma write_in_shape p off dt v : (off + dt_size dt <= length p)%nat ->
  write_in p off dt v = Ok (false, p) \/
  exists data, length data = dt_size dt /\ write_in p off dt v = Ok (true, splice p off data) /\
               (dt_u8 dt = true -> all_bytes p -> all_bytes data).
Proof.
  intros Hc. unfold write_in, slice_from.
  destruct (Nat.leb_spec off (length p)) as [_|C]; [|lia]. cbn [bind].
  destruct (write_value_shape dt v (skipn off p)) as [R|[data [HL [R HB]]]].
  - rewrite skipn_length. lia.
  - left. rewrite R. cbn [bind]. rewrite firstn_skipn. reflexivity.
  - right. exists data. split; [exact HL|]. split.
    + rewrite R. cbn [bind]. rewrite <- HL. rewrite firstn_skipn_splice by lia. reflexivity.
    + intros Hu Hp. apply HB; [exact Hu|].
      unfold all_bytes in *. rewrite <- (firstn_skipn off p) in Hp. apply Forall_app in Hp. apply Hp.
Qed.

(* consequences: no panic, length kept, bytes stay bytes *)
Lemma write_in_total p off dt v : (off + dt_size dt <= length p)%nat ->
  exists b p', write_in p off dt v = Ok (b, p') /\ length p' = length p /\
               (dt_u8 dt = true -> all_bytes p -> all_bytes p') /\ (b = false -> p' = p).
Proof.
  intros Hc. destruct (write_in_shape p off dt v Hc) as [R|[data [HL [R HB]]]].
  - exists false, p. repeat split; auto.
  - exists true, (splice p off data). split; [exact R|]. split; [apply length_splice; lia|]. split.
    + intros Hu Hp. apply all_bytes_splice; [lia|exact Hp|apply HB; assumption].
    + discriminate.
Qed.

(* outside the data type (or a data type that does not fit a byte): Err, slice untouched *)
Lemma write_value_reject dt v s : dt_u8 dt = true -> in_type_range dt v = false ->
  (dt_size dt <= length s)%nat -> write_value dt v s = Ok (false, s).
Proof.
  intros Hu Hr Hs. pose proof (int_type_facts dt) as F.
  destruct (dt_int dt) as [[[n lo] hi]|] eqn:E.
  - destruct F as [Fn [Fr _]]. rewrite dt_size_spec in *. subst n.
    rewrite (write_value_int dt _ lo hi v s E).
    destruct (Nat.ltb_spec (length s) (spec_size dt)) as [C|_]; [lia|].
    rewrite <- Fr, Hr. reflexivity.
  - destruct dt as [| | | | | |b|f l]; try contradiction; cbn [dt_size dt_u8] in *; unfold write_value; cbn [dt_int].
    + apply is_byteb_spec in Hu.
      destruct (Z.ltb_spec 7 b) as [_|Hb7]; [reflexivity|].
      destruct ((v =? 0) || (v =? 1)) eqn:Ev; [|reflexivity]. exfalso.
      assert (Hv : v = 0 \/ v = 1).
      { apply orb_prop in Ev. destruct Ev as [A|A]; apply Z.eqb_eq in A; lia. }
      assert (T : in_type_range (DtBit b) v = true).
      { cbn [in_type_range]. unfold zrange. repeat (apply andb_true_intro; split); apply Z.leb_le; lia. }
      congruence.
    + apply andb_prop in Hu. destruct Hu as [Hf Hl]. apply is_byteb_spec in Hf. apply is_byteb_spec in Hl.
      destruct (Z.ltb_spec l f) as [_|H1]; [reflexivity|].
      destruct (Z.ltb_spec 7 l) as [_|H2]; [reflexivity|]. cbn [orb].
      destruct (Z.ltb_spec v 0) as [_|H3]; [reflexivity|].
      destruct (Z.leb_spec (2 ^ (l - f + 1)) v) as [_|H4]; [reflexivity|]. cbn [orb]. exfalso.
      assert (T : in_type_range (DtBitArea f l) v = true).
      { cbn [in_type_range]. repeat (apply andb_true_intro; split); try (apply Z.leb_le; lia). apply Z.ltb_lt. lia. }
      congruence.
Qed.

Lemma write_in_reject p off dt v : dt_u8 dt = true -> in_type_range dt v = false ->
  (off + dt_size dt <= length p)%nat -> write_in p off dt v = Ok (false, p).
Proof.
  intros Hu Hr Hc. unfold write_in, slice_from.
  destruct (Nat.leb_spec off (length p)) as [_|C]; [|lia]. cbn [bind].
  rewrite (write_value_reject dt v (skipn off p) Hu Hr) by (rewrite skipn_length; lia).
  cbn [bind]. rewrite firstn_skipn. reflexivity.
Qed.

(* ------------------------------------------------------------------ set_prm / set_prm_from_text *)

Lemma find_ref_in rs name off def : find_ref rs name = Some (off, def) -> In (off, def) rs /\ d_name def = name.
Proof.
  induction rs as [|[o d] rs IH]; cbn [find_ref]; [discriminate|].
  destruct (Z.eqb_spec (d_name d) name) as [E|N]; intros H.
  - inversion H; subst. split; [left; reflexivity|reflexivity].
  - destruct (IH H) as [A B]. split; [right; exact A|exact B].
Qed.

Lemma covers_in rs p off def : covers rs p = true -> In (off, def) rs -> (off + dt_size (d_type def) <= length p)%nat.
Proof.
  unfold covers. rewrite forallb_forall. intros H I. specialize (H (off, def) I). cbn [fst snd] in H.
  apply Nat.leb_le in H. exact H.
Qed.

Lemma wf_refs_in rs off def : wf_refs rs = true -> In (off, def) rs -> dt_u8 (d_type def) = true.
Proof. unfold wf_refs. rewrite forallb_forall. intros H I. apply (H (off, def) I). Qed.

Lemma covers_length rs p p' : length p' = length p -> covers rs p' = covers rs p.
Proof. intros H. unfold covers. rewrite H. reflexivity. Qed.

Lemma write_constrained_unfold def p off v :
  write_constrained def p off v =
  let* _ := slice_from p off in
  if negb (constraint_valid (d_constraint def) v) then Ok (SErr EConstraint, p)
  else let* (ok, p') := write_in p off (d_type def) v in Ok (if ok then SOk else SErr ERange, p').
Proof.
  unfold write_constrained, write_in. destruct (slice_from p off) as [s| |]; cbn [bind]; try reflexivity.
  destruct (negb (constraint_valid (d_constraint def) v)); [reflexivity|].
  destruct (write_value (d_type def) v s) as [[ok s']| |]; reflexivity.
Qed.

Lemma slice_from_ok p off : (off <= length p)%nat -> slice_from p off = Ok (skipn off p).
Proof. intros H. unfold slice_from. destruct (Nat.leb_spec off (length p)) as [_|C]; [reflexivity|lia]. Qed.

(* accepted value: exactly the field's bits *)
Lemma write_constrained_accept def p off v :
  (off + dt_size (d_type def) <= length p)%nat -> all_bytes p ->
  constraint_valid (d_constraint def) v = true -> in_type_range (d_type def) v = true ->
  known_write off (d_type def) p = false ->
  write_constrained def p off v = Ok (SOk, spec_write off (d_type def) v p).
Proof.
  intros Hc Hp Hv Hr Hk. rewrite write_constrained_unfold, slice_from_ok by lia. cbn [bind].
  rewrite Hv. cbn [negb]. rewrite (write_in_ok p off _ v Hc Hp Hr Hk). reflexivity.
Qed.

Lemma write_constrained_reject def p off v :
  (off + dt_size (d_type def) <= length p)%nat -> dt_u8 (d_type def) = true ->
  constraint_valid (d_constraint def) v && in_type_range (d_type def) v = false ->
  exists e, write_constrained def p off v = Ok (SErr e, p).
Proof.
  intros Hc Hu H. rewrite write_constrained_unfold, slice_from_ok by lia. cbn [bind].
  destruct (constraint_valid (d_constraint def) v); cbn [negb andb] in *.
  - rewrite (write_in_reject p off _ v Hu H Hc). cbn [bind]. exists ERange. reflexivity.
  - exists EConstraint. reflexivity.
Qed.

(* every call: no panic, block keeps its length and stays a byte string; Err leaves it untouched *)
Lemma write_constrained_total def p off v :
  (off + dt_size (d_type def) <= length p)%nat ->
  exists r p', write_constrained def p off v = Ok (r, p') /\ length p' = length p /\
               (dt_u8 (d_type def) = true -> all_bytes p -> all_bytes p') /\ (r <> SOk -> p' = p).
Proof.
  intros Hc. rewrite write_constrained_unfold, slice_from_ok by lia. cbn [bind].
  destruct (negb (constraint_valid (d_constraint def) v)).
  - exists (SErr EConstraint), p. repeat split; auto.
  - destruct (write_in_total p off (d_type def) v Hc) as [b [p' [R [HL [HB HU]]]]].
    rewrite R. cbn [bind]. exists (if b then SOk else SErr ERange), p'. repeat split; auto.
    intros N. apply HU. destruct b; [contradiction|reflexivity].
Qed.

Lemma expect_value_accept off def v off' dt v' : expect_value off def v = ExpAccept off' dt v' ->
  off' = off /\ dt = d_type def /\ v' = v /\
  constraint_valid (d_constraint def) v = true /\ in_type_range (d_type def) v = true.
Proof.
  unfold expect_value. destruct (constraint_valid (d_constraint def) v && in_type_range (d_type def) v) eqn:E; [|discriminate].
  intros H. inversion H; subst. apply andb_prop in E. tauto.
Qed.

Lemma expect_value_reject off def v : expect_value off def v = ExpReject ->
  constraint_valid (d_constraint def) v && in_type_range (d_type def) v = false.
Proof.
  unfold expect_value. destruct (constraint_valid (d_constraint def) v && in_type_range (d_type def) v); [discriminate|reflexivity].
Qed.

Lemma step_accept d p o off dt v :
  spec_expect d o = ExpAccept off dt v -> covers (refs d) p = true -> all_bytes p ->
  known_write off dt p = false ->
  step d p o = Ok (SOk, spec_write off dt v p).
Proof.
  intros He Hc Hp Hk.
  destruct o as [n x|n t]; cbn [spec_expect step] in *; unfold set_prm, set_prm_from_text.
  - destruct (find_ref (refs d) n) as [[o def]|] eqn:Ef; [|discriminate].
    apply expect_value_accept in He. destruct He as [-> [-> [-> [Hv Hr]]]].
    apply find_ref_in in Ef. destruct Ef as [I _].
    apply write_constrained_accept; try assumption. apply (covers_in _ _ _ _ Hc I).
  - destruct (find_ref (refs d) n) as [[o def]|] eqn:Ef; [|discriminate].
    destruct (d_texts def) as [texts|]; [|discriminate].
    destruct (assoc texts t) as [x|]; [|discriminate].
    apply expect_value_accept in He. destruct He as [-> [-> [-> [Hv Hr]]]].
    apply find_ref_in in Ef. destruct Ef as [I _].
    apply write_constrained_accept; try assumption. apply (covers_in _ _ _ _ Hc I).
Qed.

Lemma step_reject d p o :
  spec_expect d o = ExpReject -> covers (refs d) p = true -> wf_refs (refs d) = true ->
  exists e, step d p o = Ok (SErr e, p).
Proof.
  intros He Hc Hw.
  destruct o as [n x|n t]; cbn [spec_expect step] in *; unfold set_prm, set_prm_from_text.
  - destruct (find_ref (refs d) n) as [[o def]|] eqn:Ef; [|exists ENotFound; reflexivity].
    apply find_ref_in in Ef. destruct Ef as [I _].
    apply write_constrained_reject; [apply (covers_in _ _ _ _ Hc I)|apply (wf_refs_in _ _ _ Hw I)|apply (expect_value_reject o def x He)].
  - destruct (find_ref (refs d) n) as [[o def]|] eqn:Ef; [|exists ENotFound; reflexivity].
    destruct (d_texts def) as [texts|]; [|exists EWithoutTexts; reflexivity].
    destruct (assoc texts t) as [x|]; [|exists ETextNotFound; reflexivity].
    apply find_ref_in in Ef. destruct Ef as [I _].
    apply write_constrained_reject; [apply (covers_in _ _ _ _ Hc I)|apply (wf_refs_in _ _ _ Hw I)|apply (expect_value_reject o def x He)].
Qed.

Lemma step_total d p o : covers (refs d) p = true ->
  exists r p', step d p o = Ok (r, p') /\ length p' = length p /\
               (wf_refs (refs d) = true -> all_bytes p -> all_bytes p') /\ (r <> SOk -> p' = p).
Proof.
  intros Hc.
  assert (Triv : forall e, exists r p', Ok (SErr e, p) = Ok (r, p') /\ length p' = length p /\
               (wf_refs (refs d) = true -> all_bytes p -> all_bytes p') /\ (r <> SOk -> p' = p)).
  { intros e. exists (SErr e), p. repeat split; auto. }
  assert (W : forall off def v, In (off, def) (refs d) ->
            exists r p', write_constrained def p off v = Ok (r, p') /\ length p' = length p /\
               (wf_refs (refs d) = true -> all_bytes p -> all_bytes p') /\ (r <> SOk -> p' = p)).
  { intros off def v I.
    destruct (write_constrained_total def p off v (covers_in _ _ _ _ Hc I)) as [r [p' [R [HL [HB HU]]]]].
    exists r, p'. repeat split; auto. intros Hw. apply HB. apply (wf_refs_in _ _ _ Hw I). }
  destruct o as [n x|n t]; cbn [step]; unfold set_prm, set_prm_from_text.
  - destruct (find_ref (refs d) n) as [[o def]|] eqn:Ef; [|apply Triv].
    apply find_ref_in in Ef. destruct Ef as [I _]. apply W. exact I.
  - destruct (find_ref (refs d) n) as [[o def]|] eqn:Ef; [|apply Triv].
    destruct (d_texts def) as [texts|]; [|apply Triv].
    destruct (assoc texts t) as [x|]; [|apply Triv].
    apply find_ref_in in Ef. destruct Ef as [I _]. apply W. exact I.
Qed.

(* bit-level reading of spec_write *)
Lemma spec_write_bits off dt v p :
  length (spec_write off dt v p) = length p /\ all_bytes (spec_write off dt v p) /\
  forall i k, (i < length p)%nat -> 0 <= k < 8 ->
    Z.testbit (nth i (spec_write off dt v p) 0) k =
    if in_field off dt i k then field_bit off dt v i k else Z.testbit (nth i p 0) k.
Proof.
  unfold spec_write. split; [apply length_mapi_from|]. split.
  - apply all_bytes_nth. intros i Hi. rewrite length_mapi_from in Hi. rewrite nth_mapi_from by exact Hi.
    unfold spec_byte, is_byte. apply byte_of_bits_range.
  - intros i k Hi Hk. rewrite nth_mapi_from by exact Hi. cbn [Nat.add]. unfold spec_byte.
    rewrite testbit_byte_of_bits by exact Hk. reflexivity.
Qed.

(* ------------------------------------------------------------------ new() *)

Lemma write_consts_lay : forall cs p, write_consts cs p = Ok (lay_consts cs p).
Proof.
  induction cs as [|[off data] cs IH]; intros p; cbn [write_consts lay_consts fold_left]; [reflexivity|].
  cbn [fst snd].
  destruct (Nat.leb_spec (off + length data) (length (grow p (off + length data)))) as [_|C].
  - apply IH.
  - rewrite length_grow in C. lia.
Qed.

Lemma all_bytes_lay : forall cs p, wf_consts cs = true -> all_bytes p -> all_bytes (lay_consts cs p).
Proof.
  induction cs as [|[off data] cs IH]; intros p Hw Hp; cbn [lay_consts fold_left]; [exact Hp|].
  cbn [wf_consts forallb snd] in Hw. apply andb_prop in Hw. destruct Hw as [Hd Hw].
  apply IH; [exact Hw|]. cbn [fst snd].
  apply all_bytes_splice.
  - rewrite length_grow. lia.
  - apply all_bytes_grow. exact Hp.
  - unfold all_bytes, all_bytesb in *. apply Forall_forall. intros x Hx.
    rewrite forallb_forall in Hd. apply is_byteb_spec. apply Hd. exact Hx.
Qed.

Lemma write_defaults_overlay : forall rs p, wf_refs rs = true -> all_bytes p -> known_refs rs p = false ->
  write_defaults rs p = Ok (overlay_refs rs p).
Proof.
  induction rs as [|[off d] rs IH]; intros p Hw Hp Hk; cbn [write_defaults overlay_refs]; [reflexivity|].
  cbn [wf_refs forallb snd] in Hw. apply andb_prop in Hw. destruct Hw as [Hu Hw].
  cbn [known_refs] in Hk. apply orb_false_elim in Hk. destruct Hk as [Hk1 Hk2].
  rewrite <- dt_size_spec in *.
  set (p1 := grow p (off + dt_size (d_type d))) in *.
  assert (Hc : (off + dt_size (d_type d) <= length p1)%nat) by (unfold p1; rewrite length_grow; lia).
  assert (Hp1 : all_bytes p1) by (apply all_bytes_grow; exact Hp).
  destruct (in_type_range (d_type d) (d_default d)) eqn:Hr.
  - rewrite (write_in_ok p1 off _ _ Hc Hp1 Hr Hk1). cbn [bind].
    apply IH; [exact Hw| |exact Hk2]. apply spec_write_bits.
  - rewrite (write_in_reject p1 off _ _ Hu Hr Hc). reflexivity.
Qed.

Lemma new_is_overlay d : wf_desc d = true -> known_new d = false -> prm_new d = Ok (overlay d).
Proof.
  intros Hw Hk. unfold wf_desc in Hw. apply andb_prop in Hw. destruct Hw as [Hwc Hwr].
  unfold prm_new, overlay. rewrite write_consts_lay. cbn [bind].
  apply write_defaults_overlay; [exact Hwr| |exact Hk].
  apply all_bytes_lay; [exact Hwc|constructor].
Qed.

Lemma covers_mono rs p p' : (length p <= length p')%nat -> covers rs p = true -> covers rs p' = true.
Proof.
  intros HL. unfold covers. rewrite !forallb_forall. intros H x Hx. specialize (H x Hx).
  apply Nat.leb_le in H. apply Nat.leb_le. lia.
Qed.

Lemma write_defaults_total : forall rs p,
  exists r, write_defaults rs p = Ok r /\
            forall p', r = Some p' -> (length p <= length p')%nat /\ covers rs p' = true /\
                                      (wf_refs rs = true -> all_bytes p -> all_bytes p').
Proof.
  induction rs as [|[off d] rs IH]; intros p; cbn [write_defaults].
  - exists (Some p). split; [reflexivity|]. intros p' E. inversion E; subst. repeat split; auto.
  - set (p1 := grow p (off + dt_size (d_type d))).
    assert (Hc : (off + dt_size (d_type d) <= length p1)%nat) by (unfold p1; rewrite length_grow; lia).
    assert (HL1 : (length p <= length p1)%nat) by (unfold p1; rewrite length_grow; lia).
    destruct (write_in_total p1 off (d_type d) (d_default d) Hc) as [b [p2 [R [HL [HB _]]]]].
    rewrite R. cbn [bind]. destruct b.
    + destruct (IH p2) as [r [Rr Hr]]. exists r. split; [exact Rr|].
      intros p' E. destruct (Hr p' E) as [A [B C]]. split; [lia|]. split.
      * cbn [covers forallb fst snd]. fold (covers rs p'). rewrite B.
        destruct (Nat.leb_spec (off + dt_size (d_type d)) (length p')) as [_|X]; [reflexivity|lia].
      * intros Hw Hp. cbn [wf_refs forallb snd] in Hw. apply andb_prop in Hw. destruct Hw as [Hu Hw].
        apply C; [exact Hw|]. apply HB; [exact Hu|]. apply all_bytes_grow. exact Hp.
    + exists None. split; [reflexivity|]. intros p' E. discriminate.
Qed.

Lemma prm_new_total d :
  exists r, prm_new d = Ok r /\
            forall p, r = Some p -> covers (refs d) p = true /\ (wf_desc d = true -> all_bytes p).
Proof.
  unfold prm_new. rewrite write_consts_lay. cbn [bind].
  destruct (write_defaults_total (refs d) (lay_consts (consts d) [])) as [r [R H]].
  exists r. split; [exact R|]. intros p E. destruct (H p E) as [_ [B C]]. split; [exact B|].
  intros Hw. unfold wf_desc in Hw. apply andb_prop in Hw. destruct Hw as [Hwc Hwr].
  apply C; [exact Hwr|]. apply all_bytes_lay; [exact Hwc|constructor].
Qed.

(* ------------------------------------------------------------------ call sequences *)

Lemma run_total d : forall ops p, covers (refs d) p = true -> exists l, run d p ops = Ok l.
Proof.
  induction ops as [|o ops IH]; intros p Hc; cbn [run]; [exists []; reflexivity|].
  destruct (step_total d p o Hc) as [r [p' [R [HL _]]]]. rewrite R. cbn [bind].
  destruct (IH p') as [l Rl]; [rewrite (covers_length _ _ _ HL); exact Hc|].
  rewrite Rl. cbn [bind]. exists ((r, p') :: l). reflexivity.
Qed.

Lemma no_panic d ops :
  match prm_new d with
  | Ok None => True
  | Ok (Some p) => exists l, run d p ops = Ok l
  | _ => False
  end.
Proof.
  destruct (prm_new_total d) as [r [R H]]. rewrite R. destruct r as [p|]; [|exact I].
  destruct (H p eq_refl) as [Hc _]. apply run_total. exact Hc.
Qed.

Lemma trace_ok d : wf_refs (refs d) = true -> forall ops p, covers (refs d) p = true -> all_bytes p ->
  exists l, run d p ops = Ok l /\ c20_trace_ok d p ops l = true.
Proof.
  intros Hw. induction ops as [|o ops IH]; intros p Hc Hp; cbn [run]; [exists []; split; reflexivity|].
  destruct (step_total d p o Hc) as [r [p' [R [HL [HB _]]]]]. rewrite R. cbn [bind].
  destruct (IH p') as [l [Rl Tl]]; [rewrite (covers_length _ _ _ HL); exact Hc|apply HB; assumption|].
  rewrite Rl. cbn [bind]. exists ((r, p') :: l). split; [reflexivity|].
  cbn [c20_trace_ok]. rewrite Tl, andb_true_r.
  unfold c20_step_known, c20_step_ok.
  destruct (spec_expect d o) as [off dt v|] eqn:He.
  - destruct (known_write off dt p) eqn:Hk; [reflexivity|]. cbn [orb].
    rewrite (step_accept d p o off dt v He Hc Hp Hk) in R. inversion R; subst.
    cbn [accepted_of andb]. apply bytes_eqb_refl.
  - cbn [orb]. destruct (step_reject d p o He Hc Hw) as [e Re]. rewrite Re in R. inversion R; subst.
    cbn [accepted_of negb andb]. apply bytes_eqb_refl.
Qed.

(* ------------------------------------------------------------------ signed types *)

Lemma signed_range v s :
  ((1 <= length s)%nat -> exists s', write_value DtSigned8 v s = Ok (zrange (-128) 127 v, s')) /\
  ((2 <= length s)%nat -> exists s', write_value DtSigned16 v s = Ok (zrange (-32768) 32767 v, s')) /\
  ((4 <= length s)%nat -> exists s', write_value DtSigned32 v s = Ok (zrange (-2147483648) 2147483647 v, s')).
Proof.
  repeat split; intros H; unfold write_value; cbn [dt_int];
    match goal with |- context [Nat.ltb ?a ?b] => destruct (Nat.ltb_spec a b) as [C|_]; [lia|] end;
    unfold zrange;
    match goal with |- context [if ?c then _ else _] => destruct c end; eexists; reflexivity.
Qed.

(* a value of the data type is accepted (whatever the slice holds) *)
Lemma write_value_accepts dt v s : in_type_range dt v = true -> (dt_size dt <= length s)%nat ->
  exists s', write_value dt v s = Ok (true, s').
Proof.
  intros Hr Hs. pose proof (int_type_facts dt) as F.
  destruct (dt_int dt) as [[[n lo] hi]|] eqn:E.
  - destruct F as [Fn [Fr _]]. rewrite dt_size_spec in *. subst n.
    rewrite (write_value_int dt _ lo hi v s E).
    destruct (Nat.ltb_spec (length s) (spec_size dt)) as [C|_]; [lia|].
    rewrite <- Fr, Hr. eexists; reflexivity.
  - destruct dt as [| | | | | |b|f l]; try contradiction; cbn [dt_size] in *; unfold write_value; cbn [dt_int];
      (destruct s as [|x r]; [cbn [length] in Hs; lia|]).
    + cbn [in_type_range] in Hr. unfold zrange in Hr.
      apply andb_prop in Hr. destruct Hr as [Hb Hv].
      apply andb_prop in Hb. destruct Hb as [Hb0 Hb7]. apply Z.leb_le in Hb0. apply Z.leb_le in Hb7.
      apply andb_prop in Hv. destruct Hv as [Hv0 Hv1]. apply Z.leb_le in Hv0. apply Z.leb_le in Hv1.
      destruct (Z.ltb_spec 7 b) as [C|_]; [lia|].
      assert (Ev : (v =? 0) || (v =? 1) = true).
      { destruct (Z.eqb_spec v 0) as [|N0]; [reflexivity|]. destruct (Z.eqb_spec v 1) as [|N1]; [reflexivity|lia]. }
      rewrite Ev. cbn [orb negb]. eexists; reflexivity.
    + cbn [in_type_range] in Hr.
      apply andb_prop in Hr. destruct Hr as [Hr Hv2]. apply andb_prop in Hr. destruct Hr as [Hr Hv0].
      apply andb_prop in Hr. destruct Hr as [Hr Hl7]. apply andb_prop in Hr. destruct Hr as [Hf0 Hfl].
      apply Z.leb_le in Hf0. apply Z.leb_le in Hfl. apply Z.leb_le in Hl7. apply Z.leb_le in Hv0. apply Z.ltb_lt in Hv2.
      destruct (Z.ltb_spec l f) as [C|_]; [lia|]. destruct (Z.ltb_spec 7 l) as [C|_]; [lia|]. cbn [orb].
      destruct (Z.ltb_spec v 0) as [C|_]; [lia|]. destruct (Z.leb_spec (2 ^ (l - f + 1)) v) as [C|_]; [lia|]. cbn [orb].
      assert (Hv256 : v < 256).
      { apply Z.lt_le_trans with (2 ^ (l - f + 1)); [lia|]. change 256 with (2 ^ 8). apply Z.pow_le_mono_r; lia. }
      destruct (Z.ltb_spec 255 v) as [C|_]; [lia|]. eexists; reflexivity.
Qed.

(* write_value_to_slice accepts exactly the values of the data type *)
Lemma type_range_exact dt v s : dt_u8 dt = true -> (dt_size dt <= length s)%nat ->
  exists s', write_value dt v s = Ok (in_type_range dt v, s').
Proof.
  intros Hu Hs. destruct (in_type_range dt v) eqn:Hr.
  - apply write_value_accepts; assumption.
  - exists s. apply write_value_reject; assumption.
Qed.

(* ------------------------------------------------------------------ set_frame with the bit-level reading *)

Lemma set_frame d p o off dt v :
  spec_expect d o = ExpAccept off dt v -> covers (refs d) p = true -> all_bytes p ->
  known_write off dt p = false ->
  exists p', step d p o = Ok (SOk, p') /\ length p' = length p /\ all_bytes p' /\
    forall i k, (i < length p)%nat -> 0 <= k < 8 ->
      Z.testbit (nth i p' 0) k = if in_field off dt i k then field_bit off dt v i k else Z.testbit (nth i p 0) k.
Proof.
  intros He Hc Hp Hk. exists (spec_write off dt v p). split; [apply step_accept; assumption|].
  apply spec_write_bits.
Qed.

Lemma rejects_unchanged d p o :
  wf_refs (refs d) = true -> covers (refs d) p = true ->
  (spec_expect d o = ExpReject -> exists e, step d p o = Ok (SErr e, p)) /\
  (forall e p', step d p o = Ok (SErr e, p') -> p' = p).
Proof.
  intros Hw Hc. split.
  - intros He. apply step_reject; assumption.
  - intros e p' R. destruct (step_total d p o Hc) as [r [p2 [R2 [_ [_ HU]]]]].
    rewrite R in R2. inversion R2; subst. apply HU. discriminate.
Qed.

Lemma history d ops p0 : wf_desc d = true -> prm_new d = Ok (Some p0) ->
  exists l, run d p0 ops = Ok l /\ c20_trace_ok d p0 ops l = true.
Proof.
  intros Hw R. destruct (prm_new_total d) as [r [R' H]]. rewrite R in R'. inversion R'; subst.
  destruct (H p0 eq_refl) as [Hc Hb].
  unfold wf_desc in Hw. pose proof Hw as Hw'. apply andb_prop in Hw'. destruct Hw' as [_ Hwr].
  apply trace_ok; [exact Hwr|exact Hc|apply Hb; exact Hw].
Qed.

(* ------------------------------------------------------------------ the known finding F9 *)

(* const 0xAA, Bit(0) = 1, BitArea(1-2) = 1 in one byte *)
Definition f9_witness : desc :=
  mkDesc [(0%nat, [170])]
         [(0%nat, mkDef 1 (DtBit 0) 1 CUnconstrained None);
          (0%nat, mkDef 2 (DtBitArea 1 2) 1 CUnconstrained None)].

Lemma bitarea_refuted :
  wf_desc f9_witness = true /\ known_new f9_witness = true /\
  prm_new f9_witness = Ok (Some [2]) /\ overlay f9_witness = Some [171].
Proof. vm_compute. repeat split; reflexivity. Qed.

(* the layout of gsd-parser/tests/data/mock.gsd: Bit(0) and BitArea(1-2) at offset 5 over zero constants *)
Definition f9_mock : desc :=
  mkDesc [(0%nat, [0; 0; 0; 0; 0; 0; 0; 0; 0; 0; 0; 255])]
         [(5%nat, mkDef 1 (DtBit 0) 0 (CMinMax 0 1) (Some [(0, 0); (1, 1)]));
          (5%nat, mkDef 2 (DtBitArea 1 2) 0 (CMinMax 0 3) (Some [(0, 0); (1, 1); (2, 2); (3, 3)]))].

Lemma bitarea_refuted_mock :
  let p1 := [0; 0; 0; 0; 0; 1; 0; 0; 0; 0; 0; 255] in
  wf_desc f9_mock = true /\ covers (refs f9_mock) p1 = true /\
  spec_expect f9_mock (OpText 2 1) = ExpAccept 5%nat (DtBitArea 1 2) 1 /\
  known_write 5%nat (DtBitArea 1 2) p1 = true /\
  step f9_mock p1 (OpText 2 1) = Ok (SOk, [0; 0; 0; 0; 0; 2; 0; 0; 0; 0; 0; 255]) /\
  spec_write 5%nat (DtBitArea 1 2) 1 p1 = [0; 0; 0; 0; 0; 3; 0; 0; 0; 0; 0; 255].
Proof. vm_compute. repeat split; reflexivity. Qed.

(* hence the frame law without the known-class exclusion is false of the code *)
Lemma set_frame_unrestricted_refuted :
  ~ (forall d p o off dt v, wf_desc d = true -> spec_expect d o = ExpAccept off dt v ->
       covers (refs d) p = true -> all_bytes p -> step d p o = Ok (SOk, spec_write off dt v p)).
Proof.
  intros H. destruct bitarea_refuted_mock as [Hw [Hc [He [_ [Hs Hx]]]]].
  specialize (H f9_mock _ (OpText 2 1) _ _ _ Hw He Hc).
  rewrite Hs, Hx in H.
  assert (A : all_bytes [0; 0; 0; 0; 0; 1; 0; 0; 0; 0; 0; 255]).
  { unfold all_bytes, is_byte. repeat constructor; lia. }
  specialize (H A). discriminate H.
Qed.
