(* Finite sweeps over 0..255 lifted to universally quantified byte facts. *)
From PB Require Import Common.

Definition range256 : list Z := map Z.of_nat (seq 0 256).

Lemma in_range256 b : 0 <= b < 256 -> In b range256.
Proof.
  intros H. unfold range256. apply in_map_iff. exists (Z.to_nat b). split.
  - apply Z2Nat.id; lia.
  - apply in_seq. lia.
Qed.

Lemma sweep256 (P : Z -> bool) : forallb P range256 = true -> forall b, 0 <= b < 256 -> P b = true.
Proof. intros H b Hb. rewrite forallb_forall in H. apply H, in_range256, Hb. Qed.

Lemma lor128 b : 0 <= b < 128 -> Z.lor b 128 = b + 128.
Proof.
  intros H.
  pose proof (sweep256 (fun b => implb (b <? 128) (Z.lor b 128 =? b + 128)) eq_refl b ltac:(lia)) as S.
  cbv beta in S. destruct (Z.ltb_spec b 128) as [_|Hge]; [|lia]. apply Z.eqb_eq, S.
Qed.

Lemma lor0 b : 0 <= b -> Z.lor b 0 = b.
Proof. intros _. apply Z.lor_0_r. Qed.

Lemma land128_test b : 0 <= b < 256 -> (Z.land b 128 =? 0) = (b <? 128).
Proof.
  intros H.
  pose proof (sweep256 (fun b => Bool.eqb (Z.land b 128 =? 0) (b <? 128)) eq_refl b H) as S.
  cbv beta in S. apply Bool.eqb_prop in S. exact S.
Qed.

Lemma land127 b : 0 <= b < 256 -> Z.land b 127 = b mod 128.
Proof.
  intros H.
  pose proof (sweep256 (fun b => Z.land b 127 =? b mod 128) eq_refl b H) as S.
  apply Z.eqb_eq, S.
Qed.

Lemma sum8_range l : 0 <= sum8 l < 256.
Proof.
  unfold sum8. assert (G : forall a, 0 <= a < 256 -> 0 <= fold_left (fun acc b => (acc + b) mod 256) l a < 256).
  { induction l as [|x l IH]; cbn [fold_left]; intros a Ha; [exact Ha|]. apply IH. apply Z.mod_pos_bound. lia. }
  apply G. lia.
Qed.

(* ------------------------------------------------------------- lists *)

Lemma firstn_app_exact {A} (a b : list A) n : n = length a -> firstn n (a ++ b) = a.
Proof. intros ->. rewrite firstn_app, Nat.sub_diag, firstn_O, firstn_all, app_nil_r. reflexivity. Qed.

Lemma skipn_app_exact {A} (a b : list A) n : n = length a -> skipn n (a ++ b) = b.
Proof. intros ->. rewrite skipn_app, Nat.sub_diag, skipn_all. reflexivity. Qed.


Lemma skipn_skipn' {A} (l : list A) : forall x y, skipn x (skipn y l) = skipn (y + x) l.
Proof.
  induction l as [|a l IH]; intros x y.
  - rewrite !skipn_nil. reflexivity.
  - destruct y as [|y]; [reflexivity|]. cbn [skipn Nat.add]. apply IH.
Qed.


Lemma nth_error_app_exact {A} (a b : list A) x n : n = length a -> nth_error (a ++ x :: b) n = Some x.
Proof. intros ->. rewrite nth_error_app2 by lia. rewrite Nat.sub_diag. reflexivity. Qed.

Lemma nth_error_app_exact1 {A} (a b : list A) x y n : n = (length a + 1)%nat -> nth_error (a ++ x :: y :: b) n = Some y.
Proof. intros ->. rewrite nth_error_app2 by lia. replace (length a + 1 - length a)%nat with 1%nat by lia. reflexivity. Qed.

Lemma get_app_exact (a b : bytes) x n : n = length a -> get (a ++ x :: b) n = Ok x.
Proof. intros H. unfold get. rewrite (nth_error_app_exact a b x n H). reflexivity. Qed.

Lemma get_app_exact1 (a b : bytes) x y n : n = (length a + 1)%nat -> get (a ++ x :: y :: b) n = Ok y.
Proof. intros H. unfold get. rewrite (nth_error_app_exact1 a b x y n H). reflexivity. Qed.

Lemma slice_to_app_exact (a b : bytes) n : n = length a -> slice_to (a ++ b) n = Ok a.
Proof.
  intros ->. unfold slice_to. rewrite app_length.
  destruct (Nat.leb_spec (length a) (length a + length b)) as [_|H]; [|lia].
  rewrite firstn_app_exact by reflexivity. reflexivity.
Qed.

