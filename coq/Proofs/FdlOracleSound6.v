(* FDL oracle soundness, part 6: what the monitors decode from the transmission of a poll; the rule groups of
   C12 that concern the GAP requests (gap_poll_outside_gap, two_gap_polls_per_visit) and the status replies. *)
From Coq Require Import Arith.
From PB Require Import Common Tables FdlTables Telegram Phy TokenRing Params Fdl FdlOracle FdlProofs FdlStepProofs.
From PB Require Import C05Proofs C01Proofs C11Proofs C15Proofs C13Proofs C12Proofs.
From PB Require Import FdlOracleSound1 FdlOracleSound2 FdlOracleSound3 FdlOracleSound4 FdlOracleSound5.

Section TxDecode.
Variable A : Type.
Variable ops : app_ops A.
Hypothesis Hdata : app_sends_data A ops.

(* the transmission of a poll, as the monitors decode it *)
Inductive txd (f f' : fdl) (now : Z) (calls : list call) (wire : bytes) : Prop :=
| TxdApp h pdu : decode_one wire = Some (TData h pdu) ->
    (exists cs i hp er, calls = cs ++ [CallTransmit i hp (Some (wire, er))]) ->
    in_use (f_state f) -> in_use (f_state f') -> txd f f' now calls wire
| TxdToken da : wire = encode_token da (ts f) -> decode_one wire = Some (TToken da (ts f)) ->
    quiet_calls f [] calls -> tx_token f f' now wire -> txd f f' now calls wire
| TxdGap a : wire = sr_wire a (ts f) -> decode_one wire = Some (TData (status_request_header a (ts f)) []) ->
    quiet_calls f [] calls -> tx_gap f f' wire -> 0 <= a < p_hsa (f_p f) -> a <> ts f ->
    in_gap (ts f) (r_ns (f_ring f)) a -> f_gap f' = GapDoPoll a ->
    ((f_state f' = AwaitStatusResponse a /\ gap_origin (f_state f)) \/
     (f_state f' = ClaimToken (StepScanAwaitResponse a) /\ kind_of (f_state f) = KClaimToken)) ->
    txd f f' now calls wire
| TxdReply src st : wire = reply_wire src (ts f) st ->
    decode_one wire = Some (TData (status_response_header src (ts f) st status_reply_status) []) ->
    calls = [] -> reply_sent f f' src st -> txd f f' now calls wire.

Lemma sr_wire_inj a b t : sr_wire a t = sr_wire b t -> a = b.
Proof. unfold sr_wire. cbn. intros H. injection H as H _. lia. Qed.

Lemma poll_txd n f now pin (apps : list A) f' o apps' calls wire :
  poll ops f now pin apps = Ok (f', o, apps', calls) -> tx o = Some wire -> Rep n f ->
  txd f f' now calls wire.
Proof.
  intros E Etx R. pose proof (Rep_ts _ _ R) as Hts.
  destruct (poll_transmissions A ops _ _ _ _ _ _ _ _ _ E Etx) as [(cs & i & hp & er & Hcs & Hu & Hu')|(Hq & [Htok|[Hgap|Hrep]])].
  - destruct (app_wire_is_data A ops Hdata _ _ _ _ _ _ _ _ _ _ _ _ _ E Hcs) as (h & pdu & Hd).
    eapply TxdApp; eauto.
  - pose proof Htok as (da & Hw & _). eapply (TxdToken _ _ _ _ _ da); [exact Hw|rewrite Hw; apply decode_one_token|exact Hq|exact Htok].
  - pose proof Hgap as (a & Hw & Hin & Hrng & Hring & Hg' & Hst).
    assert (Hco : gap_cursor_ok f).
    { split; [lia|]. intros c Ec. pose proof (rep_gap _ _ R) as G. rewrite Ec in G. exact G. }
    specialize (Hrng Hco).
    assert (Hne : a <> ts f) by (eapply in_gap_not_self; exact Hin).
    assert (Hwf : wf_header (status_request_header a (ts f))) by (unfold wf_header, is_addr7; cbn; lia).
    eapply (TxdGap _ _ _ _ _ a); try eassumption.
    + rewrite Hw. unfold sr_wire. apply (decode_one_data _ [] Hwf). cbn. lia.
    + destruct Hst as [(S1 & S2)|(S1 & S2)]; [left; split; assumption|right; split; [exact S1|]].
      destruct S2 as [-> |(a0 & ->)]; reflexivity.
  - pose proof Hrep as (src & st & Hw & Hrs).
    assert (Hsrc : 0 <= src < 128).
    { pose proof (rep_st _ _ R) as St. destruct Hrs as [(cc & Es & _)|(nps & cc & Es & _)]; rewrite Es in St; cbn in St; tauto. }
    assert (Hwf : wf_header (status_response_header src (ts f) st status_reply_status)) by (unfold wf_header, is_addr7; cbn; lia).
    eapply (TxdReply _ _ _ _ _ src st); try eassumption.
    + rewrite Hw. unfold reply_wire. apply (decode_one_data _ [] Hwf). cbn. lia.
    + destruct Hq as (l & Hl & _ & Hu). cbn in Hl. subst l. destruct calls as [|c0 calls]; [reflexivity|].
      exfalso. specialize (Hu ltac:(discriminate)).
      destruct Hrs as [(cc & Es & _)|(nps & cc & Es & _)]; destruct Hu as [Hu|Hu]; rewrite Es in Hu; discriminate Hu.
Qed.

End TxDecode.

(* ------------------------------------------------------------------------------------------ *)
(* C12: GAP requests of a token visit - in the GAP, at most one per visit                       *)

Section Gap.
Variable A : Type.
Variable ops : app_ops A.
Variable p : params.
Variable n : nat.
Hypothesis Happs : apps_total A ops.
Hypothesis Hbv : builder_valid p.
Hypothesis Hdata : app_sends_data A ops.

Lemma quiet_poll_pass f now pin (apps : list A) f' o apps' calls att :
  poll ops f now pin apps = Ok (f', o, apps', calls) -> visit_tk (f_state f) = None ->
  f_state f' = PassToken true att -> f_state f = PassToken true att.
Proof.
  intros E Hn Es'. pose proof (visit_tk_none _ Hn) as Hv.
  destruct (poll_state_cases A ops _ _ _ _ _ _ _ _ E) as [(_ & Hp & Hq)|(tk & [(fa & fcd & Es)|(a & fa & Es)] & _)];
    try (rewrite Es in Hn; discriminate Hn).
  destruct Hq as [(S1 & _)|(K & s3 & Hpro & Hqs & _)]; [rewrite S1 in Es'; discriminate Es'|].
  rewrite Es' in Hqs. cbn in Hqs. subst s3.
  destruct Hpro as [E1|(_ & [E1|E1])]; [symmetry; exact E1|discriminate E1|discriminate E1].
Qed.

(* what the first monitor decodes from the transmission *)
Lemma app_sent_conv txo calls : app_sent (map (conv_call txo) calls) = app_sent calls.
Proof.
  unfold app_sent. induction calls as [|c l IH]; [reflexivity|]. cbn [map existsb]. rewrite IH.
  destruct c as [i hp [[w er]|]|i a t|i a]; reflexivity.
Qed.

Lemma app_sent_last cs i hp wire er : app_sent (cs ++ [CallTransmit i hp (Some (wire, er))]) = true.
Proof. unfold app_sent. rewrite existsb_app. cbn. apply orb_true_r. Qed.

Lemma app_sent_quiet f calls : quiet_calls f [] calls -> app_sent calls = false.
Proof.
  intros (l & Hl & Hf & _). cbn in Hl. subst l. unfold app_sent.
  induction calls as [|c l IH]; [reflexivity|]. inversion Hf as [|? ? H1 H2]; subst. cbn [existsb]. rewrite (IH H2).
  destruct c as [i hp [r|]|i a t|i a]; try reflexivity. contradiction.
Qed.

Record txflags (f f' : fdl) (now : Z) (calls : list call) (s : pstep) : Prop := mkTxf {
  tf_token : forall da sa, x_token_tx s = Some (da, sa) -> sa = ts f /\ tx_token f f' now (encode_token da (ts f)) /\ s_tx s = Some (encode_token da (ts f));
  tf_gap : forall a, x_gap_poll p s = Some a ->
           0 <= a < p_hsa (f_p f) /\ a <> ts f /\ in_gap (ts f) (r_ns (f_ring f)) a /\ f_gap f' = GapDoPoll a /\
           ((f_state f' = AwaitStatusResponse a /\ gap_origin (f_state f)) \/
            (f_state f' = ClaimToken (StepScanAwaitResponse a) /\ kind_of (f_state f) = KClaimToken));
  tf_none : s_tx s = None -> x_token_tx s = None /\ x_gap_poll p s = None
}.

Lemma poll_txflags f apps now busy rxb f' o apps' calls :
  Rep (length apps) f -> f_p f = p ->
  poll ops f now (mkPhyIn busy rxb) apps = Ok (f', o, apps', calls) ->
  txflags f f' now calls (poll_event now busy rxb f' o calls).
Proof.
  intros R Hp E. set (s := poll_event now busy rxb f' o calls).
  assert (Hts : x_ts p = ts f) by (unfold x_ts, ts; rewrite Hp; reflexivity).
  destruct (tx o) as [wire|] eqn:Etx.
  2:{ constructor; unfold x_token_tx, x_gap_poll, x_txt; cbn [s_tx s poll_event]; rewrite Etx; try discriminate. intros _. split; reflexivity. }
  assert (Hxt : x_txt s = decode_one wire) by (apply x_txt_tx; cbn; exact Etx).
  destruct (poll_txd A ops Hdata _ _ _ _ _ _ _ _ _ _ E Etx R) as
    [h pdu Hd (cs & i & hp & er & Hcs) Hu Hu'|da Hw Hd Hq Htok|a Hw Hd Hq Hg Ha Hne Hin Hg' Hst|src st Hw Hd Hc Hrs].
  - constructor.
    + intros da sa H. unfold x_token_tx in H. rewrite Hxt, Hd in H. discriminate H.
    + intros a H. unfold x_gap_poll in H. rewrite Hxt, Hd in H. cbn [s_calls s poll_event] in H.
      rewrite app_sent_conv, Hcs, app_sent_last in H. cbn [negb] in H. rewrite andb_false_r in H. discriminate H.
    + cbn [s_tx s poll_event]. rewrite Etx. discriminate.
  - constructor.
    + intros da' sa H. unfold x_token_tx in H. rewrite Hxt, Hd in H. injection H as <- <-.
      split; [reflexivity|]. split; [rewrite <- Hw; exact Htok|cbn; rewrite Etx, Hw; reflexivity].
    + intros a H. unfold x_gap_poll in H. rewrite Hxt, Hd in H. discriminate H.
    + cbn [s_tx s poll_event]. rewrite Etx. discriminate.
  - constructor.
    + intros da sa H. unfold x_token_tx in H. rewrite Hxt, Hd in H. discriminate H.
    + intros a' H. unfold x_gap_poll in H. rewrite Hxt, Hd in H. cbn [s_calls s poll_event status_request_header h_fc h_sa h_da is_fdl_status_request] in H.
      rewrite app_sent_conv, (app_sent_quiet _ _ Hq), Hts, Z.eqb_refl in H. cbn in H. injection H as <-.
      split; [exact Ha|]. split; [exact Hne|]. split; [exact Hin|]. split; [exact Hg'|exact Hst].
    + cbn [s_tx s poll_event]. rewrite Etx. discriminate.
  - constructor.
    + intros da sa H. unfold x_token_tx in H. rewrite Hxt, Hd in H. discriminate H.
    + intros a H. unfold x_gap_poll in H. rewrite Hxt, Hd in H. cbn in H. discriminate H.
    + cbn [s_tx s poll_event]. rewrite Etx. discriminate.
Qed.

Definition GP (f : fdl) (m : mon) : Prop := gap_origin (f_state f) -> m_gap_polls m = 0%nat.

Lemma m_gap_polls_x_m3 m s : m_gap_polls (x_m3 p n m s) = x_gap_polls p m s.
Proof. unfold x_m3. destruct (x_new_visit p m s); [reflexivity|]. destruct (state_kind_eqb _ _); reflexivity. Qed.

Lemma e12a_ok f apps buf tl m now busy nb f' o apps' calls :
  Base A p n f apps buf tl m -> GP f m ->
  poll ops f now (mkPhyIn busy (buf ++ nb)) apps = Ok (f', o, apps', calls) ->
  x_e12a p m (poll_event now busy (buf ++ nb) f' o calls) = [].
Proof.
  intros HB HG E. pose proof (x_k0_base A p n _ _ _ _ _ HB) as Hk0.
  destruct HB as [R Hp Hn Hv Hl Hpd Hb Htl].
  pose proof (poll_txflags _ _ _ _ _ _ _ _ _ R Hp E) as [_ Hgap _].
  set (s := poll_event now busy (buf ++ nb) f' o calls) in *.
  unfold x_e12a. destruct (x_gap_poll p s) as [a|] eqn:Eg; [|reflexivity].
  destruct (Hgap a eq_refl) as (Ha & Hne & Hin & _ & Hst).
  assert (Hts : x_ts p = ts f) by (unfold x_ts, ts; rewrite Hp; reflexivity).
  assert (Hns : v_ns (x_pre m) = r_ns (f_ring f)) by (unfold x_pre; rewrite Hv; reflexivity).
  rewrite Hts, Hns. rewrite Hp in Ha.
  replace (in_gapb (ts f) (r_ns (f_ring f)) a) with true by (symmetry; apply in_gapb_spec; exact Hin).
  replace (a <? p_hsa p) with true by (symmetry; apply Z.ltb_lt; lia).
  replace (a =? ts f) with false by (symmetry; apply Z.eqb_neq; exact Hne).
  cbn [andb negb check app]. rewrite Hk0.
  destruct (state_kind_eqb (kind_of (f_state f)) KClaimToken) eqn:Ek; [reflexivity|].
  destruct Hst as [(_ & Hor)|(_ & Hk)]; [|rewrite Hk in Ek; discriminate Ek].
  rewrite (HG Hor). reflexivity.
Qed.

Lemma gp_poll f apps buf tl m now busy nb f' o apps' calls :
  Base A p n f apps buf tl m -> GP f m ->
  poll ops f now (mkPhyIn busy (buf ++ nb)) apps = Ok (f', o, apps', calls) ->
  GP f' (x_m3 p n m (poll_event now busy (buf ++ nb) f' o calls)).
Proof.
  intros HB HG E Hor. pose proof (x_k0_base A p n _ _ _ _ _ HB) as Hk0.
  destruct HB as [R Hp Hn Hv Hl Hpd Hb Htl].
  pose proof (poll_txflags _ _ _ _ _ _ _ _ _ R Hp E) as [_ Hgap _].
  set (s := poll_event now busy (buf ++ nb) f' o calls) in *.
  rewrite m_gap_polls_x_m3. unfold x_gap_polls.
  destruct (x_token_tx s) as [[da sa]|]; [reflexivity|].
  destruct (x_new_visit p m s) eqn:Env; [reflexivity|].
  destruct (x_gap_poll p s) as [a|] eqn:Eg.
  - exfalso. destruct (Hgap a eq_refl) as (_ & _ & _ & _ & [(Es' & _)|(Es' & _)]); rewrite Es' in Hor;
      destruct Hor as [(att & C)|[C|C]]; discriminate C.
  - apply HG. destruct (visit_tk (f_state f)) as [tk|] eqn:Etk.
    + right. unfold in_use. destruct (f_state f); cbn in Etk; try discriminate Etk; [left|right]; reflexivity.
    + destruct Hor as [(att & Es')|Hu].
      * left. exists att. eapply quiet_poll_pass; eassumption.
      * exfalso. destruct (quiet_poll_facts A ops _ _ _ _ _ _ _ _ E Etk) as (_ & _ & Hq).
        assert (Htk' : exists tk, visit_tk (f_state f') = Some tk).
        { apply in_visit_visit_tk. unfold in_use in Hu. destruct Hu as [-> | ->]; reflexivity. }
        destruct Htk' as (tk' & Htk').
        destruct Hq as [(S1 & _)|(_ & _ & Hfr)]; [rewrite S1 in Htk'; discriminate Htk'|].
        pose proof (Hfr _ Htk') as Es'.
        unfold x_new_visit in Env. change (x_k1 s) with (kind_of (f_state f')) in Env. rewrite Es', Hk0, kind_in_visit in Env.
        rewrite (visit_tk_none _ Etk) in Env. discriminate Env.
Qed.

End Gap.

(* ------------------------------------------------------------------------------------------ *)
(* C12: the successor after a GAP reply                                                          *)

Section Found.
Variable A : Type.
Variable ops : app_ops A.
Notation W := (world A).

(* one poll of a token-holding state: nothing at all, or the state function on the station as it was *)
Lemma token_poll_split f now pin (apps : list A) f' o apps' calls :
  poll ops f now pin apps = Ok (f', o, apps', calls) -> have_token (f_state f) = true ->
  (f' = mark_bus_activity f now /\ tx o = None /\ calls = [] /\ apps' = apps /\ rx_left o = rx pin) \/
  (exists f1 w1 w', same_but_lba_pending f f1 /\ w_tx w1 = None /\ w_calls w1 = [] /\ w_apps w1 = apps /\
     w_rx w1 = rx pin /\ o = mkPhyOut (w_tx w') (w_rx w') /\ apps' = w_apps w' /\ calls = w_calls w' /\
     tx_busy pin = false /\ (forall l, f_lba f = Some l -> l < now) /\
     C11Proofs.dispatch A ops f1 now w1 = Ok (f', w')).
Proof.
  intros H Hht. apply (C11Proofs.poll_inv A ops) in H. destruct H as (w' & H & -> & -> & ->).
  apply (C11Proofs.poll_inner_cases A ops) in H.
  destruct H as [(_ & Hs & _)|(_ & f0 & w0 & Hpro & Hb)]; [rewrite Hs in Hht; discriminate Hht|].
  destruct (prologue_have_token A _ _ _ _ Hpro Hht) as (-> & ->).
  unfold C11Proofs.body in Hb.
  destruct (tx_busy pin || predicted f now) eqn:Eb.
  - injection Hb as <- <-. left. cbn. repeat split; reflexivity.
  - apply orb_false_iff in Eb. destruct Eb as (Hbusy & Hpred).
    destruct (check_for_bus_activity A f now _) as [f1 w1] eqn:Ec.
    apply cfba_spec in Ec. destruct Ec as (Hs & T1 & C1 & R1 & A1 & _). cbn in T1, C1, R1, A1.
    right. exists f1, w1, w'. split; [exact Hs|]. split; [exact T1|]. split; [exact C1|]. split; [exact A1|].
    split; [exact R1|]. split; [reflexivity|]. split; [reflexivity|]. split; [reflexivity|]. split; [exact Hbusy|].
    split; [|exact Hb].
    intros l El. unfold predicted in Hpred. rewrite El in Hpred. apply Z.leb_gt in Hpred. exact Hpred.
Qed.

Lemma receive_accept (buf : bytes) t n : decode buf = Ok (Accept t n) ->
  receive_telegram (fun t : telegram => t) buf = Ok (skipn n buf, Some t).
Proof. intros H. unfold receive_telegram. rewrite H. reflexivity. Qed.

Lemma receive_not_accept (buf rest : bytes) : receive_telegram (fun t : telegram => t) buf = Ok (rest, None) ->
  forall t n, decode buf <> Ok (Accept t n).
Proof. intros H t n C. rewrite (receive_accept _ _ _ C) in H. discriminate H. Qed.

Lemma mba_ring f now : f_ring (mark_bus_activity f now) = f_ring f.
Proof. destruct (mark_bus_activity_sblp f now) as (_ & Hr & _). exact Hr. Qed.

(* do_pass_token leaves NS alone (the own pass is witnessed; FdlOracleSound4.witness_own_pass_ns) *)
Lemma do_pass_token_ns f now (w : W) f' w' :
  do_pass_token A f now w = Ok (f', w') -> w_tx w = None -> ring_ok (f_ring f) (ts f) -> 0 <= ts f <= 125 ->
  r_ns (f_ring f') = r_ns (f_ring f) /\ w_rx w' = w_rx w.
Proof.
  intros H Hw Hring Hts.
  assert (Hst : exists dg att, f_state f = PassToken dg att).
  { unfold do_pass_token, assert_entry in H. destruct (f_state f); cbn in H; try discriminate H. eauto. }
  destruct Hst as (dg & att & Es).
  destruct (C11Proofs.do_pass_token_spec A _ _ _ _ _ _ _ Es Hw H) as
    [(_ & Hr & _) _ _ Hrx _|a _ _ Hr _ _ _ _ Hrx _|(r' & Hwit & Hr' & _ & _ & _ & _ & _ & Hrx & _)].
  - split; [rewrite Hr; reflexivity|exact Hrx].
  - split; [rewrite Hr; reflexivity|exact Hrx].
  - split; [rewrite Hr'; exact (witness_own_pass_ns _ _ _ Hring Hts Hwit)|exact Hrx].
Qed.

(* what a function that awaits a GAP reply from a0 does to the receive buffer and to NS *)
Definition await_outcome (f : fdl) (w : W) (a0 : Z) (f' : fdl) (w' : W) : Prop :=
  (forall t n, decode (w_rx w) = Ok (Accept t n) ->
     w_rx w' = skipn n (w_rx w) /\
     (is_master_ready_reply (ts f) a0 t -> r_ns (f_ring f') = a0) /\
     (~ is_master_ready_reply (ts f) a0 t -> r_ns (f_ring f') = r_ns (f_ring f))) /\
  ((forall t n, decode (w_rx w) <> Ok (Accept t n)) -> r_ns (f_ring f') = r_ns (f_ring f)).

Lemma await_gap_outcome f now (w : W) pa f1 w1 r :
  await_gap_poll_response A f now w pa = Ok (f1, w1, r) -> ring_ok (f_ring f) (ts f) -> 0 <= ts f <= 125 ->
  await_outcome f w pa f1 w1 /\ w_tx w1 = w_tx w /\ f_state f1 = f_state f /\ f_p f1 = f_p f /\
  ring_ok (f_ring f1) (ts f) /\
  (r = GprNoResponse \/ r = GprWaiting -> forall t n, decode (w_rx w) <> Ok (Accept t n)).
Proof.
  intros H (HL & Hrts & Hnsps) Hts.
  destruct (await_gap_spec A _ _ _ _ _ _ _ H) as (Hne & _ & Hp & _ & Hs & _ & _ & _ & _ & Htx & _ & _ & rest & received & Hrecv & Hrx & Hcases).
  assert (Hring1 : ring_ok (f_ring f1) (ts f)).
  { destruct Hcases as [(_ & t & _ & _ & [(_ & Hset)|(_ & ->)])|[(_ & t & _ & _ & ->)|(_ & -> & _)]]; try exact (conj HL (conj Hrts Hnsps)).
    destruct (set_next_station_effect _ _ _ HL ltac:(rewrite Hrts; lia) ltac:(rewrite Hrts; exact Hne) Hset) as (Ha & _).
    destruct (set_next_station_ring_ok _ _ pa (conj HL (conj Hrts Hnsps)) ltac:(lia) Ha) as (r' & E' & R').
    rewrite Hset in E'. injection E' as <-. exact R'. }
  split; [|split; [exact Htx|split; [exact Hs|split; [exact Hp|split; [exact Hring1|]]]]].
  - split.
    + intros t n Hd. rewrite (receive_accept _ _ _ Hd) in Hrecv. injection Hrecv as <- <-.
      split; [exact Hrx|].
      destruct Hcases as [(_ & t0 & Et & _ & [(Hm & Hset)|(Hnm & Hr)])|[(_ & t0 & Et & Hnf & Hr)|(C & _)]]; try discriminate C;
        injection Et as <-.
      * split; [intros _|intros C; contradiction].
        destruct (set_next_station_effect _ _ _ HL ltac:(rewrite Hrts; lia) ltac:(rewrite Hrts; exact Hne) Hset) as (_ & Hns & _). exact Hns.
      * split; [intros C; contradiction|intros _; rewrite Hr; reflexivity].
      * split; [|intros _; rewrite Hr; reflexivity]. intros (h & pdu & st & Ht & Hfc & _ & Hsa & Hda). exfalso. apply Hnf.
        exists h, pdu, st, StOk. repeat split; assumption.
    + intros Hno. destruct Hcases as [(_ & t0 & Et & _)|[(_ & t0 & Et & _)|(_ & Hr & _)]]; [| |rewrite Hr; reflexivity];
        exfalso; subst received; unfold receive_telegram in Hrecv; destruct (decode (w_rx w)) as [[ | |t1 n1]| |] eqn:Ed; cbn in Hrecv; try discriminate Hrecv;
        exact (Hno t1 n1 eq_refl).
  - intros Hr t n Hd. rewrite (receive_accept _ _ _ Hd) in Hrecv. injection Hrecv as _ <-.
    destruct Hcases as [(C & _)|[(C & _)|(C & _)]]; try discriminate C; destruct Hr as [-> | ->]; discriminate C.
Qed.

Lemma await_outcome_frame f (w : W) a f1 w1 f' w' :
  await_outcome f w a f1 w1 -> r_ns (f_ring f') = r_ns (f_ring f1) -> w_rx w' = w_rx w1 -> await_outcome f w a f' w'.
Proof.
  intros (H1 & H2) Hn Hr. split.
  - intros t n Hd. destruct (H1 t n Hd) as (X1 & X2 & X3). rewrite Hn, Hr. tauto.
  - intros Hno. rewrite Hn. exact (H2 Hno).
Qed.

Lemma do_await_status_outcome f now (w : W) f' w' a0 :
  do_await_status_response A f now w = Ok (f', w') -> f_state f = AwaitStatusResponse a0 -> w_tx w = None ->
  ring_ok (f_ring f) (ts f) -> 0 <= ts f <= 125 -> await_outcome f w a0 f' w'.
Proof.
  unfold do_await_status_response, assert_entry. intros H Es Hw Hring Hts. rewrite Es in H.
  cbn [kind_of do_fn_entry state_kind_eqb bind get_await_status_response_address] in H.
  destruct (await_gap_poll_response A f now w a0) as [[[f1 w1] r]| |] eqn:Ea; cbn [bind] in H; try discriminate H.
  destruct (await_gap_outcome _ _ _ _ _ _ _ Ea Hring Hts) as (Ho & Htx & Hs1 & Hp1 & Hring1 & _).
  destruct r.
  - injection H as <- <-. exact Ho.
  - destruct (trans A f1 w1 _) as [[f2 w2]| |] eqn:Et; cbn [bind] in H; try discriminate H.
    apply trans_spec in Et. destruct Et as (s2 & _ & -> & ->).
    assert (Hts2 : ts (set_st f1 s2) = ts f) by (unfold ts; cbn; rewrite Hp1; reflexivity).
    destruct (do_pass_token_ns _ _ _ _ _ H ltac:(cbn; congruence) ltac:(cbn [set_st f_ring]; rewrite Hts2; exact Hring1) ltac:(rewrite Hts2; exact Hts)) as (Hn & Hr).
    eapply await_outcome_frame; [exact Ho|exact Hn|exact Hr].
  - apply trans_spec in H. destruct H as (s2 & _ & -> & ->). eapply await_outcome_frame; [exact Ho|reflexivity|reflexivity].
  - apply trans_spec in H. destruct H as (s2 & _ & -> & ->). eapply await_outcome_frame; [exact Ho|reflexivity|reflexivity].
Qed.

Lemma do_claim_token_scan_frame f now (w : W) f' w' :
  do_claim_token_scan A f now w = Ok (f', w') -> f_ring f' = f_ring f /\ w_rx w' = w_rx w.
Proof.
  unfold do_claim_token_scan. intros H.
  destruct (wait_synchronization_pause f now) as [[f1 wait]| |] eqn:Ew; cbn [bind] in H; try discriminate H.
  apply wait_sync_same in Ew. destruct Ew as ((_ & Hr1 & _) & _).
  destruct wait; [injection H as <- <-; split; [exact Hr1|reflexivity]|].
  destruct (f_gap f1) as [rc|cur].
  - match type of H with bind ?x _ = _ => destruct x as [[f2 w2]| |] eqn:Et end; cbn [bind] in H; try discriminate H.
    injection H as <- <-. apply trans_spec in Et. destruct Et as (s2 & _ & -> & ->). split; [exact Hr1|reflexivity].
  - destruct (next_gap_poll_traced A f1 w cur) as [[f2 w2]| |] eqn:En; cbn [bind] in H; try discriminate H.
    unfold next_gap_poll_traced in En. destruct (next_gap_poll f1 cur) as [g2| |]; cbn [bind] in En; try discriminate En.
    injection En as <- <-.
    destruct (transmit_gap_poll_if_pending A _ now _) as [[[f3 w3] polled]| |] eqn:Eg; cbn [bind] in H; try discriminate H.
    assert (H3 : f_ring f3 = f_ring f1 /\ w_rx w3 = w_rx w).
    { unfold transmit_gap_poll_if_pending in Eg. cbn [f_gap set_gap] in Eg. destruct g2 as [rc|c2].
      - injection Eg as <- <- _. split; reflexivity.
      - destruct (c2 =? _); [discriminate Eg|].
        destruct (phy_send A _ _) as [[w4 k]| |] eqn:Ep; cbn [bind] in Eg; try discriminate Eg.
        destruct (mark_tx _ now k) as [f4| |] eqn:Em; cbn [bind] in Eg; try discriminate Eg.
        injection Eg as <- <- _. apply mark_tx_same in Em. destruct Em as (_ & Hr4 & _).
        apply phy_send_tx in Ep. destruct Ep as (_ & _ & _ & Hrx4 & _). split; [rewrite Hr4; reflexivity|exact Hrx4]. }
    destruct H3 as (Hr3 & Hrx3).
    destruct polled as [a|].
    + destruct (set_claim_step f3 _) as [f4| |] eqn:Es; cbn [bind] in H; try discriminate H.
      apply set_claim_step_spec' in Es. subst f4. injection H as <- <-. split; [cbn; congruence|exact Hrx3].
    + injection H as <- <-. split; [congruence|exact Hrx3].
Qed.

(* do_claim_token: in the step that awaits the reply from a0 as the awaiting function; otherwise NS and the
   receive buffer are left alone *)
Lemma do_claim_token_outcome f now (w : W) f' w' st :
  do_claim_token A f now w = Ok (f', w') -> f_state f = ClaimToken st -> w_tx w = None ->
  ring_ok (f_ring f) (ts f) -> 0 <= ts f <= 125 ->
  match st with
  | StepScanAwaitResponse a0 => await_outcome f w a0 f' w'
  | _ => r_ns (f_ring f') = r_ns (f_ring f) /\ w_rx w' = w_rx w
  end.
Proof.
  unfold do_claim_token, assert_entry. intros H Es Hw Hring Hts. rewrite Es in H.
  cbn [kind_of do_fn_entry state_kind_eqb bind get_claim_token_step] in H.
  assert (Htok : forall nxt,
    (let* (f0, wait) := wait_synchronization_pause f now in
     if wait then Ok (f0, note A w TSyncWait)
     else let* (w0, n) := phy_send A w (TxToken (ts f0) (ts f0)) in
          let f1 := set_ring f0 (claim_token (f_ring f0)) in
          let* f2 := set_claim_step f1 nxt in
          let f3 := set_gap f2 (GapDoPoll (ts f2)) in
          let* f4 := mark_tx f3 now n in Ok (f4, note A w0 TClaimSendToken)) = Ok (f', w') ->
    r_ns (f_ring f') = r_ns (f_ring f) /\ w_rx w' = w_rx w).
  { intros nxt H0.
    destruct (wait_synchronization_pause f now) as [[f1 wait]| |] eqn:Ew; cbn [bind] in H0; try discriminate H0.
    apply wait_sync_same in Ew. destruct Ew as ((_ & Hr1 & _) & _).
    destruct wait; [injection H0 as <- <-; split; [rewrite Hr1; reflexivity|reflexivity]|].
    destruct (phy_send A w _) as [[w1 k]| |] eqn:Ep; cbn [bind] in H0; try discriminate H0.
    destruct (set_claim_step _ nxt) as [f2| |] eqn:Es2; cbn [bind] in H0; try discriminate H0.
    apply set_claim_step_spec' in Es2. subst f2.
    match type of H0 with bind (mark_tx ?fx now k) _ = _ => destruct (mark_tx fx now k) as [f4| |] eqn:Em end; cbn [bind] in H0; try discriminate H0.
    injection H0 as <- <-. apply mark_tx_same in Em. destruct Em as (_ & Hr4 & _). cbn in Hr4.
    apply phy_send_tx in Ep. destruct Ep as (_ & _ & _ & Hrx & _).
    split; [rewrite Hr4, Hr1; reflexivity|exact Hrx]. }
  destruct st as [ | | |a0].
  - exact (Htok _ H).
  - exact (Htok _ H).
  - destruct (do_claim_token_scan_frame _ _ _ _ _ H) as (Hr & Hrx). split; [rewrite Hr; reflexivity|exact Hrx].
  - destruct (await_gap_poll_response A f now w a0) as [[[f1 w1] r]| |] eqn:Ea; cbn [bind] in H; try discriminate H.
    destruct (await_gap_outcome _ _ _ _ _ _ _ Ea Hring Hts) as (Ho & Htx & Hs1 & Hp1 & Hring1 & _).
    destruct r.
    + injection H as <- <-. exact Ho.
    + destruct (set_claim_step f1 StepScan) as [f2| |] eqn:Es2; cbn [bind] in H; try discriminate H.
      apply set_claim_step_spec' in Es2. subst f2.
      destruct (do_claim_token_scan_frame _ _ _ _ _ H) as (Hr & Hrx).
      eapply await_outcome_frame; [exact Ho|rewrite Hr; reflexivity|exact Hrx].
    + destruct (set_claim_step f1 StepScan) as [f2| |] eqn:Es2; cbn [bind] in H; try discriminate H.
      apply set_claim_step_spec' in Es2. subst f2. injection H as <- <-.
      eapply await_outcome_frame; [exact Ho|reflexivity|reflexivity].
    + apply trans_spec in H. destruct H as (s2 & _ & -> & ->). eapply await_outcome_frame; [exact Ho|reflexivity|reflexivity].
Qed.

End Found.

(* ------------------------------------------------------------------------------------------ *)
(* the states that await a GAP reply are entered only together with the GAP request               *)

Section AwaitEntry.
Variable A : Type.
Variable ops : app_ops A.
Notation W := (world A).

Definition awaiting_state (s : state) (a : Z) : Prop :=
  s = AwaitStatusResponse a \/ s = ClaimToken (StepScanAwaitResponse a).

Lemma early_claim_not_awaiting s a : early_claim s -> ~ awaiting_state s a.
Proof. intros [-> | ->] [C|C]; discriminate C. Qed.

Lemma do_listen_token_not_awaiting f now (w : W) f' w' a :
  do_listen_token A f now w = Ok (f', w') -> ~ awaiting_state (f_state f') a.
Proof.
  intros H. pose proof H as H0. unfold do_listen_token in H.
  destruct (assert_entry DoListenToken f) eqn:Ea; cbn [bind] in H; try discriminate H.
  assert (Hkf : kind_of (f_state f) = KListenToken).
  { unfold assert_entry in Ea. destruct (f_state f); cbn in Ea; try discriminate Ea; reflexivity. }
  destruct (handle_lost_token A f now w) as [[[f0 w0] d]| |] eqn:Eh; cbn [bind] in H; try discriminate H.
  destruct d.
  - injection H as <- <-. apply early_claim_not_awaiting. exact (handle_lost_token_claims A _ _ _ _ _ Eh).
  - (* no claim: the kinds of do_listen_token_never_accepts without the claim *)
    intros Haw. apply do_listen_token_never_accepts in H0.
    destruct H0 as [K|[K|[K|(K & _)]]]; destruct Haw as [E|E]; rewrite E in K; try discriminate K.
    (* ClaimToken without handle_lost_token having claimed: the state functions after it keep the kind listening *)
    clear K.
    destruct (get_listen_token (f_state f0)) as [[sr cc]| |] eqn:Eg; cbn [bind] in H; try discriminate H.
    destruct sr as [src|].
    + destruct (wait_synchronization_pause f0 now) as [[f1 wait]| |] eqn:Ew; cbn [bind] in H; try discriminate H.
      apply wait_sync_same in Ew. destruct Ew as ((_ & _ & _ & _ & Hs1 & _) & _).
      destruct wait.
      * injection H as <- <-. rewrite Hs1 in E. unfold handle_lost_token in Eh.
        destruct (lba_get_or_insert f now) as [l fx] eqn:El. destruct (inst_diff now l); cbn [bind] in Eh; try discriminate Eh.
        match type of Eh with (if ?c then _ else _) = _ => destruct c end.
        -- match type of Eh with context [trans A ?a ?b ?c] => destruct (trans A a b c) as [[fy wy]| |] end; cbn [bind] in Eh; try discriminate Eh.
           destruct (do_claim_token A fy now wy) as [[fz wz]| |]; cbn [bind] in Eh; discriminate Eh.
        -- injection Eh as <- _. apply lba_get_or_insert_same in El. destruct El as ((_ & _ & _ & _ & Hsx & _) & _).
           rewrite Hsx in E. rewrite E in Hkf. discriminate Hkf.
      * destruct (phy_send A w0 _) as [[w1 k]| |]; cbn [bind] in H; try discriminate H.
        match type of H with bind ?x _ = _ => destruct x as [[f2 w2]| |] eqn:E2 end; cbn [bind] in H; try discriminate H.
        destruct (mark_tx f2 now k) as [f3| |] eqn:Em; cbn [bind] in H; try discriminate H.
        injection H as <- <-. apply mark_tx_same in Em. destruct Em as (_ & _ & _ & _ & Hs3 & _). rewrite Hs3 in E.
        destruct (ready_for_ring (f_ring f1)).
        -- apply trans_spec in E2. destruct E2 as (s2 & Ht & -> & _). cbn in E.
           unfold transition_active_idle in Ht. destruct (assert_kind _ _); cbn [bind] in Ht; try discriminate Ht. injection Ht as <-. discriminate E.
        -- destruct (get_listen_token (f_state f1)) as [[sr1 cc1]| |]; cbn [bind] in E2; try discriminate E2.
           injection E2 as <- _. discriminate E.
    + unfold receive_all_telegrams in H.
      destruct (receive_all _ _ (f0, w0) (w_rx w0)) as [[[s1 rest] r]| |] eqn:Er; cbn [bind] in H; try discriminate H.
      destruct s1 as [f1 w1]. injection H as <- _. cbn [f_state sync_pending_bytes set_pending] in E.
      assert (Hl : listening A (f1, w1)).
      { refine (receive_all_inv (listening A) _ _ _ (f0, w0) _ (f1, w1) rest r _ Er).
        - intros s t l s' u Hp Hc. exact (listen_token_telegram_listening A _ _ _ _ _ _ Hp Hc).
        - unfold listening. cbn [fst]. left. destruct (f_state f0); try discriminate Eg; reflexivity. }
      unfold listening in Hl. cbn [fst] in Hl. destruct Hl as [K|K]; rewrite E in K; discriminate K.
Qed.

End AwaitEntry.

(* ------------------------------------------------------------------------------------------ *)
(* rule-level version of onlyp                                                                  *)

Definition onlyr (Q : rule -> Prop) (l : list rule) : Prop := forall r, In r l -> Q r.
Lemma onlyr_nil (Q : rule -> Prop) : onlyr Q []. Proof. intros r []. Qed.
Lemma onlyr_app (Q : rule -> Prop) l1 l2 : onlyr Q l1 -> onlyr Q l2 -> onlyr Q (l1 ++ l2).
Proof. intros H1 H2 r Hr. apply in_app_or in Hr. destruct Hr; auto. Qed.
Lemma onlyr_one (Q : rule -> Prop) r : Q r -> onlyr Q [r].
Proof. intros H r' [<-|[]]. exact H. Qed.
Lemma onlyr_check (Q : rule -> Prop) b r : Q r -> onlyr Q (check b r).
Proof. intros H. unfold check. destruct b; [apply onlyr_nil|apply onlyr_one; exact H]. Qed.
Lemma onlyr_of_onlyp (Q : rule -> Prop) (P : pid) l : (forall r, rule_prop r = P -> Q r) -> onlyp (eq P) l -> onlyr Q l.
Proof. intros H O r Hr. apply H. symmetry. exact (O r Hr). Qed.

Ltac solve_onlyr tac :=
  repeat first
    [ apply onlyr_nil
    | apply onlyr_app
    | apply onlyr_check; tac; fail
    | apply onlyr_one; tac; fail
    | match goal with
      | |- onlyr _ (if ?b then _ else _) => destruct b
      | |- onlyr _ (match ?x with _ => _ end) => destruct x
      end ].

(* ------------------------------------------------------------------------------------------ *)
(* the theorem for the GAP request rules                                                        *)

Section Theorems6.
Variable A : Type.
Variable ops : app_ops A.
Variable p : params.
Hypothesis Happs : apps_total A ops.
Hypothesis Hbv : builder_valid p.
Hypothesis Hdata : app_sends_data A ops.

Definition J6 (n : nat) (f : fdl) (apps : list A) (buf : bytes) (tl : Z) (m : mon) (g : mon2) : Prop :=
  J5 A p n f apps buf tl m g /\ GP f m.

Definition q12a (r : rule) : Prop := r <> R12_gap_poll_outside_gap /\ r <> R12_two_gap_polls_per_visit.

Lemma q12a_other (P : pid) : P <> PC12 -> forall r, rule_prop r = P -> q12a r.
Proof. intros Hne r E. split; intros ->; apply Hne; symmetry; exact E. Qed.

Ltac q12a_leaf := split; discriminate.

Lemma x_e12b_q12a m s : onlyr q12a (x_e12b p m s).
Proof. unfold x_e12b. cbv zeta. solve_onlyr q12a_leaf. Qed.
Lemma y_e_found_q12a m g s : onlyr q12a (y_e_found p m g s).
Proof. unfold y_e_found. solve_onlyr q12a_leaf. Qed.
Lemma y_e_tok_q12a g s : onlyr q12a (y_e_tok p g s).
Proof. unfold y_e_tok. solve_onlyr q12a_leaf. Qed.
Lemma y_e_sweep_q12a m g s : onlyr q12a (y_e_sweep p m g s).
Proof. unfold y_e_sweep. cbv zeta. solve_onlyr q12a_leaf. Qed.
Lemma y_e_scan_q12a m g s : onlyr q12a (y_e_scan p m g s).
Proof. unfold y_e_scan. cbv zeta. solve_onlyr q12a_leaf. Qed.
Lemma y_e_live_q12a m g s : onlyr q12a (y_e_live p m g s).
Proof. unfold y_e_live. solve_onlyr q12a_leaf. Qed.

(* C12, PARTIAL: the rules R12_gap_poll_outside_gap and R12_two_gap_polls_per_visit never fire *)
Theorem c12_gap_oracle_sound (apps : list A) (ins : list minput) :
  ins_ok 0 ins ->
  forall k r, In (k, r) (monitor p (length apps) (model_transcript A ops p apps ins)) ->
  r <> R12_gap_poll_outside_gap /\ r <> R12_two_gap_polls_per_visit.
Proof.
  intros Hok.
  apply (generic_sound_transcript A ops p (length apps) q12a (J6 (length apps)) (fun _ => True)); try assumption; try reflexivity.
  - split; discriminate.
  - intros a f apps0 buf tl m g f' ((HB & c & HV) & HG) E _. split.
    + split; [eapply base_api; eassumption|]. eapply vi_api; eassumption.
    + intros Hor. destruct a; cbn [mon_after_api fst]; try reflexivity.
      * unfold set_online, set_state in E. cbn in E. injection E as <-. exact (HG Hor).
      * discriminate E.
  - intros f apps0 buf tl m g now busy nb f' o apps' calls (HJ & HG) Hlt Hnow Hnb E _.
    pose proof HJ as (HB & _).
    destruct (J5_poll A ops p (length apps) Happs Hbv Hdata _ _ _ _ _ _ _ _ _ _ _ _ _ HJ Hlt Hnow Hnb E)
      as ((c' & Hf & H15 & H13 & Hrr & Hend & HV') & HB').
    split; [|split].
    + rewrite mon_poll_eq. cbn [snd].
      assert (H12a : x_e12a p m (poll_event now busy (buf ++ nb) f' o calls) = []) by (eapply e12a_ok; eassumption).
      rewrite H12a, Hf. cbn [app].
      apply onlyr_app; [exact (onlyr_of_onlyp _ PC01 _ (q12a_other PC01 ltac:(discriminate)) (x_e01_only _ _ _))|].
      apply onlyr_app; [exact (onlyr_of_onlyp _ PC06 _ (q12a_other PC06 ltac:(discriminate)) (x_e06_only _ _ _))|].
      apply onlyr_app; [exact (onlyr_of_onlyp _ PC11 _ (q12a_other PC11 ltac:(discriminate)) (x_e11a_only _ _ _))|].
      apply onlyr_app; [exact (onlyr_of_onlyp _ PC11 _ (q12a_other PC11 ltac:(discriminate)) (x_e11c_only _ _ _))|].
      apply onlyr_app; [exact (onlyr_of_onlyp _ PC11 _ (q12a_other PC11 ltac:(discriminate)) (x_e11b_only _ _ _))|].
      apply onlyr_app; [apply x_e12b_q12a|].
      exact (onlyr_of_onlyp _ PC15 _ (q12a_other PC15 ltac:(discriminate)) (x_e15_only _ _ _ _)).
    + rewrite mon_poll2_eq. cbn [snd]. rewrite H13, Hrr, Hend. cbn [app].
      apply onlyr_app; [apply y_e_found_q12a|].
      apply onlyr_app; [apply y_e_tok_q12a|].
      apply onlyr_app; [apply y_e_sweep_q12a|].
      apply onlyr_app; [apply y_e_scan_q12a|].
      apply onlyr_app; [apply y_e_live_q12a|].
      exact (onlyr_of_onlyp _ PC06 _ (q12a_other PC06 ltac:(discriminate)) (y_e_backoff_only _ _ _ _)).
    + split; [split; [exact HB'|exists c'; rewrite fst_mon_poll, mon_poll2_eq; exact HV']|].
      rewrite fst_mon_poll. eapply gp_poll; eassumption.
  - intros f0 apps0 E Hn _. split; [apply J5_init; assumption|]. intros _. reflexivity.
  - unfold transcript_ok. destruct (fdl_new p); [split; [exact I|apply run_ok_true]|exact I|exact I].
Qed.

End Theorems6.
