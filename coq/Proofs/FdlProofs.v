(* Proofs about the FDL station model (Model/Fdl.v): one-step facts used by Properties/C01 C05 C06
   C11 C12 C13 C15.  Function-level lemmas first, then facts about a whole `poll`. *)
From PB Require Import Common Tables FdlTables Telegram Phy TokenRing Params Fdl.

(* ------------------------------------------------------------------------------------------ *)
(* tactics                                                                                     *)

(* take one step in a hypothesis `H : <monadic term> = Ok _` *)
Ltac ok_step H :=
  match type of H with
  | bind ?r _ = Ok _ =>
      let E := fresh "E" in destruct r eqn:E; cbn [bind] in H; [|discriminate H|discriminate H]
  | (if ?b then _ else _) = Ok _ => let E := fresh "E" in destruct b eqn:E
  | (let (_, _) := ?x in _) = Ok _ => let E := fresh "E" in destruct x eqn:E
  | Panic _ = Ok _ => discriminate H
  | OutOfFuel = Ok _ => discriminate H
  end.

(* ------------------------------------------------------------------------------------------ *)
(* C12: the GAP cursor                                                                         *)

(* declarative GAP: strictly between TS and NS, cyclically; all addresses but TS when NS = TS *)
Definition in_gap (ts ns a : Z) : Prop :=
  (ts < ns -> ts < a < ns) /\ (ns <= ts -> ts < a \/ a < ns).

Lemma in_gapb_spec ts ns a : in_gapb ts ns a = true <-> in_gap ts ns a.
Proof.
  unfold in_gapb, in_gap.
  destruct (Z.ltb_spec ts ns) as [H|H].
  - rewrite andb_true_iff, !Z.ltb_lt. split; [intros [A B]; split; intros; lia|intros [A _]; lia].
  - rewrite orb_true_iff, !Z.ltb_lt. split; [intros A; split; intros; lia|intros [_ B]; apply B; lia].
Qed.

Lemma in_gap_not_self ts ns a : in_gap ts ns a -> a <> ts.
Proof. unfold in_gap. intros [A B] ->. destruct (Z.lt_ge_cases ts ns) as [H|H]; [specialize (A H)|specialize (B H)]; lia. Qed.

(* next_gap_poll yields an address only inside the GAP; never the own address; below HSA when the
   cursor was below HSA *)
Lemma next_gap_poll_in_gap f cur a :
  next_gap_poll f cur = Ok (GapDoPoll a) ->
  in_gap (ts f) (r_ns (f_ring f)) a /\ a <> ts f /\
  (0 <= cur < p_hsa (f_p f) -> 0 <= a < p_hsa (f_p f)).
Proof.
  unfold next_gap_poll, u8_sub, u8_add. intros H.
  destruct (Z.leb_spec 0 (p_hsa (f_p f) - 1)) as [Eh|Eh]; cbn [bind] in H; [|discriminate H].
  destruct (Z.eqb_spec cur (p_hsa (f_p f) - 1)) as [E|E]; cbn [bind] in H.
  - destruct (in_gapb (ts f) (r_ns (f_ring f)) 0) eqn:Eg; [|discriminate H].
    injection H as <-. apply in_gapb_spec in Eg.
    split; [exact Eg|]. split; [exact (in_gap_not_self _ _ _ Eg)|]. intros Hc. lia.
  - destruct (Z.leb_spec (cur + 1) 255) as [E2|E2]; cbn [bind] in H; [|discriminate H].
    destruct (in_gapb (ts f) (r_ns (f_ring f)) (cur + 1)) eqn:Eg; [|discriminate H].
    injection H as <-. apply in_gapb_spec in Eg.
    split; [exact Eg|]. split; [exact (in_gap_not_self _ _ _ Eg)|]. intros Hc. lia.
Qed.

(* the end of the GAP: anything not strictly inside (TS, NS) ends the sweep *)
Lemma next_gap_poll_waiting f cur n :
  next_gap_poll f cur = Ok (GapWaiting n) -> n = 0.
Proof.
  unfold next_gap_poll. intros H.
  destruct (u8_sub (p_hsa (f_p f)) 1) as [h| |]; cbn [bind] in H; try discriminate H.
  destruct (if cur =? h then Ok 0 else u8_add cur 1) as [x| |]; cbn [bind] in H; try discriminate H.
  destruct (in_gapb (ts f) (r_ns (f_ring f)) x); [discriminate H|]. injection H as <-. reflexivity.
Qed.

(* totality for parameters the builder can produce (1 <= HSA <= 126) and cursors below HSA *)
Lemma next_gap_poll_total f cur :
  1 <= p_hsa (f_p f) <= 126 -> 0 <= cur < p_hsa (f_p f) ->
  exists g, next_gap_poll f cur = Ok g.
Proof.
  intros Hh Hc. unfold next_gap_poll, u8_sub, u8_add.
  destruct (Z.leb_spec 0 (p_hsa (f_p f) - 1)) as [_|A]; [|lia]. cbn [bind].
  destruct (Z.eqb_spec cur (p_hsa (f_p f) - 1)) as [E|E]; cbn [bind].
  - destruct (in_gapb (ts f) (r_ns (f_ring f)) 0); eexists; reflexivity.
  - destruct (Z.leb_spec (cur + 1) 255) as [_|A]; [|lia]. cbn [bind].
    destruct (in_gapb (ts f) (r_ns (f_ring f)) (cur + 1)); eexists; reflexivity.
Qed.

(* the debug_assert_ne! of transmit_gap_poll_if_pending cannot fire on a cursor produced by
   next_gap_poll (defect F1 is the negation of this statement on the unfixed tree) *)
Lemma gap_poll_never_self f cur a :
  next_gap_poll f cur = Ok (GapDoPoll a) -> (a =? ts f) = false.
Proof. intros H. apply Z.eqb_neq. exact (proj1 (proj2 (next_gap_poll_in_gap f cur a H))). Qed.

(* Concrete corner triples of the property text: successor at HSA-1 and at TS-1. *)
Example gap_corner_hsa_minus_1 :
  forall f, ts f = 7 -> r_ns (f_ring f) = 15 -> p_hsa (f_p f) = 16 -> next_gap_poll f 14 = Ok (GapWaiting 0).
Proof. intros f H1 H2 H3. unfold next_gap_poll, u8_sub, u8_add. rewrite H1, H2, H3. reflexivity. Qed.
Example gap_corner_ts_minus_1 :
  forall f, ts f = 7 -> r_ns (f_ring f) = 6 -> p_hsa (f_p f) = 16 -> next_gap_poll f 5 = Ok (GapWaiting 0).
Proof. intros f H1 H2 H3. unfold next_gap_poll, u8_sub, u8_add. rewrite H1, H2, H3. reflexivity. Qed.

(* ------------------------------------------------------------------------------------------ *)
(* C11: token acceptance in handle_telegram                                                    *)

Section WithApps.
Variable A : Type.
Variable ops : app_ops A.

Lemma trans_state (f : fdl) (w : world A) t f' w' :
  trans A f w t = Ok (f', w') -> t (f_state f) = Ok (f_state f') /\ f_ring f' = f_ring f /\ f_p f' = f_p f
                                 /\ w_tx w' = w_tx w /\ w_calls w' = w_calls w /\ w_rx w' = w_rx w /\ w_apps w' = w_apps w.
Proof.
  unfold trans. intros H. destruct (t (f_state f)) as [s| |] eqn:E; cbn [bind] in H; try discriminate H.
  injection H as <- <-. cbn. repeat split; reflexivity.
Qed.

(* A token addressed to this station, from another station, received as the last telegram while
   in ActiveIdle: it is accepted in this step iff the sender is the registered predecessor or the
   pending new predecessor; otherwise the sender becomes pending and the station stays in ActiveIdle. *)
Lemma handle_telegram_accept_iff (f : fdl) (w : world A) now sr nps cc sa f' w' :
  f_state f = ActiveIdle sr nps cc -> sa <> ts f ->
  handle_telegram A now f w (TToken (ts f) sa) true = Ok (f', w') ->
  (sa = r_ps (f_ring f) \/ nps = Some sa ->
     f_state f' = UseToken now None false) /\
  (~ (sa = r_ps (f_ring f) \/ nps = Some sa) ->
     f_state f' = ActiveIdle sr (Some sa) 0 /\ f_ring f' = f_ring f).
Proof.
  intros Hst Hsa H. unfold handle_telegram in H. rewrite Hst in H. cbn [f_state kind_of state_kind_eqb negb] in H.
  cbn [get_active_idle bind] in H.
  destruct (Z.eqb_spec sa (ts f)) as [E|_]; [contradiction|].
  replace (ts (set_st f (ActiveIdle sr nps 0))) with (ts f) in H by reflexivity.
  rewrite Z.eqb_refl in H. cbn [negb orb] in H.
  replace (f_ring (set_st f (ActiveIdle sr nps 0))) with (f_ring f) in H by reflexivity.
  destruct (Z.eqb_spec sa (r_ps (f_ring f))) as [Eps|Eps].
  - apply trans_state in H. destruct H as [Ht _]. cbn in Ht. injection Ht as Ht.
    split; [intros _; symmetry; exact Ht|intros N; exfalso; apply N; left; exact Eps].
  - destruct nps as [address|].
    + destruct (Z.eqb_spec address sa) as [Ea|Ea].
      * destruct (witness (f_ring f) sa (ts f)) as [r| |] eqn:Ew; cbn [bind] in H; try discriminate H.
        apply trans_state in H. destruct H as [Ht _]. cbn in Ht. injection Ht as Ht.
        split; [intros _; symmetry; exact Ht|intros N; exfalso; apply N; right; subst; reflexivity].
      * injection H as <- <-. split.
        -- intros [X|X]; [contradiction|injection X as X; contradiction].
        -- intros _. split; reflexivity.
    + injection H as <- <-. split.
      * intros [X|X]; [contradiction|discriminate X].
      * intros _. split; reflexivity.
Qed.

(* the address-collision branch never accepts *)
Lemma handle_telegram_own_address_never_accepts (f : fdl) (w : world A) now sr nps cc da is_last f' w' :
  f_state f = ActiveIdle sr nps cc ->
  handle_telegram A now f w (TToken da (ts f)) is_last = Ok (f', w') ->
  have_token (f_state f') = false.
Proof.
  intros Hst H. unfold handle_telegram in H. rewrite Hst in H. cbn [f_state kind_of state_kind_eqb negb] in H.
  cbn [get_active_idle bind] in H. rewrite Z.eqb_refl in H.
  unfold u8_add in H. destruct (cc + 1 <=? 255); cbn [bind] in H; [|discriminate H].
  destruct (cc + 1 =? active_idle_collision_tolerated).
  - injection H as <- <-. reflexivity.
  - apply trans_state in H. destruct H as [Ht _]. cbn in Ht. injection Ht as Ht. rewrite <- Ht. reflexivity.
Qed.

(* a token that is not the last buffered telegram, or not for us, is only witnessed *)
Lemma handle_telegram_not_last_only_witnessed (f : fdl) (w : world A) now sr nps cc da sa is_last f' w' :
  f_state f = ActiveIdle sr nps cc -> sa <> ts f -> (da <> ts f \/ is_last = false) ->
  handle_telegram A now f w (TToken da sa) is_last = Ok (f', w') ->
  f_state f' = ActiveIdle sr nps 0 /\ witness (f_ring f) sa da = Ok (f_ring f').
Proof.
  intros Hst Hsa Hc H. unfold handle_telegram in H. rewrite Hst in H. cbn [f_state kind_of state_kind_eqb negb] in H.
  cbn [get_active_idle bind] in H.
  destruct (Z.eqb_spec sa (ts f)) as [E|_]; [contradiction|].
  replace (ts (set_st f (ActiveIdle sr nps 0))) with (ts f) in H by reflexivity.
  assert (Hb : negb (da =? ts f) || negb is_last = true).
  { destruct Hc as [Hc| ->]; [apply Z.eqb_neq in Hc; rewrite Hc; reflexivity|apply orb_true_r]. }
  rewrite Hb in H.
  replace (f_ring (set_st f (ActiveIdle sr nps 0))) with (f_ring f) in H by reflexivity.
  destruct (witness (f_ring f) sa da) as [r| |] eqn:Ew; cbn [bind] in H; try discriminate H.
  injection H as <- <-. split; reflexivity.
Qed.

(* ------------------------------------------------------------------------------------------ *)
(* C15 / C13: the reply filter and the hold-time rule                                          *)

Definition reply_ok (tsa addr : Z) (t : telegram) : Prop :=
  t = TShortConf \/
  exists h pdu st s, t = TData h pdu /\ h_fc h = FcResponse st s /\ h_sa h = addr /\ h_da h = tsa.

Lemma is_valid_response_spec f addr t : is_valid_response f addr t = true <-> reply_ok (ts f) addr t.
Proof.
  unfold is_valid_response, reply_ok. destruct t as [h pdu|da sa|].
  - split.
    + intros H. apply andb_true_iff in H. destruct H as [H Hfc]. apply andb_true_iff in H. destruct H as [Hs Hd].
      apply Z.eqb_eq in Hs. apply Z.eqb_eq in Hd. right.
      destruct (h_fc h) as [fb r|st s] eqn:Efc; [discriminate Hfc|].
      exists h, pdu, st, s. repeat split; assumption.
    + intros [H|[h' [pdu' [st [s [Ht [Hfc [Hs Hd]]]]]]]]; [discriminate H|].
      injection Ht as <- <-. rewrite Hfc, Hs, Hd, !Z.eqb_refl. reflexivity.
  - split; [discriminate|]. intros [H|[h' [pdu' [st [s [Ht _]]]]]]; discriminate.
  - split; [intros _; left; reflexivity|reflexivity].
Qed.

(* ------------------------------------------------------------------------------------------ *)
(* do_use_token = its head (everything up to and including the transition to PassToken), then -
   since the F20 repair - do_pass_token in the same poll when the head made that transition.     *)

Definition do_use_token_head (f : fdl) (now : Z) (w : world A) : res (fdl * world A) :=
  let* _ := assert_entry DoUseToken f in
  let* (token_time, _, _) := get_use_token (f_state f) in
  let* (f, w) :=
    (if negb (f_last_token_time f =? token_time) then
       let* e := inst_add (f_last_token_time f) (token_rotation_time (f_p f)) in
       match f_gap f with
       | GapDoPoll _ =>
           let* e := inst_sub_dur e (p_bits_to_time (f_p f) (p_slot_bits (f_p f) + gap_reserve_extra_bits)) in
           Ok (set_hold f token_time e, note A w TUseNewVisitGapReserve)
       | GapWaiting _ => Ok (set_hold f token_time e, note A w TUseNewVisit)
       end
     else Ok (f, w)) in
  let* (f, wait) := wait_synchronization_pause f now in
  if wait then Ok (f, note A w TSyncWait) else
  let* (_, _, fcd) := get_use_token (f_state f) in
  let* (f, w, done) :=
    (if now <? f_end_tht f then
       let* f := set_first_cycle_done f in
       apps_transmit_telegram A ops f now (note A w TUseLowPrio) false
     else if negb fcd then
       let* f := set_first_cycle_done f in
       apps_transmit_telegram A ops f now (note A w TUseHighPrioOnce) true
     else Ok (f, note A w TUseHoldOver, false)) in
  if done then Ok (f, w) else
  trans A f w (fun s => transition_pass_token s true first_attempt).

Definition is_pass_token (s : state) : bool := state_kind_eqb (kind_of s) KPassToken.

Lemma mark_tx_state f now n f' : mark_tx f now n = Ok f' -> f_state f' = f_state f.
Proof.
  unfold mark_tx. intros H.
  destruct (4294967295 <? Z.of_nat n); [discriminate H|].
  destruct (4294967295 <? bits_per_byte * Z.of_nat n); [discriminate H|].
  destruct (inst_add _ _); cbn [bind] in H; try discriminate H. injection H as <-. reflexivity.
Qed.

Lemma app_transmit_not_pass (f : fdl) now (w : world A) idx app hp f' w' d :
  app_transmit_telegram A ops f now w idx app hp = Ok (f', w', d) ->
  is_pass_token (f_state f) = false -> is_pass_token (f_state f') = false.
Proof.
  unfold app_transmit_telegram. intros H Hk.
  destruct (a_tx ops app now (f_p f) hp) as [[app' r]| |]; cbn [bind] in H; try discriminate H.
  destruct r as [[wire exp]|]; [|injection H as <- _ _; exact Hk].
  destruct (phy_transmit A _ wire) as [w1| |]; cbn [bind] in H; try discriminate H.
  destruct exp as [addr|].
  - destruct (get_use_token (f_state f)) as [[[tk fa] fcd]| |]; cbn [bind] in H; try discriminate H.
    match type of H with context [trans A ?a ?b ?c] => destruct (trans A a b c) as [[f1 w2]| |] eqn:Et end;
      cbn [bind] in H; try discriminate H.
    apply trans_state in Et. destruct Et as [Ht _]. unfold transition_await_data_response in Ht.
    destruct (assert_kind _ _); cbn [bind] in Ht; try discriminate Ht. injection Ht as Ht.
    destruct (mark_tx f1 now _) as [f2| |] eqn:Em; cbn [bind] in H; try discriminate H.
    injection H as <- _ _. rewrite (mark_tx_state _ _ _ _ Em), <- Ht. reflexivity.
  - cbn [bind] in H. destruct (mark_tx f now _) as [f2| |] eqn:Em; cbn [bind] in H; try discriminate H.
    injection H as <- _ _. rewrite (mark_tx_state _ _ _ _ Em). exact Hk.
Qed.

Lemma apps_transmit_loop_not_pass n : forall (f : fdl) now (w : world A) hp f' w' d,
  apps_transmit_loop A ops n f now w hp = Ok (f', w', d) ->
  is_pass_token (f_state f) = false -> is_pass_token (f_state f') = false.
Proof.
  induction n as [|n IH]; intros f now w hp f' w' d H Hk; cbn [apps_transmit_loop] in H.
  - injection H as <- _ _. exact Hk.
  - destruct (nth_error (w_apps w) (f_next_app f)) as [app|]; [|discriminate H].
    destruct (app_transmit_telegram A ops f now w (f_next_app f) app hp) as [[[f1 w1] d1]| |] eqn:Ea;
      cbn [bind] in H; try discriminate H.
    apply app_transmit_not_pass in Ea; [|exact Hk].
    destruct d1; [injection H as <- _ _; exact Ea|].
    unfold schedule_next_application in H.
    destruct (get_use_token (f_state f1)) as [[[tk fa] fcd]| |]; cbn [bind] in H; try discriminate H.
    destruct (Nat.eqb (length (w_apps w1)) 0); [discriminate H|]. cbn [bind] in H.
    match type of H with (if ?c then _ else _) = _ => destruct c end.
    + injection H as <- _ _. reflexivity.
    + apply IH in H; [exact H|reflexivity].
Qed.

(* the head leaves PassToken exactly when it made the transition at its end *)
Lemma do_use_token_split (f : fdl) now (w : world A) :
  do_use_token A ops f now w =
  let* (f1, w1) := do_use_token_head f now w in
  if is_pass_token (f_state f1) then do_pass_token A f1 now w1 else Ok (f1, w1).
Proof.
  unfold do_use_token, do_use_token_head, assert_entry.
  destruct (f_state f) as [ | | | |tk fa fcd| | | | | ] eqn:Es;
    cbn [kind_of do_fn_entry state_kind_eqb bind get_use_token]; try reflexivity.
  match goal with |- bind ?x _ = _ => destruct x as [[f1 w1]| |] eqn:E1 end; cbn [bind]; try reflexivity.
  assert (Hs1 : f_state f1 = f_state f).
  { destruct (negb _).
    - destruct (inst_add _ _) as [e| |]; cbn [bind] in E1; try discriminate E1.
      destruct (f_gap f).
      + injection E1 as <- _. reflexivity.
      + destruct (inst_sub_dur _ _) as [e2| |]; cbn [bind] in E1; try discriminate E1.
        injection E1 as <- _. reflexivity.
    - injection E1 as <- _. reflexivity. }
  destruct (wait_synchronization_pause f1 now) as [[f2 wait]| |] eqn:Ew; cbn [bind]; try reflexivity.
  assert (Hs2 : f_state f2 = f_state f1).
  { unfold wait_synchronization_pause, lba_get_or_insert in Ew.
    destruct (f_lba f1);
      (match type of Ew with context [inst_add ?a ?b] => destruct (inst_add a b) end;
       cbn [bind] in Ew; [|discriminate Ew|discriminate Ew]);
      injection Ew as <- _; reflexivity. }
  destruct wait.
  - cbn [bind]. rewrite Hs2, Hs1, Es. reflexivity.
  - rewrite Hs2, Hs1, Es. cbn [get_use_token bind].
    match goal with |- bind ?x _ = _ => destruct x as [[[f3 w3] d]| |] eqn:E3 end; cbn [bind]; try reflexivity.
    destruct d.
    + cbn [bind].
      assert (Hk : is_pass_token (f_state f3) = false).
      { assert (Hk2 : forall f2', set_first_cycle_done f2 = Ok f2' -> is_pass_token (f_state f2') = false).
        { intros f2' Hc. unfold set_first_cycle_done in Hc. rewrite Hs2, Hs1, Es in Hc. cbn [get_use_token bind] in Hc.
          injection Hc as <-. reflexivity. }
        destruct (now <? f_end_tht f2).
        - destruct (set_first_cycle_done f2) as [f2'| |] eqn:Ec; cbn [bind] in E3; try discriminate E3.
          eapply apps_transmit_loop_not_pass; [exact E3|]. apply Hk2. reflexivity.
        - destruct (negb fcd); [|discriminate E3].
          destruct (set_first_cycle_done f2) as [f2'| |] eqn:Ec; cbn [bind] in E3; try discriminate E3.
          eapply apps_transmit_loop_not_pass; [exact E3|]. apply Hk2. reflexivity. }
      rewrite Hk. reflexivity.
    + unfold trans, transition_pass_token.
      destruct (assert_kind _ _); cbn [bind]; reflexivity.
Qed.

(* do_pass_token asks no application and consumes nothing *)
Lemma phy_send_frame (w : world A) rq w' n : phy_send A w rq = Ok (w', n) ->
  w_calls w' = w_calls w /\ w_apps w' = w_apps w /\ w_rx w' = w_rx w.
Proof.
  unfold phy_send. destruct (transmit tx_buffer_size rq) as [[wire e]| |]; cbn [bind]; try discriminate.
  unfold phy_transmit. destruct (w_tx w); cbn [bind]; [discriminate|].
  intros H. injection H as <- <-. cbn. repeat split; reflexivity.
Qed.

Lemma next_gap_poll_traced_frame (f : fdl) (w : world A) cur f' w' :
  next_gap_poll_traced A f w cur = Ok (f', w') ->
  w_calls w' = w_calls w /\ w_apps w' = w_apps w /\ w_rx w' = w_rx w.
Proof.
  unfold next_gap_poll_traced. destruct (next_gap_poll f cur); cbn [bind]; try discriminate.
  intros H. injection H as <- <-. cbn. repeat split; reflexivity.
Qed.

Lemma do_pass_token_frame (f : fdl) now (w : world A) f' w' :
  do_pass_token A f now w = Ok (f', w') ->
  w_calls w' = w_calls w /\ w_apps w' = w_apps w /\ w_rx w' = w_rx w.
Proof.
  unfold do_pass_token. intros H.
  destruct (assert_entry DoPassToken f); cbn [bind] in H; try discriminate H.
  destruct (wait_synchronization_pause f now) as [[f1 wait]| |]; cbn [bind] in H; try discriminate H.
  destruct wait; [injection H as <- <-; cbn; repeat split; reflexivity|].
  destruct (get_pass_token (f_state f1)) as [[g att]| |]; cbn [bind] in H; try discriminate H.
  match type of H with bind ?x _ = _ => destruct x as [[[f2 w2] polled]| |] eqn:E2 end; cbn [bind] in H; try discriminate H.
  assert (H2 : w_calls w2 = w_calls w /\ w_apps w2 = w_apps w /\ w_rx w2 = w_rx w).
  { destruct g; [|injection E2 as _ <- _; repeat split; reflexivity].
    match type of E2 with bind ?x _ = _ => destruct x as [[f3 w3]| |] eqn:E3 end; cbn [bind] in E2; try discriminate E2.
    assert (H3 : w_calls w3 = w_calls w /\ w_apps w3 = w_apps w /\ w_rx w3 = w_rx w).
    { destruct (f_gap f1) as [rc|cur].
      - destruct (p_gap_wait (f_p f1) <? rc).
        + apply next_gap_poll_traced_frame in E3. exact E3.
        + destruct (u8_add rc 1); cbn [bind] in E3; try discriminate E3. injection E3 as _ <-. cbn. repeat split; reflexivity.
      - apply next_gap_poll_traced_frame in E3. exact E3. }
    unfold transmit_gap_poll_if_pending in E2. destruct (f_gap f3) as [rc|cur].
    - injection E2 as _ <- _. exact H3.
    - destruct (cur =? ts f3); [discriminate E2|].
      destruct (phy_send A w3 _) as [[w4 n]| |] eqn:Ep; cbn [bind] in E2; try discriminate E2.
      destruct (mark_tx f3 now n); cbn [bind] in E2; try discriminate E2. injection E2 as _ <- _.
      apply phy_send_frame in Ep. destruct Ep as [-> [-> ->]]. exact H3. }
  destruct H2 as [Hc2 [Ha2 Hr2]].
  destruct polled as [pa|].
  - apply trans_state in H. destruct H as [_ [_ [_ [_ [-> [-> ->]]]]]]. repeat split; assumption.
  - destruct (phy_send A w2 _) as [[w3 n]| |] eqn:Ep; cbn [bind] in H; try discriminate H.
    apply phy_send_frame in Ep. destruct Ep as [Hc3 [Ha3 Hr3]].
    destruct (witness _ _ _); cbn [bind] in H; try discriminate H.
    match type of H with bind ?x _ = _ => destruct x as [[f4 w4]| |] eqn:E4 end; cbn [bind] in H; try discriminate H.
    destruct (mark_tx f4 now n); cbn [bind] in H; try discriminate H. injection H as _ <-.
    assert (H4 : w_calls w4 = w_calls w3 /\ w_apps w4 = w_apps w3 /\ w_rx w4 = w_rx w3).
    { match type of E4 with (if ?c then _ else _) = _ => destruct c end.
      - apply trans_state in E4. destruct E4 as [_ [_ [_ [_ [-> [-> ->]]]]]]. cbn. repeat split; reflexivity.
      - destruct (get_pass_token _) as [[g2 att2]| |]; cbn [bind] in E4; try discriminate E4.
        apply trans_state in E4. destruct E4 as [_ [_ [_ [_ [-> [-> ->]]]]]]. cbn. repeat split; reflexivity. }
    destruct H4 as [-> [-> ->]]. rewrite Hc3, Ha3, Hr3. repeat split; assumption.
Qed.

(* Hold-time rule, the "over" half: in UseToken, with the visit's deadline already computed, the
   synchronisation pause over, the hold time over and the guaranteed cycle done, no application is
   asked and the station goes on to pass the token - since the F20 repair in the same poll: the rest
   of the poll is do_pass_token from PassToken{do_gap, First} (a GAP request or the token goes out). *)
Lemma do_use_token_hold_over (f : fdl) (w : world A) now tk fa l :
  f_state f = UseToken tk fa true -> f_last_token_time f = tk -> f_lba f = Some l ->
  i64_ok (l + p_bits_to_time (f_p f) sync_pause_bits) = true ->
  l + p_bits_to_time (f_p f) sync_pause_bits < now ->
  f_end_tht f <= now ->
  exists w1, do_use_token A ops f now w = do_pass_token A (set_st f (PassToken true first_attempt)) now w1 /\
             w_calls w1 = w_calls w /\ w_tx w1 = w_tx w /\ w_apps w1 = w_apps w /\
             forall f' w', do_use_token A ops f now w = Ok (f', w') ->
                           w_calls w' = w_calls w /\ w_apps w' = w_apps w.
Proof.
  intros Hst Hlt Hl Hok Hsync Hend.
  assert (Hh : exists w1, do_use_token_head f now w = Ok (set_st f (PassToken true first_attempt), w1) /\
                          w_calls w1 = w_calls w /\ w_tx w1 = w_tx w /\ w_apps w1 = w_apps w).
  { unfold do_use_token_head, assert_entry. rewrite Hst. cbn [f_state kind_of do_fn_entry state_kind_eqb bind get_use_token].
    rewrite Hlt, Z.eqb_refl. cbn [negb bind].
    unfold wait_synchronization_pause, lba_get_or_insert. rewrite Hl. unfold inst_add. rewrite Hok. cbn [bind].
    destruct (Z.leb_spec now (l + p_bits_to_time (f_p f) sync_pause_bits)) as [C|_]; [lia|].
    rewrite Hst. cbn [get_use_token bind].
    destruct (Z.ltb_spec now (f_end_tht f)) as [C|_]; [lia|].
    cbn [negb bind]. unfold trans. rewrite Hst. cbn.
    eexists. split; [reflexivity|]. cbn. repeat split; reflexivity. }
  destruct Hh as [w1 [Hh [Hc [Ht Ha]]]].
  assert (Hd : do_use_token A ops f now w = do_pass_token A (set_st f (PassToken true first_attempt)) now w1).
  { rewrite do_use_token_split, Hh. reflexivity. }
  exists w1. split; [exact Hd|]. split; [exact Hc|]. split; [exact Ht|]. split; [exact Ha|].
  intros f' w' H. rewrite Hd in H. apply do_pass_token_frame in H. destruct H as [-> [-> _]]. split; assumption.
Qed.

(* ------------------------------------------------------------------------------------------ *)
(* C01 / C05: a poll while the PHY is busy, or before the predicted end of the own transmission  *)

Lemma prologue_no_tx (f : fdl) (w : world A) (t : state -> res state) f' w' :
  trans A f w t = Ok (f', w') -> w_tx w' = w_tx w.
Proof. intros H. apply trans_state in H. tauto. Qed.

(* while the PHY reports a transmission in progress, a poll transmits nothing, asks no
   application and consumes nothing *)
Lemma poll_busy_silent (f : fdl) now rxb (apps : list A) f' o a c :
  poll ops f now (mkPhyIn true rxb) apps = Ok (f', o, a, c) ->
  tx o = None /\ rx_left o = rxb /\ c = [] /\ a = apps.
Proof.
  unfold poll, poll_traced. intros H.
  destruct (poll_inner ops f now (tx_busy (mkPhyIn true rxb)) (mkWorld (rx (mkPhyIn true rxb)) None apps [] [])) as [[f1 w1]| |] eqn:E;
    cbn [bind] in H; try discriminate H.
  injection H as <- <- <- <-. cbn [tx rx_left tx_busy rx] in *.
  unfold poll_inner in E.
  match type of E with bind ?r _ = _ => destruct r as [[[f2 w2] off]| |] eqn:Ep end; cbn [bind] in E; try discriminate E.
  assert (Hw : w_tx w2 = None /\ w_rx w2 = rxb /\ w_calls w2 = [] /\ w_apps w2 = apps).
  { destruct (f_conn f).
    - destruct (f_state f); try discriminate Ep. injection Ep as <- <- <-. cbn. repeat split; reflexivity.
    - destruct (passive_entry_kind (kind_of (f_state f))).
      + destruct (trans A f _ transition_passive_idle) as [[f3 w3]| |] eqn:Et; cbn [bind] in Ep; try discriminate Ep.
        injection Ep as <- <- <-. apply trans_state in Et. cbn in Et. tauto.
      + injection Ep as <- <- <-. cbn. repeat split; reflexivity.
    - destruct (online_entry_kind (kind_of (f_state f))).
      + destruct (trans A f _ transition_listen_token) as [[f3 w3]| |] eqn:Et; cbn [bind] in Ep; try discriminate Ep.
        injection Ep as <- <- <-. apply trans_state in Et. cbn in Et. tauto.
      + injection Ep as <- <- <-. cbn. repeat split; reflexivity. }
  destruct off.
  - injection E as <- <-. exact Hw.
  - unfold check_for_ongoing_transmision in E. cbn [orb] in E. injection E as <- <-. cbn. exact Hw.
Qed.

(* the same before the predicted end of the station's own transmission (the `now <= l` clause) *)
Lemma poll_predicted_silent (f : fdl) now busy rxb (apps : list A) l f' o a c :
  f_conn f = ConnOnline -> online_entry_kind (kind_of (f_state f)) = false ->
  f_lba f = Some l -> now <= l ->
  poll ops f now (mkPhyIn busy rxb) apps = Ok (f', o, a, c) ->
  tx o = None /\ rx_left o = rxb /\ c = [] /\ a = apps /\ f_state f' = f_state f.
Proof.
  intros Hc Hk Hl Hnow. unfold poll, poll_traced. intros H.
  destruct (poll_inner ops f now (tx_busy (mkPhyIn busy rxb)) (mkWorld (rx (mkPhyIn busy rxb)) None apps [] [])) as [[f1 w1]| |] eqn:E;
    cbn [bind] in H; try discriminate H.
  injection H as <- <- <- <-. cbn [tx rx_left tx_busy rx] in *.
  unfold poll_inner in E. rewrite Hc, Hk in E. cbn [bind] in E.
  unfold check_for_ongoing_transmision in E. rewrite Hl in E.
  replace (ongoing_uses_predicted_end && (now <=? l)) with true in E
    by (symmetry; apply andb_true_iff; split; [reflexivity|apply Z.leb_le; exact Hnow]).
  rewrite orb_true_r in E. injection E as <- <-. cbn.
  unfold mark_bus_activity, lba_get_or_insert. rewrite Hl. cbn. repeat split; reflexivity.
Qed.

(* an offline station does nothing at all *)
Lemma poll_offline_noop (f : fdl) now pin (apps : list A) :
  f_conn f = ConnOffline -> f_state f = Offline ->
  poll ops f now pin apps = Ok (f, mkPhyOut None (rx pin), apps, []).
Proof.
  intros Hc Hs. unfold poll, poll_traced, poll_inner. rewrite Hc, Hs. reflexivity.
Qed.


(* a busy poll of an online station never panics, whatever its state (PassiveIdle is not reachable:
   set_passive is todo!()) *)
Lemma poll_busy_total (f : fdl) now rxb (apps : list A) :
  f_conn f = ConnOnline -> kind_of (f_state f) <> KPassiveIdle ->
  exists f', poll ops f now (mkPhyIn true rxb) apps = Ok (f', mkPhyOut None rxb, apps, []).
Proof.
  intros Hc Hk. unfold poll, poll_traced, poll_inner. rewrite Hc. cbn [tx_busy rx].
  destruct (f_state f) eqn:Es; cbn [kind_of online_entry_kind] in *; try contradiction;
    unfold trans, transition_listen_token, assert_kind; rewrite ?Es; cbn; eexists; reflexivity.
Qed.

(* ------------------------------------------------------------------------------------------ *)
(* C06: claim after the station's own silence time-out                                          *)

Lemma bits_to_time_bounds b n : 0 <= n <= 100000 -> 0 <= bits_to_time b n <= 100000 * 1000000.
Proof.
  intros Hn. unfold bits_to_time.
  assert (Hr : 1 <= baud_to_rate b) by (destruct b; cbn; lia).
  split.
  - apply Z.div_pos; lia.
  - apply Z.div_le_upper_bound; [lia|].
    transitivity (1 * (100000 * 1000000)); [lia|]. apply Z.mul_le_mono_nonneg_r; lia.
Qed.

Definition time_ok (t : Z) : Prop := 0 <= t < 4611686018427387904.   (* [0, 2^62) *)

Lemma i64_ok_small a : -4611686018427387904 <= a <= 4611686018427387904 + 1000000000000 -> i64_ok a = true.
Proof. intros H. unfold i64_ok. apply andb_true_iff. split; apply Z.leb_le; lia. Qed.

(* the first step of do_claim_token: after the synchronisation pause the claim token TS -> TS goes out *)
Lemma do_claim_token_first (f : fdl) (w : world A) now l :
  f_state f = ClaimToken StepFirstToken -> f_lba f = Some l -> w_tx w = None ->
  time_ok l -> time_ok now -> l + p_bits_to_time (f_p f) sync_pause_bits < now ->
  exists f' w', do_claim_token A f now w = Ok (f', w') /\
    w_tx w' = Some (encode_token (ts f) (ts f)) /\ w_rx w' = w_rx w /\ w_calls w' = w_calls w /\
    w_apps w' = w_apps w /\ f_state f' = ClaimToken StepSecondToken /\
    f_gap f' = GapDoPoll (ts f) /\ ready_for_ring (f_ring f') = true.
Proof.
  intros Hs Hl Hw Tl Tn Hsync. unfold time_ok in *.
  pose proof (bits_to_time_bounds (p_baud (f_p f)) sync_pause_bits ltac:(vm_compute; split; discriminate)) as Hb.
  pose proof (bits_to_time_bounds (p_baud (f_p f)) (bits_per_byte * 3) ltac:(vm_compute; split; discriminate)) as Hb2.
  unfold do_claim_token, assert_entry. rewrite Hs. cbn [f_state kind_of do_fn_entry state_kind_eqb bind get_claim_token_step].
  unfold wait_synchronization_pause, lba_get_or_insert. rewrite Hl. unfold inst_add, p_bits_to_time in *.
  rewrite i64_ok_small by lia. cbn [bind].
  destruct (Z.leb_spec now (l + bits_to_time (p_baud (f_p f)) sync_pause_bits)) as [C|_]; [lia|].
  unfold phy_send, transmit. cbn [Nat.ltb Nat.leb tx_buffer_size bind].
  replace (Nat.ltb tx_buffer_size 3) with false by reflexivity. cbn [bind].
  unfold phy_transmit. rewrite Hw. cbn [bind].
  unfold set_claim_step. cbn [f_state set_ring]. rewrite Hs. cbn [get_claim_token_step bind].
  unfold mark_tx. cbn [length encode_token].
  change (Z.of_nat 3) with 3.
  replace (4294967295 <? 3) with false by reflexivity.
  replace (4294967295 <? bits_per_byte * 3) with false by reflexivity.
  unfold inst_add. cbn [f_p set_gap set_st set_ring].
  rewrite i64_ok_small by lia. cbn [bind].
  eexists. eexists. split; [reflexivity|]. cbn. repeat split; reflexivity.
Qed.

Lemma claim_progress (f : fdl) now rxb (apps : list A) l :
  f_conn f = ConnOnline ->
  (exists sr cc, f_state f = ListenToken sr cc) \/ (exists sr nps cc, f_state f = ActiveIdle sr nps cc) ->
  f_lba f = Some l -> time_ok l -> time_ok now ->
  (length rxb <= f_pending f)%nat ->                      (* nothing new in the receive buffer *)
  token_lost_timeout (f_p f) <= now - l ->                (* silence for the station's time-out *)
  l + p_bits_to_time (f_p f) sync_pause_bits < now ->     (* (implied by the former for slot_bits >= 6) *)
  exists f', poll ops f now (mkPhyIn false rxb) apps =
               Ok (f', mkPhyOut (Some (encode_token (ts f) (ts f))) rxb, apps, []) /\
             f_state f' = ClaimToken StepSecondToken.
Proof.
  intros Hc Hst Hl Tl Tn Hrx Hto Hsync.
  assert (Hlt : l < now).
  { pose proof (bits_to_time_bounds (p_baud (f_p f)) sync_pause_bits ltac:(vm_compute; split; discriminate)).
    unfold p_bits_to_time in Hsync. lia. }
  unfold poll, poll_traced, poll_inner. rewrite Hc. cbn [tx_busy rx].
  assert (Hk : online_entry_kind (kind_of (f_state f)) = false)
    by (destruct Hst as [[sr [cc ->]]|[sr [nps [cc ->]]]]; reflexivity).
  rewrite Hk. cbn [bind].
  unfold check_for_ongoing_transmision. rewrite Hl.
  destruct (Z.leb_spec now l) as [C|_]; [lia|]. rewrite andb_false_r. cbn [orb].
  unfold check_for_bus_activity. cbn [w_rx].
  destruct (Nat.ltb_spec (f_pending f) (length rxb)) as [C|_]; [lia|].
  assert (Hdiff : inst_diff now l = Ok (now - l)).
  { unfold inst_diff, time_ok in *. rewrite i64_ok_small by lia. rewrite Z.abs_eq by lia. reflexivity. }
  destruct Hst as [[sr [cc Hs]]|[sr [nps [cc Hs]]]]; rewrite Hs; cbn [kind_of poll_dispatch].
  - unfold do_listen_token, assert_entry. rewrite Hs. cbn [f_state kind_of do_fn_entry state_kind_eqb bind].
    unfold handle_lost_token, lba_get_or_insert. rewrite Hl, Hdiff. cbn [bind].
    destruct (Z.leb_spec (token_lost_timeout (f_p f)) (now - l)) as [_|C]; [|lia].
    unfold trans, transition_claim_token, assert_kind. rewrite Hs. cbn [kind_of may_transition_claim_token bind].
    destruct (do_claim_token_first (set_st f (ClaimToken StepFirstToken))
                (note A (note A (mkWorld rxb None apps [] []) TLostTokenClaim) (TTrans KListenToken KClaimToken)) now l)
      as [f' [w' [Hd [Htx [Hrx' [Hcalls [Happs [Hst' _]]]]]]]]; try reflexivity; try assumption.
    rewrite Hd. cbn [bind]. exists f'. rewrite Htx, Hrx', Hcalls, Happs. split; [reflexivity|exact Hst'].
  - unfold do_active_idle, assert_entry. rewrite Hs. cbn [f_state kind_of do_fn_entry state_kind_eqb bind].
    unfold handle_lost_token, lba_get_or_insert. rewrite Hl, Hdiff. cbn [bind].
    destruct (Z.leb_spec (token_lost_timeout (f_p f)) (now - l)) as [_|C]; [|lia].
    unfold trans, transition_claim_token, assert_kind. rewrite Hs. cbn [kind_of may_transition_claim_token bind].
    destruct (do_claim_token_first (set_st f (ClaimToken StepFirstToken))
                (note A (note A (mkWorld rxb None apps [] []) TLostTokenClaim) (TTrans KActiveIdle KClaimToken)) now l)
      as [f' [w' [Hd [Htx [Hrx' [Hcalls [Happs [Hst' _]]]]]]]]; try reflexivity; try assumption.
    rewrite Hd. cbn [bind]. exists f'. rewrite Htx, Hrx', Hcalls, Happs. split; [reflexivity|exact Hst'].
Qed.

End WithApps.
