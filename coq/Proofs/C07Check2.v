(* C07: the complete check of the finite control space, part 2 (ready delay 2); see C07Proofs.v *)
From PB Require Import C07Abs.
Lemma chk_fixes_2 : chk_fixes (fixes_d 2) = true.
Proof. vm_cast_no_check (eq_refl true). Qed.
