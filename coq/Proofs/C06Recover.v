(* C06_lost_token_recovers_alone, from every state: a lone online station on a silent bus holds the
   token again within an explicit time bound, under any poll schedule with gaps <= P.
   1. the measure: number of LAS entries other than TS, and how witness / remove_station change it;
   2. what the state functions do when the receive buffer is empty;
   3. whole silent polls: wait / goal / progress, per state;
   4. the ranking induction over poll schedules and the bound. *)
From Coq Require Import Sorted.
From PB Require Import Common Tables FdlTables Telegram Phy TokenRing Params Fdl FdlProofs FdlStepProofs.
From PB Require Import LasOracle LasRep C02Proofs C05Proofs DecodeSpec C16Proofs C11Proofs C06Proofs.
From PB Require Import FdlOracleSound2 FdlOracleSound9.
From PB Require C12Proofs C13Proofs.

(* ------------------------------------------------------------------------------------------ *)
(* 1. the measure                                                                               *)

Definition other_ones (las : list bool) (a : Z) : list Z := filter (fun x => negb (x =? a)) (las_ones las).

(* number of stations in the ring view other than the station itself *)
Definition others (r : ring) (a : Z) : nat := length (other_ones (r_las r) a).

Lemma sorted_NoDup l : StronglySorted Z.lt l -> NoDup l.
Proof.
  induction 1 as [|x l Hs IH Hf]; constructor; [|exact IH].
  intros Hin. rewrite Forall_forall in Hf. specialize (Hf _ Hin). lia.
Qed.

Lemma other_ones_NoDup las a : NoDup (other_ones las a).
Proof. apply NoDup_filter, sorted_NoDup, las_ones_sorted. Qed.

Lemma In_other_ones las a x : In x (other_ones las a) <-> active las x /\ x <> a.
Proof.
  unfold other_ones. rewrite filter_In, In_las_ones, negb_true_iff, Z.eqb_neq. tauto.
Qed.

(* las' has no station (other than a) that las has not *)
Definition las_sub (las' las : list bool) (a : Z) : Prop := forall x, x <> a -> active las' x -> active las x.

Lemma las_sub_refl las a : las_sub las las a. Proof. intros x _ H. exact H. Qed.
Lemma las_sub_trans l1 l2 l3 a : las_sub l1 l2 a -> las_sub l2 l3 a -> las_sub l1 l3 a.
Proof. intros H1 H2 x Hx H. apply H2; [exact Hx|]. apply H1; assumption. Qed.

Lemma las_sub_le las' las a : las_sub las' las a -> (length (other_ones las' a) <= length (other_ones las a))%nat.
Proof.
  intros H. apply NoDup_incl_length; [apply other_ones_NoDup|].
  intros x Hx. apply In_other_ones in Hx. destruct Hx as [Hx Hn]. apply In_other_ones. split; [apply H; assumption|exact Hn].
Qed.

Lemma las_sub_lt las' las a b : las_sub las' las a -> b <> a -> active las b -> ~ active las' b ->
  (length (other_ones las' a) < length (other_ones las a))%nat.
Proof.
  intros H Hb Hab Hnb.
  assert (Hl : (length (b :: other_ones las' a) <= length (other_ones las a))%nat).
  { apply NoDup_incl_length.
    - constructor; [|apply other_ones_NoDup]. intros Hin. apply In_other_ones in Hin. tauto.
    - intros x [<-|Hx]; [apply In_other_ones; split; assumption|].
      apply In_other_ones in Hx. destruct Hx as [Hx Hn]. apply In_other_ones. split; [apply H; assumption|exact Hn]. }
  cbn [length] in Hl. lia.
Qed.

Lemma las_sub_after las sa da : length las = 128%nat -> 0 <= sa < 128 -> 0 <= da <= 128 ->
  las_sub (las_after las sa da) las sa.
Proof.
  intros HL Hs Hd x Hx H. unfold active in *. rewrite activeb_las_after in H by assumption.
  apply orb_true_iff in H. destruct H as [H|H]; [apply Z.eqb_eq in H; contradiction|].
  apply andb_true_iff in H. tauto.
Qed.

(* witnessing the own pass adds nobody (but possibly the station itself) *)
Lemma others_witness r a da r' : ring_ok r a -> 0 <= a <= 125 -> 0 <= da ->
  witness r a da = Ok r' -> (others r' a <= others r a)%nat.
Proof.
  intros (W & Ht & Hn) Ha Hd E. unfold others. apply las_sub_le.
  assert (Hupd : bad_addrb (a, da) = false -> las_sub (r_las (upd r a da)) (r_las r) a).
  { intros Hb. destruct (upd_fields r a da) as [-> _]. unfold bad_addrb in Hb. apply orb_false_iff in Hb.
    destruct Hb as [_ Hb]. apply Z.ltb_ge in Hb. apply las_sub_after; [exact W|lia|lia]. }
  destruct (witness_cases r a da r' W ltac:(lia) Hd E) as [[_ ->]|[Hb Hc]]; [apply las_sub_refl|].
  specialize (Hupd Hb).
  destruct (r_state r).
  - subst r'. destruct (is_wrapb (a, da)); apply las_sub_refl.
  - subst r'. destruct (is_wrapb (a, da)); exact Hupd.
  - destruct Hc as [[_ ->]|[_ ->]]; [destruct (is_wrapb (a, da)); apply las_sub_refl|exact Hupd].
  - subst r'. exact Hupd.
Qed.

Lemma ns_active_or_self r a : ring_ok r a -> r_ns r = a \/ active (r_las r) (r_ns r).
Proof.
  intros (W & Ht & Hn & _). rewrite Hn, Ht.
  destruct (next_of_in (las_ones (r_las r)) a) as [->|H]; [left; reflexivity|right; apply In_las_ones; exact H].
Qed.

(* removing the successor takes one station off the list (none if the successor is the station itself) *)
Lemma others_remove r a r1 : ring_ok r a -> 0 <= a < 128 ->
  remove_station r (r_ns r) = Ok r1 ->
  (others r1 a <= others r a)%nat /\ (r_ns r <> a -> (others r1 a < others r a)%nat).
Proof.
  intros R Ha E. pose proof (ring_ok_ns _ _ R Ha) as Hns. pose proof R as (W & Ht & Hn).
  rewrite remove_station_ok in E by exact Hns. injection E as <-.
  unfold others, update_next_previous. cbn [r_las].
  assert (Hlen : 0 <= r_ns r < Z.of_nat (length (r_las r))) by (unfold wf in W; rewrite W; lia).
  assert (Hsub : las_sub (set_nth (r_las r) (Z.to_nat (r_ns r)) false) (r_las r) a).
  { intros x _ H. unfold active in *. rewrite activeb_set in H by exact Hlen.
    destruct (x =? r_ns r); [discriminate H|exact H]. }
  split; [apply las_sub_le; exact Hsub|].
  intros Hne. apply (las_sub_lt _ _ a (r_ns r) Hsub Hne).
  - destruct (ns_active_or_self r a R) as [C|C]; [contradiction|exact C].
  - unfold active. rewrite activeb_set by exact Hlen. rewrite Z.eqb_refl. discriminate.
Qed.

(* nobody else in the ring view: the successor is the station itself - and conversely *)
Lemma others_zero_ns r a : ring_ok r a -> others r a = 0%nat -> r_ns r = a.
Proof.
  intros (W & Ht & Hn & _) H0. rewrite Hn, Ht.
  destruct (next_of_in (las_ones (r_las r)) a) as [E|E]; [exact E|].
  destruct (Z.eq_dec (next_of (las_ones (r_las r)) a) a) as [C|C]; [exact C|exfalso].
  assert (Hin : In (next_of (las_ones (r_las r)) a) (other_ones (r_las r) a))
    by (apply In_other_ones; split; [apply In_las_ones; exact E|exact C]).
  unfold others in H0. destruct (other_ones (r_las r) a); [contradiction Hin|discriminate H0].
Qed.

Lemma ns_self_others r a : ring_ok r a -> r_ns r = a -> others r a = 0%nat.
Proof.
  intros (W & Ht & Hn & _) Hs. rewrite Hn, Ht in Hs. unfold others.
  destruct (other_ones (r_las r) a) as [|x t] eqn:Eo; [reflexivity|exfalso].
  assert (Hx : In x (other_ones (r_las r) a)) by (rewrite Eo; left; reflexivity).
  apply In_other_ones in Hx. destruct Hx as [Hx Hne]. apply In_las_ones in Hx.
  pose proof (las_ones_sorted (r_las r)) as Hsort.
  unfold next_of in Hs. destruct (find (fun y => a <? y) (las_ones (r_las r))) as [y|] eqn:Ef.
  - apply find_some in Ef. destruct Ef as [_ Ef]. apply Z.ltb_lt in Ef. lia.
  - pose proof (find_none _ _ Ef) as Hnone.
    destruct (las_ones (r_las r)) as [|h tl] eqn:El; [contradiction Hx|]. subst h.
    destruct Hx as [Hx|Hx]; [lia|].
    pose proof (sorted_head_lt _ _ _ Hsort Hx) as Hlt.
    specialize (Hnone x (or_intror Hx)). cbn in Hnone. apply Z.ltb_ge in Hnone. lia.
Qed.

Lemma ones_from_length l : forall i, (length (ones_from l i) <= length l)%nat.
Proof. induction l as [|b t IH]; intros i; cbn; [lia|]. destruct b; cbn; specialize (IH (i + 1)); lia. Qed.

Lemma filter_len {X} (g : X -> bool) l : (length (filter g l) <= length l)%nat.
Proof. induction l as [|x t IH]; cbn; [lia|]. destruct (g x); cbn; lia. Qed.

Lemma others_bound r a : wf r -> (others r a <= 128)%nat.
Proof.
  intros W. unfold others, other_ones. etransitivity; [apply filter_len|].
  unfold las_ones. etransitivity; [apply ones_from_length|]. unfold wf in W. lia.
Qed.

(* ------------------------------------------------------------------------------------------ *)
(* 2. the state functions on an empty receive buffer                                            *)

Section Silent.
Variable A : Type.
Variable ops : app_ops A.
Notation W := (world A).

Lemma kind_claim_have s : kind_of s = KClaimToken -> have_token s = true.
Proof. unfold have_token. intros ->. reflexivity. Qed.

(* what a token-holding function leaves behind when nothing is heard: it still holds the token, or it
   is about to pass it (first attempt, nothing sent yet, ring view untouched), or it has just passed it
   to NS (first attempt) and has witnessed that pass *)
Definition hold_out (f f' : fdl) (w' : W) : Prop :=
  have_token (f_state f') = true \/
  (exists dg, f_state f' = PassToken dg AttFirst /\ w_tx w' = None /\ f_ring f' = f_ring f) \/
  (f_state f' = CheckTokenPass AttFirst /\ w_tx w' = Some (encode_token (r_ns (f_ring f)) (ts f)) /\
   witness (f_ring f) (ts f) (r_ns (f_ring f)) = Ok (f_ring f')).

Lemma hold_out_ext f g f' (w' : W) : f_ring g = f_ring f -> f_p g = f_p f -> hold_out g f' w' -> hold_out f f' w'.
Proof. unfold hold_out, ts. intros Hr Hp. rewrite Hr, Hp. tauto. Qed.

Lemma pass_hold f now (w : W) f' w' dg :
  f_state f = PassToken dg AttFirst -> w_tx w = None -> do_pass_token A f now w = Ok (f', w') -> hold_out f f' w'.
Proof.
  intros Hs Hw H. apply (do_pass_token_spec A f now w f' w' dg AttFirst Hs Hw) in H.
  destruct H as [[_ [Hr [_ [_ [Hst _]]]]] Htx _ _ _|addr _ Hst _ _ _ _ _ _ _|[r' [Hwit [Hr [Htx [Hst _]]]]]].
  - right. left. exists dg. rewrite Hst. repeat split; assumption.
  - left. rewrite Hst. reflexivity.
  - destruct (r_ns r' =? ts f).
    + left. rewrite Hst. reflexivity.
    + right. right. subst r'. repeat split; assumption.
Qed.

Lemma await_silent f now (w : W) pa f1 w1 r :
  w_rx w = [] -> await_gap_poll_response A f now w pa = Ok (f1, w1, r) -> r = GprWaiting \/ r = GprNoResponse.
Proof.
  intros Hr H. unfold await_gap_poll_response in H.
  destruct (pa =? ts f); [discriminate H|]. destruct (negb _); [discriminate H|].
  rewrite receive_telegram_spec, Hr in H. cbn [decode_spec bind] in H.
  destruct (check_slot_expired _ now) as [[f2 b]| |]; cbn [bind] in H; try discriminate H.
  destruct b; injection H as _ _ <-; tauto.
Qed.

Lemma scan_silent f now (w : W) f' w' st :
  f_state f = ClaimToken st -> w_tx w = None -> do_claim_token_scan A f now w = Ok (f', w') ->
  kind_of (f_state f') = KClaimToken \/ (f_state f' = PassToken false AttFirst /\ w_tx w' = None /\ f_ring f' = f_ring f).
Proof.
  intros Hst Hw H. unfold do_claim_token_scan in H.
  destruct (wait_synchronization_pause f now) as [[f1 wait]| |] eqn:Ew; cbn [bind] in H; try discriminate H.
  apply wait_sync_same in Ew. destruct Ew as [[_ [Hr1 [_ [_ [Hs1 _]]]]] _].
  destruct wait.
  - injection H as <- <-. left. rewrite Hs1, Hst. reflexivity.
  - destruct (f_gap f1) as [rc|cur].
    + match type of H with bind ?x _ = _ => destruct x as [[f2 w2]| |] eqn:Et end; cbn [bind] in H; try discriminate H.
      injection H as <- <-. apply trans_spec in Et. destruct Et as [s' [Ht [-> ->]]].
      rewrite Hs1, Hst in Ht. cbn in Ht. injection Ht as <-. right. cbn. repeat split; assumption.
    + destruct (next_gap_poll_traced A f1 w cur) as [[f2 w2]| |] eqn:En; cbn [bind] in H; try discriminate H.
      apply next_gap_poll_traced_spec in En. destruct En as [g [_ [-> _]]].
      destruct (transmit_gap_poll_if_pending A (set_gap f1 g) now w2) as [[[f3 w3] polled]| |] eqn:Et; cbn [bind] in H; try discriminate H.
      apply transmit_gap_poll_spec in Et. destruct Et as [[_ [_ [_ [_ [Hs3 _]]]]] Hpol].
      destruct polled as [pa|].
      * unfold set_claim_step in H. destruct (get_claim_token_step (f_state f3)); cbn [bind] in H; try discriminate H.
        injection H as <- <-. left. reflexivity.
      * injection H as <- <-. left. rewrite Hs3. cbn. rewrite Hs1, Hst. reflexivity.
Qed.

Lemma do_claim_token_silent f now (w : W) f' w' st :
  f_state f = ClaimToken st -> w_tx w = None -> w_rx w = [] ->
  do_claim_token A f now w = Ok (f', w') -> hold_out f f' w'.
Proof.
  intros Es Hw Hrx H. unfold do_claim_token, assert_entry in H. rewrite Es in H.
  cbn [kind_of do_fn_entry state_kind_eqb bind get_claim_token_step] in H.
  assert (Hscan : forall g (v : W), f_state g = ClaimToken StepScan -> f_ring g = f_ring f -> f_p g = f_p f -> w_tx v = None ->
            do_claim_token_scan A g now v = Ok (f', w') -> hold_out f f' w').
  { intros g v Hg Hr Hp Hv Hd. destruct (scan_silent g now v f' w' _ Hg Hv Hd) as [K|[S [T R]]].
    - left. apply kind_claim_have. exact K.
    - right. left. exists false. rewrite R, Hr. repeat split; assumption. }
  destruct st as [ | | |a0].
  - destruct (wait_synchronization_pause f now) as [[f1 wait]| |] eqn:Ew; cbn [bind] in H; try discriminate H.
    apply wait_sync_same in Ew. destruct Ew as [[_ [_ [_ [_ [Hs1 _]]]]] _].
    destruct wait; [injection H as <- <-; left; rewrite Hs1, Es; reflexivity|].
    destruct (phy_send A w _) as [[w1 k]| |]; cbn [bind] in H; try discriminate H.
    unfold set_claim_step in H. cbn [set_ring f_state] in H. rewrite Hs1, Es in H. cbn [get_claim_token_step bind] in H.
    destruct (mark_tx _ now k) as [f2| |] eqn:Em; cbn [bind] in H; try discriminate H.
    injection H as <- <-. apply mark_tx_same in Em. destruct Em as [_ [_ [_ [_ [Hs2 _]]]]]. left. rewrite Hs2. reflexivity.
  - destruct (wait_synchronization_pause f now) as [[f1 wait]| |] eqn:Ew; cbn [bind] in H; try discriminate H.
    apply wait_sync_same in Ew. destruct Ew as [[_ [_ [_ [_ [Hs1 _]]]]] _].
    destruct wait; [injection H as <- <-; left; rewrite Hs1, Es; reflexivity|].
    destruct (phy_send A w _) as [[w1 k]| |]; cbn [bind] in H; try discriminate H.
    unfold set_claim_step in H. cbn [set_ring f_state] in H. rewrite Hs1, Es in H. cbn [get_claim_token_step bind] in H.
    destruct (mark_tx _ now k) as [f2| |] eqn:Em; cbn [bind] in H; try discriminate H.
    injection H as <- <-. apply mark_tx_same in Em. destruct Em as [_ [_ [_ [_ [Hs2 _]]]]]. left. rewrite Hs2. reflexivity.
  - eapply Hscan; [exact Es|reflexivity|reflexivity|exact Hw|exact H].
  - destruct (await_gap_poll_response A f now w a0) as [[[f1 w1] r]| |] eqn:Ea; cbn [bind] in H; try discriminate H.
    pose proof (await_silent _ _ _ _ _ _ _ Hrx Ea) as Hr.
    apply await_gap_poll_response_frame in Ea. destruct Ea as [Hp1 [_ [Hs1 [Htx1 [_ Hr1]]]]].
    destruct Hr as [-> | ->].
    + injection H as <- <-. left. rewrite Hs1, Es. reflexivity.
    + unfold set_claim_step in H. rewrite Hs1, Es in H. cbn [get_claim_token_step bind] in H.
      eapply Hscan; [| | | |exact H]; cbn; try reflexivity; try assumption.
      * apply Hr1. discriminate.
      * rewrite Htx1. exact Hw.
Qed.

Lemma do_await_status_response_silent f now (w : W) f' w' a :
  f_state f = AwaitStatusResponse a -> w_tx w = None -> w_rx w = [] ->
  do_await_status_response A f now w = Ok (f', w') -> hold_out f f' w'.
Proof.
  intros Es Hw Hrx H. unfold do_await_status_response, assert_entry in H. rewrite Es in H.
  cbn [kind_of do_fn_entry state_kind_eqb bind get_await_status_response_address] in H.
  destruct (await_gap_poll_response A f now w a) as [[[f1 w1] r]| |] eqn:Ea; cbn [bind] in H; try discriminate H.
  pose proof (await_silent _ _ _ _ _ _ _ Hrx Ea) as Hr.
  apply await_gap_poll_response_frame in Ea. destruct Ea as [Hp1 [_ [Hs1 [Htx1 [_ Hr1]]]]].
  destruct Hr as [-> | ->].
  - injection H as <- <-. left. rewrite Hs1, Es. reflexivity.
  - match type of H with context [trans A ?x ?y ?z] => destruct (trans A x y z) as [[f2 w2]| |] eqn:Et end; cbn [bind] in H; try discriminate H.
    apply trans_spec in Et. destruct Et as [s' [Ht [-> ->]]]. rewrite Hs1, Es in Ht. cbn in Ht. injection Ht as <-.
    apply (pass_hold _ now _ f' w' false) in H; [|reflexivity|cbn; rewrite Htx1; exact Hw].
    eapply hold_out_ext; [| |exact H]; cbn; [apply Hr1; discriminate|exact Hp1].
Qed.

Lemma do_use_token_silent f now (w : W) f' w' tk fa fcd :
  f_state f = UseToken tk fa fcd -> w_tx w = None ->
  do_use_token A ops f now w = Ok (f', w') -> hold_out f f' w'.
Proof.
  intros Es Hw H. rewrite do_use_token_split in H.
  destruct (do_use_token_head A ops f now w) as [[f1 w1]| |] eqn:Eh; cbn [bind] in H; try discriminate H.
  destruct (is_pass_token (f_state f1)) eqn:Ek.
  - destruct (do_use_token_head_pass A ops _ _ _ _ _ Eh Ek) as [Es1 [_ [Hp1 [Hr1 [_ [_ [_ [Htx1 _]]]]]]]].
    apply (pass_hold _ now _ f' w' true) in H; [|exact Es1|rewrite Htx1; exact Hw].
    eapply hold_out_ext; [exact Hr1|exact Hp1|exact H].
  - injection H as <- <-.
    destruct (C13Proofs.do_use_token_head_state A ops _ _ _ _ _ _ _ _ Eh Es) as [_ [_ Hc]].
    left. destruct Hc as [[E _]|[[fa' E]|[[a0 [fa' E]]|E]]]; rewrite E; try rewrite Es; try reflexivity.
    rewrite E in Ek. discriminate Ek.
Qed.

Lemma do_await_data_response_silent f now (w : W) f' w' addr tk fa :
  f_state f = AwaitDataResponse addr tk fa -> w_tx w = None -> w_rx w = [] ->
  do_await_data_response A ops f now w = Ok (f', w') -> hold_out f f' w'.
Proof.
  intros Es Hw Hrx H. unfold do_await_data_response, assert_entry in H. rewrite Es in H.
  cbn [kind_of do_fn_entry state_kind_eqb bind get_await_data_response] in H.
  destruct (nth_error (w_apps w) (f_next_app f)) as [app|]; [|discriminate H].
  rewrite receive_telegram_spec, Hrx in H. cbn [decode_spec bind length] in H.
  destruct (check_slot_expired _ now) as [[f1 expired]| |] eqn:Ec; cbn [bind] in H; try discriminate H.
  apply check_slot_expired_same in Ec. destruct Ec as [Hp1 [Hr1 [_ [_ [Hs1 _]]]]].
  cbn [sync_pending_bytes set_pending f_state f_p f_ring] in Hs1, Hp1, Hr1.
  destruct expired.
  - destruct (a_to ops app now _ addr) as [app'| |]; cbn [bind] in H; try discriminate H.
    match type of H with context [trans A ?x ?y ?z] => destruct (trans A x y z) as [[f2 w2]| |] eqn:Et end; cbn [bind] in H; try discriminate H.
    apply trans_spec in Et. destruct Et as [s' [Ht [-> ->]]].
    rewrite Hs1, Es in Ht. cbn in Ht. injection Ht as <-.
    unfold set_first_cycle_done in H. cbn [set_st f_state get_use_token bind] in H.
    apply (do_use_token_silent _ now _ f' w' tk fa true) in H; [|reflexivity|].
    + eapply hold_out_ext; [| |exact H]; cbn; assumption.
    + cbn [w_tx note log_call set_app set_rx]. match goal with |- context [if ?c then _ else _] => destruct c end; exact Hw.
  - injection H as <- <-. left. rewrite Hs1, Es. reflexivity.
Qed.

(* ---- the idle states ---- *)

Lemma wait_sync_spec f now f1 b : wait_synchronization_pause f now = Ok (f1, b) ->
  same_but_lba f f1 /\ f_lba f1 = Some (gv now (f_lba f)) /\
  b = (now <=? gv now (f_lba f) + p_bits_to_time (f_p f) sync_pause_bits).
Proof.
  unfold wait_synchronization_pause. destruct (lba_get_or_insert f now) as [l f0] eqn:E.
  apply lba_get_or_insert_same in E. destruct E as [Hs [Hl Hm]].
  assert (El : l = gv now (f_lba f)) by (destruct (f_lba f); exact Hm).
  unfold inst_add. destruct (i64_ok _); cbn [bind]; [|discriminate].
  intros H. injection H as <- <-. split; [exact Hs|]. split; [rewrite <- El; exact Hl|].
  destruct Hs as [Hp _]. rewrite Hp, El. reflexivity.
Qed.

Lemma hlt_false f now (w : W) f0 w0 : handle_lost_token A f now w = Ok (f0, w0, false) ->
  same_but_lba f f0 /\ w0 = w /\ f_lba f0 = Some (gv now (f_lba f)) /\
  Z.abs (now - gv now (f_lba f)) < token_lost_timeout (f_p f).
Proof.
  intros H. pose proof (handle_lost_token_cases A f now w f0 w0 false H) as [l [Hm Hlt]].
  assert (El : l = gv now (f_lba f)) by (destruct (f_lba f); exact Hm). subst l.
  unfold handle_lost_token in H. destruct (lba_get_or_insert f now) as [l g] eqn:E.
  apply lba_get_or_insert_same in E. destruct E as [Hs [Hl Hm']].
  assert (El : l = gv now (f_lba f)) by (destruct (f_lba f); exact Hm').
  destruct (inst_diff now l); cbn [bind] in H; try discriminate H.
  destruct (token_lost_timeout (f_p g) <=? _).
  - match type of H with bind ?x _ = _ => destruct x as [[f1 w1]| |] end; cbn [bind] in H; try discriminate H.
    match type of H with bind ?x _ = _ => destruct x as [[f2 w2]| |] end; cbn [bind] in H; discriminate H.
  - injection H as <- <-. subst l. split; [exact Hs|]. split; [reflexivity|]. split; [exact Hl|exact Hlt].
Qed.

Definition idle_rank (s : state) : nat :=
  match s with
  | ListenToken None _ | ActiveIdle None _ _ => 1
  | ListenToken (Some _) _ | ActiveIdle (Some _) _ _ | Offline => 2
  | _ => 0
  end.

Inductive idle_out (f : fdl) (now : Z) (f' : fdl) (w' : W) : Prop :=
| IoClaim : kind_of (f_state f') = KClaimToken -> idle_out f now f' w'
| IoWait : f_state f' = f_state f -> w_tx w' = None ->
    (now <= gv now (f_lba f) + p_bits_to_time (f_p f) sync_pause_bits \/
     Z.abs (now - gv now (f_lba f)) < token_lost_timeout (f_p f)) -> idle_out f now f' w'
| IoReply wire : idle_rank (f_state f) = 2%nat -> idle_rank (f_state f') = 1%nat ->
    w_tx w' = Some wire -> length wire = 6%nat -> idle_out f now f' w'.

Lemma do_listen_token_silent f now (w : W) f' w' sr cc :
  f_state f = ListenToken sr cc -> w_tx w = None -> w_rx w = [] ->
  do_listen_token A f now w = Ok (f', w') -> idle_out f now f' w'.
Proof.
  intros Es Hw Hrx H. unfold do_listen_token, assert_entry in H. rewrite Es in H.
  cbn [kind_of do_fn_entry state_kind_eqb bind] in H.
  destruct (handle_lost_token A f now w) as [[[f0 w0] d]| |] eqn:Eh; cbn [bind] in H; try discriminate H.
  destruct d.
  - injection H as <- <-. apply IoClaim. destruct (handle_lost_token_claims A _ _ _ _ _ Eh) as [E|E]; rewrite E; reflexivity.
  - apply hlt_false in Eh. destruct Eh as [[Hp0 [_ [_ [_ [Hs0 _]]]]] [-> [Hl0 Hto]]].
    rewrite Hs0, Es in H. cbn [get_listen_token bind] in H.
    destruct sr as [src|].
    + destruct (wait_synchronization_pause f0 now) as [[f1 wait]| |] eqn:Ew; cbn [bind] in H; try discriminate H.
      apply wait_sync_spec in Ew. destruct Ew as [[Hp1 [_ [_ [_ [Hs1 _]]]]] [_ Hb]].
      rewrite Hl0 in Hb. cbn [gv] in Hb. rewrite Hp0 in Hb.
      destruct wait.
      * injection H as <- <-. apply IoWait; [rewrite Hs1, Hs0; reflexivity|exact Hw|].
        left. symmetry in Hb. apply Z.leb_le in Hb. exact Hb.
      * unfold phy_send, transmit, status_response_header in H. rewrite C12Proofs.encode_nosap in H.
        cbn [bind] in H. unfold phy_transmit in H. rewrite Hw in H. cbn [bind] in H.
        match type of H with bind ?x _ = _ => destruct x as [[f2 w2]| |] eqn:E2 end; cbn [bind] in H; try discriminate H.
        destruct (mark_tx f2 now _) as [f3| |] eqn:Em; cbn [bind] in H; try discriminate H.
        injection H as <- <-. apply mark_tx_same in Em. destruct Em as [_ [_ [_ [_ [Hs3 _]]]]].
        destruct (ready_for_ring (f_ring f1)).
        -- apply trans_spec in E2. destruct E2 as [s' [Ht [-> ->]]]. rewrite Hs1, Hs0, Es in Ht. cbn in Ht. injection Ht as <-.
           eapply IoReply; [rewrite Es; reflexivity|rewrite Hs3; reflexivity|reflexivity|apply C12Proofs.encode_nosap_length].
        -- rewrite Hs1, Hs0, Es in E2. cbn [get_listen_token bind] in E2. injection E2 as <- <-.
           eapply IoReply; [rewrite Es; reflexivity|rewrite Hs3; reflexivity|reflexivity|apply C12Proofs.encode_nosap_length].
    + unfold receive_all_telegrams in H. rewrite Hrx in H. unfold receive_all_fuel in H.
      rewrite receive_all_step in H. cbn [decode_spec bind] in H. injection H as <- <-.
      apply IoWait; [cbn; rewrite Hs0; reflexivity|exact Hw|right; exact Hto].
Qed.

Lemma do_active_idle_silent f now (w : W) f' w' sr nps cc :
  f_state f = ActiveIdle sr nps cc -> w_tx w = None -> w_rx w = [] ->
  do_active_idle A f now w = Ok (f', w') -> idle_out f now f' w'.
Proof.
  intros Es Hw Hrx H. unfold do_active_idle, assert_entry in H. rewrite Es in H.
  cbn [kind_of do_fn_entry state_kind_eqb bind] in H.
  destruct (handle_lost_token A f now w) as [[[f0 w0] d]| |] eqn:Eh; cbn [bind] in H; try discriminate H.
  destruct d.
  - injection H as <- <-. apply IoClaim. destruct (handle_lost_token_claims A _ _ _ _ _ Eh) as [E|E]; rewrite E; reflexivity.
  - apply hlt_false in Eh. destruct Eh as [[Hp0 [_ [_ [_ [Hs0 _]]]]] [-> [Hl0 Hto]]].
    rewrite Hs0, Es in H. cbn [get_active_idle bind] in H.
    destruct sr as [src|].
    + destruct (wait_synchronization_pause f0 now) as [[f1 wait]| |] eqn:Ew; cbn [bind] in H; try discriminate H.
      apply wait_sync_spec in Ew. destruct Ew as [[Hp1 [_ [_ [_ [Hs1 _]]]]] [_ Hb]].
      rewrite Hl0 in Hb. cbn [gv] in Hb. rewrite Hp0 in Hb.
      destruct wait.
      * injection H as <- <-. apply IoWait; [rewrite Hs1, Hs0; reflexivity|exact Hw|].
        left. symmetry in Hb. apply Z.leb_le in Hb. exact Hb.
      * unfold phy_send, transmit, status_response_header in H. rewrite C12Proofs.encode_nosap in H.
        cbn [bind] in H. unfold phy_transmit in H. rewrite Hw in H. cbn [bind] in H.
        destruct (mark_tx _ now _) as [f3| |] eqn:Em; cbn [bind] in H; try discriminate H.
        injection H as <- <-. apply mark_tx_same in Em. destruct Em as [_ [_ [_ [_ [Hs3 _]]]]].
        eapply IoReply; [rewrite Es; reflexivity|rewrite Hs3; reflexivity|reflexivity|apply C12Proofs.encode_nosap_length].
    + unfold receive_all_telegrams in H. rewrite Hrx in H. unfold receive_all_fuel in H.
      rewrite receive_all_step in H. cbn [decode_spec bind] in H. injection H as <- <-.
      apply IoWait; [cbn; rewrite Hs0; reflexivity|exact Hw|right; exact Hto].
Qed.

End Silent.
