(* C06_lost_token_recovers_alone, from every state: a lone online station on a silent bus holds the
   token again within an explicit time bound, under any poll schedule with gaps <= P.
   1. the measure: number of LAS entries other than TS, and how witness / remove_station change it;
   2. what the state functions do when the receive buffer is empty;
   3. whole silent polls: wait / goal / progress, per state;
   4. the ranking induction over poll schedules and the bound. *)
From Coq Require Import Sorted.
From PB Require Import Common Tables FdlTables Telegram Phy TokenRing Params Fdl FdlProofs FdlStepProofs.
From PB Require Import LasOracle LasRep C02Proofs C05Proofs DecodeSpec C16Proofs C11Proofs C06Proofs.
From PB Require Import FdlOracleSound2 FdlOracleSound9.
From PB Require C12Proofs C13Proofs.

(* ------------------------------------------------------------------------------------------ *)
(* 1. the measure                                                                               *)

Definition other_ones (las : list bool) (a : Z) : list Z := filter (fun x => negb (x =? a)) (las_ones las).

(* number of stations in the ring view other than the station itself *)
Definition others (r : ring) (a : Z) : nat := length (other_ones (r_las r) a).

Lemma sorted_NoDup l : StronglySorted Z.lt l -> NoDup l.
Proof.
  induction 1 as [|x l Hs IH Hf]; constructor; [|exact IH].
  intros Hin. rewrite Forall_forall in Hf. specialize (Hf _ Hin). lia.
Qed.

Lemma other_ones_NoDup las a : NoDup (other_ones las a).
Proof. apply NoDup_filter, sorted_NoDup, las_ones_sorted. Qed.

Lemma In_other_ones las a x : In x (other_ones las a) <-> active las x /\ x <> a.
Proof.
  unfold other_ones. rewrite filter_In, In_las_ones, negb_true_iff, Z.eqb_neq. tauto.
Qed.

(* las' has no station (other than a) that las has not *)
Definition las_sub (las' las : list bool) (a : Z) : Prop := forall x, x <> a -> active las' x -> active las x.

Lemma las_sub_refl las a : las_sub las las a. Proof. intros x _ H. exact H. Qed.
Lemma las_sub_trans l1 l2 l3 a : las_sub l1 l2 a -> las_sub l2 l3 a -> las_sub l1 l3 a.
Proof. intros H1 H2 x Hx H. apply H2; [exact Hx|]. apply H1; assumption. Qed.

Lemma las_sub_le las' las a : las_sub las' las a -> (length (other_ones las' a) <= length (other_ones las a))%nat.
Proof.
  intros H. apply NoDup_incl_length; [apply other_ones_NoDup|].
  intros x Hx. apply In_other_ones in Hx. destruct Hx as [Hx Hn]. apply In_other_ones. split; [apply H; assumption|exact Hn].
Qed.

Lemma las_sub_lt las' las a b : las_sub las' las a -> b <> a -> active las b -> ~ active las' b ->
  (length (other_ones las' a) < length (other_ones las a))%nat.
Proof.
  intros H Hb Hab Hnb.
  assert (Hl : (length (b :: other_ones las' a) <= length (other_ones las a))%nat).
  { apply NoDup_incl_length.
    - constructor; [|apply other_ones_NoDup]. intros Hin. apply In_other_ones in Hin. tauto.
    - intros x [<-|Hx]; [apply In_other_ones; split; assumption|].
      apply In_other_ones in Hx. destruct Hx as [Hx Hn]. apply In_other_ones. split; [apply H; assumption|exact Hn]. }
  cbn [length] in Hl. lia.
Qed.

Lemma las_sub_after las sa da : length las = 128%nat -> 0 <= sa < 128 -> 0 <= da <= 128 ->
  las_sub (las_after las sa da) las sa.
Proof.
  intros HL Hs Hd x Hx H. unfold active in *. rewrite activeb_las_after in H by assumption.
  apply orb_true_iff in H. destruct H as [H|H]; [apply Z.eqb_eq in H; contradiction|].
  apply andb_true_iff in H. tauto.
Qed.

(* witnessing the own pass adds nobody (but possibly the station itself) *)
Lemma others_witness r a da r' : ring_ok r a -> 0 <= a <= 125 -> 0 <= da ->
  witness r a da = Ok r' -> (others r' a <= others r a)%nat.
Proof.
  intros (W & Ht & Hn) Ha Hd E. unfold others. apply las_sub_le.
  assert (Hupd : bad_addrb (a, da) = false -> las_sub (r_las (upd r a da)) (r_las r) a).
  { intros Hb. destruct (upd_fields r a da) as [-> _]. unfold bad_addrb in Hb. apply orb_false_iff in Hb.
    destruct Hb as [_ Hb]. apply Z.ltb_ge in Hb. apply las_sub_after; [exact W|lia|lia]. }
  destruct (witness_cases r a da r' W ltac:(lia) Hd E) as [[_ ->]|[Hb Hc]]; [apply las_sub_refl|].
  specialize (Hupd Hb).
  destruct (r_state r).
  - subst r'. destruct (is_wrapb (a, da)); apply las_sub_refl.
  - subst r'. destruct (is_wrapb (a, da)); exact Hupd.
  - destruct Hc as [[_ ->]|[_ ->]]; [destruct (is_wrapb (a, da)); apply las_sub_refl|exact Hupd].
  - subst r'. exact Hupd.
Qed.

Lemma ns_active_or_self r a : ring_ok r a -> r_ns r = a \/ active (r_las r) (r_ns r).
Proof.
  intros (W & Ht & Hn & _). rewrite Hn, Ht.
  destruct (next_of_in (las_ones (r_las r)) a) as [->|H]; [left; reflexivity|right; apply In_las_ones; exact H].
Qed.

(* removing the successor takes one station off the list (none if the successor is the station itself) *)
Lemma others_remove r a r1 : ring_ok r a -> 0 <= a < 128 ->
  remove_station r (r_ns r) = Ok r1 ->
  (others r1 a <= others r a)%nat /\ (r_ns r <> a -> (others r1 a < others r a)%nat).
Proof.
  intros R Ha E. pose proof (ring_ok_ns _ _ R Ha) as Hns. pose proof R as (W & Ht & Hn).
  rewrite remove_station_ok in E by exact Hns. injection E as <-.
  unfold others, update_next_previous. cbn [r_las].
  assert (Hlen : 0 <= r_ns r < Z.of_nat (length (r_las r))) by (unfold wf in W; rewrite W; lia).
  assert (Hsub : las_sub (set_nth (r_las r) (Z.to_nat (r_ns r)) false) (r_las r) a).
  { intros x _ H. unfold active in *. rewrite activeb_set in H by exact Hlen.
    destruct (x =? r_ns r); [discriminate H|exact H]. }
  split; [apply las_sub_le; exact Hsub|].
  intros Hne. apply (las_sub_lt _ _ a (r_ns r) Hsub Hne).
  - destruct (ns_active_or_self r a R) as [C|C]; [contradiction|exact C].
  - unfold active. rewrite activeb_set by exact Hlen. rewrite Z.eqb_refl. discriminate.
Qed.

(* nobody else in the ring view: the successor is the station itself - and conversely *)
Lemma others_zero_ns r a : ring_ok r a -> others r a = 0%nat -> r_ns r = a.
Proof.
  intros (W & Ht & Hn & _) H0. rewrite Hn, Ht.
  destruct (next_of_in (las_ones (r_las r)) a) as [E|E]; [exact E|].
  destruct (Z.eq_dec (next_of (las_ones (r_las r)) a) a) as [C|C]; [exact C|exfalso].
  assert (Hin : In (next_of (las_ones (r_las r)) a) (other_ones (r_las r) a))
    by (apply In_other_ones; split; [apply In_las_ones; exact E|exact C]).
  unfold others in H0. destruct (other_ones (r_las r) a); [contradiction Hin|discriminate H0].
Qed.

Lemma ns_self_others r a : ring_ok r a -> r_ns r = a -> others r a = 0%nat.
Proof.
  intros (W & Ht & Hn & _) Hs. rewrite Hn, Ht in Hs. unfold others.
  destruct (other_ones (r_las r) a) as [|x t] eqn:Eo; [reflexivity|exfalso].
  assert (Hx : In x (other_ones (r_las r) a)) by (rewrite Eo; left; reflexivity).
  apply In_other_ones in Hx. destruct Hx as [Hx Hne]. apply In_las_ones in Hx.
  pose proof (las_ones_sorted (r_las r)) as Hsort.
  unfold next_of in Hs. destruct (find (fun y => a <? y) (las_ones (r_las r))) as [y|] eqn:Ef.
  - apply find_some in Ef. destruct Ef as [_ Ef]. apply Z.ltb_lt in Ef. lia.
  - pose proof (find_none _ _ Ef) as Hnone.
    destruct (las_ones (r_las r)) as [|h tl] eqn:El; [contradiction Hx|]. subst h.
    destruct Hx as [Hx|Hx]; [lia|].
    pose proof (sorted_head_lt _ _ _ Hsort Hx) as Hlt.
    specialize (Hnone x (or_intror Hx)). cbn in Hnone. apply Z.ltb_ge in Hnone. lia.
Qed.

Lemma ones_from_length l : forall i, (length (ones_from l i) <= length l)%nat.
Proof. induction l as [|b t IH]; intros i; cbn; [lia|]. destruct b; cbn; specialize (IH (i + 1)); lia. Qed.

Lemma filter_len {X} (g : X -> bool) l : (length (filter g l) <= length l)%nat.
Proof. induction l as [|x t IH]; cbn; [lia|]. destruct (g x); cbn; lia. Qed.

Lemma others_bound r a : wf r -> (others r a <= 128)%nat.
Proof.
  intros W. unfold others, other_ones. etransitivity; [apply filter_len|].
  unfold las_ones. etransitivity; [apply ones_from_length|]. unfold wf in W. lia.
Qed.

(* ------------------------------------------------------------------------------------------ *)
(* 2. the state functions on an empty receive buffer                                            *)

Section Silent.
Variable A : Type.
Variable ops : app_ops A.
Notation W := (world A).

Lemma kind_claim_have s : kind_of s = KClaimToken -> have_token s = true.
Proof. unfold have_token. intros ->. reflexivity. Qed.

(* what a token-holding function leaves behind when nothing is heard: it still holds the token, or it
   is about to pass it (first attempt, nothing sent yet, ring view untouched), or it has just passed it
   to NS (first attempt) and has witnessed that pass *)
Definition hold_out (f f' : fdl) (w' : W) : Prop :=
  have_token (f_state f') = true \/
  (exists dg, f_state f' = PassToken dg AttFirst /\ w_tx w' = None /\ f_ring f' = f_ring f) \/
  (f_state f' = CheckTokenPass AttFirst /\ w_tx w' = Some (encode_token (r_ns (f_ring f)) (ts f)) /\
   witness (f_ring f) (ts f) (r_ns (f_ring f)) = Ok (f_ring f')).

Lemma hold_out_ext f g f' (w' : W) : f_ring g = f_ring f -> f_p g = f_p f -> hold_out g f' w' -> hold_out f f' w'.
Proof. unfold hold_out, ts. intros Hr Hp. rewrite Hr, Hp. tauto. Qed.

Lemma pass_hold f now (w : W) f' w' dg :
  f_state f = PassToken dg AttFirst -> w_tx w = None -> do_pass_token A f now w = Ok (f', w') -> hold_out f f' w'.
Proof.
  intros Hs Hw H. apply (do_pass_token_spec A f now w f' w' dg AttFirst Hs Hw) in H.
  destruct H as [[_ [Hr [_ [_ [Hst _]]]]] Htx _ _ _|addr _ Hst _ _ _ _ _ _ _|[r' [Hwit [Hr [Htx [Hst _]]]]]].
  - right. left. exists dg. rewrite Hst. repeat split; assumption.
  - left. rewrite Hst. reflexivity.
  - destruct (r_ns r' =? ts f).
    + left. rewrite Hst. reflexivity.
    + right. right. subst r'. repeat split; assumption.
Qed.

Lemma await_silent f now (w : W) pa f1 w1 r :
  w_rx w = [] -> await_gap_poll_response A f now w pa = Ok (f1, w1, r) -> r = GprWaiting \/ r = GprNoResponse.
Proof.
  intros Hr H. unfold await_gap_poll_response in H.
  destruct (pa =? ts f); [discriminate H|]. destruct (negb _); [discriminate H|].
  rewrite receive_telegram_spec, Hr in H. cbn [decode_spec bind] in H.
  destruct (check_slot_expired _ now) as [[f2 b]| |]; cbn [bind] in H; try discriminate H.
  destruct b; injection H as _ _ <-; tauto.
Qed.

Lemma scan_silent f now (w : W) f' w' st :
  f_state f = ClaimToken st -> w_tx w = None -> do_claim_token_scan A f now w = Ok (f', w') ->
  kind_of (f_state f') = KClaimToken \/ (f_state f' = PassToken false AttFirst /\ w_tx w' = None /\ f_ring f' = f_ring f).
Proof.
  intros Hst Hw H. unfold do_claim_token_scan in H.
  destruct (wait_synchronization_pause f now) as [[f1 wait]| |] eqn:Ew; cbn [bind] in H; try discriminate H.
  apply wait_sync_same in Ew. destruct Ew as [[_ [Hr1 [_ [_ [Hs1 _]]]]] _].
  destruct wait.
  - injection H as <- <-. left. rewrite Hs1, Hst. reflexivity.
  - destruct (f_gap f1) as [rc|cur].
    + match type of H with bind ?x _ = _ => destruct x as [[f2 w2]| |] eqn:Et end; cbn [bind] in H; try discriminate H.
      injection H as <- <-. apply trans_spec in Et. destruct Et as [s' [Ht [-> ->]]].
      rewrite Hs1, Hst in Ht. cbn in Ht. injection Ht as <-. right. cbn. repeat split; assumption.
    + destruct (next_gap_poll_traced A f1 w cur) as [[f2 w2]| |] eqn:En; cbn [bind] in H; try discriminate H.
      apply next_gap_poll_traced_spec in En. destruct En as [g [_ [-> _]]].
      destruct (transmit_gap_poll_if_pending A (set_gap f1 g) now w2) as [[[f3 w3] polled]| |] eqn:Et; cbn [bind] in H; try discriminate H.
      apply transmit_gap_poll_spec in Et. destruct Et as [[_ [_ [_ [_ [Hs3 _]]]]] Hpol].
      destruct polled as [pa|].
      * unfold set_claim_step in H. destruct (get_claim_token_step (f_state f3)); cbn [bind] in H; try discriminate H.
        injection H as <- <-. left. reflexivity.
      * injection H as <- <-. left. rewrite Hs3. cbn. rewrite Hs1, Hst. reflexivity.
Qed.

Lemma do_claim_token_silent f now (w : W) f' w' st :
  f_state f = ClaimToken st -> w_tx w = None -> w_rx w = [] ->
  do_claim_token A f now w = Ok (f', w') -> hold_out f f' w'.
Proof.
  intros Es Hw Hrx H. unfold do_claim_token, assert_entry in H. rewrite Es in H.
  cbn [kind_of do_fn_entry state_kind_eqb bind get_claim_token_step] in H.
  assert (Hscan : forall g (v : W), f_state g = ClaimToken StepScan -> f_ring g = f_ring f -> f_p g = f_p f -> w_tx v = None ->
            do_claim_token_scan A g now v = Ok (f', w') -> hold_out f f' w').
  { intros g v Hg Hr Hp Hv Hd. destruct (scan_silent g now v f' w' _ Hg Hv Hd) as [K|[S [T R]]].
    - left. apply kind_claim_have. exact K.
    - right. left. exists false. rewrite R, Hr. repeat split; assumption. }
  destruct st as [ | | |a0].
  - destruct (wait_synchronization_pause f now) as [[f1 wait]| |] eqn:Ew; cbn [bind] in H; try discriminate H.
    apply wait_sync_same in Ew. destruct Ew as [[_ [_ [_ [_ [Hs1 _]]]]] _].
    destruct wait; [injection H as <- <-; left; rewrite Hs1, Es; reflexivity|].
    destruct (phy_send A w _) as [[w1 k]| |]; cbn [bind] in H; try discriminate H.
    unfold set_claim_step in H. cbn [set_ring f_state] in H. rewrite Hs1, Es in H. cbn [get_claim_token_step bind] in H.
    destruct (mark_tx _ now k) as [f2| |] eqn:Em; cbn [bind] in H; try discriminate H.
    injection H as <- <-. apply mark_tx_same in Em. destruct Em as [_ [_ [_ [_ [Hs2 _]]]]]. left. rewrite Hs2. reflexivity.
  - destruct (wait_synchronization_pause f now) as [[f1 wait]| |] eqn:Ew; cbn [bind] in H; try discriminate H.
    apply wait_sync_same in Ew. destruct Ew as [[_ [_ [_ [_ [Hs1 _]]]]] _].
    destruct wait; [injection H as <- <-; left; rewrite Hs1, Es; reflexivity|].
    destruct (phy_send A w _) as [[w1 k]| |]; cbn [bind] in H; try discriminate H.
    unfold set_claim_step in H. cbn [set_ring f_state] in H. rewrite Hs1, Es in H. cbn [get_claim_token_step bind] in H.
    destruct (mark_tx _ now k) as [f2| |] eqn:Em; cbn [bind] in H; try discriminate H.
    injection H as <- <-. apply mark_tx_same in Em. destruct Em as [_ [_ [_ [_ [Hs2 _]]]]]. left. rewrite Hs2. reflexivity.
  - eapply Hscan; [exact Es|reflexivity|reflexivity|exact Hw|exact H].
  - destruct (await_gap_poll_response A f now w a0) as [[[f1 w1] r]| |] eqn:Ea; cbn [bind] in H; try discriminate H.
    pose proof (await_silent _ _ _ _ _ _ _ Hrx Ea) as Hr.
    apply await_gap_poll_response_frame in Ea. destruct Ea as [Hp1 [_ [Hs1 [Htx1 [_ Hr1]]]]].
    destruct Hr as [-> | ->].
    + injection H as <- <-. left. rewrite Hs1, Es. reflexivity.
    + unfold set_claim_step in H. rewrite Hs1, Es in H. cbn [get_claim_token_step bind] in H.
      eapply Hscan; [| | | |exact H]; cbn; try reflexivity; try assumption.
      * apply Hr1. discriminate.
      * rewrite Htx1. exact Hw.
Qed.

Lemma do_await_status_response_silent f now (w : W) f' w' a :
  f_state f = AwaitStatusResponse a -> w_tx w = None -> w_rx w = [] ->
  do_await_status_response A f now w = Ok (f', w') -> hold_out f f' w'.
Proof.
  intros Es Hw Hrx H. unfold do_await_status_response, assert_entry in H. rewrite Es in H.
  cbn [kind_of do_fn_entry state_kind_eqb bind get_await_status_response_address] in H.
  destruct (await_gap_poll_response A f now w a) as [[[f1 w1] r]| |] eqn:Ea; cbn [bind] in H; try discriminate H.
  pose proof (await_silent _ _ _ _ _ _ _ Hrx Ea) as Hr.
  apply await_gap_poll_response_frame in Ea. destruct Ea as [Hp1 [_ [Hs1 [Htx1 [_ Hr1]]]]].
  destruct Hr as [-> | ->].
  - injection H as <- <-. left. rewrite Hs1, Es. reflexivity.
  - match type of H with context [trans A ?x ?y ?z] => destruct (trans A x y z) as [[f2 w2]| |] eqn:Et end; cbn [bind] in H; try discriminate H.
    apply trans_spec in Et. destruct Et as [s' [Ht [-> ->]]]. rewrite Hs1, Es in Ht. cbn in Ht. injection Ht as <-.
    apply (pass_hold _ now _ f' w' false) in H; [|reflexivity|cbn; rewrite Htx1; exact Hw].
    eapply hold_out_ext; [| |exact H]; cbn; [apply Hr1; discriminate|exact Hp1].
Qed.

Lemma do_use_token_silent f now (w : W) f' w' tk fa fcd :
  f_state f = UseToken tk fa fcd -> w_tx w = None ->
  do_use_token A ops f now w = Ok (f', w') -> hold_out f f' w'.
Proof.
  intros Es Hw H. rewrite do_use_token_split in H.
  destruct (do_use_token_head A ops f now w) as [[f1 w1]| |] eqn:Eh; cbn [bind] in H; try discriminate H.
  destruct (is_pass_token (f_state f1)) eqn:Ek.
  - destruct (do_use_token_head_pass A ops _ _ _ _ _ Eh Ek) as [Es1 [_ [Hp1 [Hr1 [_ [_ [_ [Htx1 _]]]]]]]].
    apply (pass_hold _ now _ f' w' true) in H; [|exact Es1|rewrite Htx1; exact Hw].
    eapply hold_out_ext; [exact Hr1|exact Hp1|exact H].
  - injection H as <- <-.
    destruct (C13Proofs.do_use_token_head_state A ops _ _ _ _ _ _ _ _ Eh Es) as [_ [_ Hc]].
    left. destruct Hc as [[E _]|[[fa' E]|[[a0 [fa' E]]|E]]]; rewrite E; try rewrite Es; try reflexivity.
    rewrite E in Ek. discriminate Ek.
Qed.

Lemma do_await_data_response_silent f now (w : W) f' w' addr tk fa :
  f_state f = AwaitDataResponse addr tk fa -> w_tx w = None -> w_rx w = [] ->
  do_await_data_response A ops f now w = Ok (f', w') -> hold_out f f' w'.
Proof.
  intros Es Hw Hrx H. unfold do_await_data_response, assert_entry in H. rewrite Es in H.
  cbn [kind_of do_fn_entry state_kind_eqb bind get_await_data_response] in H.
  destruct (nth_error (w_apps w) (f_next_app f)) as [app|]; [|discriminate H].
  rewrite receive_telegram_spec, Hrx in H. cbn [decode_spec bind length] in H.
  destruct (check_slot_expired _ now) as [[f1 expired]| |] eqn:Ec; cbn [bind] in H; try discriminate H.
  apply check_slot_expired_same in Ec. destruct Ec as [Hp1 [Hr1 [_ [_ [Hs1 _]]]]].
  cbn [sync_pending_bytes set_pending f_state f_p f_ring] in Hs1, Hp1, Hr1.
  destruct expired.
  - destruct (a_to ops app now _ addr) as [app'| |]; cbn [bind] in H; try discriminate H.
    match type of H with context [trans A ?x ?y ?z] => destruct (trans A x y z) as [[f2 w2]| |] eqn:Et end; cbn [bind] in H; try discriminate H.
    apply trans_spec in Et. destruct Et as [s' [Ht [-> ->]]].
    rewrite Hs1, Es in Ht. cbn in Ht. injection Ht as <-.
    unfold set_first_cycle_done in H. cbn [set_st f_state get_use_token bind] in H.
    apply (do_use_token_silent _ now _ f' w' tk fa true) in H; [|reflexivity|].
    + eapply hold_out_ext; [| |exact H]; cbn; assumption.
    + cbn [w_tx note log_call set_app set_rx]. match goal with |- context [if ?c then _ else _] => destruct c end; exact Hw.
  - injection H as <- <-. left. rewrite Hs1, Es. reflexivity.
Qed.

(* ---- the idle states ---- *)

Lemma wait_sync_spec f now f1 b : wait_synchronization_pause f now = Ok (f1, b) ->
  same_but_lba f f1 /\ f_lba f1 = Some (gv now (f_lba f)) /\
  b = (now <=? gv now (f_lba f) + p_bits_to_time (f_p f) sync_pause_bits).
Proof.
  unfold wait_synchronization_pause. destruct (lba_get_or_insert f now) as [l f0] eqn:E.
  apply lba_get_or_insert_same in E. destruct E as [Hs [Hl Hm]].
  assert (El : l = gv now (f_lba f)) by (destruct (f_lba f); exact Hm).
  unfold inst_add. destruct (i64_ok _); cbn [bind]; [|discriminate].
  intros H. injection H as <- <-. split; [exact Hs|]. split; [rewrite <- El; exact Hl|].
  destruct Hs as [Hp _]. rewrite Hp, El. reflexivity.
Qed.

Lemma hlt_false f now (w : W) f0 w0 : handle_lost_token A f now w = Ok (f0, w0, false) ->
  same_but_lba f f0 /\ w0 = w /\ f_lba f0 = Some (gv now (f_lba f)) /\
  Z.abs (now - gv now (f_lba f)) < token_lost_timeout (f_p f).
Proof.
  intros H. pose proof (handle_lost_token_cases A f now w f0 w0 false H) as [l [Hm Hlt]].
  assert (El : l = gv now (f_lba f)) by (destruct (f_lba f); exact Hm). subst l.
  unfold handle_lost_token in H. destruct (lba_get_or_insert f now) as [l g] eqn:E.
  apply lba_get_or_insert_same in E. destruct E as [Hs [Hl Hm']].
  assert (El : l = gv now (f_lba f)) by (destruct (f_lba f); exact Hm').
  destruct (inst_diff now l); cbn [bind] in H; try discriminate H.
  destruct (token_lost_timeout (f_p g) <=? _).
  - match type of H with bind ?x _ = _ => destruct x as [[f1 w1]| |] end; cbn [bind] in H; try discriminate H.
    match type of H with bind ?x _ = _ => destruct x as [[f2 w2]| |] end; cbn [bind] in H; discriminate H.
  - injection H as <- <-. subst l. split; [exact Hs|]. split; [reflexivity|]. split; [exact Hl|exact Hlt].
Qed.

Definition idle_rank (s : state) : nat :=
  match s with
  | ListenToken None _ | ActiveIdle None _ _ => 1
  | ListenToken (Some _) _ | ActiveIdle (Some _) _ _ | Offline => 2
  | _ => 0
  end.

Inductive idle_out (f : fdl) (now : Z) (f' : fdl) (w' : W) : Prop :=
| IoClaim : kind_of (f_state f') = KClaimToken -> idle_out f now f' w'
| IoWait : f_state f' = f_state f -> w_tx w' = None ->
    (now <= gv now (f_lba f) + p_bits_to_time (f_p f) sync_pause_bits \/
     Z.abs (now - gv now (f_lba f)) < token_lost_timeout (f_p f)) -> idle_out f now f' w'
| IoReply wire : idle_rank (f_state f) = 2%nat -> idle_rank (f_state f') = 1%nat ->
    w_tx w' = Some wire -> length wire = 6%nat -> idle_out f now f' w'.

Lemma do_listen_token_silent f now (w : W) f' w' sr cc :
  f_state f = ListenToken sr cc -> w_tx w = None -> w_rx w = [] ->
  do_listen_token A f now w = Ok (f', w') -> idle_out f now f' w'.
Proof.
  intros Es Hw Hrx H. unfold do_listen_token, assert_entry in H. rewrite Es in H.
  cbn [kind_of do_fn_entry state_kind_eqb bind] in H.
  destruct (handle_lost_token A f now w) as [[[f0 w0] d]| |] eqn:Eh; cbn [bind] in H; try discriminate H.
  destruct d.
  - injection H as <- <-. apply IoClaim. destruct (handle_lost_token_claims A _ _ _ _ _ Eh) as [E|E]; rewrite E; reflexivity.
  - apply hlt_false in Eh. destruct Eh as [[Hp0 [_ [_ [_ [Hs0 _]]]]] [-> [Hl0 Hto]]].
    rewrite Hs0, Es in H. cbn [get_listen_token bind] in H.
    destruct sr as [src|].
    + destruct (wait_synchronization_pause f0 now) as [[f1 wait]| |] eqn:Ew; cbn [bind] in H; try discriminate H.
      apply wait_sync_spec in Ew. destruct Ew as [[Hp1 [_ [_ [_ [Hs1 _]]]]] [_ Hb]].
      rewrite Hl0 in Hb. cbn [gv] in Hb. rewrite Hp0 in Hb.
      destruct wait.
      * injection H as <- <-. apply IoWait; [rewrite Hs1, Hs0; reflexivity|exact Hw|].
        left. symmetry in Hb. apply Z.leb_le in Hb. exact Hb.
      * unfold phy_send, transmit, status_response_header in H. rewrite C12Proofs.encode_nosap in H.
        cbn [bind] in H. unfold phy_transmit in H. rewrite Hw in H. cbn [bind] in H.
        match type of H with bind ?x _ = _ => destruct x as [[f2 w2]| |] eqn:E2 end; cbn [bind] in H; try discriminate H.
        destruct (mark_tx f2 now _) as [f3| |] eqn:Em; cbn [bind] in H; try discriminate H.
        injection H as <- <-. apply mark_tx_same in Em. destruct Em as [_ [_ [_ [_ [Hs3 _]]]]].
        destruct (ready_for_ring (f_ring f1)).
        -- apply trans_spec in E2. destruct E2 as [s' [Ht [-> ->]]]. rewrite Hs1, Hs0, Es in Ht. cbn in Ht. injection Ht as <-.
           eapply IoReply; [rewrite Es; reflexivity|rewrite Hs3; reflexivity|reflexivity|apply C12Proofs.encode_nosap_length].
        -- rewrite Hs1, Hs0, Es in E2. cbn [get_listen_token bind] in E2. injection E2 as <- <-.
           eapply IoReply; [rewrite Es; reflexivity|rewrite Hs3; reflexivity|reflexivity|apply C12Proofs.encode_nosap_length].
    + unfold receive_all_telegrams in H. rewrite Hrx in H. unfold receive_all_fuel in H.
      rewrite receive_all_step in H. cbn [decode_spec bind] in H. injection H as <- <-.
      apply IoWait; [cbn; rewrite Hs0; reflexivity|exact Hw|right; exact Hto].
Qed.

Lemma do_active_idle_silent f now (w : W) f' w' sr nps cc :
  f_state f = ActiveIdle sr nps cc -> w_tx w = None -> w_rx w = [] ->
  do_active_idle A f now w = Ok (f', w') -> idle_out f now f' w'.
Proof.
  intros Es Hw Hrx H. unfold do_active_idle, assert_entry in H. rewrite Es in H.
  cbn [kind_of do_fn_entry state_kind_eqb bind] in H.
  destruct (handle_lost_token A f now w) as [[[f0 w0] d]| |] eqn:Eh; cbn [bind] in H; try discriminate H.
  destruct d.
  - injection H as <- <-. apply IoClaim. destruct (handle_lost_token_claims A _ _ _ _ _ Eh) as [E|E]; rewrite E; reflexivity.
  - apply hlt_false in Eh. destruct Eh as [[Hp0 [_ [_ [_ [Hs0 _]]]]] [-> [Hl0 Hto]]].
    rewrite Hs0, Es in H. cbn [get_active_idle bind] in H.
    destruct sr as [src|].
    + destruct (wait_synchronization_pause f0 now) as [[f1 wait]| |] eqn:Ew; cbn [bind] in H; try discriminate H.
      apply wait_sync_spec in Ew. destruct Ew as [[Hp1 [_ [_ [_ [Hs1 _]]]]] [_ Hb]].
      rewrite Hl0 in Hb. cbn [gv] in Hb. rewrite Hp0 in Hb.
      destruct wait.
      * injection H as <- <-. apply IoWait; [rewrite Hs1, Hs0; reflexivity|exact Hw|].
        left. symmetry in Hb. apply Z.leb_le in Hb. exact Hb.
      * unfold phy_send, transmit, status_response_header in H. rewrite C12Proofs.encode_nosap in H.
        cbn [bind] in H. unfold phy_transmit in H. rewrite Hw in H. cbn [bind] in H.
        destruct (mark_tx _ now _) as [f3| |] eqn:Em; cbn [bind] in H; try discriminate H.
        injection H as <- <-. apply mark_tx_same in Em. destruct Em as [_ [_ [_ [_ [Hs3 _]]]]].
        eapply IoReply; [rewrite Es; reflexivity|rewrite Hs3; reflexivity|reflexivity|apply C12Proofs.encode_nosap_length].
    + unfold receive_all_telegrams in H. rewrite Hrx in H. unfold receive_all_fuel in H.
      rewrite receive_all_step in H. cbn [decode_spec bind] in H. injection H as <- <-.
      apply IoWait; [cbn; rewrite Hs0; reflexivity|exact Hw|right; exact Hto].
Qed.

End Silent.

(* ------------------------------------------------------------------------------------------ *)
(* 3. whole polls on a silent bus                                                               *)

Section SilentPolls.
Variable A : Type.
Variable ops : app_ops A.
Hypothesis Happs : apps_total A ops.
Notation W := (world A).

(* a poll of an online station that needs no connectivity prologue, nothing in the receive buffer, the
   PHY busy at most while the station itself expects its transmission to last *)
Lemma silent_body f now b (apps : list A) f' o a c :
  poll ops f now (mkPhyIn b []) apps = Ok (f', o, a, c) ->
  f_conn f = ConnOnline -> online_entry_kind (kind_of (f_state f)) = false ->
  (b = true -> predicted f now = true) ->
  (predicted f now = true /\ f' = mark_bus_activity f now /\ tx o = None) \/
  (predicted f now = false /\ b = false /\
   exists w', dispatch A ops f now (mkWorld [] None apps [] []) = Ok (f', w') /\ tx o = w_tx w').
Proof.
  intros H Hc Hk Hb. apply poll_inv in H. destruct H as [w' [H [-> _]]]. cbn [tx_busy rx tx] in *.
  rewrite poll_inner_online in H by assumption. unfold body in H.
  destruct (predicted f now) eqn:Ep.
  - rewrite orb_true_r in H. injection H as <- <-. left. repeat split; reflexivity.
  - destruct b; [specialize (Hb eq_refl); discriminate Hb|]. cbn [orb] in H.
    unfold check_for_bus_activity in H. cbn [w_rx length] in H.
    destruct (Nat.ltb_spec (f_pending f) 0) as [C|_]; [lia|].
    right. split; [reflexivity|]. split; [reflexivity|]. exists w'. split; [exact H|reflexivity].
Qed.

Lemma lba_after f now b (apps : list A) f' o a c l :
  poll ops f now (mkPhyIn b []) apps = Ok (f', o, a, c) -> (b = true -> predicted f now = true) ->
  f_lba f = Some l ->
  f_p f' = f_p f /\
  match tx o with
  | Some wire => f_lba f' = Some (now + dur (f_p f) (length wire))
  | None => f_lba f' = Some l \/ rst now f'
  end.
Proof.
  intros H Hb Hl. destruct (poll_bk A ops now f _ apps f' o a c H) as (_ & _ & Hp & L & _).
  split; [exact Hp|]. cbn [tx_busy rx] in L. destruct (tx o); [tauto|].
  destruct L as [L|[R _]]; [left|right; exact R]. rewrite Hl in L. cbn [gv] in L.
  destruct L as [-> | [-> | ([M|M] & ->)]]; try reflexivity.
  - specialize (Hb M). unfold predicted in Hb. rewrite Hl in Hb. apply Z.leb_le in Hb. cbn [gv]. f_equal. lia.
  - contradiction M. reflexivity.
Qed.

Lemma mark_state f now : f_state (mark_bus_activity f now) = f_state f /\ f_ring (mark_bus_activity f now) = f_ring f.
Proof. destruct (mark_bus_activity_sblp f now) as [_ [Hr [_ [_ [Hs _]]]]]. split; assumption. Qed.

Lemma rst_state now f' : rst now f' -> f_state f' = Offline.
Proof. intros [H _]. exact H. Qed.

(* ---- the token chain: token-holding states, PassToken, CheckTokenPass ---- *)

Definition mu_B (f : fdl) : nat :=
  let m := others (f_ring f) (ts f) in
  match f_state f with
  | CheckTokenPass a => 3 * m + 4 - att_index a
  | PassToken _ a => 3 * m + 5 - att_index a
  | _ => 3 * m + 5
  end.

Definition chainB (s : state) : Prop := have_token s = true \/ in_pass s = true.

Definition InvB (p0 : params) (n : nat) (f : fdl) : Prop :=
  Rep n f /\ f_conn f = ConnOnline /\ f_lba f <> None /\ f_p f = p0 /\ chainB (f_state f).

Lemma att_index_pos a : (1 <= att_index a <= 3)%nat.
Proof. destruct a; cbn; lia. Qed.

(* a token-holding state after a silent poll *)
Lemma hold_poll n f now b (apps : list A) f' o a c :
  Rep n f -> have_token (f_state f) = true -> f_conn f = ConnOnline ->
  (b = true -> predicted f now = true) ->
  poll ops f now (mkPhyIn b []) apps = Ok (f', o, a, c) ->
  exists w' : W, tx o = w_tx w' /\ hold_out A f f' w'.
Proof.
  intros R Hh Hc Hb H.
  assert (Hk : online_entry_kind (kind_of (f_state f)) = false) by (destruct (f_state f); try discriminate Hh; reflexivity).
  destruct (silent_body f now b apps f' o a c H Hc Hk Hb) as [[_ [-> Ht]]|[_ [_ [w' [Hd Ht]]]]].
  - exists (mkWorld [] None apps [] []). split; [exact Ht|]. left. destruct (mark_state f now) as [-> _]. exact Hh.
  - exists w'. split; [exact Ht|]. unfold dispatch in Hd.
    destruct (f_state f) as [ | | | |tk fa fcd|st|addr tk fa| | |a0] eqn:Es; try discriminate Hh; cbn [kind_of poll_dispatch] in Hd.
    + exact (do_use_token_silent A ops f now (mkWorld [] None apps [] []) f' w' tk fa fcd Es eq_refl Hd).
    + exact (do_claim_token_silent A f now (mkWorld [] None apps [] []) f' w' st Es eq_refl eq_refl Hd).
    + exact (do_await_data_response_silent A ops f now (mkWorld [] None apps [] []) f' w' addr tk fa Es eq_refl eq_refl Hd).
    + exact (do_await_status_response_silent A f now (mkWorld [] None apps [] []) f' w' a0 Es eq_refl eq_refl Hd).
Qed.

(* PassToken is left as soon as the synchronisation pause is over *)
Lemma pass_wait_timing f now b (apps : list A) f' o a c dg att l :
  f_state f = PassToken dg att -> f_conn f = ConnOnline -> f_lba f = Some l ->
  (b = true -> predicted f now = true) ->
  poll ops f now (mkPhyIn b []) apps = Ok (f', o, a, c) ->
  kind_of (f_state f') = KPassToken -> now <= l + p_bits_to_time (f_p f) sync_pause_bits.
Proof.
  intros Es Hc Hl Hb H Hk. pose proof (sync_nonneg f) as Hs.
  destruct (silent_body f now b apps f' o a c H Hc ltac:(rewrite Es; reflexivity) Hb) as [[Hp _]|[_ [_ [w' [Hd _]]]]].
  - unfold predicted in Hp. rewrite Hl in Hp. apply Z.leb_le in Hp. lia.
  - unfold dispatch in Hd. rewrite Es in Hd. cbn [kind_of poll_dispatch] in Hd.
    destruct (Z.le_gt_cases now (l + p_bits_to_time (f_p f) sync_pause_bits)) as [C|C]; [exact C|].
    exfalso. apply (do_pass_token_nowait A f now _ f' w' l Hd Hl); [lia|exact Hk].
Qed.

Lemma encode_token_len da sa : length (encode_token da sa) = 3%nat.
Proof. reflexivity. Qed.

Lemma stepB p0 n f now b (apps : list A) :
  InvB p0 n f -> length apps = n -> time_ok now -> (b = true -> predicted f now = true) ->
  exists f' o apps' c, poll ops f now (mkPhyIn b []) apps = Ok (f', o, apps', c) /\ length apps' = n /\ Rep n f' /\
    ((now <= gv now (f_lba f) + slot_time p0 /\ InvB p0 n f' /\ mu_B f' = mu_B f /\ f_lba f' = Some (gv now (f_lba f)))
     \/ have_token (f_state f') = true
     \/ (InvB p0 n f' /\ (mu_B f' < mu_B f)%nat /\
         exists l', f_lba f' = Some l' /\ l' <= Z.max (gv now (f_lba f)) (now + dur p0 3))).
Proof.
  intros (R & Hc & Hl & Hp0 & Hch) Hlen Tn Hb. subst n.
  destruct (poll_rep_step A ops Happs f now (mkPhyIn b []) apps R Tn ltac:(constructor)) as (f' & o & apps' & c & E & R' & Hlen').
  exists f', o, apps', c. split; [exact E|]. split; [exact Hlen'|]. split; [exact R'|].
  destruct (f_lba f) as [l|] eqn:El; [|contradiction Hl; reflexivity]. cbn [gv].
  destruct (lba_after f now b apps f' o apps' c l E Hb El) as [Hp' La].
  pose proof (Rep_ts _ _ R) as Hts. pose proof (rep_ring _ _ R) as Rr. pose proof (rep_ring _ _ R') as Rr'.
  assert (Hts' : ts f' = ts f) by (apply ts_p; exact Hp').
  rewrite Hts' in Rr'.
  assert (Hts125 : 0 <= ts f <= 125) by lia.
  assert (Hns : 0 <= r_ns (f_ring f) < 128) by (apply (ring_ok_ns _ _ Rr); lia).
  pose proof (bv_slot _ _ R) as Hslot. rewrite Hp0 in Hslot.
  pose proof (sync_le_slot _ (rep_p _ _ R)) as Hss. rewrite Hp0 in Hss.
  (* building InvB for the successor state *)
  assert (HInv : in_pass (f_state f') = true -> f_lba f' <> None -> InvB p0 (length apps) f').
  { intros Hip Hl'. split; [exact R'|]. split; [apply (Rep_online _ _ R'); destruct (f_state f'); try discriminate Hip; discriminate|].
    split; [exact Hl'|]. split; [congruence|right; exact Hip]. }
  destruct Hch as [Hh|Hip].
  - (* token-holding *)
    destruct (hold_poll _ f now b apps f' o apps' c R Hh Hc Hb E) as [w' [Htx Ho]].
    assert (Hmu : mu_B f = (3 * others (f_ring f) (ts f) + 5)%nat).
    { unfold mu_B. destruct (f_state f); try discriminate Hh; reflexivity. }
    destruct Ho as [Hg|[[dg [Hs [Hn Hr]]]|[Hs [Hw Hwit]]]].
    + right. left. exact Hg.
    + right. right. rewrite Htx, Hn in La.
      assert (Hl' : f_lba f' = Some l).
      { destruct La as [La|La]; [exact La|]. apply rst_state in La. rewrite Hs in La. discriminate La. }
      split; [apply HInv; [rewrite Hs; reflexivity|rewrite Hl'; discriminate]|].
      split; [|exists l; split; [exact Hl'|lia]].
      rewrite Hmu. unfold mu_B. rewrite Hs, Hr, Hts'. cbn. lia.
    + right. right. rewrite Htx, Hw, encode_token_len, Hp0 in La.
      split; [apply HInv; [rewrite Hs; reflexivity|rewrite La; discriminate]|].
      split; [|eexists; split; [exact La|lia]].
      pose proof (others_witness _ _ _ _ Rr Hts125 (proj1 Hns) Hwit) as Hle.
      rewrite Hmu. unfold mu_B. rewrite Hs, Hts'. cbn. lia.
  - destruct (f_state f) as [ | | | | | | |dg att|att| ] eqn:Es; try discriminate Hip.
    + (* PassToken *)
      destruct (pass_token_poll A ops f now _ apps f' o apps' c dg att Es E) as [_ [_ [_ [_ D]]]].
      assert (Hmu : mu_B f = (3 * others (f_ring f) (ts f) + 5 - att_index att)%nat) by (unfold mu_B; rewrite Es; reflexivity).
      destruct D as [[Htx [Hs Hr]]|[[addr [_ [_ [Hs _]]]]|[r' [Hwit [Hr [Htx Hs]]]]]].
      * left. rewrite Htx in La.
        assert (Hl' : f_lba f' = Some l).
        { destruct La as [La|La]; [exact La|]. apply rst_state in La. rewrite Hs in La. discriminate La. }
        split.
        { pose proof (pass_wait_timing f now b apps f' o apps' c dg att l Es Hc El Hb E ltac:(rewrite Hs; reflexivity)) as Ht.
          rewrite Hp0 in Ht. lia. }
        split; [apply HInv; [rewrite Hs; reflexivity|rewrite Hl'; discriminate]|].
        split; [|exact Hl']. unfold mu_B. rewrite Hs, Hr, Hts', Es. reflexivity.
      * right. left. rewrite Hs. reflexivity.
      * destruct (r_ns r' =? ts f) eqn:Ens; [right; left; rewrite Hs; reflexivity|].
        right. right. rewrite Htx, encode_token_len, Hp0 in La.
        split; [apply HInv; [rewrite Hs; reflexivity|rewrite La; discriminate]|].
        split; [|eexists; split; [exact La|lia]].
        pose proof (others_witness _ _ _ _ Rr Hts125 (proj1 Hns) Hwit) as Hle.
        pose proof (att_index_pos att).
        rewrite Hmu. unfold mu_B. rewrite Hs, Hts', Hr. lia.
    + (* CheckTokenPass *)
      destruct (check_pass_poll A ops f now _ apps f' o apps' c att Es E) as [_ [_ [_ D]]].
      assert (Hmu : mu_B f = (3 * others (f_ring f) (ts f) + 4 - att_index att)%nat) by (unfold mu_B; rewrite Es; reflexivity).
      pose proof (check_pass_no_wait A ops f now _ apps f' o apps' c att Es (rep_p _ _ R) E) as Hnw.
      destruct (slot_expired f now (mkPhyIn b [])) eqn:Ex.
      * destruct D as [_ [r1 [Hrm [[_ [Hs _]]|[r' [Hwit [Hr [Htx Hs]]]]]]]]; [rewrite Hs in Hnw; contradiction Hnw; reflexivity|].
        destruct (r_ns r' =? ts f) eqn:Ens; [right; left; rewrite Hs; reflexivity|].
        right. right. rewrite Htx, encode_token_len, Hp0 in La.
        split; [apply HInv; [rewrite Hs; reflexivity|rewrite La; discriminate]|].
        split; [|eexists; split; [exact La|lia]].
        (* the measure *)
        assert (Hr1 : ring_ok r1 (ts f) /\ (others r1 (ts f) <= others (f_ring f) (ts f))%nat /\
                      (check_pass_removes att = true -> r_ns (f_ring f) <> ts f -> (others r1 (ts f) < others (f_ring f) (ts f))%nat)).
        { destruct (check_pass_removes att).
          - destruct (remove_station_ring_ok _ _ _ Rr ltac:(lia) Hns) as [r1' [E1 R1]].
            rewrite Hrm in E1. injection E1 as <-.
            destruct (others_remove _ _ _ Rr ltac:(lia) Hrm) as [Hle Hlt]. split; [exact R1|]. split; [exact Hle|intros _; exact Hlt].
          - subst r1. split; [exact Rr|]. split; [lia|intros C; discriminate C]. }
        destruct Hr1 as [R1 [Hle1 Hlt1]].
        assert (Hns1 : 0 <= r_ns r1 < 128) by (apply (ring_ok_ns _ _ R1); lia).
        pose proof (others_witness _ _ _ _ R1 Hts125 (proj1 Hns1) Hwit) as Hle.
        rewrite Hr in Rr'.
        assert (Hpos : others r' (ts f) <> 0%nat).
        { intros C. apply (others_zero_ns _ _ Rr') in C. rewrite C, Z.eqb_refl in Ens. discriminate Ens. }
        rewrite Hmu. unfold mu_B. rewrite Hs, Hts', Hr.
        destruct att; cbn [check_pass_next att_index check_pass_removes] in *; try lia.
        destruct (Z.eq_dec (r_ns (f_ring f)) (ts f)) as [Eself|Eself].
        -- apply (ns_self_others _ _ Rr) in Eself. lia.
        -- specialize (Hlt1 eq_refl Eself). lia.
      * destruct D as [Htx [_ D]]. left. rewrite Htx in La.
        assert (Hst : f_state f' = CheckTokenPass att /\ f_ring f' = f_ring f).
        { cbn [tx_busy rx decode_spec] in D. destruct (b || predicted f now); tauto. }
        destruct Hst as [Hs Hr].
        assert (Hl' : f_lba f' = Some l).
        { destruct La as [La|La]; [exact La|]. apply rst_state in La. rewrite Hs in La. discriminate La. }
        split.
        { unfold slot_expired, lba_seen, predicted in Ex. cbn [tx_busy rx length] in Ex. rewrite El in Ex.
          destruct (Nat.ltb_spec (f_pending f) 0) as [C|_]; [lia|]. rewrite Hp0 in Ex.
          destruct (Z.leb_spec now l) as [C|C]; [lia|].
          destruct b; [specialize (Hb eq_refl); unfold predicted in Hb; rewrite El in Hb; apply Z.leb_le in Hb; lia|].
          cbn [negb andb] in Ex. apply Z.ltb_ge in Ex. lia. }
        split; [apply HInv; [rewrite Hs; reflexivity|rewrite Hl'; discriminate]|].
        split; [|exact Hl']. unfold mu_B. rewrite Hs, Hr, Hts', Es. reflexivity.
Qed.


(* ---- the idle chain: Offline (being set online), ListenToken, ActiveIdle ---- *)

Definition chainA (s : state) : Prop :=
  match s with Offline | ListenToken _ _ | ActiveIdle _ _ _ => True | _ => False end.

Definition InvA (p0 : params) (n : nat) (f : fdl) : Prop :=
  Rep n f /\ f_conn f = ConnOnline /\ (f_lba f = None -> f_state f = Offline) /\ f_p f = p0 /\ chainA (f_state f).

Definition mu_A (f : fdl) : nat := idle_rank (f_state f).

Lemma slot_le_timeout p : builder_valid p -> slot_time p <= token_lost_timeout p.
Proof.
  intros B. pose proof (bv_ranges _ B) as Hr. unfold slot_time, token_lost_timeout, p_bits_to_time.
  apply C01Proofs.btt_mono. unfold token_lost_base, token_lost_per_addr. nia.
Qed.

Lemma offline_poll f now b (w : W) :
  f_conn f = ConnOnline -> f_state f = Offline ->
  poll_inner ops f now b w = body A ops (set_st f (ListenToken None 0)) now b (note A w (TTrans KOffline KListenToken)).
Proof.
  intros Hc Hs. unfold poll_inner. rewrite Hc, Hs. cbn [kind_of online_entry_kind].
  unfold trans, transition_listen_token, assert_kind. rewrite Hs. cbn [kind_of may_transition_listen_token bind].
  apply body_eq.
Qed.

Lemma rank1_chainA s : idle_rank s = 1%nat -> chainA s.
Proof. destruct s as [ | |[x|] y|[x|] y z| | | | | | ]; cbn; try discriminate; intros _; exact I. Qed.

Lemma stepA p0 n f now b (apps : list A) :
  InvA p0 n f -> length apps = n -> time_ok now -> (b = true -> predicted f now = true) ->
  exists f' o apps' c, poll ops f now (mkPhyIn b []) apps = Ok (f', o, apps', c) /\ length apps' = n /\ Rep n f' /\
    ((now <= gv now (f_lba f) + token_lost_timeout p0 /\ InvA p0 n f' /\ mu_A f' = mu_A f /\ f_lba f' = Some (gv now (f_lba f)))
     \/ have_token (f_state f') = true
     \/ (InvA p0 n f' /\ (mu_A f' < mu_A f)%nat /\
         exists l', f_lba f' = Some l' /\ l' <= Z.max (gv now (f_lba f)) (now + dur p0 6))).
Proof.
  intros (R & Hc & Hl & Hp0 & Hch) Hlen Tn Hb. subst n.
  destruct (poll_rep_step A ops Happs f now (mkPhyIn b []) apps R Tn ltac:(constructor)) as (f' & o & apps' & c & E & R' & Hlen').
  exists f', o, apps', c. split; [exact E|]. split; [exact Hlen'|]. split; [exact R'|].
  destruct (poll_bk A ops now f _ apps f' o apps' c E) as (_ & _ & Hp' & _).
  pose proof (sync_le_slot _ (rep_p _ _ R)) as Hss. pose proof (slot_le_timeout _ (rep_p _ _ R)) as Hst.
  rewrite Hp0 in Hss, Hst. pose proof (sync_nonneg f) as Hsn. rewrite Hp0 in Hsn.
  assert (HInv : chainA (f_state f') -> f_state f' <> Offline -> f_lba f' <> None -> InvA p0 (length apps) f').
  { intros Hca Hno Hl'. split; [exact R'|].
    split; [apply (Rep_online _ _ R'); destruct (f_state f'); cbn in Hca; try contradiction; try discriminate; contradiction Hno; reflexivity|].
    split; [intros C; contradiction|]. split; [congruence|exact Hca]. }
  (* the result of a state function of the idle chain, for a station g that is f up to the prologue *)
  assert (Hout : forall g (w' : W) l, chainA (f_state g) -> f_state g <> Offline -> f_p g = f_p f -> f_lba g = f_lba f -> f_lba f = Some l \/ (f_lba f = None /\ l = now) ->
            (match tx o with Some wire => f_lba f' = Some (now + dur (f_p f) (length wire)) | None => f_lba f' = Some l \/ rst now f' end) ->
            tx o = w_tx w' -> (idle_rank (f_state g) <= mu_A f)%nat ->
            (idle_rank (f_state g) = mu_A f -> f_state g = f_state f) ->
            idle_out A g now f' w' ->
            (now <= gv now (f_lba f) + token_lost_timeout p0 /\ InvA p0 (length apps) f' /\ mu_A f' = mu_A f /\ f_lba f' = Some (gv now (f_lba f)))
            \/ have_token (f_state f') = true
            \/ (InvA p0 (length apps) f' /\ (mu_A f' < mu_A f)%nat /\
                exists l', f_lba f' = Some l' /\ l' <= Z.max (gv now (f_lba f)) (now + dur p0 6))).
  { intros g w' l Hcg Hgo Hpg Hlg Hll La Htx Hrk Hrk' Ho.
    assert (Hgv : gv now (f_lba f) = l) by (destruct Hll as [-> |[-> ->]]; reflexivity).
    rewrite Hgv.
    destruct Ho as [Hk|Hs Hn Ht|wire Hr2 Hr1 Hw Hlen6].
    - right. left. apply kind_claim_have. exact Hk.
    - rewrite Htx, Hn in La.
      assert (Hl' : f_lba f' = Some l).
      { destruct La as [La|La]; [exact La|]. apply rst_state in La. rewrite Hs in La. contradiction. }
      assert (Hca : chainA (f_state f')).
      { rewrite Hs. exact Hcg. }
      destruct (Nat.eq_dec (idle_rank (f_state g)) (mu_A f)) as [Heq|Hne].
      + left. rewrite Hlg, Hgv, Hpg, Hp0 in Ht.
        split; [destruct Ht as [Ht|Ht]; lia|].
        split; [apply HInv; [exact Hca|rewrite Hs; exact Hgo|rewrite Hl'; discriminate]|].
        split; [unfold mu_A; rewrite Hs; exact Heq|exact Hl'].
      + right. right.
        split; [apply HInv; [exact Hca|rewrite Hs; exact Hgo|rewrite Hl'; discriminate]|].
        split; [unfold mu_A at 1; rewrite Hs; lia|]. exists l. split; [exact Hl'|lia].
    - right. right. rewrite Htx, Hw, Hlen6, Hp0 in La.
      split; [apply HInv; [apply rank1_chainA; exact Hr1| |rewrite La; discriminate]|].
      + intros C. rewrite C in Hr1. discriminate Hr1.
      + split; [unfold mu_A at 1; rewrite Hr1; lia|]. eexists. split; [exact La|lia]. }
  destruct (f_state f) as [ | |sr cc|sr nps cc| | | | | | ] eqn:Es; cbn in Hch; try contradiction.
  - (* Offline: the poll takes the station online *)
    pose proof E as E0. apply poll_inv in E0. destruct E0 as [w' [E0 [-> _]]]. cbn [tx_busy rx tx] in *.
    rewrite (offline_poll f now b _ Hc Es) in E0. unfold body in E0.
    set (g := set_st f (ListenToken None 0)) in *.
    assert (Hpg : predicted g now = predicted f now) by reflexivity. rewrite Hpg in E0.
    destruct (predicted f now) eqn:Ep.
    + rewrite orb_true_r in E0. injection E0 as <- <-.
      unfold predicted in Ep. destruct (f_lba f) as [l|] eqn:El; [|discriminate Ep]. apply Z.leb_le in Ep. cbn [gv].
      right. right.
      assert (Hl' : f_lba (mark_bus_activity g now) = Some l).
      { destruct (mark_bus_activity_lba g now) as [-> _]. change (f_lba g) with (f_lba f). rewrite El. f_equal. lia. }
      destruct (mark_state g now) as [Hs _].
      split; [apply HInv; [rewrite Hs; exact I|rewrite Hs; discriminate|rewrite Hl'; discriminate]|].
      split; [unfold mu_A; rewrite Hs, Es; cbn; lia|]. exists l. split; [exact Hl'|lia].
    + destruct b; [specialize (Hb eq_refl); discriminate Hb|]. cbn [orb] in E0.
      unfold check_for_bus_activity in E0. cbn [w_rx note length] in E0.
      destruct (Nat.ltb_spec (f_pending g) 0) as [C|_]; [lia|].
      unfold dispatch in E0. cbn [g set_st f_state kind_of poll_dispatch] in E0. fold g in E0.
      pose proof (fun Hw Hr => do_listen_token_silent A g now _ f' w' None 0 eq_refl Hw Hr E0) as Ho. specialize (Ho eq_refl eq_refl).
      assert (La : match w_tx w' with Some wire => f_lba f' = Some (now + dur (f_p f) (length wire))
                                    | None => f_lba f' = Some (gv now (f_lba f)) \/ rst now f' end).
      { destruct (poll_bk A ops now f _ apps f' _ apps' c E) as (_ & _ & _ & L & _). cbn [tx tx_busy rx] in L.
        destruct (w_tx w'); [tauto|]. destruct L as [L|[Rs _]]; [|right; exact Rs].
        destruct (f_lba f) as [l|] eqn:El.
        - left. unfold lba_moves in L. cbn [gv] in *. destruct L as [-> | [-> | ([M|M] & ->)]]; try reflexivity; [discriminate M|contradiction M; reflexivity].
        - destruct (poll_online_lba_some A ops now f _ apps f' _ apps' c E Hc Es El) as [Hn|Rs]; [|right; exact Rs].
          left. unfold lba_moves in L. cbn [gv] in *.
          destruct L as [L | [-> | ([M|M] & ->)]]; [contradiction|reflexivity|discriminate M|contradiction M; reflexivity]. }
      assert (Hmu : mu_A f = 2%nat) by (unfold mu_A; rewrite Es; reflexivity).
      assert (Hll : f_lba f = Some (gv now (f_lba f)) \/ (f_lba f = None /\ gv now (f_lba f) = now))
        by (destruct (f_lba f); [left; reflexivity|right; split; reflexivity]).
      apply (Hout g w' (gv now (f_lba f)) I ltac:(discriminate) eq_refl eq_refl Hll La eq_refl); [| |exact Ho].
      * rewrite Hmu. cbn. lia.
      * rewrite Hmu. cbn. intros C. discriminate C.
  - (* ListenToken *)
    assert (Hsome : exists l, f_lba f = Some l).
    { destruct (f_lba f) as [l|]; [exists l; reflexivity|]. specialize (Hl eq_refl). discriminate Hl. }
    destruct Hsome as [l El].
    destruct (lba_after f now b apps f' o apps' c l E Hb El) as [_ La].
    destruct (silent_body f now b apps f' o apps' c E Hc ltac:(rewrite Es; reflexivity) Hb) as [[Hp [-> Ht]]|[_ [_ [w' [Hd Ht]]]]].
    + left. unfold predicted in Hp. rewrite El in Hp. apply Z.leb_le in Hp. rewrite El. cbn [gv].
      pose proof (bv_slot _ _ R) as Hsl. rewrite Hp0 in Hsl.
      destruct (mark_state f now) as [Hs _]. destruct (mark_bus_activity_lba f now) as [Hml _]. rewrite El in Hml.
      assert (Hl' : f_lba (mark_bus_activity f now) = Some l) by (rewrite Hml; f_equal; lia).
      split; [lia|]. split; [apply HInv; [rewrite Hs, Es; exact I|rewrite Hs, Es; discriminate|rewrite Hl'; discriminate]|].
      split; [unfold mu_A; rewrite Hs; reflexivity|exact Hl'].
    + unfold dispatch in Hd. rewrite Es in Hd. cbn [kind_of poll_dispatch] in Hd.
      pose proof (fun Hw Hr => do_listen_token_silent A f now _ f' w' sr cc Es Hw Hr Hd) as Ho. specialize (Ho eq_refl eq_refl).
      apply (Hout f w' l ltac:(rewrite Es; exact I) ltac:(rewrite Es; discriminate) eq_refl eq_refl (or_introl El) La Ht);
        [unfold mu_A; lia|intros _; exact Es|exact Ho].
  - (* ActiveIdle *)
    assert (Hsome : exists l, f_lba f = Some l).
    { destruct (f_lba f) as [l|]; [exists l; reflexivity|]. specialize (Hl eq_refl). discriminate Hl. }
    destruct Hsome as [l El].
    destruct (lba_after f now b apps f' o apps' c l E Hb El) as [_ La].
    destruct (silent_body f now b apps f' o apps' c E Hc ltac:(rewrite Es; reflexivity) Hb) as [[Hp [-> Ht]]|[_ [_ [w' [Hd Ht]]]]].
    + left. unfold predicted in Hp. rewrite El in Hp. apply Z.leb_le in Hp. rewrite El. cbn [gv].
      pose proof (bv_slot _ _ R) as Hsl. rewrite Hp0 in Hsl.
      destruct (mark_state f now) as [Hs _]. destruct (mark_bus_activity_lba f now) as [Hml _]. rewrite El in Hml.
      assert (Hl' : f_lba (mark_bus_activity f now) = Some l) by (rewrite Hml; f_equal; lia).
      split; [lia|]. split; [apply HInv; [rewrite Hs, Es; exact I|rewrite Hs, Es; discriminate|rewrite Hl'; discriminate]|].
      split; [unfold mu_A; rewrite Hs; reflexivity|exact Hl'].
    + unfold dispatch in Hd. rewrite Es in Hd. cbn [kind_of poll_dispatch] in Hd.
      pose proof (fun Hw Hr => do_active_idle_silent A f now _ f' w' sr nps cc Es Hw Hr Hd) as Ho. specialize (Ho eq_refl eq_refl).
      apply (Hout f w' l ltac:(rewrite Es; exact I) ltac:(rewrite Es; discriminate) eq_refl eq_refl (or_introl El) La Ht);
        [unfold mu_A; lia|intros _; exact Es|exact Ho].
Qed.

End SilentPolls.

(* ------------------------------------------------------------------------------------------ *)
(* 4. schedules, the ranking induction, the bound                                               *)

Definition silent_in2 (x : Z * bool) : Z * phy_in := (fst x, mkPhyIn (snd x) []).

Section Schedules.
Variable A : Type.
Variable ops : app_ops A.
Variable P : Z.

(* a poll schedule of a lone station on a silent bus: times increase with gaps of at most P, the receive
   buffer is always empty, the PHY reports busy at most while the station itself still predicts the end
   of its own transmission *)
Fixpoint lone_ok (f : fdl) (apps : list A) (tprev : Z) (ins : list (Z * bool)) : Prop :=
  match ins with
  | [] => True
  | (now, b) :: t =>
      tprev < now <= tprev + P /\ time_ok now /\ (b = true -> predicted f now = true) /\
      forall f' o apps' c, poll ops f now (mkPhyIn b []) apps = Ok (f', o, apps', c) -> lone_ok f' apps' now t
  end.

(* the station holds the token after some poll at or before time B - or the schedule ends too early *)
Definition reached (B : Z) (steps : list step_rec) : Prop :=
  Exists (fun s => have_token (f_state (s_f' s)) = true /\ s_now s <= B) steps \/
  Forall (fun s => s_now s <= B - P) steps.

Lemma reached_nil B : reached B []. Proof. right. constructor. Qed.

Lemma reached_cons B B' s steps : B' <= B -> s_now s <= B - P -> reached B' steps -> reached B (s :: steps).
Proof.
  intros HB Hs [H|H].
  - left. apply Exists_cons_tl. eapply Exists_impl; [|exact H]. cbn. intros x [H1 H2]. split; [exact H1|lia].
  - right. constructor; [exact Hs|]. eapply Forall_impl; [|exact H]. cbn. intros x Hx. lia.
Qed.

Lemma reached_here B s steps : have_token (f_state (s_f' s)) = true -> s_now s <= B -> reached B (s :: steps).
Proof. intros H1 H2. left. apply Exists_cons_hd. split; assumption. Qed.

Hypothesis Happs : apps_total A ops.

(* every schedule runs without panic from a state that satisfies Rep *)
Lemma run_total : forall ins f apps tprev, Rep (length apps) f -> lone_ok f apps tprev ins ->
  exists steps, run_polls ops f apps (map silent_in2 ins) = Ok steps.
Proof.
  induction ins as [|[t1 b] rest IH]; intros f apps tprev R Hl; [exists []; reflexivity|].
  destruct Hl as (_ & Tn & _ & Hnext).
  destruct (poll_rep_step A ops Happs f t1 (mkPhyIn b []) apps R Tn ltac:(constructor)) as (f' & o & apps' & c & E & R' & Hlen').
  rewrite <- Hlen' in R'. destruct (IH f' apps' t1 R' (Hnext _ _ _ _ E)) as [steps Hs].
  cbn [map silent_in2 run_polls fst snd]. rewrite E. cbn [bind]. rewrite Hs. cbn [bind]. eexists. reflexivity.
Qed.

Section Generic.
Variable n : nat.
Variable Inv : fdl -> Prop.
Variable mu : fdl -> nat.
Variables dmax TX : Z.
Hypothesis Hd : 0 <= dmax.
Hypothesis HT : 0 <= TX.
Hypothesis HP : 0 <= P.

Hypothesis step : forall f now b (apps : list A),
  Inv f -> length apps = n -> time_ok now -> (b = true -> predicted f now = true) ->
  exists f' o apps' c, poll ops f now (mkPhyIn b []) apps = Ok (f', o, apps', c) /\ length apps' = n /\ Rep n f' /\
    ((now <= gv now (f_lba f) + dmax /\ Inv f' /\ mu f' = mu f /\ f_lba f' = Some (gv now (f_lba f)))
     \/ have_token (f_state f') = true
     \/ (Inv f' /\ (mu f' < mu f)%nat /\ exists l', f_lba f' = Some l' /\ l' <= Z.max (gv now (f_lba f)) (now + TX))).

Definition gbound (f : fdl) (t1 : Z) : Z :=
  Z.max t1 (gv t1 (f_lba f) + dmax + P) + Z.of_nat (mu f) * (TX + dmax + P).

Theorem generic_recover : forall ins f apps tprev,
  Inv f -> length apps = n -> lone_ok f apps tprev ins ->
  exists steps, run_polls ops f apps (map silent_in2 ins) = Ok steps /\
    match ins with [] => steps = [] | (t1, _) :: _ => reached (gbound f t1) steps end.
Proof.
  induction ins as [|[t1 b] rest IH]; intros f apps tprev Hinv Hlen Hl.
  - exists []. split; reflexivity.
  - destruct Hl as (_ & Tn & Hb & Hnext).
    destruct (step f t1 b apps Hinv Hlen Tn Hb) as (f' & o & apps' & c & E & Hlen' & R' & Hcase).
    specialize (Hnext _ _ _ _ E).
    cbn [map silent_in2 run_polls fst snd]. rewrite E. cbn [bind].
    set (D := TX + dmax + P). assert (HD : 0 <= D) by (unfold D; lia).
    set (s := mkStep f t1 (mkPhyIn b []) f' o).
    assert (Hgap : forall t2 b2 rest', rest = (t2, b2) :: rest' -> t2 <= t1 + P).
    { intros t2 b2 rest' ->. destruct Hnext as (Hg & _). lia. }
    destruct Hcase as [(Hw & Hinv' & Hmu & Hl')|[Hgoal|(Hinv' & Hmu & l' & Hl' & Hle)]].
    + (* waiting *)
      destruct (IH f' apps' t1 Hinv' Hlen' Hnext) as [steps [Hrun Hre]].
      rewrite Hrun. cbn [bind]. eexists. split; [reflexivity|].
      assert (Hs : s_now s <= gbound f t1 - P) by (unfold gbound; cbn [s s_now]; nia).
      destruct rest as [|[t2 b2] rest'].
      * subst steps. apply (reached_cons _ (gbound f t1)); [lia|exact Hs|apply reached_nil].
      * apply (reached_cons _ (gbound f' t2)); [|exact Hs|exact Hre].
        specialize (Hgap _ _ _ eq_refl). unfold gbound. rewrite Hl', Hmu. cbn [gv]. fold D. lia.
    + (* the station holds the token *)
      rewrite <- Hlen' in R'.
      destruct (run_total rest f' apps' t1 R' Hnext) as [steps Hrun]. rewrite Hrun. cbn [bind].
      eexists. split; [reflexivity|]. apply reached_here; [exact Hgoal|]. cbn [s s_now]. unfold gbound. fold D.
      assert (0 <= Z.of_nat (mu f) * D) by (apply Z.mul_nonneg_nonneg; lia). unfold D in *. lia.
    + (* progress *)
      destruct (IH f' apps' t1 Hinv' Hlen' Hnext) as [steps [Hrun Hre]].
      rewrite Hrun. cbn [bind]. eexists. split; [reflexivity|].
      assert (Hm : Z.of_nat (mu f') * D <= Z.of_nat (mu f) * D - D) by nia.
      assert (Hs : s_now s <= gbound f t1 - P) by (unfold gbound; fold D; cbn [s s_now]; unfold D in *; nia).
      destruct rest as [|[t2 b2] rest'].
      * subst steps. apply (reached_cons _ (gbound f t1)); [lia|exact Hs|apply reached_nil].
      * apply (reached_cons _ (gbound f' t2)); [|exact Hs|exact Hre].
        specialize (Hgap _ _ _ eq_refl). unfold gbound. rewrite Hl'. cbn [gv]. fold D. unfold D in *. lia.
Qed.

End Generic.

(* ---- the two chains and every state ---- *)

Definition is_idle_chain (s : state) : bool :=
  match s with Offline | ListenToken _ _ | ActiveIdle _ _ _ => true | _ => false end.

(* the bound: from the first poll time t1 and the last recorded bus activity L.
   Idle chain (set online / listening / idle in the ring): the token-lost time-out of the own address plus one
   poll period, plus at most two further steps (a pending status reply of 6 bytes).
   Token chain (token-holding states, PassToken, CheckTokenPass): one slot time plus one poll period per
   step, a token telegram per step; at most three steps (passes) per other station in the ring view, plus
   at most five. *)
Definition recover_bound (f : fdl) (t1 : Z) : Z :=
  let p := f_p f in let L := gv t1 (f_lba f) in
  if is_idle_chain (f_state f)
  then Z.max t1 (L + token_lost_timeout p + P) + Z.of_nat (idle_rank (f_state f)) * (dur p 6 + token_lost_timeout p + P)
  else Z.max t1 (L + slot_time p + P) + Z.of_nat (mu_B f) * (dur p 3 + slot_time p + P).

Lemma dur_nonneg p k : 0 <= dur p k.
Proof. unfold dur. apply C01Proofs.btt_nonneg. unfold bits_per_byte. lia. Qed.

Theorem lost_token_recovers_alone : forall ins f apps tprev,
  0 <= P -> Rep (length apps) f -> f_conn f = ConnOnline -> (f_lba f = None -> f_state f = Offline) ->
  lone_ok f apps tprev ins ->
  exists steps, run_polls ops f apps (map silent_in2 ins) = Ok steps /\
    match ins with [] => steps = [] | (t1, _) :: _ => reached (recover_bound f t1) steps end.
Proof.
  intros ins f apps tprev HP R Hc Hl Hlone.
  pose proof (bv_slot _ _ R) as Hslot.
  pose proof (slot_le_timeout _ (rep_p _ _ R)) as Hst.
  unfold recover_bound.
  destruct (is_idle_chain (f_state f)) eqn:Ei.
  - assert (Hinv : InvA (f_p f) (length apps) f).
    { split; [exact R|]. split; [exact Hc|]. split; [exact Hl|]. split; [reflexivity|].
      destruct (f_state f); try discriminate Ei; exact I. }
    exact (generic_recover (length apps) (InvA (f_p f) (length apps)) mu_A (token_lost_timeout (f_p f)) (dur (f_p f) 6)
             ltac:(lia) (dur_nonneg _ _) HP
             (fun g now b apps0 => stepA A ops Happs (f_p f) (length apps) g now b apps0) ins f apps tprev Hinv eq_refl Hlone).
  - assert (Hinv : InvB (f_p f) (length apps) f).
    { split; [exact R|]. split; [exact Hc|].
      split; [intros C; specialize (Hl C); rewrite Hl in Ei; discriminate Ei|]. split; [reflexivity|].
      pose proof (rep_st _ _ R) as St.
      destruct (f_state f); try discriminate Ei; try contradiction; unfold chainB; cbn; tauto. }
    exact (generic_recover (length apps) (InvB (f_p f) (length apps)) mu_B (slot_time (f_p f)) (dur (f_p f) 3)
             ltac:(lia) (dur_nonneg _ _) HP
             (fun g now b apps0 => stepB A ops Happs (f_p f) (length apps) g now b apps0) ins f apps tprev Hinv eq_refl Hlone).
Qed.

(* a closed form above the bound: three steps per listed station plus five, each step at most the station's
   token-lost time-out plus a 6-byte telegram plus a poll period *)
Lemma mu_B_le f : (mu_B f <= 3 * others (f_ring f) (ts f) + 5)%nat.
Proof. unfold mu_B. destruct (f_state f); lia. Qed.

Lemma recover_bound_le f t1 n : 0 <= P -> Rep n f ->
  recover_bound f t1 <=
  Z.max t1 (gv t1 (f_lba f) + token_lost_timeout (f_p f) + P) +
  (3 * Z.of_nat (others (f_ring f) (ts f)) + 5) * (dur (f_p f) 6 + token_lost_timeout (f_p f) + P).
Proof.
  intros HP R. pose proof (bv_slot _ _ R) as Hslot. pose proof (slot_le_timeout _ (rep_p _ _ R)) as Hst.
  pose proof (dur_nonneg (f_p f) 3) as H3.
  assert (H36 : dur (f_p f) 3 <= dur (f_p f) 6) by (unfold dur; apply C01Proofs.btt_mono; unfold bits_per_byte; lia).
  unfold recover_bound. set (m := Z.of_nat (others (f_ring f) (ts f))). assert (0 <= m) by (unfold m; lia).
  destruct (is_idle_chain (f_state f)).
  - assert (Hr : (idle_rank (f_state f) <= 2)%nat) by (destruct (f_state f) as [ | |[x|] y|[x|] y z| | | | | | ]; cbn; lia).
    nia.
  - pose proof (mu_B_le f) as Hm. fold m in Hm.
    assert (Hm' : Z.of_nat (mu_B f) <= 3 * m + 5) by (unfold m; lia).
    nia.
Qed.


Lemma run_polls_now : forall (ins : list (Z * phy_in)) f apps steps,
  run_polls ops f apps ins = Ok steps -> map s_now steps = map fst ins.
Proof.
  induction ins as [|[t pin] rest IH]; intros f apps steps H; cbn [run_polls] in H.
  - injection H as <-. reflexivity.
  - destruct (poll ops f t pin apps) as [[[[f' o] apps'] c]| |]; cbn [bind] in H; try discriminate H.
    destruct (run_polls ops f' apps' rest) as [l| |] eqn:Er; cbn [bind] in H; try discriminate H.
    injection H as <-. cbn [map s_now fst]. rewrite (IH _ _ _ Er). reflexivity.
Qed.

(* if the schedule goes on long enough - it has a poll later than the bound minus one period - the station
   holds the token after a poll at or before the bound *)
Corollary lost_token_recovers_alone_by : forall ins f apps tprev t1 b rest t,
  0 <= P -> Rep (length apps) f -> f_conn f = ConnOnline -> (f_lba f = None -> f_state f = Offline) ->
  ins = (t1, b) :: rest -> lone_ok f apps tprev ins ->
  In t (map fst ins) -> recover_bound f t1 - P < t ->
  exists steps, run_polls ops f apps (map silent_in2 ins) = Ok steps /\
    Exists (fun s => have_token (f_state (s_f' s)) = true /\ s_now s <= recover_bound f t1) steps.
Proof.
  intros ins f apps tprev t1 b rest t HP R Hc Hl -> Hlone Hin Hlate.
  destruct (lost_token_recovers_alone _ f apps tprev HP R Hc Hl Hlone) as [steps [Hrun Hre]].
  exists steps. split; [exact Hrun|]. destruct Hre as [H|H]; [exact H|exfalso].
  apply run_polls_now in Hrun. rewrite map_map in Hrun.
  assert (Hin' : In t (map s_now steps)) by (rewrite Hrun; exact Hin).
  apply in_map_iff in Hin'. destruct Hin' as [s [Hs Hsin]]. rewrite Forall_forall in H. specialize (H s Hsin). lia.
Qed.

End Schedules.

(* ------------------------------------------------------------------------------------------ *)
(* non-vacuity: a freshly created station with the default parameters (address 1, 19200 baud), set
   online and polled every 50 ms on a silent bus holds the token after one of the polls up to 291.872 ms *)

Definition ex_sched : list (Z * bool) :=
  [(10000, false); (60000, false); (110000, false); (160000, false); (210000, false); (260000, false)].

Lemma default_params_valid : builder_valid default_params.
Proof. unfold builder_valid, default_params. vm_compute. repeat split; discriminate. Qed.

Lemma ex_recover_fresh f0 f : fdl_new default_params = Ok f0 -> set_online f0 = Ok f ->
  exists steps, run_polls unit_app_ops f [tt] (map silent_in2 ex_sched) = Ok steps /\
    Exists (fun s => have_token (f_state (s_f' s)) = true /\ s_now s <= 291872) steps.
Proof.
  intros E0 E1.
  destruct (fdl_new_rep 1 default_params default_params_valid) as [g0 (Eg & R0 & Hc0 & Hs0 & Hp0)].
  rewrite E0 in Eg. injection Eg as <-.
  destruct (fdl_new_fields _ _ E0) as (_ & _ & Hl0 & _).
  unfold set_online, set_state in E1. injection E1 as <-.
  assert (R : Rep (length [tt]) (set_conn f0 ConnOnline)).
  { destruct (Rep_set_online 1 f0 R0) as [f1 [E R1]]. unfold set_online, set_state in E. injection E as <-. exact R1. }
  assert (Hb : recover_bound 50000 (set_conn f0 ConnOnline) 10000 = 291872).
  { unfold recover_bound. cbn [set_conn f_state f_p f_lba]. rewrite Hs0, Hp0, Hl0. vm_compute. reflexivity. }
  destruct (lost_token_recovers_alone_by unit unit_app_ops 50000 unit_apps_total ex_sched (set_conn f0 ConnOnline) [tt] 0
              10000 false (tl ex_sched) 260000 ltac:(lia) R eq_refl ltac:(intros _; exact Hs0) eq_refl) as [steps [Hrun Hex]].
  - unfold ex_sched. cbn [lone_ok]. unfold time_ok.
    repeat (split; [lia|]); repeat (split; [intros C; discriminate C|]); intros; 
    repeat (split; [lia|]); repeat (split; [intros C; discriminate C|]); intros;
    repeat (split; [lia|]); repeat (split; [intros C; discriminate C|]); intros;
    repeat (split; [lia|]); repeat (split; [intros C; discriminate C|]); intros;
    repeat (split; [lia|]); repeat (split; [intros C; discriminate C|]); intros;
    repeat (split; [lia|]); repeat (split; [intros C; discriminate C|]); intros; exact I.
  - cbn. tauto.
  - rewrite Hb. lia.
  - exists steps. split; [exact Hrun|]. rewrite Hb in Hex. exact Hex.
Qed.
