(* C19, fidelity half - whole files at tree level: the interpretation of `file_tree stmts` is what the written
   statements say (`file_says`), for every statement kind; closed forms per fragment follow in C19Fragments.v. *)
From PB Require Import Common GsdGrammar GsdTables GsdInterp GsdShape GsdRender C19Shape C19Fidelity.

(* ------------------------------------------------------------------------------------------ written values are read as written *)

Lemma num_ok_split : forall max n, num_okb max n = true -> wnum_okb n = true /\ wnum_value n <= max.
Proof. intros max n H. unfold num_okb in H. apply andb_true_iff in H. destruct H as [A B]. apply Z.leb_le in B. tauto. Qed.

Lemma read_num : forall max n, max <= u32_max -> num_okb max n = true ->
  parse_number max (wnum_node n) = POk (wnum_value n).
Proof.
  intros max n Hm H. apply num_ok_split in H. destruct H as [A B].
  unfold wnum_node. apply parse_number_written; assumption.
Qed.

Lemma read_bool : forall n, num_okb u32_max n = true -> parse_bool (wnum_node n) = POk (truth n).
Proof. intros n H. unfold parse_bool. rewrite read_num; [reflexivity | apply Z.le_refl | exact H]. Qed.

Lemma read_str : forall w, wstr_okb w = true -> parse_string (wstr_node w) = POk (wstr_value w).
Proof. intros w H. unfold wstr_node. apply parse_string_written. exact H. Qed.

Lemma read_nums : forall max l, max <= u32_max -> nums_okb max l = true ->
  map_pr (parse_number max) (map wnum_node l) = POk (map wnum_value l).
Proof.
  intros max l Hm. induction l as [| n l IH]; intros H; [reflexivity |].
  cbn [nums_okb forallb] in H. apply andb_true_iff in H. destruct H as [Hn Hl].
  cbn [map map_pr]. rewrite read_num by assumption. cbn [pbind]. unfold nums_okb in IH. rewrite IH by exact Hl. reflexivity.
Qed.

Lemma wnum_rule_cases : forall n, wnum_rule n = R_dec_number \/ wnum_rule n = R_hex_number.
Proof. intros [ds | ds]; [left | right]; reflexivity. Qed.

Lemma read_numlist : forall max v l, max <= u32_max -> as_numlist v = Some l -> nums_okb max l = true ->
  parse_number_list max (val_node v) = POk (map wnum_value l).
Proof.
  intros max v l Hm Hv Hl. destruct v as [n | w | l' | t]; try discriminate Hv; injection Hv as <-.
  - cbn [nums_okb forallb] in Hl. rewrite andb_true_r in Hl.
    unfold parse_number_list. cbn [val_node]. 
    assert (E : parse_number max (wnum_node n) = POk (wnum_value n)) by (apply read_num; assumption).
    unfold wnum_node in *. cbn [root]. destruct n as [ds | ds]; cbn [wnum_rule] in *; rewrite E; reflexivity.
  - unfold parse_number_list. cbn [val_node root kids]. apply read_nums; assumption.
Qed.

(* signed numbers *)
Lemma from_str_radix_plain : forall signed lo hi radix s v,
  s <> [] -> (forall c, In c s -> (c =? 43) = false /\ (c =? 45) = false) ->
  digits_val radix 0 s = Some v -> lo <= v <= hi ->
  from_str_radix signed lo hi radix s = Some v.
Proof.
  intros signed lo hi radix s v Hne Hplain Hd Hv.
  assert (R : (lo <=? v) && (v <=? hi) = true) by (apply andb_true_iff; split; apply Z.leb_le; lia).
  destruct s as [| c [| c' r]]; [congruence | |].
  - destruct (Hplain c (or_introl eq_refl)) as [E1 E2].
    unfold from_str_radix. rewrite E1, E2. cbn [orb]. rewrite Hd, R. reflexivity.
  - destruct (Hplain c (or_introl eq_refl)) as [E1 E2].
    unfold from_str_radix. rewrite E1, E2. cbn [andb]. rewrite Hd, R. reflexivity.
Qed.

Lemma from_str_radix_minus : forall lo hi s v,
  s <> [] -> digits_val 10 0 s = Some v -> lo <= - v <= hi ->
  from_str_radix true lo hi 10 (45 :: s) = Some (- v).
Proof.
  intros lo hi s v Hne Hd Hv.
  assert (R : (lo <=? - v) && (- v <=? hi) = true) by (apply andb_true_iff; split; apply Z.leb_le; lia).
  destruct s as [| c r]; [congruence |].
  unfold from_str_radix. change (45 =? 43) with false. change ((45 =? 45) && true) with true. cbv iota.
  rewrite Hd, R. reflexivity.
Qed.

Lemma read_signed : forall n, wsnum_okb n = true -> parse_signed (wsnum_node n) = POk (wsnum_value n).
Proof.
  intros [neg a] H. unfold wsnum_okb in H. cbn [ws_neg ws_abs] in H. apply andb_true_iff in H. destruct H as [Hok Hr].
  unfold parse_signed, wsnum_node, wsnum_text, wsnum_value. cbn [ws_neg ws_abs root text].
  destruct a as [ds | ds].
  - apply wnum_ok_dec in Hok. destruct Hok as [Hne HF]. cbn [wnum_rule wnum_text wnum_value] in *.
    pose proof (fold_dec_nonneg ds 0 HF (Z.le_refl 0)) as Hnn.
    destruct neg.
    + apply Z.leb_le in Hr.
      rewrite (from_str_radix_minus i64_min i64_max (map dec_char ds) (fold_left (fun a d => a * 10 + d) ds 0)); [reflexivity | | |].
      * destruct ds; [congruence | discriminate].
      * apply digits_val_dec. exact HF.
      * unfold i64_min, i64_max in *. lia.
    + apply Z.leb_le in Hr.
      rewrite (from_str_radix_plain true i64_min i64_max 10 (map dec_char ds) (fold_left (fun a d => a * 10 + d) ds 0)); [reflexivity | | | |].
      * destruct ds; [congruence | discriminate].
      * intros c Hin. apply in_map_iff in Hin. destruct Hin as [d [<- Hd]].
        rewrite Forall_forall in HF. apply dec_char_plain. apply HF. exact Hd.
      * apply digits_val_dec. exact HF.
      * unfold i64_min. lia.
  - destruct neg; [discriminate Hr |]. apply Z.leb_le in Hr.
    apply wnum_ok_hex in Hok. destruct Hok as [Hne HF]. cbn [wnum_rule wnum_text wnum_value] in *.
    pose proof (fold_hex_nonneg ds 0 HF (Z.le_refl 0)) as Hnn.
    rewrite trim_0x_hex by exact HF.
    rewrite (from_str_radix_plain true i64_min i64_max 16 (map hex_char ds) (fold_left (fun a dc => a * 16 + fst dc) ds 0)); [reflexivity | | | |].
    + destruct ds; [congruence | discriminate].
    + intros c Hin. apply in_map_iff in Hin. destruct Hin as [d [<- Hd]].
      rewrite Forall_forall in HF. destruct (hex_char_plain d (HF d Hd)) as [A [B _]]. split; assumption.
    + apply digits_val_hex. exact HF.
    + unfold i64_min. lia.
Qed.

Lemma read_signeds : forall l, forallb wsnum_okb l = true ->
  map_pr parse_signed (map wsnum_node l) = POk (map wsnum_value l).
Proof.
  induction l as [| n l IH]; intros H; [reflexivity |].
  cbn [forallb] in H. apply andb_true_iff in H. destruct H as [Hn Hl].
  cbn [map map_pr]. rewrite read_signed by exact Hn. cbn [pbind]. rewrite IH by exact Hl. reflexivity.
Qed.

(* ------------------------------------------------------------------------------------------ settings *)

Ltac rd1 :=
  first
    [ rewrite read_num by (try assumption; first [apply Z.le_refl | apply nfield_max_u32 | vm_compute; discriminate])
    | rewrite read_bool by assumption
    | rewrite read_str by assumption
    | rewrite read_signed by assumption ].
Ltac rd := cbn [pbind next_indexed next_unwrap]; repeat (rd1; cbn [pbind next_indexed next_unwrap]).

Lemma u8_u32 : u8_max <= u32_max. Proof. vm_compute. discriminate. Qed.
Lemma u16_u32 : u16_max <= u32_max. Proof. vm_compute. discriminate. Qed.

Lemma do_setting_written : forall s x, set_okb s x = true ->
  do_statement s (set_node x) = POk (apply_set s x).
Proof.
  intros s [key idx val] Hok.
  unfold do_statement, set_node. cbn [root kids se_key se_idx se_val]. unfold do_setting.
  unfold set_okb, apply_set, set_action in *. cbn [se_key se_idx se_val] in *.
  destruct idx as [i |]; cbn [next_unwrap pbind text];
    destruct (assoc_str (to_lower key) setting_table) as [[f | f | f | mask | sp] |]; try reflexivity;
    try discriminate Hok; try (destruct val; discriminate Hok).
  - (* indexed specials *)
    destruct sp; try (destruct val; discriminate Hok); unfold do_action, do_special; cbv zeta.
    + (* ref *)
      destruct val as [id | | |]; try discriminate Hok.
      apply andb_true_iff in Hok. destruct Hok as [Hok Hd]. apply andb_true_iff in Hok. destruct Hok as [Ho Hi].
      cbn [val_node]. rd. destruct (zmap_get (wnum_value id) (s_defs s)); [reflexivity | discriminate Hd].
    + (* const *)
      apply andb_true_iff in Hok. destruct Hok as [Ho Hl].
      destruct (as_numlist val) as [l |] eqn:El; [| discriminate Hl]. rd.
      rewrite (read_numlist u8_max val l u8_u32 El Hl). reflexivity.
    + reflexivity.
    + destruct val as [| w | |]; try discriminate Hok. apply andb_true_iff in Hok. destruct Hok as [Hb Hw]. cbn [val_node]. rd. reflexivity.
    + destruct val as [| w | |]; try discriminate Hok. apply andb_true_iff in Hok. destruct Hok as [Hb Hw]. cbn [val_node]. rd. reflexivity.
    + destruct val as [| w | |]; try discriminate Hok. apply andb_true_iff in Hok. destruct Hok as [Hb Hw]. cbn [val_node]. rd. reflexivity.
    + destruct val as [| w | |]; try discriminate Hok. apply andb_true_iff in Hok. destruct Hok as [Hb Hw]. cbn [val_node]. rd. reflexivity.
  - destruct val as [n | | |]; try discriminate Hok. unfold do_action. cbv zeta. cbn [val_node]. rd. reflexivity.
  - destruct val as [| w | |]; try discriminate Hok. unfold do_action. cbv zeta. cbn [val_node]. rd. reflexivity.
  - destruct val as [n | | |]; try discriminate Hok. unfold do_action. cbv zeta. cbn [val_node]. rd. reflexivity.
  - destruct val as [n | | |]; try discriminate Hok. unfold do_action. cbv zeta. cbn [val_node]. rd. reflexivity.
  - (* specials without index *)
    destruct sp; try (destruct val; discriminate Hok); unfold do_action, do_special; cbv zeta.
    + destruct val as [n | | |]; try discriminate Hok. cbn [val_node]. rd. reflexivity.
    + destruct val as [n | | |]; try discriminate Hok. cbn [val_node]. rd. reflexivity.
    + reflexivity.
    + (* user_prm_data_len *)
      destruct val as [n | | |]; try discriminate Hok. destruct (s_legacy s) as [prm |]; [| reflexivity].
      apply andb_true_iff in Hok. destruct Hok as [Hn Hc]. apply negb_true_iff in Hc.
      cbn [val_node]. rewrite (read_num u8_max n u8_u32 Hn). cbn [pbind]. rewrite Hc. reflexivity.
    + (* user_prm_data *)
      destruct (s_legacy s) as [prm |]; [| reflexivity].
      destruct (as_numlist val) as [l |] eqn:El; [| discriminate Hok].
      apply andb_true_iff in Hok. destruct Hok as [Hl Hc]. apply negb_true_iff in Hc.
      rewrite (read_numlist u8_max val l u8_u32 El Hl). cbn [pbind].
      unfold Zlength' in *. rewrite map_length. rewrite Hc. reflexivity.
Qed.

(* ------------------------------------------------------------------------------------------ PrmText, Unit_Diag_Area *)

Lemma text_values_written : forall es acc, forallb tentry_okb es = true ->
  prm_text_values acc (map tentry_node es) = POk (fold_left table_add es acc).
Proof.
  induction es as [| e es IH]; intros acc H; [reflexivity |].
  cbn [forallb] in H. apply andb_true_iff in H. destruct H as [He Hes].
  unfold tentry_okb in He. apply andb_true_iff in He. destruct He as [Hn Hs].
  cbn [map prm_text_values tentry_node root kids fold_left]. rd. apply IH. exact Hes.
Qed.

Lemma area_values_written : forall es acc,
  forallb (fun e : wnum * wstr => num_okb u16_max (fst e) && wstr_okb (snd e)) es = true ->
  area_values acc (map avalue_node es) =
  POk (fold_left (fun acc e => zmap_insert (wnum_value (fst e)) (wstr_value (snd e)) acc) es acc).
Proof.
  induction es as [| e es IH]; intros acc H; [reflexivity |].
  cbn [forallb] in H. apply andb_true_iff in H. destruct H as [He Hes].
  apply andb_true_iff in He. destruct He as [Hn Hs].
  cbn [map area_values avalue_node root kids fold_left]. cbn [next_unwrap pbind].
  rewrite (read_num u16_max (fst e) u16_u32 Hn). rd. apply IH. exact Hes.
Qed.

(* ------------------------------------------------------------------------------------------ ExtUserPrmData *)

Lemma data_type_written : forall t, wtype_okb t = true ->
  exists d, wtype_den t = Some d /\ data_type_of (wtype_node t) = POk d.
Proof.
  intros [txt | n | a b] H; unfold wtype_okb, wtype_den, data_type_of, wtype_node in *; cbn [root kids next_unwrap pbind text].
  - destruct (assoc_str (to_lower txt) dtype_table) as [d |]; [| discriminate H]. eexists. split; reflexivity.
  - rewrite (read_num u8_max n u8_u32 H). eexists. split; reflexivity.
  - apply andb_true_iff in H. destruct H as [Ha Hb].
    rewrite (read_num u8_max a u8_u32 Ha). cbn [pbind next_unwrap]. rewrite (read_num u8_max b u8_u32 Hb).
    eexists. split; reflexivity.
Qed.

Lemma opt_ok_some : forall max n, opt_okb max (Some n) = true -> num_okb max n = true.
Proof. intros max n H. exact H. Qed.

Lemma do_def_written : forall s d, wdef_okb (s_texts s) d = true ->
  do_statement s (wdef_node d) = POk (apply_stmt s (WDef d)).
Proof.
  intros s [id name ty dflt constr tref chg vis] H.
  unfold wdef_okb in H. cbn [wd_id wd_name wd_type wd_default wd_constr wd_tref wd_chg wd_vis] in H.
  apply andb_true_iff in H; destruct H as [H Kvis]. apply andb_true_iff in H; destruct H as [H Kchg].
  apply andb_true_iff in H; destruct H as [H Ktref]. apply andb_true_iff in H; destruct H as [H Kcon].
  apply andb_true_iff in H; destruct H as [H Kdf]. apply andb_true_iff in H; destruct H as [H Kty].
  apply andb_true_iff in H; destruct H as [Kid Kname].
  destruct (data_type_written ty Kty) as [dt [Edt Edo]].
  unfold do_statement, wdef_node. cbn [root kids wd_id wd_name wd_type wd_default wd_constr wd_tref wd_chg wd_vis].
  unfold do_ext_user_prm_data. rd. rewrite Edo. rd.
  unfold apply_stmt, wdef_den. cbn [wd_id wd_name wd_type wd_default wd_constr wd_tref wd_chg wd_vis]. rewrite Edt.
  destruct constr as [| a b | l]; cbn [wconstr_nodes wconstr_okb wconstr_den app] in *;
    [ | apply andb_true_iff in Kcon; destruct Kcon as [Ka Kb] | ];
    destruct tref as [r |]; cbn [opt_node app] in *;
    try (apply andb_true_iff in Ktref; destruct Ktref as [Kr Kt]);
    destruct chg as [c |]; destruct vis as [v |]; cbn [opt_node app opt_truth opt_okb] in *;
    cbn [def_options root kids next_unwrap pbind];
    try rewrite (read_signeds l Kcon); cbn [pbind];
    repeat (first [ rewrite (read_num u16_max r u16_u32 Kr) | rd1 ]; cbn [pbind next_unwrap def_options root kids]);
    try (destruct (zmap_get (wnum_value r) (s_texts s)); [| discriminate Kt]);
    cbn [a_constraint a_text a_changeable a_visible pbind]; reflexivity.
Qed.

(* ------------------------------------------------------------------------------------------ modules *)

Lemma module_setting_written : forall defs a x, mitem_okb defs (MSet x) = true ->
  module_setting defs a (kids (set_node x)) = POk (apply_mitem defs a (MSet x)).
Proof.
  intros defs a [key idx val] Hok.
  unfold set_node. cbn [kids se_key se_idx se_val]. unfold module_setting, mitem_okb, apply_mitem, mset_key in *.
  cbn [se_key se_idx se_val] in *. cbv zeta.
  destruct idx as [i |]; cbn [next_unwrap pbind text];
    destruct (str_eqb (to_lower key) key_ext_module_prm_data_len);
    try (destruct val; discriminate Hok);
    try (destruct val as [n | | |]; try discriminate Hok; cbn [val_node]; rewrite (read_num u8_max n u8_u32 Hok); reflexivity);
    destruct (str_eqb (to_lower key) key_ext_user_prm_data_ref);
    try (destruct val; discriminate Hok).
  - destruct val as [id | | |]; try discriminate Hok.
    apply andb_true_iff in Hok. destruct Hok as [Hok Hd]. apply andb_true_iff in Hok. destruct Hok as [Ho Hi].
    cbn [val_node]. rd. destruct (zmap_get (wnum_value id) defs); [reflexivity | discriminate Hd].
  - destruct (str_eqb (to_lower key) key_ext_user_prm_data_const).
    + apply andb_true_iff in Hok. destruct Hok as [Ho Hl].
      destruct (as_numlist val) as [l |] eqn:El; [| discriminate Hl]. rd.
      rewrite (read_numlist u8_max val l u8_u32 El Hl). reflexivity.
    + destruct (str_eqb (to_lower key) key_info_text); [destruct val; discriminate Hok | reflexivity].
  - destruct (str_eqb (to_lower key) key_ext_user_prm_data_const); [destruct val; discriminate Hok |].
    destruct (str_eqb (to_lower key) key_info_text); [| reflexivity].
    destruct val as [| w | |]; try discriminate Hok. cbn [val_node]. rd. reflexivity.
Qed.

Lemma module_items_written : forall defs items a, forallb (mitem_okb defs) items = true ->
  module_items defs a (map mitem_node items) = POk (fold_left (apply_mitem defs) items a).
Proof.
  intros defs. induction items as [| i items IH]; intros a H; [reflexivity |].
  cbn [forallb] in H. apply andb_true_iff in H. destruct H as [Hi Hr].
  cbn [map module_items fold_left]. destruct i as [x | n | tx ks]; cbn [mitem_node].
  - change (root (set_node x)) with R_setting. cbv iota.
    rewrite module_setting_written by exact Hi. cbn [pbind]. apply IH. exact Hr.
  - cbn [root kids next_unwrap pbind]. cbn [mitem_okb] in Hi. rd. apply IH. exact Hr.
  - cbn [root]. apply IH. exact Hr.
Qed.

Lemma do_module_written : forall s m, wmodule_okb (s_defs s) m = true ->
  do_statement s (wmodule_node m) = POk (apply_stmt s (WModule m)).
Proof.
  intros s [name cfg items] H. unfold wmodule_okb in H. cbn [wm_name wm_cfg wm_items] in H.
  apply andb_true_iff in H. destruct H as [H Hi]. apply andb_true_iff in H. destruct H as [Hn Hc].
  unfold do_statement, wmodule_node. cbn [root kids wm_name wm_cfg wm_items]. unfold do_module. rd.
  unfold parse_number_list. cbn [root kids]. rewrite (read_nums u8_max cfg u8_u32 Hc). cbn [pbind].
  rewrite module_items_written by exact Hi. reflexivity.
Qed.

(* ------------------------------------------------------------------------------------------ slots *)

Lemma slot_set_written : forall ms l w, nums_okb u16_max l = true ->
  slot_set ms (map wnum_node l) w = POk (find_all ms (map wnum_value l) w).
Proof.
  intros ms. induction l as [| n l IH]; intros w H; [reflexivity |].
  cbn [nums_okb forallb] in H. apply andb_true_iff in H. destruct H as [Hn Hl].
  cbn [map slot_set find_all]. rewrite (read_num u16_max n u16_u32 Hn). cbn [pbind].
  destruct (find_module ms (wnum_value n)).
  - unfold nums_okb in IH. rewrite IH by exact Hl. cbn [pbind]. destruct (find_all ms (map wnum_value l) w). reflexivity.
  - apply IH. exact Hl.
Qed.

Lemma do_slot_written : forall s sl, wslot_okb s sl = true ->
  do_slot s (kids (wslot_node sl)) = POk (apply_slot s sl).
Proof.
  intros s [num name dflt spec] H. unfold wslot_okb in H. cbn [wl_num wl_name wl_default wl_spec] in H.
  apply andb_true_iff in H. destruct H as [H Hf]. apply andb_true_iff in H. destruct H as [H Hsp].
  apply andb_true_iff in H. destruct H as [H Hd]. apply andb_true_iff in H. destruct H as [Hn Hname].
  unfold wslot_node. cbn [kids wl_num wl_name wl_default wl_spec]. unfold do_slot, apply_slot. cbv zeta.
  cbn [wl_num wl_name wl_default wl_spec]. cbn [next_unwrap pbind].
  rewrite (read_num u8_max num u8_u32 Hn). rd.
  destruct spec as [a b | l]; cbn [wspec_node wspec_okb wspec_refs root kids] in *.
  - apply andb_true_iff in Hsp. destruct Hsp as [Ha Hb]. cbn [next_unwrap pbind].
    rewrite (read_num u16_max a u16_u32 Ha). cbn [pbind next_unwrap]. rewrite (read_num u16_max b u16_u32 Hb). cbn [pbind].
    destruct (find_module (d_modules (s_gsd s)) (wnum_value dflt)); [reflexivity | discriminate Hf].
  - rewrite slot_set_written by exact Hsp. cbn [pbind].
    destruct (find_module (d_modules (s_gsd s)) (wnum_value dflt)); [reflexivity | discriminate Hf].
Qed.

Lemma do_slots_written : forall l s, slots_okb s l = true ->
  do_slots s (map wslot_node l) = POk (fold_left apply_slot l s).
Proof.
  induction l as [| sl l IH]; intros s H; [reflexivity |].
  cbn [slots_okb] in H. apply andb_true_iff in H. destruct H as [Hs Hl].
  cbn [map do_slots fold_left]. change (root (wslot_node sl)) with R_slot. cbv iota.
  rewrite do_slot_written by exact Hs. cbn [pbind]. apply IH. exact Hl.
Qed.

(* ------------------------------------------------------------------------------------------ statements and files *)

Lemma do_statement_written : forall s x, stmt_okb s x = true ->
  do_statement s (stmt_node x) = POk (apply_stmt s x).
Proof.
  intros s x H. destruct x as [x | id es | d | a b es | m | tx l | t]; cbn [stmt_okb stmt_node] in *.
  - apply do_setting_written. exact H.
  - apply andb_true_iff in H. destruct H as [Hid Hes].
    unfold do_statement. cbn [root kids]. unfold do_prm_text. cbn [next_unwrap pbind].
    rewrite (read_num u16_max id u16_u32 Hid). cbn [pbind]. rewrite text_values_written by exact Hes. reflexivity.
  - apply do_def_written. exact H.
  - apply andb_true_iff in H. destruct H as [H Hes]. apply andb_true_iff in H. destruct H as [Ha Hb].
    unfold do_statement. cbn [root kids]. unfold do_unit_diag_area. cbn [next_unwrap pbind].
    rewrite (read_num u16_max a u16_u32 Ha). cbn [pbind next_unwrap]. rewrite (read_num u16_max b u16_u32 Hb). cbn [pbind].
    rewrite area_values_written by exact Hes. reflexivity.
  - apply do_module_written. exact H.
  - unfold do_statement. cbn [root kids]. apply do_slots_written. exact H.
  - unfold do_statement. destruct (root t); try discriminate H; reflexivity.
Qed.

Lemma do_statements_written : forall l s rest, stmts_okb s l = true ->
  do_statements s (map stmt_node l ++ rest) = do_statements (fold_left apply_stmt l s) rest.
Proof.
  induction l as [| x l IH]; intros s rest H; [reflexivity |].
  cbn [stmts_okb] in H. apply andb_true_iff in H. destruct H as [Hx Hl].
  cbn [map app do_statements fold_left]. rewrite do_statement_written by exact Hx. cbn [pbind]. apply IH. exact Hl.
Qed.

(* the interpretation of the pair tree of a well-formed file is what its statements say *)
Theorem roundtrip_file : forall pre mk stmts, file_okb stmts = true ->
  interp (file_tree pre mk stmts) = file_says stmts.
Proof.
  intros pre mk stmts H. unfold interp, file_tree, file_says. cbn [kids].
  cbn [do_statements do_statement root pbind].
  rewrite do_statements_written by exact H. cbn [do_statements do_statement root pbind]. reflexivity.
Qed.
