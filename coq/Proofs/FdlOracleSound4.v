(* FDL oracle soundness, part 4: what one poll of a token-use state (UseToken / AwaitDataResponse) does, in the
   terms the monitors of C13 and C15 use; the ring view after the station witnessed its own token pass. *)
From Coq Require Import Arith Sorted.
From PB Require Import Common Tables FdlTables Telegram Phy TokenRing Params Fdl FdlOracle FdlProofs FdlStepProofs.
From PB Require Import LasOracle LasRep C02Proofs C05Proofs C11Proofs C15Proofs C13Proofs C12Proofs.
From PB Require Import FdlOracleSound1 FdlOracleSound2 FdlOracleSound3.

(* the next station as seen before a witnessed pass TS -> NS is the next station afterwards *)
Lemma next_after_own_pass las ts ns :
  length las = 128%nat -> 0 <= ts < 128 -> ns = next_of (las_ones las) ts -> 0 <= ns <= 128 ->
  next_of (las_ones (las_after las ts ns)) ts = ns.
Proof.
  intros HL Hts Ens Hns.
  pose proof (next_of_spec (las_ones las) ts (las_ones_sorted las)) as Hn. rewrite <- Ens in Hn. clear Ens.
  pose proof (next_of_spec (las_ones (las_after las ts ns)) ts (las_ones_sorted _)) as Hn'.
  eapply cyc_next_unique; [exact Hn'|].
  assert (Hin : forall x, In x (las_ones (las_after las ts ns)) <-> x = ts \/ (In x (las_ones las) /\ ~ LasOracle.in_gap ts ns x)).
  { intros x. pose proof (In_las_ones (las_after las ts ns) x) as I1. pose proof (In_las_ones las x) as I2.
    pose proof (active_las_after las ts ns x HL ltac:(lia) ltac:(lia)) as I3. tauto. }
  assert (Hts_in : In ts (las_ones (las_after las ts ns))) by (apply Hin; left; reflexivity).
  unfold cyc_next. destruct (las_ones (las_after las ts ns)) as [|y l'] eqn:El'; [destruct Hts_in|].
  rewrite <- El' in *. clear El'.
  unfold cyc_next in Hn. destruct (las_ones las) as [|x0 l0] eqn:El.
  - (* nobody in the LAS: NS = TS *)
    cbn in Hn. subst ns. split; [exact Hts_in|]. right. split.
    + intros a Ha. apply Hin in Ha. destruct Ha as [-> |[[] _]]. lia.
    + intros a Ha. apply Hin in Ha. destruct Ha as [-> |[[] _]]. lia.
  - rewrite <- El in *. destruct Hn as (Hi & [(H1 & H2)|(H1 & H2)]).
    + (* TS < NS, NS the smallest above TS *)
      assert (Hnin : In ns (las_ones (las_after las ts ns))).
      { apply Hin. right. split; [exact Hi|]. unfold LasOracle.in_gap. destruct (Z.ltb_spec ts ns); lia. }
      split; [exact Hnin|]. left. split; [exact H1|].
      intros a Ha Hlt. apply Hin in Ha. destruct Ha as [-> |[Ha _]]; [lia|]. exact (H2 a Ha Hlt).
    + (* everybody <= TS, NS the smallest of all *)
      pose proof (H1 ns Hi) as Hle.
      destruct (Z.eq_dec ns ts) as [E|E].
      * split; [apply Hin; left; exact E|]. right. split.
        -- intros a Ha. apply Hin in Ha. destruct Ha as [-> |[Ha _]]; [lia|]. exact (H1 a Ha).
        -- intros a Ha. apply Hin in Ha. destruct Ha as [-> |[Ha Hg]]; [lia|]. exact (H2 a Ha).
      * assert (Hnin : In ns (las_ones (las_after las ts ns))).
        { apply Hin. right. split; [exact Hi|]. unfold LasOracle.in_gap. destruct (Z.ltb_spec ts ns); lia. }
        split; [exact Hnin|]. right. split.
        -- intros a Ha. apply Hin in Ha. destruct Ha as [-> |[Ha _]]; [lia|]. exact (H1 a Ha).
        -- intros a Ha. apply Hin in Ha. destruct Ha as [-> |[Ha Hg]]; [lia|]. exact (H2 a Ha).
Qed.

Lemma witness_own_pass_ns r a r' :
  ring_ok r a -> 0 <= a <= 125 -> witness r a (r_ns r) = Ok r' -> r_ns r' = r_ns r.
Proof.
  intros (W & Ht & (Hns & Hps)) Ha E. subst a.
  assert (Hn0 : 0 <= r_ns r < 128) by (apply (ring_ok_ns r (r_ts r)); [repeat split; assumption|lia]).
  assert (Hupd : r_ns (upd r (r_ts r) (r_ns r)) = r_ns r).
  { destruct (upd_fields r (r_ts r) (r_ns r)) as (_ & _ & _ & Hn & _). rewrite Hn.
    apply next_after_own_pass; [exact W|lia|exact Hns|lia]. }
  destruct (witness_cases r (r_ts r) (r_ns r) r' W ltac:(lia) ltac:(lia) E) as [(_ & ->)|(_ & Hc)]; [reflexivity|].
  destruct (r_state r).
  - subst r'. destruct (is_wrapb _); reflexivity.
  - subst r'. destruct (is_wrapb _); exact Hupd.
  - destruct Hc as [(_ & ->)|(_ & ->)]; [destruct (is_wrapb _); reflexivity|exact Hupd].
  - subst r'. exact Hupd.
Qed.

(* ------------------------------------------------------------------------------------------ *)
(* one poll of a token-use state: nothing at all (PHY busy / own transmission not over yet), or the state
   function on the station as it was (up to the bus-activity bookkeeping)                          *)

Section Visit.
Variable A : Type.
Variable ops : app_ops A.
Notation W := (world A).

Definition visit_tk (s : state) : option Z :=
  match s with UseToken tk _ _ => Some tk | AwaitDataResponse _ tk _ => Some tk | _ => None end.

Lemma visit_tk_in_visit s tk : visit_tk s = Some tk -> in_visit (kind_of s) = true.
Proof. destruct s; cbn; intros H; try discriminate H; reflexivity. Qed.
Lemma in_visit_visit_tk s : in_visit (kind_of s) = true -> exists tk, visit_tk s = Some tk.
Proof. destruct s; cbn; intros H; try discriminate H; eexists; reflexivity. Qed.
Lemma visit_tk_none s : visit_tk s = None -> in_visit (kind_of s) = false.
Proof. destruct s; cbn; intros H; try discriminate H; reflexivity. Qed.

Lemma visit_poll_split f now pin (apps : list A) f' o apps' calls :
  poll ops f now pin apps = Ok (f', o, apps', calls) -> in_visit (kind_of (f_state f)) = true ->
  (f' = mark_bus_activity f now /\ tx o = None /\ calls = [] /\ apps' = apps /\ rx_left o = rx pin) \/
  (exists f1 w1 w', same_but_lba_pending f f1 /\ w_tx w1 = None /\ w_calls w1 = [] /\ w_apps w1 = apps /\
     w_rx w1 = rx pin /\ o = mkPhyOut (w_tx w') (w_rx w') /\ apps' = w_apps w' /\ calls = w_calls w' /\
     tx_busy pin = false /\ (forall l, f_lba f = Some l -> l < now) /\
     (do_use_token A ops f1 now w1 = Ok (f', w') \/ do_await_data_response A ops f1 now w1 = Ok (f', w'))).
Proof.
  intros H Hv. apply (C11Proofs.poll_inv A ops) in H. destruct H as (w' & H & -> & -> & ->).
  apply (C11Proofs.poll_inner_cases A ops) in H.
  destruct H as [(_ & Hs & _)|(_ & f0 & w0 & Hpro & Hb)]; [rewrite Hs in Hv; discriminate Hv|].
  assert (Hht : have_token (f_state f) = true) by (unfold have_token; apply in_visit_have_token; exact Hv).
  destruct (prologue_have_token A _ _ _ _ Hpro Hht) as (-> & ->).
  unfold C11Proofs.body in Hb.
  destruct (tx_busy pin || predicted f now) eqn:Eb.
  - injection Hb as <- <-. left. cbn. repeat split; reflexivity.
  - apply orb_false_iff in Eb. destruct Eb as (Hbusy & Hpred).
    destruct (check_for_bus_activity A f now _) as [f1 w1] eqn:Ec.
    apply cfba_spec in Ec. destruct Ec as (Hs & T1 & C1 & R1 & A1 & _). cbn in T1, C1, R1, A1.
    right. exists f1, w1, w'. split; [exact Hs|]. split; [exact T1|]. split; [exact C1|]. split; [exact A1|].
    split; [exact R1|]. split; [reflexivity|]. split; [reflexivity|]. split; [reflexivity|]. split; [exact Hbusy|].
    split.
    + intros l El. unfold predicted in Hpred. rewrite El in Hpred. apply Z.leb_gt in Hpred. exact Hpred.
    + unfold C11Proofs.dispatch in Hb. destruct Hs as (_ & _ & _ & _ & Hst & _).
      rewrite Hst in Hb. destruct (f_state f); cbn in Hv; try discriminate Hv; cbn [kind_of poll_dispatch] in Hb; [left|right]; exact Hb.
Qed.

End Visit.

(* ------------------------------------------------------------------------------------------ *)
(* do_use_token, in the terms of the monitors                                                   *)

Section UseFacts.
Variable A : Type.
Variable ops : app_ops A.
Variable n : nat.
Notation W := (world A).

(* the deadline of the visit whose token time is tk: end_token_hold_time once do_use_token has computed it
   (last_token_time = tk), and what do_use_token is going to compute otherwise *)
Definition dl (f : fdl) (tk : Z) : Z :=
  if f_last_token_time f =? tk then f_end_tht f
  else f_last_token_time f + token_rotation_time (f_p f) - gap_reserve f.

Definition fcd_of (s : state) : bool :=
  match s with UseToken _ _ fcd => fcd | AwaitDataResponse _ _ _ => true | _ => false end.

(* how do_use_token ends when it goes on to pass the token *)
Definition passed_as (f : fdl) (now : Z) (f' : fdl) (w' : W) : Prop :=
  (w_tx w' = None /\ f_state f' = PassToken true first_attempt) \/
  (exists a, f_state f' = AwaitStatusResponse a /\ w_tx w' <> None) \/
  (w_tx w' = Some (encode_token (r_ns (f_ring f)) (ts f)) /\
   f_state f' = if r_ns (f_ring f) =? ts f then UseToken now None false else CheckTokenPass first_attempt).

Lemma use_facts f now (w : W) f' w' c tk fa fcd :
  do_use_token A ops f now w = Ok (f', w') -> f_state f = UseToken tk fa fcd -> w_tx w = None ->
  length (w_apps w) = n -> in_visit (c_kind c) = true -> c_turn c = f_next_app f -> inv_st n f c ->
  ring_ok (f_ring f) (ts f) -> 0 <= ts f <= 125 ->
  exists l, w_calls w' = w_calls w ++ l /\
  let c' := mcalls n c l in
  acalls n (ts f) c l /\ length (w_apps w') = n /\ f_p f' = f_p f /\ c_turn c' = f_next_app f' /\
  f_last_token_time f' = tk /\ f_end_tht f' = dl f tk /\
  (exists hp, Forall (is_transmit_call hp) l /\
     (l <> [] -> if hp then fcd = false /\ f_end_tht f' <= now else now < f_end_tht f')) /\
  ((inv_st n f' c' /\
    ((f_state f' = f_state f /\ l = []) \/ (exists fa', f_state f' = UseToken tk fa' true) \/
     (exists a fa', f_state f' = AwaitDataResponse a tk fa'))) \/
   (c_out c' = None /\ (c_decl c' = n \/ f_end_tht f' <= now) /\ passed_as f now f' w')).
Proof.
  intros H Es Hw Hlen Hvis Hturn Hinv Hring Hts.
  rewrite do_use_token_split in H.
  destruct (do_use_token_head A ops f now w) as [[f1 w1]| |] eqn:Eh; cbn [bind] in H; try discriminate H.
  (* the head: C15 monitor, C13 deadline and states, C13 priority class *)
  destruct (do_use_token_head_mon A ops n (ts f) _ _ _ _ _ c Eh Hlen Hvis Hturn Hinv) as (l0 & Hl0 & Hacc & Hlen1 & Hp1 & Hturn1 & Hinv1 & Hcases).
  destruct (do_use_token_head_state A ops _ _ _ _ _ _ _ _ Eh Es) as (_ & Hdl & Hst).
  assert (Hd : f_last_token_time f1 = tk /\ f_end_tht f1 = dl f tk).
  { unfold dl. destruct (Z.eqb_spec (f_last_token_time f) tk) as [E|E]; destruct Hdl as (D1 & D2); split; congruence. }
  destruct Hd as (D1 & D2).
  destruct (do_use_token_head_hold_rule A ops _ _ _ _ _ Eh) as (l1 & hp & Hl1 & Hprio & Hrule).
  assert (El1 : l1 = l0) by (rewrite Hl0 in Hl1; apply app_inv_head in Hl1; symmetry; exact Hl1).
  rewrite El1 in *. clear El1 Hl1.
  assert (Hprio' : exists hp, Forall (is_transmit_call hp) l0 /\
     (l0 <> [] -> if hp then fcd = false /\ f_end_tht f1 <= now else now < f_end_tht f1)).
  { exists hp. split; [exact Hprio|]. intros Hne. specialize (Hrule Hne). destruct hp; [|exact Hrule].
    destruct Hrule as ((tk0 & fa0 & E0) & Hle). rewrite Es in E0. injection E0 as _ _ ->. split; [reflexivity|exact Hle]. }
  exists l0. cbn zeta.
  destruct (is_pass_token (f_state f1)) eqn:Ek.
  - (* the head turned to passing the token: do_pass_token in the same poll *)
    destruct (do_use_token_head_pass A ops _ _ _ _ _ Eh Ek) as (Es1 & _ & (Hpp & Hr1 & Hc1 & Hg1 & Hpd1 & Ht1 & Hrx1 & _)).
    assert (Hw1 : w_tx w1 = None) by congruence.
    pose proof (C11Proofs.do_pass_token_spec A _ _ _ _ _ _ _ Es1 Hw1 H) as Hout.
    destruct (do_pass_token_squiet A _ _ _ _ _ H) as ((Kc & Ka) & (Kp & Kn & Kl & Ke) & _).
    split; [congruence|].
    split; [exact Hacc|]. split; [congruence|]. split; [congruence|]. split; [congruence|].
    split; [congruence|]. split; [congruence|]. split; [rewrite Ke; exact Hprio'|]. right.
    split; [unfold inv_st in Hinv1; rewrite Es1 in Hinv1; exact Hinv1|].
    split.
    { destruct Hcases as [Hv|(_ & Hde)]; [rewrite Es1 in Hv; discriminate Hv|]. rewrite Ke. exact Hde. }
    destruct Hout as [Hsame Htx _ _ _|a _ Hs' _ _ _ Htx _ _ _|(r' & Hwit & Hr' & Htx & Hs' & _)].
    + left. split; [exact Htx|]. destruct Hsame as (_ & _ & _ & _ & Hs & _). rewrite Hs. exact Es1.
    + right. left. exists a. split; [exact Hs'|exact Htx].
    + right. right. unfold ts in *. rewrite Hr1, Hpp in *. split; [exact Htx|].
      rewrite (witness_own_pass_ns _ _ _ Hring Hts Hwit) in Hs'. exact Hs'.
  - injection H as <- <-.
    split; [exact Hl0|].
    split; [exact Hacc|]. split; [exact Hlen1|]. split; [exact Hp1|]. split; [exact Hturn1|].
    split; [exact D1|]. split; [exact D2|]. split; [exact Hprio'|]. left. split; [exact Hinv1|].
    destruct Hst as [(E1 & E2)|[E1|[E1|E1]]].
    + left. split; [exact E1|]. rewrite E2 in Hl0. rewrite <- (app_nil_r (w_calls w)) in Hl0 at 1.
      apply app_inv_head in Hl0. symmetry. exact Hl0.
    + right. left. exact E1.
    + right. right. exact E1.
    + exfalso. unfold is_pass_token in Ek. rewrite E1 in Ek. discriminate Ek.
Qed.

End UseFacts.

(* ------------------------------------------------------------------------------------------ *)
(* one poll of a token-use state, in the terms of the monitors                                  *)

Section VisitPoll.
Variable A : Type.
Variable ops : app_ops A.
Variable n : nat.
Notation W := (world A).

(* the transmission of the poll, if any, is the telegram of the application that was asked last *)
Definition tx_is_app (calls : list call) (txo : option bytes) : Prop :=
  txo = None \/ exists cs i hp wire er, calls = cs ++ [CallTransmit i hp (Some (wire, er))] /\ txo = Some wire.

Definition passed_tx (f : fdl) (now : Z) (f' : fdl) (txo : option bytes) : Prop :=
  (txo = None /\ f_state f' = PassToken true first_attempt) \/
  (exists a, f_state f' = AwaitStatusResponse a /\ txo <> None) \/
  (txo = Some (encode_token (r_ns (f_ring f)) (ts f)) /\
   f_state f' = if r_ns (f_ring f) =? ts f then UseToken now None false else CheckTokenPass first_attempt).

Inductive vend (f : fdl) (now : Z) (c' : cst) (tk : Z) (f' : fdl) (txo : option bytes) (calls : list call) : Prop :=
| VeKeep : visit_tk (f_state f') = Some tk -> inv_st n f' c' -> c_turn c' = f_next_app f' ->
    (asks calls -> fcd_of (f_state f') = true) -> (fcd_of (f_state f) = true -> fcd_of (f_state f') = true) ->
    (kind_of (f_state f') = KAwaitDataResponse -> f_last_token_time f' = tk) ->
    dl f' tk = dl f tk -> (f_last_token_time f' = f_last_token_time f \/ f_last_token_time f' = tk) ->
    (txo <> None -> exists cs i hp wire er, calls = cs ++ [CallTransmit i hp (Some (wire, er))] /\ txo = Some wire) ->
    vend f now c' tk f' txo calls
| VePass : c_out c' = None -> c_turn c' = f_next_app f' -> (c_decl c' = n \/ f_end_tht f' <= now) ->
    f_last_token_time f' = tk -> f_end_tht f' = dl f tk -> passed_tx f now f' txo ->
    vend f now c' tk f' txo calls
| VeGiveUp : kind_of (f_state f') = KActiveIdle -> calls = [] -> txo = None ->
    f_last_token_time f' = f_last_token_time f -> f_next_app f' = f_next_app f -> kind_of (f_state f) = KAwaitDataResponse ->
    vend f now c' tk f' txo calls.

Lemma asks_app l1 l2 : asks (l1 ++ l2) <-> asks l1 \/ asks l2.
Proof.
  unfold asks. split.
  - intros (i & hp & r & Hin). apply in_app_or in Hin. destruct Hin; [left|right]; eauto.
  - intros [(i & hp & r & Hin)|(i & hp & r & Hin)]; exists i, hp, r; apply in_or_app; auto.
Qed.

Lemma transmit_calls_asks hp l : Forall (is_transmit_call hp) l -> l <> [] -> asks l.
Proof. intros Hf Hne. destruct l as [|x l]; [contradiction|]. inversion Hf as [|? ? (i & r & ->) _]. exists i, hp, r. left. reflexivity. Qed.

Lemma asks_transmit_calls hp l : Forall (is_transmit_call hp) l -> asks l -> l <> [].
Proof. intros _ (i & hp' & r & Hin) ->. contradiction. Qed.

Lemma dl_same f f' tk : f_p f' = f_p f -> f_last_token_time f' = f_last_token_time f -> f_end_tht f' = f_end_tht f ->
  (f_gap f' = f_gap f \/ f_last_token_time f = tk) -> dl f' tk = dl f tk.
Proof.
  intros Hp Hl He Hg. unfold dl, gap_reserve. rewrite Hl, He, Hp.
  destruct (Z.eqb_spec (f_last_token_time f) tk) as [E|E]; [reflexivity|].
  destruct Hg as [-> |C]; [reflexivity|contradiction].
Qed.

Lemma dl_done f f' tk : f_last_token_time f' = tk -> f_end_tht f' = dl f tk -> dl f' tk = dl f tk.
Proof. intros Hl He. unfold dl at 1. rewrite Hl, Z.eqb_refl. exact He. Qed.

(* the time-out branch of do_await_data_response: what do_use_token starts from *)
Lemma await_timeout_start f now (w : W) f' w' :
  do_await_data_response A ops f now w = Ok (f', w') ->
  (forall i a0, ~ exists l, w_calls w' = w_calls w ++ CallHandleTimeout i a0 :: l) \/
  exists a tk fa f3 w3, f_state f = AwaitDataResponse a tk fa /\ w_tx w3 = w_tx w /\
    w_calls w3 = w_calls w ++ [CallHandleTimeout (f_next_app f) a] /\ length (w_apps w3) = length (w_apps w) /\
    keepf f f3 /\ f_ring f3 = f_ring f /\ f_gap f3 = f_gap f /\ f_state f3 = UseToken tk fa true /\
    do_use_token A ops f3 now w3 = Ok (f', w').
Proof.
  intros H0. pose proof H0 as H. unfold do_await_data_response in H.
  destruct (assert_entry DoAwaitDataResponse f) as [[]| |]; cbn [bind] in H; try discriminate H.
  destruct (f_state f) as [ | | | | | |a tk fa| | | ] eqn:Es; cbn [get_await_data_response bind] in H; try discriminate H.
  destruct (nth_error (w_apps w) (f_next_app f)) as [ap|] eqn:En; [|discriminate H].
  destruct (receive_telegram (fun t => t) (w_rx w)) as [[rest received]| |]; cbn [bind] in H; try discriminate H.
  assert (Hno : forall l0 : list nat, (w_calls w' = w_calls w \/ exists t, w_calls w' = w_calls w ++ [CallReceiveReply (f_next_app f) a t]) ->
            forall i a0, ~ exists l, w_calls w' = w_calls w ++ CallHandleTimeout i a0 :: l).
  { intros _ [Hc|(t & Hc)] i a0 (l & Hl); rewrite Hc in Hl.
    - rewrite <- (app_nil_r (w_calls w)) in Hl at 1. apply app_inv_head in Hl. discriminate Hl.
    - apply app_inv_head in Hl. discriminate Hl. }
  destruct received as [t|].
  - left. apply (Hno []).
    apply do_await_data_response_split in H0. destruct H0 as (a1 & tk1 & fa1 & ap1 & Es1 & _ & Hcases).
    rewrite Es in Es1. injection Es1 as <- <- <-.
    (* a telegram was received: one of the first two cases; decide by the model again *)
    destruct (is_valid_response (mark_rx f now) a t).
    + destruct (a_rx ops ap now _ a t) as [app'| |]; cbn [bind] in H; try discriminate H.
      match type of H with context [trans A ?x ?y ?z] => destruct (trans A x y z) as [[f1 w1]| |] eqn:Et end; cbn [bind] in H; try discriminate H.
      apply trans_keep in Et. destruct Et as (s' & _ & _ & _ & (Hw1 & _) & _).
      destruct (set_first_cycle_done f1); cbn [bind] in H; try discriminate H. injection H as _ <-.
      right. exists t. rewrite Hw1. reflexivity.
    + apply trans_keep in H. destruct H as (s' & _ & _ & _ & (Hw1 & _) & _). left. rewrite Hw1. reflexivity.
  - set (wx := if Nat.ltb (length rest) (length (w_rx w)) then note A w TReplyRxDiscard else w) in *.
    assert (Hwx : w_calls wx = w_calls w /\ w_apps wx = w_apps w /\ w_tx wx = w_tx w) by (unfold wx; destruct (Nat.ltb _ _); repeat split; reflexivity).
    destruct Hwx as (Hwx1 & Hwx2 & Hwx3). clearbody wx.
    destruct (check_slot_expired _ now) as [[f1 expired]| |] eqn:Ec; cbn [bind] in H; try discriminate H.
    apply check_slot_expired_same in Ec.
    assert (Hk1 : keepf f f1) by (eapply keepf_trans; [apply keepf_sync_pending|apply keepf_same; exact Ec]).
    destruct Ec as (Cp & Cr & _ & Cg & Cs & _). cbn in Cp, Cr, Cg, Cs.
    destruct expired.
    + right.
      destruct (a_to ops ap now _ a) as [app'| |] eqn:Ea; cbn [bind] in H; try discriminate H.
      match type of H with context [trans A ?x ?y ?z] => destruct (trans A x y z) as [[f2 w2]| |] eqn:Et end; cbn [bind] in H; try discriminate H.
      pose proof (trans_spec A _ _ _ _ _ Et) as (s2 & _ & Ef2 & Ew2).
      apply trans_keep in Et. destruct Et as (s' & Ht & _ & Hk & (Hw1 & Hw2) & Hs).
      unfold transition_use_token in Ht. destruct (assert_kind _ _); cbn [bind] in Ht; try discriminate Ht. injection Ht as <-.
      unfold set_first_cycle_done in H. rewrite Hs in H. cbn [get_use_token bind] in H.
      exists a, tk, fa, (set_st f2 (UseToken tk fa true)), w2.
      split; [reflexivity|]. split; [rewrite Ew2; cbn; exact Hwx3|].
      split; [rewrite Hw1; cbn; rewrite Hwx1; reflexivity|].
      split; [rewrite Hw2; cbn; rewrite Hwx2; apply length_replace_nth|].
      split; [eapply keepf_trans; [exact Hk1|]; eapply keepf_trans; [exact Hk|apply keepf_set_st]|].
      split; [rewrite Ef2; cbn; exact Cr|]. split; [rewrite Ef2; cbn; exact Cg|]. split; [reflexivity|exact H].
    + left. apply (Hno []). left. injection H as _ <-. cbn. exact Hwx1.
Qed.

Theorem visit_poll_facts f now pin (apps : list A) f' o apps' calls c tk :
  poll ops f now pin apps = Ok (f', o, apps', calls) ->
  Rep (length apps) f -> length apps = n -> Inv n f c -> visit_tk (f_state f) = Some tk -> tk <> now ->
  (kind_of (f_state f) = KAwaitDataResponse -> f_last_token_time f = tk) ->
  acalls n (ts f) c calls /\ f_p f' = f_p f /\
  (exists hp, Forall (prio_of hp) calls /\
     (asks calls -> (if hp then fcd_of (f_state f) = false /\ f_end_tht f' <= now else now < f_end_tht f') /\
                    f_last_token_time f' = tk /\ f_end_tht f' = dl f tk)) /\
  vend f now (mcalls n c calls) tk f' (tx o) calls.
Proof.
  intros E R Hn (Hk & Hturn & Hinv) Htk Hne Haw.
  pose proof (visit_tk_in_visit _ _ Htk) as Hv.
  assert (Hvis : in_visit (c_kind c) = true) by (rewrite Hk; exact Hv).
  pose proof (poll_keeps_parameters A ops _ _ _ _ _ _ _ _ E) as Hpp.
  pose proof (Rep_ts _ _ R) as Hts.
  (* the transmission of a poll that stays in the visit is an application's *)
  assert (Htxapp : visit_tk (f_state f') = Some tk -> tx o <> None ->
            exists cs i hp wire er, calls = cs ++ [CallTransmit i hp (Some (wire, er))] /\ tx o = Some wire).
  { intros Htk' Htx. destruct (tx o) as [wire|] eqn:Etx; [|contradiction]. clear Htx.
    pose proof (poll_transmissions A ops _ _ _ _ _ _ _ _ _ E Etx) as Hc.
    destruct Hc as [(cs & i & hp & er & Hcs & _)|(_ & [Htok|[Hgap|Hrep]])].
    - exists cs, i, hp, wire, er. split; [exact Hcs|reflexivity].
    - exfalso. destruct Htok as (da & _ & [(_ & [(E1 & _)|(E1 & _)])|([E1|(att & E1)] & _)]); rewrite E1 in Htk'; try discriminate Htk'.
      injection Htk' as Htk'. symmetry in Htk'. contradiction.
    - exfalso. destruct Hgap as (a & _ & _ & _ & _ & _ & [(E1 & _)|(E1 & _)]); rewrite E1 in Htk'; discriminate Htk'.
    - exfalso. destruct Hrep as (src & st & _ & [(cc & E1 & _)|(nps & cc & E1 & _)]); rewrite E1 in Htk; discriminate Htk. }
  destruct (visit_poll_split A ops _ _ _ _ _ _ _ _ E Hv) as
    [(-> & Htx & -> & -> & _)|(f1 & w1 & w' & Hs & Hw1 & Hc1 & Ha1 & Hrx1 & -> & -> & -> & _ & _ & Hd)].
  - (* nothing happened *)
    pose proof (mark_bus_activity_sblp f now) as (Mp & Mr & Mc & Mg & Ms & Ml & Me & Mn).
    split; [exact I|]. split; [exact Mp|]. split.
    { exists false. split; [constructor|]. intros C. destruct (asks_nil C). }
    change (mcalls n c []) with c. apply VeKeep.
    + rewrite Ms. exact Htk.
    + unfold inv_st in *. rewrite Ms, Mn. exact Hinv.
    + rewrite Mn. exact Hturn.
    + intros C. destruct (asks_nil C).
    + rewrite Ms. auto.
    + rewrite Ms, Ml. exact Haw.
    + apply dl_same; try assumption. left. exact Mg.
    + left. exact Ml.
    + intros C. rewrite Htx in C. contradiction.
  - destruct Hs as (Sp & Sr & Sc & Sg & Ss & Sl & Se & Sn). cbn [tx] in *.
    assert (Hlen1 : length (w_apps w1) = n) by congruence.
    assert (Hinv1 : inv_st n f1 c) by (unfold inv_st in *; rewrite Ss, Sn; exact Hinv).
    assert (Hturn1 : c_turn c = f_next_app f1) by congruence.
    assert (Hring1 : ring_ok (f_ring f1) (ts f1)) by (unfold ts; rewrite Sr, Sp; exact (rep_ring _ _ R)).
    assert (Hts1 : ts f1 = ts f) by (unfold ts; rewrite Sp; reflexivity).
    assert (Hdl1 : forall x, dl f1 x = dl f x) by (intros x; unfold dl, gap_reserve; rewrite Sl, Se, Sp, Sg; reflexivity).
    destruct Hd as [Hd|Hd].
    + (* do_use_token *)
      assert (Hes : exists fa fcd, f_state f = UseToken tk fa fcd).
      { destruct (f_state f) as [ | | | |tk0 fa fcd| | | | | ] eqn:Es; cbn in Htk; try discriminate Htk.
        - injection Htk as ->. exists fa, fcd. reflexivity.
        - exfalso. unfold do_use_token, assert_entry in Hd. rewrite Ss in Hd. discriminate Hd. }
      destruct Hes as (fa & fcd & Es). rewrite Es in Ss.
      destruct (use_facts A ops n _ _ _ _ _ c tk fa fcd Hd Ss Hw1 Hlen1 Hvis Hturn1 Hinv1 Hring1 ltac:(rewrite Hts1; lia))
        as (l & Hl & Hacc & Hlen' & Hp' & Hturn' & D1 & D2 & (hp & Hprio & Hrule) & Hend).
      rewrite Hc1 in Hl. cbn [app] in Hl. rewrite Hl in *. rewrite Hts1, Hdl1 in *.
      split; [exact Hacc|]. split; [congruence|]. split.
      { exists hp. split; [apply transmit_calls_prio; exact Hprio|]. intros Hask.
        specialize (Hrule (asks_transmit_calls _ _ Hprio Hask)). split; [|split; assumption].
        destruct hp; [rewrite Es; cbn [fcd_of]; exact Hrule|exact Hrule]. }
      destruct Hend as [(Hi' & Hst')|(Ho' & Hde' & Hpass)].
      * assert (Htk' : visit_tk (f_state f') = Some tk).
        { destruct Hst' as [(E1 & _)|[(fa' & E1)|(a & fa' & E1)]]; rewrite E1; [rewrite Ss|..]; reflexivity. }
        apply VeKeep; try assumption.
        -- intros Hask. destruct Hst' as [(_ & E2)|[(fa' & E1)|(a & fa' & E1)]]; [rewrite E2 in Hask; destruct (asks_nil Hask)|rewrite E1; reflexivity|rewrite E1; reflexivity].
        -- rewrite Es. cbn [fcd_of]. intros ->. destruct Hst' as [(E1 & _)|[(fa' & E1)|(a & fa' & E1)]]; rewrite E1; [rewrite Ss|..]; reflexivity.
        -- intros _. exact D1.
        -- apply dl_done; assumption.
        -- right. exact D1.
        -- apply Htxapp. exact Htk'.
      * apply VePass; try assumption.
        destruct Hpass as [(T & S')|[(a & S' & T)|(T & S')]].
        -- left. split; assumption.
        -- right. left. exists a. split; assumption.
        -- right. right. rewrite Sr, Hts1 in *. split; assumption.
    + (* do_await_data_response *)
      pose proof Hd as Hd0. apply do_await_data_response_split in Hd.
      destruct Hd as (a & tk0 & fa & ap & Es1 & En & Hcases).
      assert (Es : f_state f = AwaitDataResponse a tk0 fa) by congruence.
      rewrite Es in Htk. cbn in Htk. injection Htk as ->.
      assert (Hltt : f_last_token_time f = tk) by (apply Haw; rewrite Es; reflexivity).
      pose proof Hinv as Hinv0. unfold inv_st in Hinv0. rewrite Es in Hinv0. destruct Hinv0 as (Hout & Hvi).
      rewrite Hts1 in *. rewrite Sn in *.
      destruct Hcases as [(t & app' & Hok & _ & Hc & _ & (Kp & Kn & Kl & Ke) & Es')|[((Hc & _) & (Kp & Kn & Kl & Ke) & Es')|[((Hc & _) & (Kp & Kn & Kl & Ke) & Es')|(app' & f3 & w3 & _ & Hc3 & Ha3 & (Kp & Kn & Kl & Ke) & Es3 & Hdo)]]].
      * (* a valid reply *)
        rewrite Hc1 in Hc. cbn [app] in Hc. rewrite Hc.
        assert (Hpre : cpre n (ts f) c (HCall (CallReceiveReply (f_next_app f) a t))).
        { cbn. rewrite Hk, Es. cbn. split; [reflexivity|]. split; [exact Hout|]. split; [symmetry; exact Hturn|exact Hok]. }
        split; [split; [exact Hpre|exact I]|]. split; [congruence|]. split.
        { exists false. split; [constructor; [exact I|constructor]|]. intros (i & hp & r & [C|[]]). discriminate C. }
        apply VeKeep.
        -- rewrite Es'. reflexivity.
        -- unfold inv_st. rewrite Es'. cbn. rewrite Kn, Sn. split; [reflexivity|exact Hvi].
        -- cbn. congruence.
        -- intros _. rewrite Es'. reflexivity.
        -- intros _. rewrite Es'. reflexivity.
        -- intros _. congruence.
        -- apply dl_same; [congruence|congruence|congruence|right; exact Hltt].
        -- left. congruence.
        -- intros Htx0. destruct (Htxapp ltac:(rewrite Es'; reflexivity) Htx0) as (cs & i & hp & wire & er & Hcs & _).
           exfalso. rewrite Hc in Hcs. destruct cs as [|x [|y cs]]; discriminate Hcs.
      * (* something else: the token is given up *)
        rewrite Hc1 in Hc. rewrite Hc.
        split; [exact I|]. split; [congruence|]. split.
        { exists false. split; [constructor|]. intros C. destruct (asks_nil C). }
        apply VeGiveUp; try reflexivity.
        -- rewrite Es'. reflexivity.
        -- destruct (w_tx w') as [wire|] eqn:Etx; [|reflexivity]. exfalso.
           pose proof (poll_transmissions A ops _ _ _ _ _ _ _ _ _ E eq_refl) as Hcl. cbn [w_calls] in Hcl. rewrite Hc in Hcl.
           destruct Hcl as [(cs & i & hp & er & Hcs & _)|(_ & [Htok|[Hgap|Hrep]])].
           ++ destruct cs; discriminate Hcs.
           ++ destruct Htok as (da & _ & [(_ & [(E1 & _)|(E1 & _)])|([E1|(att & E1)] & _)]); rewrite E1 in Es'; discriminate Es'.
           ++ destruct Hgap as (a0 & _ & _ & _ & _ & _ & [(E1 & _)|(E1 & _)]); rewrite E1 in Es'; discriminate Es'.
           ++ destruct Hrep as (src & st & _ & [(cc & E1 & _)|(nps & cc & E1 & _)]); rewrite E1 in Es; discriminate Es.
        -- congruence.
        -- congruence.
        -- rewrite Es. reflexivity.
      * (* still waiting *)
        rewrite Hc1 in Hc. rewrite Hc.
        split; [exact I|]. split; [congruence|]. split.
        { exists false. split; [constructor|]. intros C. destruct (asks_nil C). }
        change (mcalls n c []) with c. apply VeKeep.
        -- rewrite Es', Ss, Es. reflexivity.
        -- unfold inv_st. rewrite Es', Ss, Es, Kn, Sn. split; assumption.
        -- congruence.
        -- intros C. destruct (asks_nil C).
        -- intros _. rewrite Es', Ss, Es. reflexivity.
        -- intros _. congruence.
        -- apply dl_same; [congruence|congruence|congruence|right; exact Hltt].
        -- left. congruence.
        -- intros Htx0. destruct (Htxapp ltac:(rewrite Es', Ss, Es; reflexivity) Htx0) as (cs & i & hp & wire & er & Hcs & _).
           exfalso. rewrite Hc in Hcs. destruct cs; discriminate Hcs.
      * (* slot time expired: time-out callback, then do_use_token *)
        set (c1 := cpost n c (HCall (CallHandleTimeout (f_next_app f) a))).
        assert (Hpre : cpre n (ts f) c (HCall (CallHandleTimeout (f_next_app f) a))).
        { cbn. rewrite Hk, Es. cbn. split; [reflexivity|]. split; [exact Hout|symmetry; exact Hturn]. }
        (* the same branch, with what the world looks like before do_use_token *)
        destruct (await_timeout_start _ _ _ _ _ Hd0) as [Hno|(a2 & tk2 & fa2 & f4 & w4 & Es2 & Ht4 & Hc4 & Hl4 & (K4p & K4n & K4l & K4e) & Hr4 & Hg4 & Es4 & Hdo4)].
        { exfalso. apply do_use_token_hold_rule in Hdo. destruct Hdo as (l2 & hp2 & Hl2 & _).
          apply (Hno (f_next_app f) a). exists l2. rewrite Hl2, Hc3, <- app_assoc. reflexivity. }
        rewrite Es1 in Es2. injection Es2 as <- <- <-. rewrite ?Sn in *.
        assert (Hts4 : ts f4 = ts f) by (unfold ts; rewrite K4p, Sp; reflexivity).
        assert (Hinv4 : inv_st n f4 c1).
        { unfold inv_st, c1. rewrite Es4, K4n, ?Sn. cbn. split; [reflexivity|exact Hvi]. }
        destruct (use_facts A ops n _ _ _ _ _ c1 tk fa true Hdo4 Es4 ltac:(congruence) ltac:(congruence)
                    ltac:(unfold c1; cbn; exact Hvis) ltac:(unfold c1; cbn; congruence) Hinv4
                    ltac:(rewrite Hr4, Hts4, Sr; exact (rep_ring _ _ R)) ltac:(rewrite Hts4; lia))
          as (l & Hl & Hacc & Hlen' & Hp' & Hturn' & D1 & D2 & (hp & Hprio & Hrule) & Hend).
        rewrite Hc4, Hc1 in Hl. cbn [app] in Hl. rewrite Hl. rewrite Hts4 in *.
        assert (Hdl4 : dl f4 tk = dl f tk).
        { apply dl_same; [congruence|congruence|congruence|right; congruence]. }
        rewrite Hdl4 in *.
        change (mcalls n c (CallHandleTimeout (f_next_app f) a :: l)) with (mcalls n c1 l).
        split; [split; [exact Hpre|exact Hacc]|]. split; [congruence|]. split.
        { exists hp. split; [constructor; [exact I|apply transmit_calls_prio; exact Hprio]|]. intros Hask.
          assert (Hask' : asks l) by (destruct Hask as (i & hp' & r & [C|Hin]); [discriminate C|exists i, hp', r; exact Hin]).
          specialize (Hrule (asks_transmit_calls _ _ Hprio Hask')). split; [|split; assumption].
          destruct hp; [destruct Hrule as (C & _); discriminate C|exact Hrule]. }
        destruct Hend as [(Hi' & Hst')|(Ho' & Hde' & Hpass)].
        -- assert (Htk' : visit_tk (f_state f') = Some tk).
           { destruct Hst' as [(E1 & _)|[(fa' & E1)|(a' & fa' & E1)]]; rewrite E1; [rewrite Es4|..]; reflexivity. }
           apply VeKeep; try assumption.
           ++ intros _. destruct Hst' as [(E1 & _)|[(fa' & E1)|(a' & fa' & E1)]]; rewrite E1; [rewrite Es4|..]; reflexivity.
           ++ intros _. destruct Hst' as [(E1 & _)|[(fa' & E1)|(a' & fa' & E1)]]; rewrite E1; [rewrite Es4|..]; reflexivity.
           ++ intros _. exact D1.
           ++ apply dl_done; assumption.
           ++ right. exact D1.
           ++ intros Htx0. destruct (Htxapp Htk' Htx0) as (cs & i & hp0 & wire & er & Hcs & Htx1).
              exists cs, i, hp0, wire, er. split; [rewrite <- Hl; exact Hcs|exact Htx1].
        -- apply VePass; try assumption.
           destruct Hpass as [(T & S')|[(a' & S' & T)|(T & S')]].
           ++ left. split; assumption.
           ++ right. left. exists a'. split; assumption.
           ++ right. right. rewrite Hr4, Sr, Hts4 in T, S'. split; assumption.
Qed.

End VisitPoll.
