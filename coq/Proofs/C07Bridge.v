(* C07 BRIDGE: recovery counted in cycles of the DP MASTER.
   C07_recovery (C07Proofs.v / C07Joint.v) is stated for ONE peripheral driven through Peripheral.p_transmit /
   Peripheral.p_receive_reply, one call per cycle (`joint_cycle`).  This file connects it to DpMaster.v:
   - `master_visit`: one token visit of the fault-free bus: DpMaster.dp_transmit; a Global_Control broadcast is seen by
     every device; a request is seen by the device with the destination address (Slave.slave_step), whose answer --
     if it decodes completely and passes the FDL admission rule (C07Joint.deliver) -- goes to dp_receive_reply,
     otherwise dp_handle_timeout; `master_run` = a schedule of visits, counting the visits that report
     DpEvents.cycle_completed;
   - `visit_bi`: per slot, one visit is zero or one `joint_cycle` of that slot's (peripheral, device) pair -- the slots
     whose turn ends silently or with the Offline event (tx_rel_visit of DpOracleSound.v), the slot that sends (request
     + reply or time-out) -- and every slot makes at least one such cycle per completed master cycle (a retransmission
     after a time-out happens at the next token visit, inside the same master cycle: the master is only faster);
   - devices are compared up to the Global_Control command they recorded (`gceq`; slave_step does not read it);
   - `master_runs_joint_system` (the bridge) and `recovery_master`.  Any number of occupied slots, any storage layout,
     distinct addresses; from any cycle position of the master (a start inside a cycle costs one more cycle). *)
From PB Require Import Peripheral DpMaster DpRun DpOracle Slave DpStepProofs C09Proofs C14Proofs C14History DpHistory.
From PB Require Import C07Abs C07Joint C07Proofs.
From PB Require Import DpOracleSound.
From Coq Require Import Sorted.

(* C07 bridge, part 1 *)

(* ------------------------------------------------------------------ slaves up to the recorded Global_Control command *)

Definition set_gc (s : slave) (g : option Z) : slave :=
  mkSlave (sl_addr s) (sl_ident s) (sl_exp_cfg s) (sl_in_len s) (sl_out_len s) (sl_silent s)
          (sl_ready_delay s) (sl_stat_diag s) (sl_force1 s) (sl_force2 s) (sl_ext s)
          (sl_st s) (sl_master s) (sl_fcb s) (sl_resp s) (sl_prm_fault s) (sl_cfg_fault s)
          (sl_wd_on s) (sl_freeze s) (sl_sync s) (sl_not_ready s) (sl_diag_pending s)
          (sl_outputs s) (sl_counter s) g.

Definition gceq (s s' : slave) : Prop := exists g, s' = set_gc s g.

Lemma gceq_refl : forall s, gceq s s.
Proof. intro s. exists (sl_gc s). destruct s; reflexivity. Qed.

Lemma gceq_trans : forall a b c, gceq a b -> gceq b c -> gceq a c.
Proof. intros a b c (g1 & ->) (g2 & ->). exists g2. reflexivity. Qed.

Lemma gceq_sym : forall a b, gceq a b -> gceq b a.
Proof. intros a b (g & ->). exists (sl_gc a). destruct a; reflexivity. Qed.

Lemma slave_process_gc : forall s g h pdu,
  slave_process (set_gc s g) h pdu = (set_gc (fst (slave_process s h pdu)) g, snd (slave_process s h pdu)).
Proof.
  intros s g h pdu. destruct s as [f1 f2 f3 f4 f5 f6 f7 f8 f9 f10 f11 f12 f13 f14 f15 f16 f17 f18 f19 f20 f21 f22 f23 f24 f25].
  unfold slave_process, set_gc, slave_dyn, resp_rs, resp_header, slave_diag_pdu.
  cbn [sl_addr sl_ident sl_exp_cfg sl_in_len sl_out_len sl_silent sl_ready_delay sl_stat_diag sl_force1 sl_force2 sl_ext
       sl_st sl_master sl_fcb sl_resp sl_prm_fault sl_cfg_fault sl_wd_on sl_freeze sl_sync sl_not_ready sl_diag_pending
       sl_outputs sl_counter sl_gc].
  repeat match goal with
         | |- context [if ?c then _ else _] => destruct c
         end; reflexivity.
Qed.

Lemma slave_step_gc : forall s g w, exists g',
  slave_step (set_gc s g) w = (set_gc (fst (slave_step s w)) g', snd (slave_step s w)).
Proof.
  intros s g w. unfold slave_step.
  change (sl_silent (set_gc s g)) with (sl_silent s). change (sl_addr (set_gc s g)) with (sl_addr s).
  change (sl_fcb (set_gc s g)) with (sl_fcb s). change (sl_resp (set_gc s g)) with (sl_resp s).
  destruct (sl_silent s); [exists g; reflexivity|].
  destruct (decode w) as [[| |[h pdu| |] n]| |]; try (exists g; reflexivity).
  destruct (negb (Nat.eqb n (length w))); [exists g; reflexivity|].
  destruct (h_fc h) as [f r|]; [|exists g; reflexivity].
  destruct ((h_da h =? STD_BROADCAST) || (h_da h =? sl_addr s)); [|exists g; reflexivity].
  rewrite !slave_process_gc.
  destruct (slave_process s h pdu) as [s1 resp]. cbn [fst snd].
  destruct r; try (exists g; reflexivity).
  - destruct (opt_eqb (h_dsap h) (Some STD_SAP_GLOBAL_CONTROL)); [|exists g; reflexivity].
    exists (Some (nth 0 pdu 0)). destruct s; reflexivity.
  - destruct (opt_eqb (h_dsap h) (Some STD_SAP_GLOBAL_CONTROL)); [|exists g; reflexivity].
    exists (Some (nth 0 pdu 0)). destruct s; reflexivity.
  - destruct (negb (h_da h =? sl_addr s)); [exists g; reflexivity|].
    destruct (fcbit_fcv f).
    + destruct (match sl_fcb s with Some b => Bool.eqb b (fcbit_fcb f) | None => false end); exists g; destruct s1; reflexivity.
    + exists g. destruct s1; reflexivity.
  - destruct (negb (h_da h =? sl_addr s)); [exists g; reflexivity|].
    destruct (fcbit_fcv f).
    + destruct (match sl_fcb s with Some b => Bool.eqb b (fcbit_fcb f) | None => false end); exists g; destruct s1; reflexivity.
    + exists g. destruct s1; reflexivity.
Qed.

(* C07 bridge, part 2: the fault-free bus with the DP master, and the per-slot runs *)

Lemma joint_cycle_gc : forall pa op p s g p' s' evs,
  joint_cycle pa op (p, s) = Ok ((p', s'), evs) ->
  exists g', joint_cycle pa op (p, set_gc s g) = Ok ((p', set_gc s' g'), evs).
Proof.
  intros pa op p s g p' s' evs H. unfold joint_cycle in *.
  destruct (p_transmit pa op p) as [[p1 r]| |]; cbn [bind] in *; try discriminate H.
  destruct r as [h pdu|ev].
  - destruct (slave_step_gc s g (frame_spec h pdu)) as (g' & E). rewrite E.
    destruct (slave_step s (frame_spec h pdu)) as [s1 reply]. cbn [fst snd].
    destruct (deliver (p_address pa) (pe_addr p) reply) as [t|].
    + destruct (p_receive_reply p1 t) as [[p2 ev]| |]; cbn [bind] in *; try discriminate H.
      inversion H; subst. exists g'. reflexivity.
    + inversion H; subst. exists g'. reflexivity.
  - inversion H; subst. exists g. reflexivity.
Qed.

(* n cycles of the joint system lead from st to st' *)
Definition reaches (pa : params) (op : opstate) (n : nat) (st st' : jstate) : Prop :=
  exists evs, joint_run pa op n st = Ok (st', evs).

Lemma reaches_snoc : forall pa op n st st1 st2 e,
  reaches pa op n st st1 -> joint_cycle pa op st1 = Ok (st2, e) -> reaches pa op (S n) st st2.
Proof.
  intros pa op. induction n as [|n IH]; intros st st1 st2 e (evs & H) Hc.
  - cbn in H. inversion H; subst. exists (e ++ []). cbn [joint_run]. rewrite Hc. reflexivity.
  - cbn [joint_run] in H. destruct (joint_cycle pa op st) as [[sta ea]| |] eqn:Ha; cbn [bind] in H; try discriminate H.
    destruct (joint_run pa op n sta) as [[stb eb]| |] eqn:Hb; cbn [bind] in H; try discriminate H.
    inversion H; subst. destruct (IH sta st1 st2 e (ex_intro _ eb Hb) Hc) as (evs' & H').
    exists (ea ++ evs'). change (joint_run pa op (S (S n)) st) with
      (let* (s1, e1) := joint_cycle pa op st in let* (s2, e2) := joint_run pa op (S n) s1 in Ok (s2, e1 ++ e2)).
    rewrite Ha. cbn [bind]. rewrite H'. reflexivity.
Qed.

(* one peripheral and its device: nothing, or one cycle of the joint system; the device up to the recorded
   Global_Control command *)
Definition evo (pa : params) (op : opstate) (p : periph) (s : slave) (p' : periph) (s' : slave) (d : nat) : Prop :=
  (d = 0%nat /\ p' = p /\ gceq s s') \/
  (d = 1%nat /\ exists e s1, joint_cycle pa op (p, s) = Ok ((p', s1), e) /\ gceq s1 s').

Lemma reaches_evo : forall pa op n st0 p sx s p' s' d,
  reaches pa op n st0 (p, sx) -> gceq sx s -> evo pa op p s p' s' d ->
  exists sx', reaches pa op (n + d) st0 (p', sx') /\ gceq sx' s'.
Proof.
  intros pa op n st0 p sx s p' s' d Hr Hg [(-> & -> & Hg')|(-> & e & s1 & Hc & Hg')].
  - exists sx. rewrite Nat.add_0_r. split; [exact Hr|eapply gceq_trans; eassumption].
  - destruct (gceq_sym _ _ Hg) as (g2 & Es). destruct (joint_cycle_gc _ _ _ _ g2 _ _ _ Hc) as (g' & Hc').
    rewrite <- Es in Hc'. exists (set_gc s1 g'). split.
    + replace (n + 1)%nat with (S n) by lia. eapply reaches_snoc; eassumption.
    + eapply gceq_trans; [apply gceq_sym; exists g'; reflexivity|exact Hg'].
Qed.

(* ------------------------------------------------------------------ the bus *)

Fixpoint find_slave (l : list slave) (da : Z) : option nat :=
  match l with
  | [] => None
  | s :: r => if sl_addr s =? da then Some 0%nat else option_map S (find_slave r da)
  end.

Definition mstate : Set := (dpm * list slave)%type.

(* one token visit: transmit_telegram; a Global_Control broadcast is seen by every device; a request is seen by the
   device with the destination address, whose answer - if it decodes completely and passes the FDL admission rule
   (C07Joint.deliver) - is handed to receive_reply, otherwise handle_timeout.  Returns the new state and whether
   DpEvents.cycle_completed was reported. *)
Definition master_visit (pa : params) (bufsize : nat) (st : mstate) (now : Z) (hp : bool) : res (mstate * bool) :=
  let (m, sl) := st in
  let* (m1, o) := dp_transmit pa bufsize m now hp in
  match o with
  | None => Ok ((m1, sl), ev_cycle_completed (dm_events m1))
  | Some (w, None) => Ok ((m1, map (fun s => fst (slave_step s w)) sl), false)
  | Some (w, Some da) =>
      match find_slave sl da with
      | None => let* m2 := dp_handle_timeout m1 da in Ok ((m2, sl), false)
      | Some k =>
          match nth_error sl k with
          | None => let* m2 := dp_handle_timeout m1 da in Ok ((m2, sl), false)
          | Some s =>
              let (s1, reply) := slave_step s w in
              match deliver (p_address pa) da reply with
              | Some t =>
                  let* m2 := dp_receive_reply m1 da t in
                  Ok ((m2, set_nth sl k s1), ev_cycle_completed (dm_events m2))
              | None => let* m2 := dp_handle_timeout m1 da in Ok ((m2, set_nth sl k s1), false)
              end
          end
      end
  end.

(* a schedule of token visits (time, HighPrioOnly); counts the completed DP cycles *)
Fixpoint master_run (pa : params) (bufsize : nat) (st : mstate) (sched : list (Z * bool)) : res (mstate * nat) :=
  match sched with
  | [] => Ok (st, 0%nat)
  | (now, hp) :: r =>
      let* (st1, cc) := master_visit pa bufsize st now hp in
      let* (st2, n) := master_run pa bufsize st1 r in
      Ok (st2, ((if cc then 1 else 0) + n)%nat)
  end.

(* ------------------------------------------------------------------ devices keep their address *)

Lemma slave_process_addr : forall s h pdu, sl_addr (fst (slave_process s h pdu)) = sl_addr s.
Proof.
  intros s h pdu. unfold slave_process.
  repeat match goal with |- context [if ?c then _ else _] => destruct c end; reflexivity.
Qed.

Lemma slave_step_addr : forall s w, sl_addr (fst (slave_step s w)) = sl_addr s.
Proof.
  intros s w. unfold slave_step.
  destruct (sl_silent s); [reflexivity|].
  destruct (decode w) as [[| |[h pdu| |] n]| |]; try reflexivity.
  destruct (negb (Nat.eqb n (length w))); [reflexivity|].
  destruct (h_fc h) as [f r|]; [|reflexivity].
  destruct ((h_da h =? STD_BROADCAST) || (h_da h =? sl_addr s)); [|reflexivity].
  pose proof (slave_process_addr s h pdu) as Hp. destruct (slave_process s h pdu) as [s1 resp]. cbn [fst] in Hp.
  destruct r; try reflexivity;
    repeat match goal with |- context [if ?c then _ else _] => destruct c end; cbn; try reflexivity; exact Hp.
Qed.

Lemma find_slave_addrs : forall l l' da, map sl_addr l' = map sl_addr l -> find_slave l' da = find_slave l da.
Proof.
  induction l as [|s l IH]; intros [|s' l'] da H; try discriminate H; [reflexivity|].
  cbn in H. inversion H as [[H1 H2]]. cbn [find_slave]. rewrite H1, (IH l' da H2). reflexivity.
Qed.

Lemma find_slave_nth : forall l da k, find_slave l da = Some k -> exists s, nth_error l k = Some s /\ sl_addr s = da.
Proof.
  induction l as [|s l IH]; intros da k H; [discriminate H|]. cbn [find_slave] in H.
  destruct (Z.eqb_spec (sl_addr s) da) as [E|_].
  - inversion H; subst. exists s. auto.
  - destruct (find_slave l da) as [k0|] eqn:E0; [|discriminate H]. inversion H; subst.
    destruct (IH da k0 E0) as (s0 & H1 & H2). exists s0. auto.
Qed.

Lemma map_set_nth_addr : forall (l : list slave) k s s1, nth_error l k = Some s -> sl_addr s1 = sl_addr s ->
  map sl_addr (set_nth l k s1) = map sl_addr l.
Proof.
  induction l as [|x l IH]; intros [|k] s s1 H E; cbn in *; try discriminate H.
  - inversion H; subst. rewrite E. reflexivity.
  - rewrite (IH k s s1 H E). reflexivity.
Qed.

(* ------------------------------------------------------------------ one turn of a slot is one cycle of the joint system *)

Definition evl' (ev : option pevent) : list pevent := match ev with Some e => [e] | None => [] end.

Lemma joint_skip : forall pa op q q' ev s,
  p_transmit pa op q = Ok (q', PtxSkip ev) -> joint_cycle pa op (q, s) = Ok ((q', s), evl' ev).
Proof. intros pa op q q' ev s H. unfold joint_cycle. rewrite H. reflexivity. Qed.

Lemma joint_reply : forall pa op q q' h pdu s s1 reply t q'' ev,
  p_transmit pa op q = Ok (q', PtxSend h pdu) -> slave_step s (frame_spec h pdu) = (s1, reply) ->
  deliver (p_address pa) (pe_addr q) reply = Some t -> p_receive_reply q' t = Ok (q'', ev) ->
  joint_cycle pa op (q, s) = Ok ((q'', s1), evl' ev).
Proof.
  intros pa op q q' h pdu s s1 reply t q'' ev H1 H2 H3 H4. unfold joint_cycle. rewrite H1. cbn [bind].
  rewrite H2, H3, H4. reflexivity.
Qed.

Lemma joint_timeout : forall pa op q q' h pdu s s1 reply,
  p_transmit pa op q = Ok (q', PtxSend h pdu) -> slave_step s (frame_spec h pdu) = (s1, reply) ->
  deliver (p_address pa) (pe_addr q) reply = None ->
  joint_cycle pa op (q, s) = Ok ((q', s1), []).
Proof.
  intros pa op q q' h pdu s s1 reply H1 H2 H3. unfold joint_cycle. rewrite H1. cbn [bind]. rewrite H2, H3. reflexivity.
Qed.

(* the request of a pair satisfying jinv is written as the frame format says *)
Lemma jinv_frame : forall pa op q s q' h pdu bufsize w,
  jinv pa q s -> (255 <= bufsize)%nat ->
  p_transmit pa op q = Ok (q', PtxSend h pdu) -> encode_data_in bufsize h pdu = Ok w ->
  w = frame_spec h pdu /\ tx_expects_reply h = Some (pe_addr q).
Proof.
  intros pa op q s q' h pdu bufsize w J Hbuf Hp He.
  destruct (transmit_facts _ _ _ _ _ Hp) as (_ & _ & _ & _ & _ & _ & _ & _ & Hstd).
  destruct (std_request_classify _ _ _ _ _ _ _ Hstd) as (_ & Hda & Hsa & Hfc).
  destruct (ji_prm _ _ _ J) as (user & Hu & Hul). destruct (ji_cfg _ _ _ J) as (cfg & Hcf & _ & Hcl).
  destruct (ji_out _ _ _ J) as (Ho1 & Ho2).
  assert (Hlen : (length pdu <= 244)%nat).
  { destruct (state_service q') eqn:Esv; cbn in Hstd; try contradiction.
    - destruct Hstd as (_ & ->). cbn. lia.
    - destruct Hstd as (u & Hu' & _ & ->). rewrite Hu in Hu'. inversion Hu'; subst u. cbn [length]. lia.
    - destruct Hstd as (u & Hu' & _ & ->). rewrite Hcf in Hu'. inversion Hu'; subst u. exact Hcl.
    - assert (Hd : h_dsap h = None) by (rewrite Hstd; reflexivity).
      destruct (dx_request_only_when_ready _ _ _ _ _ _ Hp Hd) as (_ & _ & _ & ->).
      destruct (opstate_eqb op OpOperate); rewrite ?repeat_length; lia. }
  assert (Hwf : wf_header h).
  { unfold wf_header, is_addr7. rewrite Hda, Hsa. pose proof (ji_own _ _ _ J). pose proof (ji_addr _ _ _ J).
    split; [lia|]. split; [lia|].
    destruct (state_service q'); cbn in Hstd; try contradiction.
    - destruct Hstd as (-> & _). cbn. unfold is_byte. lia.
    - destruct Hstd as (u & _ & -> & _). cbn. unfold is_byte. lia.
    - destruct Hstd as (u & _ & -> & _). cbn. unfold is_byte. lia.
    - rewrite Hstd. cbn. auto. }
  split.
  - rewrite encode_data_in_spec in He; [inversion He; reflexivity|exact Hwf| |].
    + pose proof (length_byte_le h (length pdu)). lia.
    + pose proof (telegram_len_le h (length pdu)). pose proof (length_byte_le h (length pdu)). lia.
  - rewrite <- Hda. apply (expects_reply_std' _ _ _ _ _ _ _ Hstd).
Qed.

(* C07 bridge, part 3: every token visit advances each visited slot by one cycle of the joint system *)

Lemma gc_seen : forall pa bufsize b w s,
  0 <= p_address pa <= 126 -> (255 <= bufsize)%nat ->
  send_data bufsize (gc_header pa) [b; dp_gc_groups] = Ok (w, None) ->
  gceq s (fst (slave_step s w)).
Proof.
  intros pa bufsize b w s Hown Hbuf Hs.
  assert (Hdec : decode w = Ok (Accept (TData (gc_header pa) [b; dp_gc_groups]) (length w))).
  { unfold send_data in Hs. destruct (encode_data_in bufsize (gc_header pa) [b; dp_gc_groups]) as [w'| |] eqn:He;
      cbn [bind] in Hs; try discriminate Hs. inversion Hs; subst w'.
    apply (encode_decode bufsize); auto.
    - unfold wf_header, gc_header. cbn [h_da h_sa h_dsap h_ssap].
      split; [vm_compute; split; [discriminate|reflexivity]|]. split; [unfold is_addr7; lia|].
      split; vm_compute; (split; [discriminate|reflexivity]).
    - vm_compute. lia.
    - unfold telegram_len_data, length_byte. cbn. lia. }
  unfold slave_step. destruct (sl_silent s); [apply gceq_refl|]. rewrite Hdec, Nat.eqb_refl. cbn [negb].
  change (h_fc (gc_header pa)) with (FcRequest FcbInactive RqSdnLow).
  change (h_da (gc_header pa) =? STD_BROADCAST) with true. cbn [orb].
  change (opt_eqb (h_dsap (gc_header pa)) (Some STD_SAP_GLOBAL_CONTROL)) with true. cbn [fst].
  exists (Some (nth 0 [b; dp_gc_groups] 0)). destruct s; reflexivity.
Qed.

Definition vbit (m : dpm) (i : nat) : nat := if in_dec Nat.eq_dec i (pos_rem m) then 0%nat else 1%nat.

Section Bridge.
Variables (pa : params) (bufsize : nat) (op : opstate) (m0 : dpm) (sl0 : list slave).
Hypothesis Hop : op <> OpStop.
Hypothesis Hown : 0 <= p_address pa <= 126.
Hypothesis Hbuf : (255 <= bufsize)%nat.
Hypothesis Hinj0 : addr_inj m0.
Hypothesis Hinit : forall i p0, slot m0 i = Some p0 ->
  exists k s0, find_slave sl0 (pe_addr p0) = Some k /\ nth_error sl0 k = Some s0 /\ jinv pa p0 s0.

Record BI (m : dpm) (sl : list slave) (K : nat) : Prop := mkBI {
  bi_mask : mask m = mask m0;
  bi_op : dm_op m = op;
  bi_addr : forall i p, slot m i = Some p -> exists p0, slot m0 i = Some p0 /\ pe_addr p = pe_addr p0;
  bi_sl : map sl_addr sl = map sl_addr sl0;
  bi_ccomp : Ccomp m;
  bi_run : forall i p0 k s0, slot m0 i = Some p0 -> find_slave sl0 (pe_addr p0) = Some k -> nth_error sl0 k = Some s0 ->
      exists p s n sx, slot m i = Some p /\ nth_error sl k = Some s /\
        reaches pa op n (p0, s0) (p, sx) /\ gceq sx s /\ (K + vbit m i <= n + vbit m0 i)%nat }.

Lemma bi_init : dm_op m0 = op -> Ccomp m0 -> BI m0 sl0 0.
Proof.
  intros Ho Hc. constructor; auto.
  - intros i p Hp. exists p. auto.
  - intros i p0 k s0 Hp Hk Hs. exists p0, s0, 0%nat, s0. split; [exact Hp|]. split; [exact Hs|].
    split; [exists []; reflexivity|]. split; [apply gceq_refl|]. lia.
Qed.

Lemma vbit_in : forall m i, In i (pos_rem m) -> vbit m i = 0%nat.
Proof. intros m i H. unfold vbit. destruct (in_dec Nat.eq_dec i (pos_rem m)); [reflexivity|contradiction]. Qed.
Lemma vbit_out : forall m i, ~ In i (pos_rem m) -> vbit m i = 1%nat.
Proof. intros m i H. unfold vbit. destruct (in_dec Nat.eq_dec i (pos_rem m)); [contradiction|reflexivity]. Qed.
Lemma vbit_same : forall m m' i, (In i (pos_rem m') <-> In i (pos_rem m)) -> vbit m' i = vbit m i.
Proof.
  intros m m' i H. unfold vbit. destruct (in_dec Nat.eq_dec i (pos_rem m')) as [H1|H1], (in_dec Nat.eq_dec i (pos_rem m)) as [H2|H2];
    try reflexivity; exfalso; tauto.
Qed.

Lemma bi_update : forall m sl K m' sl' K',
  BI m sl K ->
  mask m' = mask m -> dm_op m' = dm_op m ->
  (forall i p', slot m' i = Some p' -> exists p, slot m i = Some p /\ pe_addr p' = pe_addr p) ->
  map sl_addr sl' = map sl_addr sl -> Ccomp m' ->
  (forall i p0 k s0 p s, slot m0 i = Some p0 -> find_slave sl0 (pe_addr p0) = Some k -> nth_error sl0 k = Some s0 ->
     slot m i = Some p -> nth_error sl k = Some s ->
     exists p' s' d, slot m' i = Some p' /\ nth_error sl' k = Some s' /\ evo pa op p s p' s' d /\
                     (K' + vbit m' i <= K + vbit m i + d)%nat) ->
  BI m' sl' K'.
Proof.
  intros m sl K m' sl' K' [B1 B2 B3 B4 B5 B6] Hmk Hopm Haddr Hsl Hcc Hev. constructor.
  - congruence.
  - congruence.
  - intros i p' Hp'. destruct (Haddr _ _ Hp') as (p & Hp & Ea). destruct (B3 _ _ Hp) as (p0 & Hp0 & Ea0).
    exists p0. split; [exact Hp0|congruence].
  - congruence.
  - exact Hcc.
  - intros i p0 k s0 Hp0 Hk Hs0. destruct (B6 i p0 k s0 Hp0 Hk Hs0) as (p & s & n & sx & Hp & Hs & Hr & Hg & Hb).
    destruct (Hev i p0 k s0 p s Hp0 Hk Hs0 Hp Hs) as (p' & s' & d & Hp' & Hs' & He & Hb').
    destruct (reaches_evo _ _ _ _ _ _ _ _ _ _ Hr Hg He) as (sx' & Hr' & Hg').
    exists p', s', (n + d)%nat, sx'. repeat split; auto. lia.
Qed.

(* the current pair of a slot satisfies the hypotheses of the joint system *)
Lemma bi_jinv : forall m sl K i p0 k s0 p n sx,
  BI m sl K -> slot m0 i = Some p0 -> find_slave sl0 (pe_addr p0) = Some k -> nth_error sl0 k = Some s0 ->
  reaches pa op n (p0, s0) (p, sx) -> jinv pa p sx.
Proof.
  intros m sl K i p0 k s0 p n sx B Hp0 Hk Hs0 (evs & Hr).
  destruct (Hinit _ _ Hp0) as (k' & s0' & Hk' & Hs0' & J). rewrite Hk in Hk'. inversion Hk'; subst k'.
  rewrite Hs0 in Hs0'. inversion Hs0'; subst s0'.
  destruct (sim_run pa op Hop n p0 s0 J) as (p' & s' & evs' & Hr' & J' & _). rewrite Hr in Hr'. inversion Hr'; subst. exact J'.
Qed.

Lemma slot_mask_fw : forall m m' i p, mask m' = mask m -> slot m i = Some p -> exists p', slot m' i = Some p'.
Proof. intros m m' i p H Hs. apply (mask_slot_back m' m i p); [symmetry; exact H|exact Hs]. Qed.

Lemma visit_bi : forall m sl K now hp m' sl' cc,
  BI m sl K -> master_visit pa bufsize (m, sl) now hp = Ok ((m', sl'), cc) ->
  BI m' sl' (K + (if cc then 1 else 0)).
Proof.
  intros m sl K now hp m' sl' cc B H. unfold master_visit in H.
  destruct (dp_transmit pa bufsize m now hp) as [[m1 o]| |] eqn:Htx; cbn [bind] in H; try discriminate H.
  rewrite <- dp_transmit_erase in Htx.
  destruct (dp_transmit_g pa bufsize m now hp) as [[[m1' o'] log]| |] eqn:Hg; cbn [drop_log] in Htx; try discriminate Htx.
  inversion Htx; subst m1' o'. clear Htx.
  destruct (dp_transmit_g_cases _ _ _ _ _ _ _ _ Hg) as
    [(Hstop & _)|[(_ & _ & _ & Hm & _ & b & w & _ & Hsd & ->)|(_ & _ & Hrel)]].
  - exfalso. apply Hop. rewrite <- (bi_op _ _ _ B). exact Hstop.
  - (* global control: every device records it *)
    inversion H; subst m' sl' cc. clear H. rewrite Nat.add_0_r.
    apply (bi_update m sl K); auto.
    + rewrite Hm. reflexivity.
    + rewrite Hm. reflexivity.
    + intros i p' Hp'. exists p'. rewrite Hm in Hp'. auto.
    + rewrite map_map. apply map_ext. intro s. apply slave_step_addr.
    + intro E. rewrite Hm in E. intro Hn. apply (bi_ccomp _ _ _ B E). rewrite Hm in Hn. exact Hn.
    + intros i p0 k s0 p s Hp0 Hk Hs0 Hp Hs. exists p, (fst (slave_step s w)), 0%nat.
      split; [rewrite Hm; exact Hp|]. split; [rewrite nth_error_map, Hs; reflexivity|].
      split; [left; split; [reflexivity|split; [reflexivity|apply (gc_seen pa bufsize b w s Hown Hbuf Hsd)]]|].
      rewrite Nat.add_0_r. rewrite (vbit_same m m1 i); [lia|]. rewrite Hm. reflexivity.
  - (* the slot scheduler *)
    destruct (tx_rel_cycle _ _ _ _ _ _ Hrel (bi_ccomp _ _ _ B)) as (rem' & Hte & Hmk & Hncc & Hpost).
    destruct (tx_rel_visit _ _ _ _ _ _ Hrel rem' Hte) as (vis & Hpos & V1 & V5 & V3 & _ & _ & _).
    destruct (tx_rel_frame _ _ _ _ _ _ Hrel) as (Hopm & _).
    pose proof (pos_rem_sorted m) as Hsorted. rewrite Hpos in Hsorted.
    destruct (sorted_app _ _ Hsorted) as (Ssort & Slt & Sdisj).
    rewrite (bi_op _ _ _ B) in V1, V5.
    (* a visited slot made one cycle of the joint system, its device saw nothing *)
    assert (Hvisited : forall i p s, In i vis -> slot m i = Some p ->
              exists p', slot m1 i = Some p' /\ evo pa op p s p' s 1 /\ pe_addr p' = pe_addr p).
    { intros i p s Hi Hp. destruct (V1 _ Hi) as (q & q' & ev & H1 & H2 & H3 & _). rewrite Hp in H1. inversion H1; subst q.
      exists q'. split; [exact H2|]. split.
      - right. split; [reflexivity|]. exists (evl' ev), s. split; [apply joint_skip; exact H3|apply gceq_refl].
      - apply (transmit_keeps _ _ _ _ _ H3). }
    destruct o as [[w e]|].
    + (* a request *)
      destruct (V5 ltac:(discriminate)) as (js & r & q & q' & h & pdu & Erem & Hq & Hq' & Hps & Hoth & x & Ex & Hsd).
      inversion Ex; subst x. clear Ex.
      unfold send_data in Hsd. destruct (encode_data_in bufsize h pdu) as [w'| |] eqn:Henc; cbn [bind] in Hsd; try discriminate Hsd.
      inversion Hsd; subst w' e. clear Hsd.
      (* the pair of the sending slot *)
      destruct (bi_addr _ _ _ B _ _ Hq) as (p0 & Hp0 & Ea0).
      destruct (Hinit _ _ Hp0) as (k & s0 & Hk & Hs0 & J0).
      destruct (bi_run _ _ _ B js p0 k s0 Hp0 Hk Hs0) as (qq & s & n & sx & Hqq & Hs & Hr & Hgq & Hb).
      rewrite Hq in Hqq. inversion Hqq; subst qq. clear Hqq.
      pose proof (bi_jinv m sl K js p0 k s0 q n sx B Hp0 Hk Hs0 Hr) as Jq.
      destruct (jinv_frame pa op q sx q' h pdu bufsize w Jq Hbuf Hps Henc) as (-> & Hexp). rewrite Hexp in H.
      assert (Hfs : find_slave sl (pe_addr q) = Some k).
      { rewrite (find_slave_addrs sl0 sl _ (bi_sl _ _ _ B)), Ea0. exact Hk. }
      rewrite Hfs, Hs in H.
      (* the pass is not over: the sender is the head of what remains *)
      assert (Hncc1 : ev_cycle_completed (dm_events m1) = false).
      { destruct (ev_cycle_completed (dm_events m1)); [|reflexivity]. destruct Hpost as (E & _). rewrite E in Erem. discriminate Erem. }
      rewrite Hncc1 in Hpost. destruct Hpost as (_ & Hpr1).
      assert (Hjs_rem : In js rem') by (rewrite Erem; left; reflexivity).
      assert (Hjs_vis : ~ In js vis) by (intro X; apply (Sdisj _ X Hjs_rem)).
      rewrite Erem in Ssort. destruct (sorted_head_notin _ _ Ssort) as (Hjs_r & _).
      assert (Haq' : pe_addr q' = pe_addr q) by (apply (transmit_keeps _ _ _ _ _ Hps)).
      (* other slots use other devices *)
      assert (Hotherk : forall i pi0 ki, slot m0 i = Some pi0 -> find_slave sl0 (pe_addr pi0) = Some ki -> i <> js -> ki <> k).
      { intros i pi0 ki Hpi0 Hki Hne E. subst ki.
        destruct (find_slave_nth _ _ _ Hki) as (sa & Hsa & Eaa). destruct (find_slave_nth _ _ _ Hk) as (sb & Hsb & Eab).
        rewrite Hsa in Hsb. inversion Hsb; subst sb. apply Hne. apply (Hinj0 i js pi0 p0 Hpi0 Hp0). congruence. }
      destruct (slave_step s (frame_spec h pdu)) as [s1 reply] eqn:Hss.
      assert (Hs1a : sl_addr s1 = sl_addr s).
      { pose proof (slave_step_addr s (frame_spec h pdu)) as X. rewrite Hss in X. exact X. }
      destruct (deliver (p_address pa) (pe_addr q) reply) as [t|] eqn:Hdel.
      * (* the reply ends the turn *)
        destruct (dp_receive_reply m1 (pe_addr q) t) as [m2| |] eqn:Hrx; cbn [bind] in H; try discriminate H.
        inversion H; subst m' sl' cc. clear H.
        rewrite <- dp_receive_reply_erase in Hrx.
        destruct (dp_receive_reply_g m1 (pe_addr q) t) as [[m2' lg]| |] eqn:Hrg; cbn [drop_log] in Hrx; try discriminate Hrx.
        inversion Hrx; subst m2'. clear Hrx.
        destruct (rx_cases _ _ _ _ _ Hrg) as (index & hd & pc & p1c & ev & m2x & c0 & Hc & Hgi & _ & Hprx & Hinc & Hm2 & _).
        destruct (cur_slot _ _ _ _ Hc Hgi) as (r' & Hr' & Hslc & _).
        rewrite Hpr1, Erem in Hr'. injection Hr' as Ehd Er'. subst r'. symmetry in Ehd.
        rewrite Ehd, Hq' in Hslc. inversion Hslc; subst pc. clear Hslc.
        assert (Hq'hd : slot m1 (hd_index hd) = Some q') by (rewrite Ehd; exact Hq').
        destruct (put_cur_facts m1 hd q' p1c Hq'hd) as (Hmk2 & Hcy2 & Hpr2 & _). rewrite Hc in Hcy2. rewrite Hpr1, Erem in Hpr2.
        destruct (increment_pos _ _ _ _ _ _ Hcy2 Hpr2 Hinc) as (Hsl2 & Hop2 & _ & _ & Hcyc).
        assert (Hslots2 : forall j, slot m2 j = if Nat.eqb j js then Some p1c else slot m1 j).
        { intro j. rewrite Hm2. change (slot (set_events m2x _) j) with (slot m2x j).
          rewrite (slot_slots (put_cur m1 hd p1c) _) by exact Hsl2. rewrite <- Ehd. apply (put_cur_slots _ _ _ _ _ Hq'hd). }
        assert (Hap1 : pe_addr p1c = pe_addr q') by (apply (receive_facts _ _ _ _ Hprx)).
        assert (Hev2 : ev_cycle_completed (dm_events m2) = c0) by (rewrite Hm2; reflexivity).
        rewrite Hev2.
        assert (Hpos2 : forall j, In j (pos_rem m2) <-> (if c0 then exists pj, slot m2 j = Some pj else In j r)).
        { intro j. rewrite Hm2. change (pos_rem (set_events m2x _)) with (pos_rem m2x). destruct c0.
          - destruct Hcyc as (Hcm & _). unfold pos_rem. rewrite Hcm. rewrite occupied_in_slot.
            change (slot (set_events m2x (mkEvents true (opt_pair hd ev))) j) with (slot m2x j). reflexivity.
          - destruct Hcyc as (_ & Hx & _). rewrite Hx. reflexivity. }
        apply (bi_update m sl K); auto.
        -- rewrite Hm2. change (mask (set_events m2x _)) with (mask m2x). rewrite <- Hmk, <- Hmk2. apply mask_slots. exact Hsl2.
        -- rewrite Hm2. cbn [dm_op set_events]. rewrite Hop2. cbn. exact Hopm.
        -- intros i p' Hp'. rewrite Hslots2 in Hp'. destruct (Nat.eqb_spec i js) as [->|Hne].
           ++ inversion Hp'; subst p'. exists q. split; [exact Hq|congruence].
           ++ destruct (mask_slot_back m m1 i p' Hmk Hp') as (pm & Hpm). exists pm. split; [exact Hpm|].
              destruct (in_dec Nat.eq_dec i vis) as [Hiv|Hniv].
              ** destruct (Hvisited i pm s Hiv Hpm) as (p2 & Hp2 & _ & Ea2). rewrite Hp' in Hp2. inversion Hp2; subst. exact Ea2.
              ** rewrite (Hoth _ Hniv Hne) in Hp'. rewrite Hpm in Hp'. inversion Hp'; reflexivity.
        -- apply (map_set_nth_addr sl k s s1 Hs Hs1a).
        -- intros E Hn. assert (X : In js (occupied m2)) by (apply occupied_in_slot; exists p1c; rewrite Hslots2, Nat.eqb_refl; reflexivity).
           rewrite Hn in X. destruct X.
        -- intros i pi0 ki si0 p s' Hpi0 Hki Hsi0 Hp Hs'.
           destruct (Nat.eq_dec i js) as [->|Hne].
           ++ rewrite Hp0 in Hpi0. inversion Hpi0; subst pi0. rewrite Hk in Hki. inversion Hki; subst ki.
              rewrite Hq in Hp. inversion Hp; subst p. rewrite Hs in Hs'. inversion Hs'; subst s'.
              exists p1c, s1, 1%nat. split; [rewrite Hslots2, Nat.eqb_refl; reflexivity|].
              split; [apply set_nth_same; apply nth_error_Some; rewrite Hs; discriminate|].
              split; [right; split; [reflexivity|]; exists (evl' ev), s1; split; [eapply joint_reply; eassumption|apply gceq_refl]|].
              rewrite (vbit_in m js) by (rewrite Hpos; apply in_or_app; right; exact Hjs_rem).
              destruct c0; [rewrite vbit_in; [lia|apply Hpos2; exists p1c; rewrite Hslots2, Nat.eqb_refl; reflexivity]|].
              rewrite vbit_out; [lia|]. intro X. apply Hpos2 in X. contradiction.
           ++ pose proof (Hotherk i pi0 ki Hpi0 Hki Hne) as Hkne.
              destruct (in_dec Nat.eq_dec i vis) as [Hiv|Hniv].
              ** destruct (Hvisited i p s' Hiv Hp) as (p2 & Hp2 & He2 & _).
                 exists p2, s', 1%nat. split; [rewrite Hslots2; destruct (Nat.eqb_spec i js); [contradiction|exact Hp2]|].
                 split; [rewrite set_nth_other by exact Hkne; exact Hs'|]. split; [exact He2|].
                 rewrite (vbit_in m i) by (rewrite Hpos; apply in_or_app; left; exact Hiv).
                 destruct c0; [rewrite vbit_in; [lia|apply Hpos2; exists p2; rewrite Hslots2; destruct (Nat.eqb_spec i js); [contradiction|exact Hp2]]|].
                 rewrite vbit_out; [lia|]. intro X. apply Hpos2 in X. apply (Sdisj _ Hiv). rewrite Erem. right; exact X.
              ** exists p, s', 0%nat. split; [rewrite Hslots2; destruct (Nat.eqb_spec i js); [contradiction|]; rewrite (Hoth _ Hniv Hne); exact Hp|].
                 split; [rewrite set_nth_other by exact Hkne; exact Hs'|].
                 split; [left; split; [reflexivity|split; [reflexivity|apply gceq_refl]]|].
                 rewrite Nat.add_0_r. destruct c0.
                 --- destruct Hcyc as (_ & Er). subst r.
                     rewrite (vbit_out m i); [rewrite vbit_in; [lia|]|].
                     +++ apply Hpos2. exists p. rewrite Hslots2. destruct (Nat.eqb_spec i js); [contradiction|]. rewrite (Hoth _ Hniv Hne). exact Hp.
                     +++ rewrite Hpos, Erem. intro X. apply in_app_or in X. destruct X as [X|[X|[]]]; [contradiction|]. apply Hne. symmetry; exact X.
                 --- rewrite (vbit_same m m2 i); [lia|]. rewrite Hpos2, Hpos, Erem. split.
                     +++ intro X. apply in_or_app. right. right. exact X.
                     +++ intro X. apply in_app_or in X. destruct X as [X|[X|X]]; [contradiction|exfalso; apply Hne; symmetry; exact X|exact X].
      * (* no admissible reply: handle_timeout, the turn goes on *)
        cbn [dp_handle_timeout bind] in H. inversion H; subst m' sl' cc. clear H. rewrite Nat.add_0_r.
        apply (bi_update m sl K); auto.
        -- intros i p' Hp'. destruct (mask_slot_back m m1 i p' Hmk Hp') as (pm & Hpm). exists pm. split; [exact Hpm|].
           destruct (Nat.eq_dec i js) as [->|Hne].
           ++ rewrite Hq in Hpm. inversion Hpm; subst pm. rewrite Hq' in Hp'. inversion Hp'; subst p'. exact Haq'.
           ++ destruct (in_dec Nat.eq_dec i vis) as [Hiv|Hniv].
              ** destruct (Hvisited i pm s Hiv Hpm) as (p2 & Hp2 & _ & Ea2). rewrite Hp' in Hp2. inversion Hp2; subst. exact Ea2.
              ** rewrite (Hoth _ Hniv Hne) in Hp'. rewrite Hpm in Hp'. inversion Hp'; reflexivity.
        -- apply (map_set_nth_addr sl k s s1 Hs Hs1a).
        -- intro E. now elim Hncc.
        -- intros i pi0 ki si0 p s' Hpi0 Hki Hsi0 Hp Hs'.
           destruct (Nat.eq_dec i js) as [->|Hne].
           ++ rewrite Hp0 in Hpi0. inversion Hpi0; subst pi0. rewrite Hk in Hki. inversion Hki; subst ki.
              rewrite Hq in Hp. inversion Hp; subst p. rewrite Hs in Hs'. inversion Hs'; subst s'.
              exists q', s1, 1%nat. split; [exact Hq'|].
              split; [apply set_nth_same; apply nth_error_Some; rewrite Hs; discriminate|].
              split; [right; split; [reflexivity|]; exists [], s1; split; [eapply joint_timeout; eassumption|apply gceq_refl]|].
              rewrite (vbit_in m js) by (rewrite Hpos; apply in_or_app; right; exact Hjs_rem).
              rewrite (vbit_in m1 js) by (rewrite Hpr1; exact Hjs_rem). lia.
           ++ pose proof (Hotherk i pi0 ki Hpi0 Hki Hne) as Hkne.
              destruct (in_dec Nat.eq_dec i vis) as [Hiv|Hniv].
              ** destruct (Hvisited i p s' Hiv Hp) as (p2 & Hp2 & He2 & _).
                 exists p2, s', 1%nat. split; [exact Hp2|].
                 split; [rewrite set_nth_other by exact Hkne; exact Hs'|]. split; [exact He2|].
                 rewrite (vbit_in m i) by (rewrite Hpos; apply in_or_app; left; exact Hiv).
                 rewrite vbit_out; [lia|]. rewrite Hpr1. apply (Sdisj _ Hiv).
              ** exists p, s', 0%nat. split; [rewrite (Hoth _ Hniv Hne); exact Hp|].
                 split; [rewrite set_nth_other by exact Hkne; exact Hs'|].
                 split; [left; split; [reflexivity|split; [reflexivity|apply gceq_refl]]|].
                 rewrite Nat.add_0_r. rewrite (vbit_same m m1 i); [lia|]. rewrite Hpr1, Hpos. split.
                 --- intro X. apply in_or_app. right; exact X.
                 --- intro X. apply in_app_or in X. destruct X as [X|X]; [contradiction|exact X].
    + (* nothing sent *)
      inversion H; subst m' sl' cc. clear H.
      specialize (V3 eq_refl).
      apply (bi_update m sl K); auto.
      * intros i p' Hp'. destruct (mask_slot_back m m1 i p' Hmk Hp') as (pm & Hpm). exists pm. split; [exact Hpm|].
        destruct (in_dec Nat.eq_dec i vis) as [Hiv|Hniv].
        -- destruct (Hvisited i pm (slave_new 0 0 [] 0 0) Hiv Hpm) as (p2 & Hp2 & _ & Ea2). rewrite Hp' in Hp2. inversion Hp2; subst. exact Ea2.
        -- rewrite (V3 _ Hniv) in Hp'. rewrite Hpm in Hp'. inversion Hp'; reflexivity.
      * intro E. now elim Hncc.
      * intros i pi0 ki si0 p s' Hpi0 Hki Hsi0 Hp Hs'.
        destruct (in_dec Nat.eq_dec i vis) as [Hiv|Hniv].
        -- destruct (Hvisited i p s' Hiv Hp) as (p2 & Hp2 & He2 & _).
           exists p2, s', 1%nat. split; [exact Hp2|]. split; [exact Hs'|]. split; [exact He2|].
           rewrite (vbit_in m i) by (rewrite Hpos; apply in_or_app; left; exact Hiv).
           destruct (ev_cycle_completed (dm_events m1)).
           ++ destruct Hpost as (_ & Hpr). rewrite vbit_in; [lia|]. rewrite Hpr. apply occupied_in_slot. exists p2. exact Hp2.
           ++ destruct Hpost as (_ & Hpr). rewrite vbit_out; [lia|]. rewrite Hpr. apply (Sdisj _ Hiv).
        -- exists p, s', 0%nat. split; [rewrite (V3 _ Hniv); exact Hp|]. split; [exact Hs'|].
           split; [left; split; [reflexivity|split; [reflexivity|apply gceq_refl]]|].
           rewrite Nat.add_0_r. destruct (ev_cycle_completed (dm_events m1)).
           ++ destruct Hpost as (Er & Hpr). subst rem'. rewrite app_nil_r in Hpos.
              rewrite (vbit_out m i) by (rewrite Hpos; exact Hniv).
              rewrite vbit_in; [lia|]. rewrite Hpr. apply occupied_in_slot. exists p. rewrite (V3 _ Hniv). exact Hp.
           ++ destruct Hpost as (_ & Hpr). rewrite (vbit_same m m1 i); [lia|]. rewrite Hpr, Hpos. split.
              ** intro X. apply in_or_app. right; exact X.
              ** intro X. apply in_app_or in X. destruct X as [X|X]; [contradiction|exact X].
Qed.

End Bridge.

(* C07 bridge, part 4: runs of the bus, and recovery counted in cycles of the DP master *)

Lemma run_bi : forall pa bufsize op m0 sl0,
  op <> OpStop -> 0 <= p_address pa <= 126 -> (255 <= bufsize)%nat -> addr_inj m0 ->
  (forall i p0, slot m0 i = Some p0 ->
     exists k s0, find_slave sl0 (pe_addr p0) = Some k /\ nth_error sl0 k = Some s0 /\ jinv pa p0 s0) ->
  forall sched m sl K m' sl' n,
  BI pa op m0 sl0 m sl K -> master_run pa bufsize (m, sl) sched = Ok ((m', sl'), n) ->
  BI pa op m0 sl0 m' sl' (K + n).
Proof.
  intros pa bufsize op m0 sl0 Hop Hown Hbuf Hinj Hinit.
  induction sched as [|[now hp] sched IH]; intros m sl K m' sl' n B H; cbn [master_run] in H.
  - inversion H; subst. rewrite Nat.add_0_r. exact B.
  - destruct (master_visit pa bufsize (m, sl) now hp) as [[[m1 sl1] cc]| |] eqn:Hv; cbn [bind] in H; try discriminate H.
    destruct (master_run pa bufsize (m1, sl1) sched) as [[[m2 sl2] n2]| |] eqn:Hr; cbn [bind] in H; try discriminate H.
    inversion H; subst m' sl' n. clear H.
    pose proof (visit_bi pa bufsize op m0 sl0 Hop Hown Hbuf Hinj Hinit m sl K now hp m1 sl1 cc B Hv) as B1.
    pose proof (IH _ _ _ _ _ _ B1 Hr) as B2. rewrite <- Nat.add_assoc in B2. exact B2.
Qed.

(* THE BRIDGE: in every run of the fault-free bus, the peripheral of every slot and its device are, after K completed
   cycles of the DP master, exactly where n cycles of the single-peripheral joint system take them (the device up to
   the Global_Control command it recorded), with n >= K for a slot that still had its turn in the cycle in which the
   run started (every slot, if the run starts at a cycle boundary) and n + 1 >= K otherwise *)
Theorem master_runs_joint_system : forall pa bufsize m0 sl0,
  dm_op m0 <> OpStop -> 0 <= p_address pa <= 126 -> (255 <= bufsize)%nat -> addr_inj m0 ->
  Ccomp m0 ->
  (forall i p0, slot m0 i = Some p0 ->
     exists k s0, find_slave sl0 (pe_addr p0) = Some k /\ nth_error sl0 k = Some s0 /\ jinv pa p0 s0) ->
  forall sched m sl K, master_run pa bufsize (m0, sl0) sched = Ok ((m, sl), K) ->
  forall i p0 k s0, slot m0 i = Some p0 -> find_slave sl0 (pe_addr p0) = Some k -> nth_error sl0 k = Some s0 ->
  exists p s n sx evs,
    slot m i = Some p /\ find_slave sl (pe_addr p) = Some k /\ nth_error sl k = Some s /\
    joint_run pa (dm_op m0) n (p0, s0) = Ok ((p, sx), evs) /\ gceq sx s /\ (K <= n + vbit m0 i)%nat.
Proof.
  intros pa bufsize m0 sl0 Hop Hown Hbuf Hinj Hcc Hinit sched m sl K Hrun i p0 k s0 Hp0 Hk Hs0.
  pose proof (bi_init pa bufsize (dm_op m0) m0 sl0 Hbuf eq_refl Hcc) as B0.
  pose proof (run_bi pa bufsize (dm_op m0) m0 sl0 Hop Hown Hbuf Hinj Hinit sched m0 sl0 0%nat m sl K B0 Hrun) as B.
  cbn [Nat.add] in B.
  destruct (bi_run _ _ _ _ _ _ _ B i p0 k s0 Hp0 Hk Hs0) as (p & s & n & sx & Hp & Hs & (evs & Hr) & Hg & Hb).
  exists p, s, n, sx, evs. split; [exact Hp|]. split.
  - destruct (bi_addr _ _ _ _ _ _ _ B _ _ Hp) as (p0' & Hp0' & Ea). rewrite Hp0 in Hp0'. inversion Hp0'; subst p0'.
    rewrite (find_slave_addrs sl0 sl _ (bi_sl _ _ _ _ _ _ _ B)), Ea. exact Hk.
  - split; [exact Hs|]. split; [exact Hr|]. split; [exact Hg|]. lia.
Qed.

Lemma gceq_st : forall a b, gceq a b -> sl_st b = sl_st a.
Proof. intros a b (g & ->). reflexivity. Qed.

(* C07_recovery_master *)
Theorem recovery_master : forall pa bufsize m0 sl0,
  dm_op m0 <> OpStop -> 0 <= p_address pa <= 126 -> (255 <= bufsize)%nat -> addr_inj m0 ->
  Ccomp m0 ->
  (forall i p0, slot m0 i = Some p0 ->
     exists k s0, find_slave sl0 (pe_addr p0) = Some k /\ nth_error sl0 k = Some s0 /\ jinv pa p0 s0 /\
                  ~ f15_class pa (dm_op m0) (p0, s0)) ->
  forall sched m sl K, master_run pa bufsize (m0, sl0) sched = Ok ((m, sl), K) ->
  (c07_cycles (p_max_retry pa) + (if list_eq_dec Nat.eq_dec (pos_rem m0) (occupied m0) then 0 else 1) <= K)%nat ->
  forall i p, slot m i = Some p ->
  exists k s, find_slave sl (pe_addr p) = Some k /\ nth_error sl k = Some s /\
              pe_state p = PsDataExchange /\ sl_st s = SlDataExch.
Proof.
  intros pa bufsize m0 sl0 Hop Hown Hbuf Hinj Hcc Hinit sched m sl K Hrun HK i p Hp.
  assert (Hinit' : forall i p0, slot m0 i = Some p0 ->
            exists k s0, find_slave sl0 (pe_addr p0) = Some k /\ nth_error sl0 k = Some s0 /\ jinv pa p0 s0).
  { intros j p0 Hp0. destruct (Hinit j p0 Hp0) as (k & s0 & H1 & H2 & H3 & _). exists k, s0. auto. }
  assert (Hocc : exists p0, slot m0 i = Some p0).
  { pose proof (bi_init pa bufsize (dm_op m0) m0 sl0 Hbuf eq_refl Hcc) as B0.
    pose proof (run_bi pa bufsize (dm_op m0) m0 sl0 Hop Hown Hbuf Hinj Hinit' sched m0 sl0 0%nat m sl K B0 Hrun) as B.
    destruct (bi_addr _ _ _ _ _ _ _ B _ _ Hp) as (p0 & Hp0 & _). exists p0. exact Hp0. }
  destruct Hocc as (p0 & Hp0). destruct (Hinit i p0 Hp0) as (k & s0 & Hk & Hs0 & J & Hnf).
  destruct (master_runs_joint_system pa bufsize m0 sl0 Hop Hown Hbuf Hinj Hcc Hinit' sched m sl K Hrun i p0 k s0 Hp0 Hk Hs0)
    as (p' & s & n & sx & evs & Hp' & Hfs & Hs & Hr & Hg & Hn).
  rewrite Hp in Hp'. inversion Hp'; subst p'.
  destruct (recovery pa (dm_op m0) p0 s0 J Hop Hnf) as (k0 & Hk0 & Hall).
  assert (Hkn : (k0 <= n)%nat).
  { destruct (list_eq_dec Nat.eq_dec (pos_rem m0) (occupied m0)) as [E|_].
    - assert (Hv0 : vbit m0 i = 0%nat) by (apply vbit_in; rewrite E; apply occupied_in_slot; exists p0; exact Hp0). lia.
    - assert (Hv1 : (vbit m0 i <= 1)%nat) by (unfold vbit; destruct (in_dec Nat.eq_dec i (pos_rem m0)); lia). lia. }
  destruct (Hall n Hkn) as (st' & evs' & Hr' & (Hd1 & Hd2)). rewrite Hr in Hr'. inversion Hr'; subst st'.
  exists k, s. split; [exact Hfs|]. split; [exact Hs|]. split; [exact Hd1|]. rewrite (gceq_st _ _ Hg). exact Hd2.
Qed.

(* the same with the explicit condition: no device is in Wait_Cfg while its peripheral is past Chk_Cfg *)
Theorem recovery_master_explicit : forall pa bufsize m0 sl0,
  dm_op m0 <> OpStop -> 0 <= p_address pa <= 126 -> (255 <= bufsize)%nat -> addr_inj m0 ->
  Ccomp m0 ->
  (forall i p0, slot m0 i = Some p0 ->
     exists k s0, find_slave sl0 (pe_addr p0) = Some k /\ nth_error sl0 k = Some s0 /\ jinv pa p0 s0 /\
                  ~ f15_suspect (p0, s0)) ->
  forall sched m sl K, master_run pa bufsize (m0, sl0) sched = Ok ((m, sl), K) ->
  (c07_cycles (p_max_retry pa) + (if list_eq_dec Nat.eq_dec (pos_rem m0) (occupied m0) then 0 else 1) <= K)%nat ->
  forall i p, slot m i = Some p ->
  exists k s, find_slave sl (pe_addr p) = Some k /\ nth_error sl k = Some s /\
              pe_state p = PsDataExchange /\ sl_st s = SlDataExch.
Proof.
  intros pa bufsize m0 sl0 Hop Hown Hbuf Hinj Hcc Hinit sched m sl K Hrun HK i p Hp.
  assert (Hinit' : forall i p0, slot m0 i = Some p0 ->
            exists k s0, find_slave sl0 (pe_addr p0) = Some k /\ nth_error sl0 k = Some s0 /\ jinv pa p0 s0).
  { intros j p0 Hp0. destruct (Hinit j p0 Hp0) as (k & s0 & H1 & H2 & H3 & _). exists k, s0. auto. }
  assert (Hocc : exists p0, slot m0 i = Some p0).
  { pose proof (bi_init pa bufsize (dm_op m0) m0 sl0 Hbuf eq_refl Hcc) as B0.
    pose proof (run_bi pa bufsize (dm_op m0) m0 sl0 Hop Hown Hbuf Hinj Hinit' sched m0 sl0 0%nat m sl K B0 Hrun) as B.
    destruct (bi_addr _ _ _ _ _ _ _ B _ _ Hp) as (p0 & Hp0 & _). exists p0. exact Hp0. }
  destruct Hocc as (p0 & Hp0). destruct (Hinit i p0 Hp0) as (k & s0 & Hk & Hs0 & J & Hnf).
  destruct (master_runs_joint_system pa bufsize m0 sl0 Hop Hown Hbuf Hinj Hcc Hinit' sched m sl K Hrun i p0 k s0 Hp0 Hk Hs0)
    as (p' & s & n & sx & evs & Hp' & Hfs & Hs & Hr & Hg & Hn).
  rewrite Hp in Hp'. inversion Hp'; subst p'.
  destruct (recovery_explicit pa (dm_op m0) p0 s0 J Hop Hnf) as (k0 & Hk0 & Hall).
  assert (Hkn : (k0 <= n)%nat).
  { destruct (list_eq_dec Nat.eq_dec (pos_rem m0) (occupied m0)) as [E|_].
    - assert (Hv0 : vbit m0 i = 0%nat) by (apply vbit_in; rewrite E; apply occupied_in_slot; exists p0; exact Hp0). lia.
    - assert (Hv1 : (vbit m0 i <= 1)%nat) by (unfold vbit; destruct (in_dec Nat.eq_dec i (pos_rem m0)); lia). lia. }
  destruct (Hall n Hkn) as (st' & evs' & Hr' & (Hd1 & Hd2)). rewrite Hr in Hr'. inversion Hr'; subst st'.
  exists k, s. split; [exact Hfs|]. split; [exact Hs|]. split; [exact Hd1|]. rewrite (gceq_st _ _ Hg). exact Hd2.
Qed.

(* C07 bridge, part 5: the hypotheses are satisfiable -- a computed run of a master with two peripherals *)

Definition bx_p1 : periph := periph_new 6 c07_opts [0; 0] [0] 0.
Definition bx_s1 : slave := slave_new 6 4660 [17; 33] 2 1.
Definition bx_m0 : dpm := set_op (set_slots (dp_new 2 false) [Some c07_periph0; Some bx_p1]) OpOperate.
Definition bx_sl0 : list slave := [c07_slave0; bx_s1].
(* token visits every 1000 us, HighPrioOnly::No: global control broadcasts are interleaved *)
Definition bx_sched (n : nat) : list (Z * bool) := map (fun k => (Z.of_nat k * 1000, false)) (seq 0 n).

Lemma bx_jinv0 : jinv default_params c07_periph0 c07_slave0.
Proof.
  constructor; cbn; unfold default_address, default_max_retry_limit; try lia;
    try (split; try reflexivity; lia); try discriminate.
  - exists [1; 2; 3]. split; [reflexivity|cbn; lia].
  - exists [17; 33]. split; [reflexivity|]. split; [reflexivity|cbn; lia].
Qed.

Lemma bx_jinv1 : jinv default_params bx_p1 bx_s1.
Proof.
  constructor; cbn; unfold default_address, default_max_retry_limit; try lia;
    try (split; try reflexivity; lia); try discriminate.
  - exists [1; 2; 3]. split; [reflexivity|cbn; lia].
  - exists [17; 33]. split; [reflexivity|]. split; [reflexivity|cbn; lia].
Qed.

Lemma bridge_example :
  dm_op bx_m0 <> OpStop /\ 0 <= p_address default_params <= 126 /\ (255 <= 256)%nat /\ addr_inj bx_m0 /\
  Ccomp bx_m0 /\ pos_rem bx_m0 = occupied bx_m0 /\
  (forall i p0, slot bx_m0 i = Some p0 ->
     exists k s0, find_slave bx_sl0 (pe_addr p0) = Some k /\ nth_error bx_sl0 k = Some s0 /\
                  jinv default_params p0 s0 /\ ~ f15_suspect (p0, s0)) /\
  c07_cycles (p_max_retry default_params) = 12%nat /\
  exists m sl, master_run default_params 256 (bx_m0, bx_sl0) (bx_sched 40) = Ok ((m, sl), 13%nat) /\
    map (fun o => match o with Some p => Some (pe_state p) | None => None end) (dm_slots m) =
      [Some PsDataExchange; Some PsDataExchange] /\
    map sl_st sl = [SlDataExch; SlDataExch] /\ map sl_gc sl = [Some 0; Some 0].
Proof.
  split; [discriminate|]. split; [cbn; unfold default_address; lia|]. split; [lia|].
  assert (Hslots : forall i p0, slot bx_m0 i = Some p0 -> (i = 0%nat /\ p0 = c07_periph0) \/ (i = 1%nat /\ p0 = bx_p1)).
  { intros i p0 H. destruct i as [|[|i]]; cbn in H.
    - inversion H. left; auto.
    - inversion H. right; auto.
    - destruct i; discriminate H. }
  split.
  { intros i j p q Hp Hq E. destruct (Hslots _ _ Hp) as [(-> & ->)|(-> & ->)], (Hslots _ _ Hq) as [(-> & ->)|(-> & ->)];
      try reflexivity; cbn in E; discriminate E. }
  split; [intro E; discriminate E|]. split; [reflexivity|]. split.
  { intros i p0 H. destruct (Hslots _ _ H) as [(-> & ->)|(-> & ->)].
    - exists 0%nat, c07_slave0. split; [reflexivity|]. split; [reflexivity|]. split; [exact bx_jinv0|].
      intros [D _]. discriminate D.
    - exists 1%nat, bx_s1. split; [reflexivity|]. split; [reflexivity|]. split; [exact bx_jinv1|].
      intros [D _]. discriminate D. }
  split; [reflexivity|].
  destruct (master_run default_params 256 (bx_m0, bx_sl0) (bx_sched 40)) as [[[m sl] K]| |] eqn:E;
    vm_compute in E; try discriminate E.
  inversion E; subst. do 2 eexists. split; [reflexivity|]. repeat split; vm_compute; reflexivity.
Qed.
