(* Soundness of the reaction-time monitor Model/FdlPrompt.v (rule P01_reaction_after_slot_time), part 2:
   the transcript of the MODEL with the per-event flag "a status request waits for its reply", the
   invariant between the model run and the monitor state, and the induction.

   pmodel_events / pmodel_transcript mirror what ocaml/run_fdl.ml hands to `pmonitor`: the events of
   FdlOracleSound1.model_events, each paired with the flag the driver reads from the hook fingerprint of the
   observation of that event (`pending_of`: the private state is ListenToken{Some(..),..} or
   ActiveIdle{Some(..),..}) = a function of the model state after the event (psr_flag); PANIC / TIMEOUT
   markers carry `false`; an API call that panics repeats the last observation (`A <name> =`).

   Invariant PB (all station states; nothing is excluded):
   - base: representation invariant of C05, parameters, view / flag / buffer length of the monitor are those
     of the station, pending_bytes <= buffered bytes;
   - last_bus_activity is unknown only in state Offline;
   - the monitor's predicted end of the last transmission is in the past or IS last_bus_activity, and
     last_bus_activity is in the past or IS that predicted end (so "tx still going on" of the monitor and of
     the station agree);
   - in every state but Offline and ListenToken without pending request ("synced"): the monitor's reference
     instant is not earlier than last_bus_activity, and unless the monitor expects a spurious growth of the
     buffer, pending_bytes covers the buffer.
   The two excluded states are exactly where the station's clock starts later than the monitor's (the first
   poll after going online records `now`; polls of an offline station do not count received bytes): they are
   not gated, and the station leaves them only by consuming a telegram or by transmitting - both seen by the
   monitor (FdlPromptSound1.listen_none_quiet). *)
From Coq Require Import Arith.
From PB Require Import Common Tables FdlTables Telegram Phy TokenRing Params Fdl FdlOracle FdlPrompt FdlProofs FdlStepProofs.
From PB Require Import C05Proofs C01Proofs FdlOracleSound1 FdlOracleSound2 FdlOracleSound3 FdlPromptSound1.
From PB Require C11Proofs.

(* the flag of the driver: a status request waits for its reply *)
Definition psr_flag (f : fdl) : bool :=
  match f_state f with ListenToken (Some _) _ | ActiveIdle (Some _) _ _ => true | _ => false end.

Definition synced (s : state) : bool :=
  match s with Offline | PassiveIdle | ListenToken None _ => false | _ => true end.

Lemma gatedS_synced s : gatedS s = true -> synced s = true.
Proof. destruct s as [ | |[x|] cc|[x|] nps cc| | [ | | |a]| | | | ]; cbn; intros H; try discriminate H; reflexivity. Qed.

Lemma builder_validb_valid p : builder_validb p = true -> builder_valid p.
Proof.
  unfold builder_validb, builder_valid. intros H.
  repeat (apply andb_prop in H; let H2 := fresh "H" in destruct H as (H & H2)).
  repeat match goal with
         | X : (_ <=? _) = true |- _ => apply Z.leb_le in X
         | X : (_ <? _) = true |- _ => apply Z.ltb_lt in X
         end.
  lia.
Qed.

(* 33 bit + 11 bit fit into every slot time the builder accepts *)
Lemma sync_char_lt_slot p : builder_valid p ->
  p_bits_to_time p sync_pause_bits + p_bits_to_time p prop_bits_per_byte < slot_time p.
Proof.
  intros B. destruct B as (_ & (Hmin & _) & _).
  unfold slot_time, p_bits_to_time, bits_to_time, sync_pause_bits, prop_bits_per_byte.
  assert (H100 : 100 <= p_slot_bits p) by (destruct (p_baud p); cbn in Hmin; lia).
  assert (Hr : 1 <= baud_to_rate (p_baud p) <= 12000000) by (destruct (p_baud p); cbn; lia).
  set (r := baud_to_rate (p_baud p)) in *.
  pose proof (div_add_bounds (33 * 1000000) (11 * 1000000) r ltac:(lia)) as (Hadd & _).
  assert (H1 : (33 * 1000000 + 11 * 1000000) / r + 1 = (33 * 1000000 + 11 * 1000000 + 1 * r) / r)
    by (rewrite Z.div_add by lia; reflexivity).
  assert (H2 : (33 * 1000000 + 11 * 1000000 + 1 * r) / r <= p_slot_bits p * 1000000 / r)
    by (apply Z.div_le_mono; nia).
  lia.
Qed.

(* ------------------------------------------------------------------------------------------ *)
(* decomposition of pmon_poll                                                                  *)

Section ZP.
Variables (p : params) (q : pmon) (s : pstep) (pp : bool).

Definition z_now : Z := s_now s.
Definition z_grew : bool := Nat.ltb (q_left q) (length (s_rx s)).
Definition z_tx_end : option Z :=
  match s_tx s with
  | Some w => Some (z_now + bits_to_time (p_baud p) (prop_bits_per_byte * Zlen w))
  | None => None
  end.
Definition z_ongoing : bool := match q_txend q with Some e => z_now <=? e | None => false end.
Definition z_looks : bool := negb (s_busy s) && negb z_ongoing.
Definition z_spur_now : bool := q_spur q && z_looks && match s_rx s with [] => false | _ => true end.
Definition z_consumed : bool := negb (Nat.eqb (s_consumed s) 0).
Definition z_quiet : bool := z_looks && negb z_grew && negb z_spur_now.
Definition z_gated : bool :=
  state_kind_eqb (v_kind (q_view q)) KPassToken || state_kind_eqb (v_kind (q_view q)) KUseToken ||
  (state_kind_eqb (v_kind (q_view q)) KClaimToken && negb (v_scan_await (q_view q))) ||
  (kind_in (v_kind (q_view q)) [KListenToken; KActiveIdle] && q_pending q).
Definition z_acted : bool :=
  z_consumed || negb (state_kind_eqb (v_kind (s_view s)) (v_kind (q_view q))) ||
  match s_tx s with Some _ => true | None => false end ||
  match s_calls s with [] => false | _ => true end ||
  negb (Bool.eqb (v_gap_due (q_view q)) (v_gap_due (s_view s))).
Definition z_over : bool :=
  match q_ref q with
  | Some r => r + slot_time p - p_bits_to_time p prop_bits_per_byte <=? z_now
  | None => false
  end.
Definition z_happened : bool := z_grew || s_busy s || z_consumed || z_spur_now.
Definition z_ref1 : option Z :=
  if z_happened then Some (zmax_opt (q_ref q) z_now)
  else match q_ref q with Some r => Some r | None => Some z_now end.
Definition z_ref2 : option Z := match z_tx_end with Some e => Some (zmax_opt z_ref1 e) | None => z_ref1 end.
Definition z_txend : option Z := match z_tx_end with Some e => Some e | None => q_txend q end.
Definition z_spur : bool :=
  if z_consumed then Nat.ltb (s_consumed s) (length (s_rx s))
  else if z_looks then false else (q_spur q || z_grew).
Definition z_q' : pmon := mkPmon (s_view s) pp (length (s_rx s) - s_consumed s) z_ref2 z_txend z_spur.
Definition z_errs : list prule :=
  if z_gated && z_quiet && z_over && negb z_acted then [P01_reaction_after_slot_time] else [].

Lemma pmon_poll_eq : pmon_poll p q s pp = (z_q', z_errs).
Proof. reflexivity. Qed.

(* the reference instant only moves forward; it is at least `now` when something happened *)
Lemma z_ref1_facts : exists r1, z_ref1 = Some r1 /\ (forall r, q_ref q = Some r -> r <= r1) /\ (z_happened = true -> z_now <= r1).
Proof.
  unfold z_ref1. destruct z_happened.
  - exists (zmax_opt (q_ref q) z_now). split; [reflexivity|]. split; [intros r ->; cbn; lia|intros _; destruct (q_ref q); cbn; lia].
  - destruct (q_ref q) as [r|].
    + exists r. split; [reflexivity|]. split; [intros r0 H; injection H as <-; lia|discriminate].
    + exists z_now. split; [reflexivity|]. split; [discriminate|discriminate].
Qed.

Lemma z_ref2_facts : exists r2, z_ref2 = Some r2 /\ (forall r1, z_ref1 = Some r1 -> r1 <= r2) /\ (forall e, z_tx_end = Some e -> e <= r2).
Proof.
  unfold z_ref2. destruct z_tx_end as [e|].
  - exists (zmax_opt z_ref1 e). split; [reflexivity|]. split; [intros r1 ->; cbn; lia|intros e0 H; injection H as <-; destruct z_ref1; cbn; lia].
  - destruct z_ref1_facts as (r1 & -> & _). exists r1. split; [reflexivity|]. split; [intros r0 H; injection H as <-; lia|discriminate].
Qed.

End ZP.

(* ------------------------------------------------------------------------------------------ *)
(* the transcript of the model with the driver's flags                                         *)

Section Model.
Variable A : Type.
Variable ops : app_ops A.
Variable p : params.

Fixpoint pmodel_events (f : fdl) (apps : list A) (buf : bytes) (ins : list minput) : list (event * bool) :=
  match ins with
  | [] => []
  | InApi a :: tl =>
      match api_result p a f with
      | Ok f' => (EApi a (view_of f'), psr_flag f') :: pmodel_events f' apps buf tl
      | _ => [(EApi a (view_of f), psr_flag f); (EPanic, false)]
      end
  | InPoll now busy nb :: tl =>
      match poll ops f now (mkPhyIn busy (buf ++ nb)) apps with
      | Ok (f', o, apps', calls) =>
          (EPoll (poll_event now busy (buf ++ nb) f' o calls), psr_flag f') :: pmodel_events f' apps' (rx_left o) tl
      | _ => [(EPanic, false)]
      end
  end.

Definition pmodel_transcript (apps : list A) (ins : list minput) : list (event * bool) :=
  match fdl_new p with
  | Ok f0 => (EApi ApiNew (view_of f0), psr_flag f0) :: pmodel_events f0 apps [] ins
  | _ => [(EApi ApiNew default_view, false); (EPanic, false)]
  end.

(* the events are those of FdlOracleSound1.model_events / model_transcript *)
Lemma pmodel_events_fst ins : forall f apps buf,
  map fst (pmodel_events f apps buf ins) = model_events A ops p f apps buf ins.
Proof.
  induction ins as [|x ins IH]; intros f apps buf; [reflexivity|].
  destruct x as [a|now busy nb]; cbn [pmodel_events model_events].
  - destruct (api_result p a f); [cbn [map fst]; rewrite IH; reflexivity|reflexivity|reflexivity].
  - destruct (poll ops f now _ apps) as [[[[f' o] apps'] calls]| |]; [cbn [map fst]; rewrite IH; reflexivity|reflexivity|reflexivity].
Qed.

Lemma pmodel_transcript_fst apps ins : map fst (pmodel_transcript apps ins) = model_transcript A ops p apps ins.
Proof.
  unfold pmodel_transcript, model_transcript. destruct (fdl_new p); [cbn [map fst]; rewrite pmodel_events_fst; reflexivity|reflexivity|reflexivity].
Qed.

End Model.

(* ------------------------------------------------------------------------------------------ *)
(* what one poll of the model does, as far as the monitor needs it                              *)

(* last_bus_activity after check_for_bus_activity *)
Definition lba1 (f : fdl) (now : Z) (rxb : bytes) : option Z :=
  if Nat.ltb (f_pending f) (length rxb)
  then Some (match f_lba f with Some l => Z.max l now | None => now end)
  else f_lba f.

Section Facts.
Variable A : Type.
Variable ops : app_ops A.
Variable p : params.
Hypothesis Hbv : builder_valid p.

Lemma poll_facts f now busy rxb (apps : list A) f' o apps' calls k :
  poll ops f now (mkPhyIn busy rxb) apps = Ok (f', o, apps', calls) -> Rep k f -> f_p f = p ->
  (f_conn f = ConnOffline /\ f_state f = Offline /\ f' = f /\ tx o = None /\ rx_left o = rxb /\ calls = []) \/
  (f_conn f = ConnOnline /\ (busy = true \/ C11Proofs.predicted f now = true) /\
     tx o = None /\ rx_left o = rxb /\ calls = [] /\
     synced (f_state f') = synced (f_state f) /\ f_pending f' = f_pending f /\
     f_lba f' = Some (Z.max (gv now (f_lba f)) now)) \/
  (f_conn f = ConnOnline /\ busy = false /\ C11Proofs.predicted f now = false /\
     (length (rx_left o) = length rxb ->
        (length rxb <= f_pending f')%nat /\ (tx o = None -> lbs now (lba1 f now rxb) (f_lba f'))) /\
     (gatedS (f_state f) = true -> forall l, lba1 f now rxb = Some l -> l + p_bits_to_time p sync_pause_bits < now ->
        tx o <> None \/ kind_of (f_state f') <> kind_of (f_state f) \/ gapdue f' <> gapdue f) /\
     (synced (f_state f) = false -> length (rx_left o) = length rxb -> tx o = None -> synced (f_state f') = false)).
Proof.
  intros E R Hp. pose proof (rep_conn _ _ R) as C. destruct (f_conn f) eqn:Hc.
  - left. assert (Hs : f_state f = Offline) by (destruct (f_state f); cbn in C; try congruence; try contradiction; reflexivity).
    rewrite (poll_offline_noop A ops f now _ apps Hc Hs) in E. injection E as E1 E2 E3 E4. subst f' o calls. cbn. tauto.
  - exfalso. destruct (f_state f); cbn in C; try congruence; contradiction.
  - right.
    destruct (poll_body A ops _ _ _ _ _ _ _ _ _ k E R Hc) as (f0 & w0 & w' & Hf0 & Hrx0 & Htx0 & Hca0 & Hb & -> & -> & ->).
    cbn [tx rx_left].
    assert (F0 : f_lba f0 = f_lba f /\ f_pending f0 = f_pending f /\ f_p f0 = f_p f /\ f_gap f0 = f_gap f /\
                 synced (f_state f0) = synced (f_state f) /\ (f_state f <> Offline -> f0 = f) /\
                 (synced (f_state f) = false -> exists c, f_state f0 = ListenToken None c)).
    { destruct Hf0 as [(Hn & ->)|(Hs & ->)].
      - repeat split; try reflexivity. intros Hsy. destruct (f_state f) as [ | |[x|] c| | | | | | | ] eqn:Es; try discriminate Hsy.
        + contradiction Hn; reflexivity.
        + exfalso. pose proof (rep_st _ _ R) as St. rewrite Es in St. exact St.
        + exists c. reflexivity.
      - cbn. rewrite Hs. repeat split; try reflexivity; [intros Cn; contradiction Cn; reflexivity|]. intros _. exists 0. reflexivity. }
    destruct F0 as (L0 & P0 & Q0 & G0 & Sy0 & Hsame & Hlis).
    assert (Hpred : C11Proofs.predicted f0 now = C11Proofs.predicted f now) by (unfold C11Proofs.predicted; rewrite L0; reflexivity).
    unfold C11Proofs.body in Hb. rewrite Hpred in Hb.
    destruct (busy || C11Proofs.predicted f now) eqn:Eb.
    + left. injection Hb as <- <-. split; [reflexivity|]. split; [apply orb_prop; exact Eb|].
      destruct (mark_bus_activity_spec f0 now) as (ML & MP & MS & _).
      cbn [w_tx w_rx w_calls note]. split; [exact Htx0|]. split; [exact Hrx0|]. split; [exact Hca0|].
      split; [rewrite MS; exact Sy0|]. split; [congruence|]. rewrite ML, L0. reflexivity.
    + right. apply orb_false_iff in Eb. destruct Eb as (Hbusy & Hnp).
      split; [reflexivity|]. split; [exact Hbusy|]. split; [exact Hnp|].
      destruct (check_for_bus_activity A f0 now w0) as [f1 w1] eqn:Ec. apply C11Proofs.cfba_spec in Ec.
      destruct Ec as ((Q1 & _ & _ & G1 & S1 & _) & Htx1 & Hca1 & Hrx1 & _ & Hcase).
      assert (Hl1 : f_lba f1 = lba1 f now rxb /\ plb A f1 w1).
      { unfold lba1, plb. rewrite Hrx1, Hrx0 in *. rewrite P0, L0 in Hcase.
        destruct (Nat.ltb_spec (f_pending f) (length rxb)) as [Hlt|Hge].
        - destruct Hcase as (-> & ->). split; [reflexivity|lia].
        - subst f1. split; [exact L0|lia]. }
      destruct Hl1 as (Hl1 & Hplb1).
      assert (Hw1 : w_tx w1 = None) by congruence.
      pose proof (dispatch_nm A ops now _ _ _ _ Hb Hw1) as (_ & Hn).
      assert (Hpast : forall l, f_lba f1 = Some l -> l <= now).
      { intros l. rewrite Hl1. unfold lba1. unfold C11Proofs.predicted in Hnp.
        destruct (f_lba f) as [l0|].
        - apply Z.leb_gt in Hnp. destruct (Nat.ltb (f_pending f) (length rxb)); intros H; injection H as <-; lia.
        - destruct (Nat.ltb (f_pending f) (length rxb)); intros H; [injection H as <-; lia|discriminate H]. }
      split; [|split].
      * intros Hlen. rewrite <- Hrx0, <- Hrx1 in Hlen. destruct (Hn Hlen) as (Pn & _ & Ln).
        split; [specialize (Pn Hplb1); unfold plb in Pn; rewrite <- Hrx0, <- Hrx1, <- Hlen; exact Pn|].
        intros Hnt. rewrite <- Hl1. exact (Ln Hnt).
      * intros Hg l El Hlt.
        assert (Hne : f_state f <> Offline) by (intros Cn; rewrite Cn in Hg; discriminate Hg).
        specialize (Hsame Hne). subst f0.
        assert (Hlt1 : l + sync_of f1 < now) by (unfold sync_of; rewrite Q1, Hp; exact Hlt).
        rewrite <- Hl1 in El. rewrite <- S1 in Hg.
        destruct (gated_acts A ops _ _ _ _ _ _ Hb Hg El Hlt1 Hw1) as [T|[K|G]].
        -- left. exact T.
        -- right. left. rewrite <- S1. exact K.
        -- right. right. unfold gapdue in *. rewrite G1 in G. exact G.
      * intros Hsy Hlen Hnt. destruct (Hlis Hsy) as (c & Es0).
        unfold C11Proofs.dispatch in Hb. rewrite S1, Es0 in Hb. cbn [kind_of poll_dispatch] in Hb.
        assert (Es1 : f_state f1 = ListenToken None c) by congruence.
        rewrite <- Hrx0, <- Hrx1 in Hlen.
        assert (Hst : 0 <= sync_of f1 < token_lost_timeout (f_p f1)).
        { unfold sync_of. split; [apply sync_nonneg|]. rewrite Q1, Q0, Hp. exact (sync_lt_timeout p Hbv). }
        rewrite (listen_none_quiet A _ _ _ _ _ _ Hb Es1 Hpast Hst Hlen Hnt). reflexivity.
Qed.

End Facts.

(* ------------------------------------------------------------------------------------------ *)
(* the invariant and its preservation                                                          *)

Section Sound.
Variable A : Type.
Variable ops : app_ops A.
Variable p : params.
Hypothesis Happs : apps_total A ops.
Hypothesis Hbv : builder_valid p.

Record PB (f : fdl) (apps : list A) (buf : bytes) (tl : Z) (q : pmon) : Prop := mkPB {
  pb_rep : Rep (length apps) f;
  pb_p : f_p f = p;
  pb_view : q_view q = view_of f;
  pb_pend : q_pending q = psr_flag f;
  pb_left : q_left q = length buf;
  pb_cnt : (f_pending f <= length buf)%nat;
  pb_bytes : all_bytes buf;
  pb_tl : 0 <= tl;
  pb_none : f_lba f = None -> f_state f = Offline;
  pb_te : forall e, q_txend q = Some e -> e <= tl \/ f_lba f = Some e;
  pb_lt : forall l, f_lba f = Some l -> l <= tl \/ q_txend q = Some l;
  pb_sync : synced (f_state f) = true -> forall l, f_lba f = Some l ->
            exists r, q_ref q = Some r /\ l <= r /\ (q_spur q = false -> (length buf <= f_pending f)%nat)
}.

(* the monitor's `gated` is gatedS of the station state *)
Lemma gated_eq f q : q_view q = view_of f -> q_pending q = psr_flag f -> z_gated q = gatedS (f_state f).
Proof.
  intros Hv Hpd. unfold z_gated. rewrite Hv, Hpd. unfold view_of, psr_flag. cbn [v_kind v_scan_await].
  destruct (f_state f) as [ | |[x|] cc|[x|] nps cc| | [ | | |a]| | | | ]; reflexivity.
Qed.

(* "my transmission may still be going on": the monitor and the station agree *)
Lemma ongoing_pred f apps buf tl q s now :
  PB f apps buf tl q -> tl < now -> s_now s = now -> z_ongoing q s = C11Proofs.predicted f now.
Proof.
  intros HB Hlt Hn. unfold z_ongoing, C11Proofs.predicted, z_now. rewrite Hn.
  destruct (q_txend q) as [e|] eqn:Ee.
  - destruct (pb_te _ _ _ _ _ HB e Ee) as [H|H].
    + destruct (Z.leb_spec now e); [lia|]. destruct (f_lba f) as [l|] eqn:El; [|reflexivity].
      destruct (pb_lt _ _ _ _ _ HB l El) as [H2|H2]; [destruct (Z.leb_spec now l); [lia|reflexivity]|].
      rewrite Ee in H2. injection H2 as ->. destruct (Z.leb_spec now l); [lia|reflexivity].
    + rewrite H. reflexivity.
  - destruct (f_lba f) as [l|] eqn:El; [|reflexivity].
    destruct (pb_lt _ _ _ _ _ HB l El) as [H2|H2]; [destruct (Z.leb_spec now l); [lia|reflexivity]|congruence].
Qed.

Lemma pb_poll f apps buf tl q now busy nb f' o apps' calls :
  PB f apps buf tl q -> tl < now -> time_ok now -> all_bytes nb ->
  poll ops f now (mkPhyIn busy (buf ++ nb)) apps = Ok (f', o, apps', calls) ->
  let s := poll_event now busy (buf ++ nb) f' o calls in
  z_errs p q s = [] /\ PB f' apps' (rx_left o) now (z_q' p q s (psr_flag f')).
Proof.
  intros HB Hlt Hnow Hnb E s.
  pose proof (ongoing_pred _ _ _ _ _ s now HB Hlt eq_refl) as Hong.
  destruct HB as [R Hp Hv Hpd Hl Hcnt Hb Htl Hnone Hte Hlt' Hsync].
  set (rxb := buf ++ nb) in *.
  assert (Hrx : all_bytes rxb) by (apply all_bytes_app; assumption).
  destruct (poll_rep_step A ops Happs f now (mkPhyIn busy rxb) apps R Hnow Hrx) as (f'' & o'' & apps'' & c'' & E' & R' & L').
  rewrite E in E'. injection E' as <- <- <- <-.
  destruct (poll_bk A ops now _ _ _ _ _ _ _ E) as ((k & Ek) & Pp & Qp & Lk & _). cbn [rx tx_busy] in Ek, Pp, Lk.
  pose proof (poll_facts A ops p Hbv _ _ _ _ _ _ _ _ _ _ E R Hp) as PF.
  assert (Hlen_left : (length (rx_left o) <= length rxb)%nat) by (rewrite Ek, skipn_length; lia).
  assert (Hbuf_le : (length buf <= length rxb)%nat) by (unfold rxb; rewrite app_length; lia).
  assert (Hgrew : z_grew q s = Nat.ltb (length buf) (length rxb)) by (unfold z_grew; rewrite Hl; reflexivity).
  assert (Hcons : z_consumed s = negb (Nat.eqb (length rxb - length (rx_left o)) 0)) by reflexivity.
  assert (Hcons0 : z_consumed s = false <-> length (rx_left o) = length rxb).
  { rewrite Hcons. destruct (Nat.eqb_spec (length rxb - length (rx_left o)) 0); cbn; split; intros; try lia; try discriminate; reflexivity. }
  assert (Hlooks : z_looks q s = negb busy && negb (C11Proofs.predicted f now)) by (unfold z_looks; rewrite Hong; reflexivity).
  assert (Htxe : z_tx_end p s = match tx o with Some w => Some (now + dur p (length w)) | None => None end) by reflexivity.
  destruct (z_ref1_facts q s) as (r1 & Er1 & Hr1 & Hhap).
  destruct (z_ref2_facts p q s) as (r2 & Er2 & Hr12 & Hr2e). specialize (Hr12 r1 Er1).
  change (z_now s) with now in Hhap.
  (* a poll that looks at the buffer and transmits nothing leaves last_bus_activity at most at `now` *)
  assert (Hle_now : C11Proofs.predicted f now = false -> tx o = None -> forall l', f_lba f' = Some l' -> l' <= now).
  { intros Hnp Etx l' El'. rewrite Etx in Lk. unfold C11Proofs.predicted in Hnp.
    destruct Lk as [[L|[L|(_ & L)]]|((_ & _ & _ & L) & _)].
    - rewrite L in El'. rewrite El' in Hnp. apply Z.leb_gt in Hnp. lia.
    - rewrite L in El'. injection El' as <-. destruct (f_lba f) as [l|]; cbn [gv]; [apply Z.leb_gt in Hnp; lia|lia].
    - rewrite L in El'. injection El' as <-. destruct (f_lba f) as [l|]; cbn [gv]; [apply Z.leb_gt in Hnp; lia|lia].
    - destruct L as [L|L]; rewrite L in El'; [discriminate El'|injection El' as <-; lia]. }
  (* the spurious-growth flag after a poll that looked: nothing consumed, or the buffer is empty *)
  assert (Hspur_looked : z_looks q s = true -> z_spur q s = false ->
            length (rx_left o) = length rxb \/ length (rx_left o) = 0%nat).
  { intros Hlk Hsp. unfold z_spur in Hsp. destruct (z_consumed s) eqn:Ec.
    - right. apply Nat.ltb_ge in Hsp. cbn [s poll_event s_consumed s_rx] in Hsp. lia.
    - left. apply Hcons0. reflexivity. }
  (* when the monitor sees nothing happen, check_for_bus_activity marks nothing *)
  assert (Hnomark : z_happened q s = false -> z_looks q s = true ->
            (q_spur q = false -> (length buf <= f_pending f)%nat) -> lba1 f now rxb = f_lba f).
  { intros Hh Hlk Hsp. unfold z_happened in Hh.
    apply orb_false_iff in Hh. destruct Hh as (Hh & Hsn). apply orb_false_iff in Hh. destruct Hh as (Hh & _).
    apply orb_false_iff in Hh. destruct Hh as (Hg & _). rewrite Hgrew in Hg. apply Nat.ltb_ge in Hg.
    unfold lba1. replace (Nat.ltb (f_pending f) (length rxb)) with false; [reflexivity|]. symmetry. apply Nat.ltb_ge.
    unfold z_spur_now in Hsn. rewrite Hlk in Hsn. cbn [s poll_event s_rx] in Hsn.
    destruct (q_spur q); [|specialize (Hsp eq_refl); lia].
    destruct rxb; [cbn; lia|discriminate Hsn]. }
  split.
  - (* the rule does not fire *)
    unfold z_errs. destruct (z_gated q && z_quiet q s && z_over p q s && negb (z_acted q s)) eqn:Ec; [exfalso|reflexivity].
    apply andb_true_iff in Ec. destruct Ec as (Ec & Hact). apply andb_true_iff in Ec. destruct Ec as (Ec & Hover).
    apply andb_true_iff in Ec. destruct Ec as (Hg & Hq).
    rewrite (gated_eq f q Hv Hpd) in Hg.
    unfold z_quiet in Hq. apply andb_true_iff in Hq. destruct Hq as (Hq & Hnsp). apply andb_true_iff in Hq. destruct Hq as (Hlk & Hng).
    apply negb_true_iff in Hnsp, Hng, Hact.
    unfold z_acted in Hact.
    apply orb_false_iff in Hact. destruct Hact as (Hact & Hc5). apply orb_false_iff in Hact. destruct Hact as (Hact & Hc4).
    apply orb_false_iff in Hact. destruct Hact as (Hact & Hc3). apply orb_false_iff in Hact. destruct Hact as (Hc1 & Hc2).
    apply negb_false_iff in Hc2, Hc5.
    rewrite Hv in Hc2, Hc5. cbn [s poll_event s_view s_tx view_of v_kind v_gap_due] in Hc2, Hc3, Hc5.
    assert (Etx : tx o = None) by (destruct (tx o); [discriminate Hc3|reflexivity]).
    assert (Hk : kind_of (f_state f') = kind_of (f_state f)) by (destruct (kind_of (f_state f')), (kind_of (f_state f)); try discriminate Hc2; reflexivity).
    assert (Hgd : gapdue f' = gapdue f) by (unfold gapdue; destruct (f_gap f'), (f_gap f); try discriminate Hc5; reflexivity).
    pose proof (gatedS_synced _ Hg) as Hsy.
    assert (Hne : f_state f <> Offline) by (intros Cn; rewrite Cn in Hg; discriminate Hg).
    destruct (f_lba f) as [l|] eqn:El; [|exact (Hne (Hnone eq_refl))].
    destruct (Hsync Hsy l eq_refl) as (r & Er & Hlr & Hsp).
    rewrite Hlooks in Hlk. apply andb_true_iff in Hlk. destruct Hlk as (Hnb' & Hnpr). apply negb_true_iff in Hnb', Hnpr.
    destruct PF as [(Hc & Hs & _)|[(_ & [Cb|Cp] & _)|(_ & _ & _ & _ & Hgate & _)]];
      [exact (Hne Hs)|congruence|congruence|].
    assert (Hl1 : lba1 f now rxb = Some l).
    { apply Hnomark; [|rewrite Hlooks, Hnb', Hnpr; reflexivity|exact Hsp].
      unfold z_happened. rewrite Hng, Hc1, Hnsp. cbn [s poll_event s_busy]. rewrite Hnb'. reflexivity. }
    unfold z_over in Hover. rewrite Er in Hover. change (z_now s) with now in Hover. apply Z.leb_le in Hover.
    pose proof (sync_char_lt_slot p Hbv) as Harith.
    destruct (Hgate Hg l Hl1 ltac:(lia)) as [T|[K|G]]; [exact (T Etx)|exact (K Hk)|exact (G Hgd)].
  - (* the invariant *)
    constructor.
    + rewrite L'. exact R'.
    + congruence.
    + reflexivity.
    + reflexivity.
    + cbn [z_q' q_left s poll_event s_rx s_consumed]. lia.
    + apply Pp. lia.
    + rewrite Ek. apply all_bytes_skipn. exact Hrx.
    + destruct Hnow. lia.
    + (* pb_none *)
      intros E1. destruct (tx o) as [wire|] eqn:Etx.
      { destruct Lk as (L & _). rewrite L in E1. discriminate E1. }
      destruct Lk as [[L|[L|(_ & L)]]|((S1 & _) & _)]; [|rewrite L in E1; discriminate E1|rewrite L in E1; discriminate E1|exact S1].
      rewrite E1 in L. symmetry in L. pose proof (Hnone L) as Hs.
      destruct PF as [(_ & _ & -> & _)|[(_ & _ & _ & _ & _ & _ & _ & L1)|(Hc & _)]]; [exact Hs|rewrite L1 in E1; discriminate E1|].
      destruct (poll_online_lba_some A ops now _ _ _ _ _ _ _ E Hc Hs L) as [C|(S1 & _)]; [contradiction|exact S1].
    + (* pb_te *)
      cbn [z_q' q_txend]. unfold z_txend. rewrite Htxe. intros e He.
      destruct (tx o) as [wire|] eqn:Etx.
      { injection He as <-. right. destruct Lk as (L & _). rewrite L, Hp. reflexivity. }
      destruct (Hte e He) as [H|H]; [left; lia|].
      destruct Lk as [[L|[L|(_ & L)]]|(_ & Hpast)].
      * right. congruence.
      * right. rewrite L, H. reflexivity.
      * rewrite L, H. cbn [gv]. destruct (Z.le_gt_cases now e); [right; f_equal; lia|left; lia].
      * left. specialize (Hpast e H). lia.
    + (* pb_lt *)
      cbn [z_q' q_txend]. unfold z_txend. rewrite Htxe. intros l' El'.
      destruct (tx o) as [wire|] eqn:Etx.
      { right. destruct Lk as (L & _). rewrite L, Hp in El'. injection El' as <-. reflexivity. }
      destruct Lk as [[L|[L|(_ & L)]]|((_ & _ & _ & L) & _)].
      * rewrite L in El'. destruct (Hlt' l' El') as [H|H]; [left; lia|right; exact H].
      * rewrite L in El'. injection El' as <-. destruct (f_lba f) as [l|] eqn:El; cbn [gv]; [|left; lia].
        destruct (Hlt' l eq_refl) as [H|H]; [left; lia|right; exact H].
      * rewrite L in El'. injection El' as <-. destruct (f_lba f) as [l|] eqn:El; cbn [gv]; [|left; lia].
        destruct (Z.le_gt_cases l now); [left; lia|]. destruct (Hlt' l eq_refl) as [H0|H0]; [lia|right; rewrite H0; f_equal; lia].
      * destruct L as [L|L]; rewrite L in El'; [discriminate El'|injection El' as <-; left; lia].
    + (* pb_sync *)
      cbn [z_q' q_ref q_spur]. intros Hsy' l' El'. exists r2. split; [exact Er2|].
      destruct PF as [(Hc & Hs & -> & _)|[(Hc & Hearly & Etx & Erx & _ & Hsy & Hpd' & L1)|(Hc & Hnb' & Hnpr & Hnm & _ & Hlis)]].
      * rewrite Hs in Hsy'. discriminate Hsy'.
      * (* the poll ended at the check for an ongoing transmission *)
        rewrite Hsy in Hsy'.
        assert (Hne : f_state f <> Offline) by (intros Cn; rewrite Cn in Hsy'; discriminate Hsy').
        destruct (f_lba f) as [l|] eqn:El; [|exact (False_ind _ (Hne (Hnone eq_refl)))].
        destruct (Hsync Hsy' l eq_refl) as (r & Er & Hlr & Hsp). specialize (Hr1 r Er).
        rewrite L1 in El'. injection El' as <-. cbn [gv].
        assert (Hnl : z_looks q s = false).
        { rewrite Hlooks. destruct Hearly as [-> | ->]; [reflexivity|apply andb_false_r]. }
        split.
        -- destruct Hearly as [Cb|Cp].
           ++ assert (Hh : z_happened q s = true) by (unfold z_happened; cbn [s poll_event s_busy]; rewrite Cb; rewrite !orb_true_r; reflexivity).
              specialize (Hhap Hh). lia.
           ++ unfold C11Proofs.predicted in Cp. rewrite El in Cp. apply Z.leb_le in Cp. lia.
        -- unfold z_spur. rewrite (proj2 Hcons0) by (rewrite Erx; reflexivity). rewrite Hnl. intros Hs0.
           apply orb_false_iff in Hs0. destruct Hs0 as (Hs1 & Hs2). rewrite Hgrew in Hs2. apply Nat.ltb_ge in Hs2.
           specialize (Hsp Hs1). rewrite Erx, Hpd'. lia.
      * (* the poll looked at the receive buffer *)
        assert (Hlk : z_looks q s = true) by (rewrite Hlooks, Hnb', Hnpr; reflexivity).
        split.
        -- destruct (tx o) as [wire|] eqn:Etx.
           { destruct Lk as (L & _). rewrite L, Hp in El'. injection El' as <-. apply Hr2e. rewrite Htxe. reflexivity. }
           pose proof (Hle_now Hnpr eq_refl l' El') as Hln.
           destruct (z_happened q s) eqn:Hh; [specialize (Hhap eq_refl); lia|].
           assert (Hc0 : length (rx_left o) = length rxb).
           { apply Hcons0. unfold z_happened in Hh. apply orb_false_iff in Hh. destruct Hh as (Hh & _).
             apply orb_false_iff in Hh. destruct Hh as (_ & Hh). exact Hh. }
           destruct (synced (f_state f)) eqn:Hsy.
           ++ assert (Hne : f_state f <> Offline) by (intros Cn; rewrite Cn in Hsy; discriminate Hsy).
              destruct (f_lba f) as [l|] eqn:El; [|exact (False_ind _ (Hne (Hnone eq_refl)))].
              destruct (Hsync eq_refl l eq_refl) as (r & Er & Hlr & Hsp). specialize (Hr1 r Er).
              destruct (Hnm Hc0) as (_ & Hlbs). specialize (Hlbs eq_refl).
              rewrite (Hnomark eq_refl Hlk Hsp) in Hlbs. apply lbs_some in Hlbs. rewrite Hlbs in El'. injection El' as <-. lia.
           ++ rewrite (Hlis eq_refl Hc0 eq_refl) in Hsy'. discriminate Hsy'.
        -- intros Hs0. destruct (Hspur_looked Hlk Hs0) as [Hc0|Hc0]; [|lia].
           destruct (Hnm Hc0) as (Hp0 & _). lia.
Qed.

(* ---- API calls ---- *)

Definition pmon_after_api (a : api_call) (v : view) (pending : bool) (q : pmon) : pmon :=
  match a with
  | ApiOnline => mkPmon v pending (q_left q) (q_ref q) (q_txend q) (q_spur q)
  | ApiPassive => q
  | _ => pmon_reset v pending (q_left q)
  end.

Lemma pb_new f1 apps buf tl left : fdl_new p = Ok f1 -> all_bytes buf -> 0 <= tl -> left = length buf ->
  PB f1 apps buf tl (pmon_reset (view_of f1) (psr_flag f1) left).
Proof.
  intros E1 Hb Htl ->. destruct (fdl_new_rep (length apps) p Hbv) as (f0 & E0 & R0 & _). rewrite E1 in E0. injection E0 as <-.
  destruct (fdl_new_fields _ _ E1) as (S1 & _ & L1 & P1 & Q1).
  constructor; try assumption; try reflexivity.
  - rewrite P1. lia.
  - intros _. exact S1.
  - intros e C. discriminate C.
  - intros l C. rewrite L1 in C. discriminate C.
  - rewrite S1. intros C. discriminate C.
Qed.

Lemma pb_api a f apps buf tl q f' :
  PB f apps buf tl q -> api_result p a f = Ok f' ->
  PB f' apps buf tl (pmon_after_api a (view_of f') (psr_flag f') q).
Proof.
  intros HB E. pose proof HB as [R Hp Hv Hpd Hl Hcnt Hb Htl Hnone Hte Hlt' Hsync].
  destruct a; cbn [api_result pmon_after_api] in *.
  - apply pb_new; try assumption.
  - unfold set_online, set_state in E. injection E as <-.
    destruct (Rep_set_online _ f R) as (f1 & E1 & R1). unfold set_online, set_state in E1. injection E1 as <-.
    constructor; try assumption; reflexivity.
  - unfold set_offline, set_state in E. rewrite Hp in E. apply pb_new; try assumption.
  - discriminate E.
Qed.

(* ---- the induction over the transcript ---- *)

Theorem prompt_sound_from : forall ins f apps buf tl q i,
  PB f apps buf tl q -> ins_ok tl ins ->
  pmonitor_from p i (Some q) (pmodel_events A ops p f apps buf ins) = [].
Proof.
  induction ins as [|x ins IH]; intros f apps buf tl q i HB Hok; [reflexivity|].
  destruct x as [a|now busy nb]; cbn [pmodel_events].
  - cbn [ins_ok] in Hok. destruct (api_result p a f) as [f'| |] eqn:Ea.
    + pose proof (pb_api _ _ _ _ _ _ _ HB Ea) as HB'.
      assert (Hq : pmonitor_from p i (Some q) ((EApi a (view_of f'), psr_flag f') :: pmodel_events A ops p f' apps buf ins) =
                   pmonitor_from p (S i) (Some (pmon_after_api a (view_of f') (psr_flag f') q)) (pmodel_events A ops p f' apps buf ins))
        by (destruct a; reflexivity).
      rewrite Hq. exact (IH _ _ _ _ _ _ HB' Hok).
    + destruct a; reflexivity.
    + destruct a; reflexivity.
  - cbn [ins_ok] in Hok. destruct Hok as (Htl & Hnow & Hnb & Hok).
    destruct (poll ops f now (mkPhyIn busy (buf ++ nb)) apps) as [[[[f' o] apps'] calls]| |] eqn:Ep; try reflexivity.
    destruct (pb_poll _ _ _ _ _ _ _ _ _ _ _ _ HB Htl Hnow Hnb Ep) as (He & HB').
    cbn [pmonitor_from]. rewrite pmon_poll_eq, He. cbn [map app]. exact (IH _ _ _ _ _ _ HB' Hok).
Qed.

Theorem prompt_sound_transcript (apps : list A) (ins : list minput) :
  ins_ok 0 ins -> pmonitor p (pmodel_transcript A ops p apps ins) = [].
Proof.
  intros Hok. unfold pmonitor. destruct (builder_validb p); [|reflexivity].
  unfold pmodel_transcript. destruct (fdl_new p) as [f0| |] eqn:E0; [|reflexivity|reflexivity].
  cbn [pmonitor_from].
  apply (prompt_sound_from ins f0 apps [] 0); [|exact Hok].
  apply pb_new; [exact E0|constructor|lia|reflexivity].
Qed.

End Sound.

(* for ALL parameters (pmonitor checks builder_validb itself) *)
Theorem prompt_monitor_sound (A : Type) (ops : app_ops A) (p : params) :
  apps_total A ops -> forall (apps : list A) (ins : list minput),
  ins_ok 0 ins -> pmonitor p (pmodel_transcript A ops p apps ins) = [].
Proof.
  intros Happs apps ins Hok. destruct (builder_validb p) eqn:Eb.
  - exact (prompt_sound_transcript A ops p Happs (builder_validb_valid p Eb) apps ins Hok).
  - unfold pmonitor. rewrite Eb. reflexivity.
Qed.

(* ------------------------------------------------------------------------------------------ *)
(* the statements in terms of pmon_poll (for Properties/C01.v)                                   *)

Lemma prompt_poll_step (A : Type) (ops : app_ops A) (p : params) :
  apps_total A ops -> builder_valid p ->
  forall f apps buf tl q now busy nb f' o apps' calls,
  PB A p f apps buf tl q -> tl < now -> time_ok now -> all_bytes nb ->
  poll ops f now (mkPhyIn busy (buf ++ nb)) apps = Ok (f', o, apps', calls) ->
  snd (pmon_poll p q (poll_event now busy (buf ++ nb) f' o calls) (psr_flag f')) = [] /\
  PB A p f' apps' (rx_left o) now (fst (pmon_poll p q (poll_event now busy (buf ++ nb) f' o calls) (psr_flag f'))).
Proof.
  intros Happs Hbv f apps buf tl q now busy nb f' o apps' calls HB Hlt Hnow Hnb E.
  rewrite pmon_poll_eq. cbn [fst snd]. exact (pb_poll A ops p Happs Hbv _ _ _ _ _ _ _ _ _ _ _ _ HB Hlt Hnow Hnb E).
Qed.

Lemma prompt_invariant_init (A : Type) (p : params) : builder_valid p ->
  forall (apps : list A) f0, fdl_new p = Ok f0 -> PB A p f0 apps [] 0 (pmon_reset (view_of f0) (psr_flag f0) 0).
Proof. intros Hbv apps f0 E0. apply pb_new; [exact Hbv|exact E0|constructor|lia|reflexivity]. Qed.

(* ------------------------------------------------------------------------------------------ *)
(* non-vacuity                                                                                  *)

(* (a) a model history (station 3, 19.2 kbit/s, no applications) that claims the token on a silent bus and starts the
   post-claim scan: polls while the own claim token is still on the wire, polls inside the synchronisation pause
   (the gated state ClaimToken, nothing happens, the monitor waits), then the next transmission - accepted. *)
Definition ex_prompt_params : params := mkParams 3 B19200 100 80000 1 16 1 11 None.
Definition ex_prompt_inputs : list minput :=
  [InApi ApiOnline; InPoll 834 false []; InPoll 70000 false []; InPoll 70100 false []; InPoll 71000 false [];
   InPoll 72700 false []; InPoll 72800 false []; InPoll 73000 false []; InPoll 75000 false []; InPoll 76000 false [];
   InPoll 78000 false []; InPoll 79000 false []; InPoll 82000 false []].

Definition poll_summary (e : event * bool) : option (Z * state_kind * bool) :=
  match fst e with
  | EPoll s => Some (s_now s, v_kind (s_view s), match s_tx s with Some _ => true | None => false end)
  | _ => None
  end.

Lemma prompt_example :
  builder_validb ex_prompt_params = true /\ ins_ok 0 ex_prompt_inputs /\
  pmonitor ex_prompt_params (pmodel_transcript unit unit_app_ops ex_prompt_params [] ex_prompt_inputs) = [] /\
  map poll_summary (pmodel_transcript unit unit_app_ops ex_prompt_params [] ex_prompt_inputs) =
    [None; None; Some (834, KListenToken, false);
     Some (70000, KClaimToken, true); Some (70100, KClaimToken, false); Some (71000, KClaimToken, false);
     Some (72700, KClaimToken, false); Some (72800, KClaimToken, false); Some (73000, KClaimToken, false);
     Some (75000, KClaimToken, true); Some (76000, KClaimToken, false); Some (78000, KClaimToken, false);
     Some (79000, KClaimToken, true); Some (82000, KClaimToken, false)].
Proof.
  split; [reflexivity|]. split.
  { cbn. unfold time_ok, all_bytes. repeat split; try lia; repeat constructor. }
  split; vm_compute; reflexivity.
Qed.

(* (b) the monitor is not trivially silent: a station that sits in PassToken on a silent bus for longer than a slot
   time without doing anything is reported *)
Definition ex_stuck_view : view := mkView ConnOnline true KPassToken 4 2 true [2; 3; 4] false false.
Definition ex_stuck_events : list (event * bool) :=
  [(EApi ApiNew ex_stuck_view, false);
   (EPoll (mkPStep 1000 false [] None 0 [] ex_stuck_view), false);
   (EPoll (mkPStep 7000 false [] None 0 [] ex_stuck_view), false)].

Lemma prompt_monitor_fires :
  pmonitor ex_prompt_params ex_stuck_events = [(2%nat, P01_reaction_after_slot_time)].
Proof. vm_compute. reflexivity. Qed.
