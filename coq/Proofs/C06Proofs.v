(* C06, single-station half (recovery mechanisms of one station) over Model/Fdl.v:
   claim only after the station's own silence time-out (claim_needs_timeout, used by C01 too) and the
   address stagger of that time-out; back-off to ActiveIdle on unexpected telegrams; the address-collision
   counters; discarding of undecodable bytes; a lone station on a silent bus claims the token at the
   first poll after its time-out. *)
From PB Require Import Common Tables FdlTables Telegram Phy TokenRing Params Fdl FdlProofs FdlStepProofs DecodeSpec C16Proofs C11Proofs.

(* the expected answer to a GAP poll of address a: a response telegram from a to this station *)
Definition gap_reply_from (tsa a : Z) (t : telegram) : bool :=
  match t with
  | TData (mkHeader da sa _ _ (FcResponse _ _)) _ => (sa =? a) && (da =? tsa)
  | _ => false
  end.

(* states in which the station looks at the receive buffer *)
Definition listens (s : state) : bool :=
  match s with
  | ListenToken None _ | ActiveIdle None _ _ | ClaimToken (StepScanAwaitResponse _)
  | AwaitDataResponse _ _ _ | CheckTokenPass _ | AwaitStatusResponse _ => true
  | _ => false
  end.

(* ------------------------------------------------------------------------------------------ *)
(* the stagger of the token-lost time-out: (6 + 2 * TS) * Tslot (constants regenerated)          *)

Lemma baud_pos b : 0 < baud_to_rate b.
Proof. destruct b; cbn; lia. Qed.

Lemma token_lost_timeout_stagger p1 p2 :
  p_baud p1 = p_baud p2 -> p_slot_bits p1 = p_slot_bits p2 -> 0 <= p_slot_bits p1 ->
  p_address p1 < p_address p2 ->
  token_lost_timeout p1 + 2 * (p_address p2 - p_address p1) * slot_time p1 <= token_lost_timeout p2.
Proof.
  intros Hb Hs Hs0 Ha.
  unfold token_lost_timeout, slot_time, p_bits_to_time, bits_to_time. rewrite <- Hb, <- Hs.
  unfold token_lost_base, token_lost_per_addr.
  pose proof (baud_pos (p_baud p1)) as HR. set (R := baud_to_rate (p_baud p1)) in *.
  set (S := p_slot_bits p1 * 1000000). set (k := 2 * (p_address p2 - p_address p1)).
  replace (p_slot_bits p1 * (6 + 2 * p_address p2) * 1000000) with (p_slot_bits p1 * (6 + 2 * p_address p1) * 1000000 + k * S)
    by (unfold k, S; ring).
  set (x := p_slot_bits p1 * (6 + 2 * p_address p1) * 1000000).
  apply Z.div_le_lower_bound; [exact HR|].
  pose proof (Z.mul_div_le x R HR) as H1. pose proof (Z.mul_div_le S R HR) as H2.
  assert (Hk : 0 <= k) by (unfold k; lia).
  rewrite Z.mul_add_distr_l.
  assert (H3 : R * (k * (S / R)) <= k * S).
  { replace (R * (k * (S / R))) with (k * (R * (S / R))) by ring. apply Z.mul_le_mono_nonneg_l; assumption. }
  lia.
Qed.

(* strictly increasing in the address as soon as the slot time is at least one clock tick *)
Lemma token_lost_timeout_increasing p1 p2 :
  p_baud p1 = p_baud p2 -> p_slot_bits p1 = p_slot_bits p2 -> 0 <= p_slot_bits p1 -> 1 <= slot_time p1 ->
  p_address p1 < p_address p2 -> token_lost_timeout p1 + 2 * slot_time p1 <= token_lost_timeout p2.
Proof.
  intros Hb Hs Hs0 Hst Ha. pose proof (token_lost_timeout_stagger p1 p2 Hb Hs Hs0 Ha) as H.
  assert (2 * slot_time p1 <= 2 * (p_address p2 - p_address p1) * slot_time p1) by nia. lia.
Qed.

Section WithApps.
Variable A : Type.
Variable ops : app_ops A.
Notation W := (world A).

(* ------------------------------------------------------------------------------------------ *)
(* claims                                                                                      *)

Lemma handle_lost_token_cases f now (w : W) f' w' d : handle_lost_token A f now w = Ok (f', w', d) ->
  exists l, (match f_lba f with Some l0 => l = l0 | None => l = now end) /\
    if d then token_lost_timeout (f_p f) <= Z.abs (now - l) else Z.abs (now - l) < token_lost_timeout (f_p f).
Proof.
  unfold handle_lost_token. destruct (lba_get_or_insert f now) as [l f0] eqn:El.
  apply lba_get_or_insert_same in El. destruct El as [[Hp _] [_ Hm]].
  unfold inst_diff. destruct (i64_ok (now - l)); cbn [bind]; [|discriminate].
  rewrite Hp. destruct (Z.leb_spec (token_lost_timeout (f_p f)) (Z.abs (now - l))) as [C|C]; intros H.
  - match type of H with bind ?x _ = _ => destruct x as [[f1 w1]| |] end; cbn [bind] in H; try discriminate H.
    match type of H with bind ?x _ = _ => destruct x as [[f2 w2]| |] end; cbn [bind] in H; try discriminate H.
    injection H as _ _ <-. exists l. split; assumption.
  - injection H as _ _ <-. exists l. split; assumption.
Qed.

(* do_active_idle either claims through handle_lost_token or stays among ActiveIdle / UseToken / ListenToken *)
Lemma do_active_idle_cases f now (w : W) f' w' :
  do_active_idle A f now w = Ok (f', w') ->
  handle_lost_token A f now w = Ok (f', w', true) \/
  ((exists f0, handle_lost_token A f now w = Ok (f0, w, false)) /\ heard_kind (f_state f')).
Proof.
  intros H. unfold do_active_idle, assert_entry in H.
  destruct (f_state f) as [ | | |sr nps cc| | | | | | ] eqn:Es; cbn [kind_of do_fn_entry state_kind_eqb bind] in H; try discriminate H.
  destruct (handle_lost_token A f now w) as [[[f0 w0] d]| |] eqn:Eh; cbn [bind] in H; try discriminate H.
  destruct d; [injection H as <- <-; left; reflexivity|].
  right.
  assert (Hf0 : same_but_lba f f0 /\ w0 = w).
  { unfold handle_lost_token in Eh. destruct (lba_get_or_insert f now) as [l g] eqn:El.
    apply lba_get_or_insert_same in El. destruct El as [Hsame _].
    destruct (inst_diff now l); cbn [bind] in Eh; try discriminate Eh.
    destruct (token_lost_timeout (f_p g) <=? _).
    - match type of Eh with bind ?x _ = _ => destruct x as [[f1 w1]| |] end; cbn [bind] in Eh; try discriminate Eh.
      match type of Eh with bind ?x _ = _ => destruct x as [[f2 w2]| |] end; cbn [bind] in Eh; discriminate Eh.
    - injection Eh as <- <-. split; [exact Hsame|reflexivity]. }
  destruct Hf0 as [[_ [_ [_ [_ [Hs0 _]]]]] ->]. split; [exists f0; reflexivity|].
  rewrite Hs0, Es in H. cbn [get_active_idle bind] in H.
  destruct sr as [src|].
  - destruct (wait_synchronization_pause f0 now) as [[f1 wait]| |] eqn:Ew; cbn [bind] in H; try discriminate H.
    apply wait_sync_same in Ew. destruct Ew as [[_ [_ [_ [_ [Hs1 _]]]]] _].
    destruct wait; [injection H as <- <-; rewrite Hs1, Hs0, Es; exact I|].
    destruct (phy_send A w _) as [[w1 n]| |]; cbn [bind] in H; try discriminate H.
    destruct (mark_tx _ now n) as [f2| |] eqn:Em; cbn [bind] in H; try discriminate H.
    injection H as <- <-. apply mark_tx_same in Em. destruct Em as [_ [_ [_ [_ [Hs2 _]]]]]. rewrite Hs2. exact I.
  - unfold receive_all_telegrams in H.
    destruct (receive_all _ _ _ _) as [[[s1 rest] r]| |] eqn:Er; cbn [bind] in H; try discriminate H.
    destruct s1 as [f1 w1]. injection H as <- <-.
    refine (receive_all_inv (fun s : fdl * W => heard_kind (f_state (fst s))) (active_idle_telegram A now) _ _ (f0, w) _ (f1, w1) rest r _ Er).
    + intros s t il s' u Hp Hc. exact (active_idle_telegram_heard A now s t il s' u Hp Hc).
    + cbn [fst]. rewrite Hs0, Es. exact I.
Qed.

Lemma heard_not_claim s : heard_kind s -> kind_of s <> KClaimToken.
Proof. destruct s; cbn; try contradiction; discriminate. Qed.

Lemma lba_seen_cfba f now (w : W) f1 w1 l :
  check_for_bus_activity A f now w = (f1, w1) ->
  (match f_lba f1 with Some l0 => l = l0 | None => l = now end) -> l = lba_seen f now (length (w_rx w)).
Proof.
  intros Ec Hl. apply cfba_spec in Ec. destruct Ec as [_ [_ [_ [_ [_ Hc]]]]]. unfold lba_seen.
  destruct (Nat.ltb (f_pending f) (length (w_rx w))).
  - destruct Hc as [Hc _]. rewrite Hc in Hl. exact Hl.
  - subst f1. destruct (f_lba f); exact Hl.
Qed.

(* claim_needs_timeout (C06_claim_only_after_timeout, C01_claim_stagger): whatever the state and the
   input, a poll takes the station into ClaimToken only from ListenToken / ActiveIdle (or directly after
   going online) and only if the bus activity it has recorded - new receive bytes of this very poll
   included - lies at least its token-lost time-out in the past. *)
Theorem claim_needs_timeout f now pin (apps : list A) f' o a c :
  kind_of (f_state f) <> KClaimToken -> poll ops f now pin apps = Ok (f', o, a, c) ->
  kind_of (f_state f') = KClaimToken ->
  tx_busy pin = false /\ predicted f now = false /\
  token_lost_timeout (f_p f) <= Z.abs (now - lba_seen f now (length (rx pin))) /\
  (kind_of (f_state f) = KListenToken \/ kind_of (f_state f) = KActiveIdle \/
   kind_of (f_state f) = KOffline \/ kind_of (f_state f) = KPassiveIdle).
Proof.
  intros Hnc H Hk.
  destruct (in_pass (f_state f)) eqn:Ep.
  { exfalso. destruct (f_state f) as [ | | | | | | |dg att|att| ] eqn:Es; try discriminate Ep.
    - destruct (pass_token_poll A ops f now pin apps f' o a c dg att Es H) as [_ [_ [_ [_ D]]]].
      destruct D as [[_ [Hs _]]|[[addr [_ [_ [Hs _]]]]|[r' [_ [_ [_ Hs]]]]]]; rewrite Hs in Hk; try discriminate Hk.
      destruct (r_ns r' =? ts f); discriminate Hk.
    - destruct (check_pass_poll A ops f now pin apps f' o a c att Es H) as [_ [_ [_ D]]].
      destruct (slot_expired f now pin).
      + destruct D as [_ [r1 [_ [[_ [Hs _]]|[r' [_ [_ [_ Hs]]]]]]]]; rewrite Hs in Hk; try discriminate Hk.
        destruct (r_ns r' =? ts f); discriminate Hk.
      + destruct D as [_ [_ D]].
        assert (Hcase : f_state f' = CheckTokenPass att \/ heard_kind (f_state f')).
        { destruct (tx_busy pin || predicted f now); [left; tauto|].
          destruct (decode_spec (rx pin)); [left; tauto|left; tauto|right; exact D]. }
        destruct Hcase as [Hs|Hh]; [rewrite Hs in Hk; discriminate Hk|exact (heard_not_claim _ Hh Hk)]. }
  apply poll_inv in H. destruct H as [w' [H _]].
  apply poll_inner_cases in H. destruct H as [[_ [_ [-> _]]]|[_ [f0 [w0 [Hpro H]]]]]; [contradiction|].
  destruct (prologue_frame A _ _ _ _ Hpro) as [Hp0 [_ [Hl0 [Hpe0 [_ [Htx0 [_ [Hrx0 _]]]]]]]].
  cbn [w_tx w_rx] in Htx0, Hrx0.
  assert (Hk0 : (f0 = f \/ kind_of (f_state f0) = KListenToken \/ kind_of (f_state f0) = KPassiveIdle) /\
                (kind_of (f_state f0) = KListenToken ->
                 kind_of (f_state f) = KListenToken \/ kind_of (f_state f) = KOffline \/ kind_of (f_state f) = KPassiveIdle)).
  { destruct Hpro as [f1 w1|f1 w1 s' _ _ [[-> [_ He]]| ->]].
    - split; [left; reflexivity|intros E; left; exact E].
    - split; [right; left; reflexivity|]. intros _. destruct (f_state f1); cbn in He; try discriminate He; tauto.
    - split; [right; right; reflexivity|]. intros E. discriminate E. }
  destruct Hk0 as [Hk0 Hk0'].
  assert (Hpred : predicted f0 now = predicted f now) by (unfold predicted; rewrite Hl0; reflexivity).
  unfold body in H. rewrite Hpred in H.
  destruct (tx_busy pin || predicted f now) eqn:Eb.
  - exfalso. injection H as <- <-. destruct (mark_bus_activity_sblp f0 now) as [_ [_ [_ [_ [Hs _]]]]].
    rewrite Hs in Hk. destruct Hk0 as [->|[E|E]]; [contradiction|rewrite E in Hk; discriminate Hk|rewrite E in Hk; discriminate Hk].
  - apply orb_false_elim in Eb. destruct Eb as [Eb1 Eb2]. split; [exact Eb1|]. split; [exact Eb2|].
    destruct (check_for_bus_activity A f0 now w0) as [f1 w1] eqn:Ec.
    pose proof (lba_seen_cfba f0 now w0 f1 w1) as Hseen. specialize (fun l => Hseen l Ec).
    assert (Hseen0 : lba_seen f0 now (length (w_rx w0)) = lba_seen f now (length (rx pin))).
    { unfold lba_seen. rewrite Hrx0, Hpe0, Hl0. reflexivity. }
    apply cfba_spec in Ec. destruct Ec as [[Hp1 [_ [_ [_ [Hs1 _]]]]] [Htx1 _]]. rewrite Htx0 in Htx1.
    unfold dispatch in H. rewrite Hs1 in H.
    destruct (f_state f0) eqn:Es0; cbn [kind_of poll_dispatch] in H; try discriminate H.
    + (* ListenToken *)
      apply do_listen_token_never_accepts in H.
      destruct H as [H|[H|[H|[_ [l [Hl Hto]]]]]]; try (rewrite H in Hk; discriminate Hk).
      rewrite Hp1, Hp0 in Hto.
      assert (El : l = lba_seen f now (length (rx pin))).
      { rewrite <- Hseen0. apply Hseen. destruct Hl as [-> |[-> ->]]; reflexivity. }
      rewrite <- El. split; [exact Hto|]. destruct (Hk0' eq_refl) as [E|[E|E]]; tauto.
    + (* ActiveIdle *)
      apply do_active_idle_cases in H. destruct H as [H|[_ Hh]]; [|exfalso; exact (heard_not_claim _ Hh Hk)].
      apply handle_lost_token_cases in H. destruct H as [l [Hl Hto]]. rewrite Hp1, Hp0 in Hto.
      rewrite <- Hseen0, <- (Hseen l Hl). split; [exact Hto|].
      destruct Hk0 as [->|[E|E]]; [rewrite Es0; tauto|discriminate E|discriminate E].
    + exfalso. apply do_use_token_entry2 in H; [|exact Htx1]. destruct H as [_ H]. contradiction.
    + exfalso. destruct Hk0 as [->|[E|E]]; [rewrite Es0 in Hnc; contradiction Hnc; reflexivity|discriminate E|discriminate E].
    + exfalso. apply do_await_data_response_entry2 in H; [|exact Htx1]. destruct H as [_ H]. contradiction.
    + exfalso. destruct Hk0 as [->|[E|E]]; [rewrite Es0 in Ep; discriminate Ep|discriminate E|discriminate E].
    + exfalso. destruct Hk0 as [->|[E|E]]; [rewrite Es0 in Ep; discriminate Ep|discriminate E|discriminate E].
    + exfalso. apply do_await_status_response_entry2 in H; [|exact Htx1]. destruct H as [_ H]. contradiction.
Qed.

(* with a positive time-out: no new receive bytes in that poll, and the recorded activity is old *)
Lemma claim_needs_silence f now pin (apps : list A) f' o a c :
  0 < token_lost_timeout (f_p f) ->
  kind_of (f_state f) <> KClaimToken -> poll ops f now pin apps = Ok (f', o, a, c) ->
  kind_of (f_state f') = KClaimToken ->
  (length (rx pin) <= f_pending f)%nat /\ exists l, f_lba f = Some l /\ l < now /\ token_lost_timeout (f_p f) <= now - l.
Proof.
  intros Hto Hnc H Hk. destruct (claim_needs_timeout f now pin apps f' o a c Hnc H Hk) as [_ [Hp [Hc _]]].
  unfold lba_seen in Hc. unfold predicted in Hp.
  destruct (Nat.ltb_spec (f_pending f) (length (rx pin))) as [C|C].
  - exfalso. destruct (f_lba f) as [l|]; [apply Z.leb_gt in Hp; rewrite Z.max_r in Hc by lia|]; rewrite Z.sub_diag in Hc; cbn in Hc; lia.
  - split; [exact C|]. destruct (f_lba f) as [l|].
    + apply Z.leb_gt in Hp. exists l. split; [reflexivity|]. split; [exact Hp|]. rewrite Z.abs_eq in Hc by lia. exact Hc.
    + rewrite Z.sub_diag in Hc. cbn in Hc. lia.
Qed.


(* ------------------------------------------------------------------------------------------ *)
(* common prefix of a poll that is not cut short                                                 *)

Lemma poll_have_token_body f now pin (apps : list A) f' o a c :
  have_token (f_state f) = true -> poll ops f now pin apps = Ok (f', o, a, c) ->
  exists w', body A ops f now (tx_busy pin) (mkWorld (rx pin) None apps [] []) = Ok (f', w') /\
             o = mkPhyOut (w_tx w') (w_rx w') /\ a = w_apps w' /\ c = w_calls w'.
Proof.
  intros Hp H. apply poll_inv in H. destruct H as [w' [H [Ho [Ha Hc]]]].
  apply poll_inner_cases in H. destruct H as [[_ [Hs _]]|[_ [f0 [w0 [Hpro H]]]]].
  - rewrite Hs in Hp. discriminate Hp.
  - destruct (prologue_have_token A _ _ _ _ Hpro Hp) as [-> ->]. exists w'. repeat split; assumption.
Qed.

Lemma cfba_new_bytes f now (w : W) f1 w1 :
  predicted f now = false -> (f_pending f < length (w_rx w))%nat ->
  check_for_bus_activity A f now w = (f1, w1) ->
  same_but_lba_pending f f1 /\ f_lba f1 = Some now /\ f_pending f1 = length (w_rx w) /\
  w_tx w1 = w_tx w /\ w_calls w1 = w_calls w /\ w_rx w1 = w_rx w /\ w_apps w1 = w_apps w.
Proof.
  intros Hp Hn Ec. apply cfba_spec in Ec. destruct Ec as [Hs [Htx [Hca [Hrx [Hap Hl]]]]].
  destruct (Nat.ltb_spec (f_pending f) (length (w_rx w))) as [_|C]; [|lia]. destruct Hl as [Hl Hpe].
  split; [exact Hs|]. split; [|repeat split; assumption]. rewrite Hl. unfold predicted in Hp.
  destruct (f_lba f) as [l|]; [|reflexivity]. apply Z.leb_gt in Hp. rewrite Z.max_r by lia. reflexivity.
Qed.

Lemma cse_fresh f now f2 b :
  f_lba f = Some now -> 0 <= slot_time (f_p f) -> check_slot_expired f now = Ok (f2, b) -> b = false /\ f2 = f.
Proof.
  intros Hl Hs H. unfold check_slot_expired, lba_get_or_insert in H. rewrite Hl in H.
  unfold inst_add in H. destruct (i64_ok _); cbn [bind] in H; [|discriminate H].
  injection H as <- <-. split; [apply Z.ltb_ge; lia|reflexivity].
Qed.

Lemma ts_p f g : f_p f = f_p g -> ts f = ts g.
Proof. unfold ts. intros ->. reflexivity. Qed.

Lemma ivr_p f g addr t : f_p f = f_p g -> is_valid_response f addr t = is_valid_response g addr t.
Proof. intros H. unfold is_valid_response. rewrite (ts_p f g H). reflexivity. Qed.

Lemma receive_telegram_spec (buf : bytes) :
  receive_telegram (fun t : telegram => t) buf =
  Ok (match decode_spec buf with Reject => ([], None) | Accept t n => (skipn n buf, Some t) | NeedMore => (buf, None) end).
Proof. unfold receive_telegram. rewrite decode_is_spec. cbn [bind]. destruct (decode_spec buf); reflexivity. Qed.

(* ------------------------------------------------------------------------------------------ *)
(* C06_backoff                                                                                  *)

Lemma await_unexpected f now (w : W) pa t n f1 w1 r :
  decode_spec (w_rx w) = Accept t n -> gap_reply_from (ts f) pa t = false ->
  await_gap_poll_response A f now w pa = Ok (f1, w1, r) ->
  r = GprUnexpectedTelegram /\ f1 = mark_rx f now /\ w_tx w1 = w_tx w /\ w_calls w1 = w_calls w /\
  w_apps w1 = w_apps w /\ w_rx w1 = skipn n (w_rx w).
Proof.
  intros Hd Hg H. unfold await_gap_poll_response in H.
  destruct (pa =? ts f); [discriminate H|]. destruct (negb _); [discriminate H|].
  rewrite receive_telegram_spec, Hd in H. cbn [bind] in H.
  assert (Hts : ts (mark_rx f now) = ts f) by (apply ts_p; destruct (mark_rx_frame f now) as [Mp _]; exact Mp).
  rewrite Hts in H.
  destruct t as [[da sa dsap ssap fc] pdu|da sa|]; [destruct fc as [fb rq|st status]| |].
  - injection H as <- <- <-. repeat split; reflexivity.
  - cbn [gap_reply_from] in Hg. rewrite Hg in H. injection H as <- <- <-. repeat split; reflexivity.
  - injection H as <- <- <-. repeat split; reflexivity.
  - injection H as <- <- <-. repeat split; reflexivity.
Qed.

Definition unexpected_for (f : fdl) (t : telegram) : Prop :=
  match f_state f with
  | AwaitDataResponse addr _ _ => is_valid_response f addr t = false
  | AwaitStatusResponse a => gap_reply_from (ts f) a t = false
  | ClaimToken (StepScanAwaitResponse a) => gap_reply_from (ts f) a t = false
  | _ => False
  end.

(* A station that holds the token and waits for an answer (to a data request, to a GAP poll while
   passing, to a GAP poll of the post-claim scan) and finds a complete telegram that is not that answer
   gives the token up: ActiveIdle, nothing transmitted, no application called, ring view unchanged. *)
Theorem backoff f now pin (apps : list A) t n f' o a c :
  unexpected_for f t -> tx_busy pin = false -> predicted f now = false ->
  decode_spec (rx pin) = Accept t n ->
  poll ops f now pin apps = Ok (f', o, a, c) ->
  f_state f' = ActiveIdle None None 0 /\ o = mkPhyOut None (skipn n (rx pin)) /\ c = [] /\ a = apps /\
  f_ring f' = f_ring f /\ f_p f' = f_p f.
Proof.
  intros Hu Hb Hp Hd H.
  assert (Hht : have_token (f_state f) = true).
  { unfold unexpected_for in Hu. destruct (f_state f) as [ | | | | |[ | | |a0]| | | | ]; try contradiction; reflexivity. }
  apply poll_have_token_body in H; [|exact Hht]. destruct H as [w' [H [-> [-> ->]]]].
  unfold body in H. rewrite Hb, Hp in H. cbn [orb] in H.
  destruct (check_for_bus_activity A f now _) as [f1 w1] eqn:Ec. apply cfba_spec in Ec.
  destruct Ec as [[Hp1 [Hr1 [_ [_ [Hs1 _]]]]] [Htx1 [Hca1 [Hrx1 [Hap1 _]]]]].
  cbn [w_tx w_calls w_rx w_apps] in Htx1, Hca1, Hrx1, Hap1.
  unfold dispatch in H. rewrite Hs1 in H. unfold unexpected_for in Hu.
  destruct (mark_rx_frame f1 now) as [Mp [Mr [_ [Ms _]]]].
  destruct (f_state f) as [ | | | | |[ | | |a0]|addr tk fa| | |a0] eqn:Es; try contradiction; cbn [kind_of poll_dispatch] in H.
  - (* ClaimToken ScanAwaitResponse *)
    unfold do_claim_token, assert_entry in H. rewrite ?Hs1, ?Es in H.
    cbn [kind_of do_fn_entry state_kind_eqb bind get_claim_token_step] in H.
    destruct (await_gap_poll_response A f1 now w1 a0) as [[[f2 w2] r]| |] eqn:Ea; cbn [bind] in H; try discriminate H.
    apply (await_unexpected f1 now w1 a0 t n) in Ea; [|rewrite Hrx1; exact Hd|rewrite (ts_p f1 f Hp1); exact Hu].
    destruct Ea as [-> [-> [Htx2 [Hca2 [Hap2 Hrx2]]]]].
    apply trans_spec in H. destruct H as [s' [Ht [-> ->]]]. rewrite Ms in Ht; rewrite ?Hs1, ?Es in Ht. cbn in Ht. injection Ht as <-.
    cbn. rewrite Htx2, Hca2, Hap2, Hrx2, Htx1, Hca1, Hap1, Hrx1, Mr, Mp. repeat split; assumption.
  - (* AwaitDataResponse *)
    unfold do_await_data_response, assert_entry in H. rewrite ?Hs1, ?Es in H.
    cbn [kind_of do_fn_entry state_kind_eqb bind get_await_data_response] in H.
    destruct (nth_error (w_apps w1) (f_next_app f1)) as [app|]; [|discriminate H].
    rewrite receive_telegram_spec, Hrx1, Hd in H. cbn [bind] in H.
    rewrite (ivr_p (mark_rx f1 now) f addr t) in H by (rewrite Mp; exact Hp1). rewrite Hu in H.
    apply trans_spec in H. destruct H as [s' [Ht [-> ->]]]. rewrite Ms in Ht; rewrite ?Hs1, ?Es in Ht. cbn in Ht. injection Ht as <-.
    cbn. rewrite Htx1, Hca1, Hap1, Mr, Mp. repeat split; assumption.
  - (* AwaitStatusResponse *)
    unfold do_await_status_response, assert_entry in H. rewrite ?Hs1, ?Es in H.
    cbn [kind_of do_fn_entry state_kind_eqb bind get_await_status_response_address] in H.
    destruct (await_gap_poll_response A f1 now w1 a0) as [[[f2 w2] r]| |] eqn:Ea; cbn [bind] in H; try discriminate H.
    apply (await_unexpected f1 now w1 a0 t n) in Ea; [|rewrite Hrx1; exact Hd|rewrite (ts_p f1 f Hp1); exact Hu].
    destruct Ea as [-> [-> [Htx2 [Hca2 [Hap2 Hrx2]]]]].
    apply trans_spec in H. destruct H as [s' [Ht [-> ->]]]. rewrite Ms in Ht; rewrite ?Hs1, ?Es in Ht. cbn in Ht. injection Ht as <-.
    cbn. rewrite Htx2, Hca2, Hap2, Hrx2, Htx1, Hca1, Hap1, Hrx1, Mr, Mp. repeat split; assumption.
Qed.


(* ------------------------------------------------------------------------------------------ *)
(* C06_collision_leaves                                                                         *)

(* ListenToken: EVERY telegram whose source address is the own address counts (tokens and data
   telegrams alike, addressed to anybody); the first is tolerated, the second takes the station offline:
   the whole station is re-created (set_offline = FdlActiveStation::new with the same parameters). *)
Lemma listen_collision now f (w : W) t il sr cc f' w' u :
  f_state f = ListenToken sr cc -> f_conn f <> ConnOffline -> source_address t = Some (ts f) ->
  listen_token_telegram A now (f, w) t il = Ok (f', w', u) ->
  cc + 1 <= 255 /\
  if cc + 1 =? listen_collision_tolerated
  then f_state f' = ListenToken sr (cc + 1) /\ f_conn f' = f_conn f /\ f_ring f' = f_ring f
  else fdl_new (f_p f) = Ok f'.
Proof.
  intros Hst Hc Hsrc H. unfold listen_token_telegram in H.
  destruct (mark_rx_frame f now) as [Mp [Mr [_ [Ms [Mc _]]]]].
  assert (Hts : ts (mark_rx f now) = ts f) by (apply ts_p; exact Mp).
  assert (Hrest :
    (if opt_eqb (source_address t) (Some (ts (mark_rx f now)))
     then let* (sr, cc) := get_listen_token (f_state (mark_rx f now)) in
          let* cc0 := u8_add cc 1 in
          let f0 := set_st (mark_rx f now) (ListenToken sr cc0) in
          if cc0 =? listen_collision_tolerated then Ok (f0, note A w TLtCollisionFirst, tt)
          else let* f1 := set_offline f0 in Ok (f1, note A w TLtCollisionOffline, tt)
     else match t with
          | TData h _ =>
              if is_fdl_status_request h && (h_da h =? ts (mark_rx f now))
              then if il
                   then let* (_, cc) := get_listen_token (f_state (mark_rx f now)) in
                        Ok (set_st (mark_rx f now) (ListenToken (Some (h_sa h)) cc), note A w TLtStatusReqLast, tt)
                   else Ok (mark_rx f now, note A w TLtStatusReqNotLast, tt)
              else Ok (mark_rx f now, note A w TLtOther, tt)
          | TToken da sa => let* r := witness (f_ring (mark_rx f now)) sa da in Ok (set_ring (mark_rx f now) r, note A w TLtWitness, tt)
          | TShortConf => Ok (mark_rx f now, note A w TLtOther, tt)
          end) = Ok (f', w', u) ->
    cc + 1 <= 255 /\
    if cc + 1 =? listen_collision_tolerated
    then f_state f' = ListenToken sr (cc + 1) /\ f_conn f' = f_conn f /\ f_ring f' = f_ring f
    else fdl_new (f_p f) = Ok f').
  { clear H. intros H. rewrite Hsrc, Hts in H. cbn [opt_eqb] in H. rewrite Z.eqb_refl in H.
    rewrite Ms, Hst in H. cbn [get_listen_token bind] in H.
    unfold u8_add in H. destruct (Z.leb_spec (cc + 1) 255) as [Hle|_]; cbn [bind] in H; [|discriminate H].
    split; [exact Hle|].
    destruct (cc + 1 =? listen_collision_tolerated).
    - injection H as <- _ _. cbn. rewrite Mc, Mr. repeat split; reflexivity.
    - unfold set_offline, set_state in H. cbn [set_st f_p] in H. rewrite Mp in H.
      destruct (fdl_new (f_p f)) as [g| |]; cbn [bind] in H; try discriminate H. injection H as <- _ _. reflexivity. }
  rewrite Mc in H. destruct (f_conn f).
  - contradiction Hc; reflexivity.
  - exact (Hrest H).
  - exact (Hrest H).
Qed.

(* ListenToken with nothing pending, one complete telegram newly in the buffer *)
Lemma lt_single_poll f now buf (apps : list A) cc t f' o a c :
  f_conn f = ConnOnline -> f_state f = ListenToken None cc ->
  (forall l, f_lba f = Some l -> l < now) -> (f_pending f < length buf)%nat ->
  decode_spec buf = Accept t (length buf) -> 0 < token_lost_timeout (f_p f) ->
  poll ops f now (mkPhyIn false buf) apps = Ok (f', o, a, c) ->
  exists fm f1 (w0 w1 : W),
    f_state fm = f_state f /\ f_ring fm = f_ring f /\ f_p fm = f_p f /\ f_conn fm = f_conn f /\
    listen_token_telegram A now (fm, w0) t true = Ok (f1, w1, tt) /\
    f_state f' = f_state f1 /\ f_ring f' = f_ring f1 /\ f_p f' = f_p f1 /\ f_conn f' = f_conn f1 /\
    o = mkPhyOut None [].
Proof.
  intros Hc Hst Hlba Hpend Hdec Hto H.
  apply poll_inv in H. destruct H as [w' [H [-> [_ _]]]]. cbn [tx_busy rx] in H.
  rewrite poll_inner_online in H; [|exact Hc|rewrite Hst; reflexivity].
  unfold body in H. cbn [orb] in H.
  assert (Hpred : predicted f now = false).
  { unfold predicted. destruct (f_lba f) as [l|] eqn:El; [|reflexivity]. apply Z.leb_gt. apply Hlba. reflexivity. }
  rewrite Hpred in H.
  destruct (check_for_bus_activity A f now _) as [f1 w1] eqn:Ec.
  apply cfba_new_bytes in Ec; [|exact Hpred|exact Hpend].
  destruct Ec as [[Hp1 [Hr1 [Hc1 [_ [Hs1 _]]]]] [Hl1 [_ [Htx1 [_ [Hrx1 _]]]]]].
  cbn [w_tx w_rx] in Htx1, Hrx1.
  unfold dispatch in H. rewrite Hs1, Hst in H. cbn [kind_of poll_dispatch] in H.
  unfold do_listen_token, assert_entry in H. rewrite Hs1, Hst in H. cbn [kind_of do_fn_entry state_kind_eqb bind] in H.
  rewrite (handle_lost_token_quiet A f1 now w1 now Hl1) in H;
    [|rewrite Z.sub_diag; reflexivity|rewrite Z.sub_diag, Hp1; cbn; exact Hto].
  cbn [bind] in H. rewrite Hs1, Hst in H. cbn [get_listen_token bind] in H.
  unfold receive_all_telegrams in H. rewrite Hrx1 in H. unfold receive_all_fuel in H.
  rewrite receive_all_step, Hdec in H. cbv zeta in H. rewrite Nat.eqb_refl in H.
  destruct (listen_token_telegram A now (f1, w1) t true) as [[[f2 w2] []]| |] eqn:Eh; cbn [bind] in H; try discriminate H.
  injection H as <- <-.
  pose proof (listen_token_telegram_keeps A now _ _ _ _ _ Eh) as Hk. cbn [snd] in Hk.
  exists f1, f2, w1, w2.
  split; [congruence|]. split; [congruence|]. split; [congruence|]. split; [congruence|].
  split; [exact Eh|]. cbn. rewrite skipn_all, Hk, Htx1. repeat split; reflexivity.
Qed.

(* C06_collision_leaves, ActiveIdle, as a history of two polls: a token telegram with the own address
   as source (whoever it is addressed to) is tolerated once - the station stays in the ring and only
   counts; a second one in a row makes it leave the ring for ListenToken.  (A token of any other station
   in between resets the counter: C11_not_last_only_witnessed / C11_accept_iff give ActiveIdle _ _ 0.)
   Only token telegrams are examined here, unlike in ListenToken. *)
Theorem collision_active_idle f now1 (apps : list A) nps da1 f1 o1 a1 c1 :
  f_conn f = ConnOnline -> f_state f = ActiveIdle None nps 0 ->
  (forall l, f_lba f = Some l -> l < now1) -> (f_pending f < 3)%nat -> 0 < token_lost_timeout (f_p f) ->
  poll ops f now1 (mkPhyIn false (encode_token da1 (ts f))) apps = Ok (f1, o1, a1, c1) ->
  (f_state f1 = ActiveIdle None nps 1 /\ is_in_ring f1 = true /\ f_ring f1 = f_ring f /\ o1 = mkPhyOut None [] /\ a1 = apps /\ c1 = []) /\
  forall now2 da2 f2 o2 a2 c2, now1 < now2 ->
    poll ops f1 now2 (mkPhyIn false (encode_token da2 (ts f))) a1 = Ok (f2, o2, a2, c2) ->
    f_state f2 = ListenToken None 0 /\ is_in_ring f2 = false /\ f_ring f2 = f_ring f /\ o2 = mkPhyOut None [] /\ c2 = [].
Proof.
  intros Hc Hst Hlba Hpend Hto H.
  apply ai_single_poll with (nps := nps) (cc := 0) (t := TToken da1 (ts f)) in H; try assumption; try reflexivity.
  destruct H as [fm [g1 [w0 [w1 [Hsm [Hrm [Hpm [Hcm [Hh [Hs1 [Hr1 [Hp1 [Hc1 [Hl1 [Hpe1 [-> [-> ->]]]]]]]]]]]]]]]]].
  rewrite <- (ts_p fm f Hpm) in Hh.
  pose proof Hh as Hheard. apply handle_telegram_heard in Hheard; [|rewrite Hsm, Hst; exact I].
  destruct Hheard as [_ [_ [Hpg _]]].
  apply (handle_telegram_collision A fm w0 now1 None nps 0 da1 true g1 w1) in Hh; [|rewrite Hsm; exact Hst].
  destruct Hh as [_ [Hrg [Hcg Hsg]]]. cbn in Hsg.
  assert (Hst1 : f_state f1 = ActiveIdle None nps 1) by congruence.
  split; [repeat split; try congruence; unfold is_in_ring; rewrite Hst1; reflexivity|].
  intros now2 da2 f2 o2 a2 c2 Hnow H2.
  assert (Hpp1 : f_p f1 = f_p f) by congruence.
  assert (Hcc1 : f_conn f1 = ConnOnline) by congruence.
  assert (Hlba1 : forall l, f_lba f1 = Some l -> l < now2) by (intros l El; rewrite Hl1 in El; injection El as <-; exact Hnow).
  assert (Hpend1 : (f_pending f1 < 3)%nat) by (rewrite Hpe1; lia).
  assert (Hto1 : 0 < token_lost_timeout (f_p f1)) by (rewrite Hpp1; exact Hto).
  apply ai_single_poll with (nps := nps) (cc := 1) (t := TToken da2 (ts f)) in H2; try assumption; try reflexivity.
  destruct H2 as [fm2 [g2 [w02 [w12 [Hsm2 [Hrm2 [Hpm2 [_ [Hh2 [Hs2 [Hr2 [_ [_ [_ [_ [-> [_ ->]]]]]]]]]]]]]]]]].
  assert (Hts2 : ts fm2 = ts f) by (apply ts_p; congruence).
  rewrite <- Hts2 in Hh2.
  apply (handle_telegram_collision A fm2 w02 now2 None nps 1 da2 true g2 w12) in Hh2; [|rewrite Hsm2; exact Hst1].
  destruct Hh2 as [_ [Hrg2 [_ Hsg2]]]. cbn in Hsg2.
  assert (Hst2 : f_state f2 = ListenToken None 0) by congruence.
  repeat split; try congruence. unfold is_in_ring. rewrite Hst2. reflexivity.
Qed.

(* C06_collision_leaves, ListenToken, as a history of two polls: any telegram t carrying the own address
   as source is tolerated once; the second such telegram takes the station offline. *)
Theorem collision_listen f now1 (apps : list A) buf1 t1 f1 o1 a1 c1 :
  f_conn f = ConnOnline -> f_state f = ListenToken None 0 ->
  (forall l, f_lba f = Some l -> l < now1) -> f_pending f = 0%nat -> 0 < token_lost_timeout (f_p f) ->
  decode_spec buf1 = Accept t1 (length buf1) -> source_address t1 = Some (ts f) ->
  poll ops f now1 (mkPhyIn false buf1) apps = Ok (f1, o1, a1, c1) ->
  (f_state f1 = ListenToken None 1 /\ f_conn f1 = ConnOnline /\ f_ring f1 = f_ring f /\ o1 = mkPhyOut None []) /\
  forall now2 buf2 t2 f2 o2 a2 c2, now1 < now2 ->
    decode_spec buf2 = Accept t2 (length buf2) -> source_address t2 = Some (ts f) ->
    poll ops f1 now2 (mkPhyIn false buf2) a1 = Ok (f2, o2, a2, c2) ->
    f_conn f2 = ConnOffline /\ f_state f2 = Offline /\ is_in_ring f2 = false /\ o2 = mkPhyOut None [].
Proof.
  intros Hc Hst Hlba Hpend Hto Hd1 Hsrc1 H.
  assert (Hlen : forall buf t, decode_spec buf = Accept t (length buf) -> (0 < length buf)%nat).
  { intros buf t Hd. destruct buf; [discriminate Hd|cbn; lia]. }
  pose proof H as Hpoll1.
  apply lt_single_poll with (cc := 0) (t := t1) in H; try assumption; [|rewrite Hpend; exact (Hlen _ _ Hd1)].
  destruct H as [fm [g1 [w0 [w1 [Hsm [Hrm [Hpm [Hcm [Hh [Hs1 [Hr1 [Hp1 [Hc1 ->]]]]]]]]]]]]].
  apply (listen_collision now1 fm w0 t1 true None 0 g1 w1 tt) in Hh;
    [|rewrite Hsm; exact Hst|rewrite Hcm, Hc; discriminate|rewrite (ts_p fm f Hpm); exact Hsrc1].
  destruct Hh as [_ Hh]. cbn in Hh. destruct Hh as [Hsg [Hcg Hrg]].
  assert (Hst1 : f_state f1 = ListenToken None 1) by congruence.
  assert (Hcc1 : f_conn f1 = ConnOnline) by congruence.
  split; [repeat split; congruence|].
  intros now2 buf2 t2 f2 o2 a2 c2 Hnow Hd2 Hsrc2 H2.
  (* bookkeeping after poll 1: last_bus_activity = now1, pending = 0 *)
  assert (Hbk : f_lba f1 = Some now1 /\ f_pending f1 = 0%nat /\ f_p f1 = f_p f).
  { apply poll_inv in Hpoll1. destruct Hpoll1 as [w' [Hp' _]]. cbn [tx_busy rx] in Hp'.
    rewrite poll_inner_online in Hp'; [|exact Hc|rewrite Hst; reflexivity].
    unfold body in Hp'. cbn [orb] in Hp'.
    assert (Hpred : predicted f now1 = false).
    { unfold predicted. destruct (f_lba f) as [l|] eqn:El; [|reflexivity]. apply Z.leb_gt. apply Hlba. reflexivity. }
    rewrite Hpred in Hp'.
    destruct (check_for_bus_activity A f now1 _) as [h1 v1] eqn:Ec.
    apply cfba_new_bytes in Ec; [|exact Hpred|cbn [w_rx]; rewrite Hpend; exact (Hlen _ _ Hd1)].
    destruct Ec as [[Hph [_ [Hch [_ [Hsh _]]]]] [Hlh [_ [_ [_ [Hrxh _]]]]]]. cbn [w_rx] in Hrxh.
    assert (Hconn : f_conn h1 = ConnOnline) by congruence.
    unfold dispatch in Hp'. rewrite Hsh, Hst in Hp'. cbn [kind_of poll_dispatch] in Hp'.
    unfold do_listen_token, assert_entry in Hp'. rewrite Hsh, Hst in Hp'. cbn [kind_of do_fn_entry state_kind_eqb bind] in Hp'.
    rewrite (handle_lost_token_quiet A h1 now1 v1 now1 Hlh) in Hp';
      [|rewrite Z.sub_diag; reflexivity|rewrite Z.sub_diag, Hph; cbn; exact Hto].
    cbn [bind] in Hp'. rewrite Hsh, Hst in Hp'. cbn [get_listen_token bind] in Hp'.
    unfold receive_all_telegrams in Hp'. rewrite Hrxh in Hp'. unfold receive_all_fuel in Hp'.
    rewrite receive_all_step, Hd1 in Hp'. cbv zeta in Hp'. rewrite Nat.eqb_refl in Hp'.
    destruct (listen_token_telegram A now1 (h1, v1) t1 true) as [[[h2 v2] []]| |] eqn:Eh; cbn [bind] in Hp'; try discriminate Hp'.
    injection Hp' as <- _.
    pose proof Eh as Eh'.
    apply (listen_collision now1 h1 v1 t1 true None 0 h2 v2 tt) in Eh';
      [|rewrite Hsh; exact Hst|rewrite Hconn; discriminate|rewrite (ts_p h1 f Hph); exact Hsrc1].
    destruct Eh' as [_ Eh']. cbn in Eh'.
    unfold listen_token_telegram in Eh.
    destruct (mark_rx_frame h1 now1) as [Mp [_ [_ [Ms [Mc _]]]]].
    assert (Hmlba : f_lba (mark_rx h1 now1) = Some now1 /\ f_pending (mark_rx h1 now1) = 0%nat).
    { unfold mark_rx, mark_bus_activity, lba_get_or_insert. cbn. rewrite Hlh. cbn. rewrite Z.max_id. split; reflexivity. }
    rewrite Mc in Eh.
    rewrite Hconn in Eh.
    rewrite Hsrc1, (ts_p (mark_rx h1 now1) f) in Eh by congruence. cbn [opt_eqb] in Eh. rewrite Z.eqb_refl in Eh.
    rewrite Ms, Hsh, Hst in Eh. cbn [get_listen_token bind u8_add] in Eh. cbn in Eh.
    injection Eh as <- _. cbn. destruct Hmlba as [-> ->]. split; [reflexivity|split; [reflexivity|congruence]]. }
  destruct Hbk as [Hl1 [Hpe1 Hpp1]].
  apply lt_single_poll with (cc := 1) (t := t2) in H2; try assumption.
  - destruct H2 as [fm2 [g2 [w02 [w12 [Hsm2 [Hrm2 [Hpm2 [Hcm2 [Hh2 [Hs2 [_ [_ [Hc2 ->]]]]]]]]]]]]].
    apply (listen_collision now2 fm2 w02 t2 true None 1 g2 w12 tt) in Hh2;
      [|rewrite Hsm2; exact Hst1|rewrite Hcm2, Hcc1; discriminate|rewrite (ts_p fm2 f); [exact Hsrc2|congruence]].
    destruct Hh2 as [_ Hh2]. cbn in Hh2.
    unfold fdl_new in Hh2. destruct (negb _); [discriminate Hh2|]. destruct (negb _); [discriminate Hh2|].
    destruct (ring_new _); try discriminate Hh2. injection Hh2 as <-. cbn in Hs2, Hc2.
    repeat split; try assumption. unfold is_in_ring. rewrite Hs2. reflexivity.
  - intros l El. rewrite Hl1 in El. injection El as <-. exact Hnow.
  - rewrite Hpe1. exact (Hlen _ _ Hd2).
  - rewrite Hpp1. exact Hto.
Qed.


(* ------------------------------------------------------------------------------------------ *)
(* C06_garbage_discarded                                                                        *)

Lemma spb_spec g (w : W) : w_rx w = [] ->
  same_but_lba_pending g (sync_pending_bytes A g w) /\ f_pending (sync_pending_bytes A g w) = 0%nat /\
  f_lba (sync_pending_bytes A g w) = f_lba g.
Proof.
  intros Hr. unfold sync_pending_bytes, same_but_lba_pending. rewrite Hr. cbn.
  repeat split; try reflexivity. destruct (f_pending g); reflexivity.
Qed.

Lemma await_garbage f now (w : W) pa f1 w1 r :
  decode_spec (w_rx w) = Reject -> f_lba f = Some now -> 0 <= slot_time (f_p f) ->
  await_gap_poll_response A f now w pa = Ok (f1, w1, r) ->
  r = GprWaiting /\ same_but_lba_pending f f1 /\ f_pending f1 = 0%nat /\ f_lba f1 = Some now /\
  w_tx w1 = w_tx w /\ w_calls w1 = w_calls w /\ w_apps w1 = w_apps w /\ w_rx w1 = [].
Proof.
  intros Hd Hl Hs H. unfold await_gap_poll_response in H.
  destruct (pa =? ts f); [discriminate H|]. destruct (negb _); [discriminate H|].
  rewrite receive_telegram_spec, Hd in H. cbn [bind] in H.
  match type of H with context [if ?c then note A w TGapRxDiscard else w] => destruct c end.
  all: destruct (check_slot_expired _ now) as [[f2 b]| |] eqn:Ec; cbn [bind] in H; try discriminate H;
    (apply cse_fresh in Ec; [|exact Hl|exact Hs]); destruct Ec as [-> ->];
    injection H as <- <- <-;
    match goal with |- context [sync_pending_bytes A ?g ?w] => destruct (spb_spec g w eq_refl) as [S1 [S2 S3]] end;
    (split; [reflexivity|]); (split; [exact S1|]); (split; [exact S2|]); (split; [rewrite S3; exact Hl|]);
    cbn; repeat split; reflexivity.
Qed.

(* Undecodable bytes newly in the receive buffer, seen in a state that reads the buffer: the whole
   buffer is dropped, nothing is transmitted, no application is called, and nothing of the station
   changes but the bus-activity bookkeeping (last_bus_activity = now, pending_bytes = 0).  (In the
   other states the buffer is not looked at; the bytes stay until a reading state is reached.) *)
Theorem garbage_discarded f now pin (apps : list A) f' o a c :
  listens (f_state f) = true -> f_conn f = ConnOnline ->
  tx_busy pin = false -> predicted f now = false -> (f_pending f < length (rx pin))%nat ->
  decode_spec (rx pin) = Reject -> 0 <= slot_time (f_p f) -> 0 < token_lost_timeout (f_p f) ->
  poll ops f now pin apps = Ok (f', o, a, c) ->
  same_but_lba_pending f f' /\ f_pending f' = 0%nat /\ f_lba f' = Some now /\
  o = mkPhyOut None [] /\ a = apps /\ c = [].
Proof.
  intros Hli Hc Hb Hp Hn Hd Hsl Hto H.
  apply poll_inv in H. destruct H as [w' [H [-> [-> ->]]]]. rewrite Hb in H.
  rewrite poll_inner_online in H; [|exact Hc|destruct (f_state f) as [ | |[x|] y|[x|] y z| |[ | | |x]| | | | ]; try discriminate Hli; reflexivity].
  unfold body in H. rewrite Hp in H. cbn [orb] in H.
  destruct (check_for_bus_activity A f now _) as [f1 w1] eqn:Ec.
  apply cfba_new_bytes in Ec; [|exact Hp|exact Hn].
  destruct Ec as [Hsame [Hl1 [_ [Htx1 [Hca1 [Hrx1 Hap1]]]]]].
  cbn [w_tx w_calls w_rx w_apps] in Htx1, Hca1, Hrx1, Hap1.
  pose proof Hsame as [Hp1 [_ [_ [_ [Hs1 _]]]]].
  assert (Hsl1 : 0 <= slot_time (f_p f1)) by (rewrite Hp1; exact Hsl).
  unfold dispatch in H. rewrite Hs1 in H.
  destruct (f_state f) as [ | |[x|] cc|[x|] nps cc| |[ | | |a0]|addr tk fa| |att|a0] eqn:Es; try discriminate Hli;
    cbn [kind_of poll_dispatch] in H.
  - (* ListenToken None *)
    unfold do_listen_token, assert_entry in H. rewrite Hs1 in H. cbn [kind_of do_fn_entry state_kind_eqb bind] in H.
    rewrite (handle_lost_token_quiet A f1 now w1 now Hl1) in H;
      [|rewrite Z.sub_diag; reflexivity|rewrite Z.sub_diag, Hp1; cbn; exact Hto].
    cbn [bind] in H. rewrite Hs1 in H. cbn [get_listen_token bind] in H.
    unfold receive_all_telegrams in H. rewrite Hrx1 in H. unfold receive_all_fuel in H.
    rewrite receive_all_step, Hd in H. cbn [bind] in H. injection H as <- <-.
    destruct (spb_spec f1 (set_rx A w1 []) eq_refl) as [S1 [S2 S3]].
    split; [exact (sblp_trans _ _ _ Hsame S1)|]. split; [exact S2|]. split; [rewrite S3; exact Hl1|].
    cbn. rewrite Htx1, Hca1, Hap1. repeat split; reflexivity.
  - (* ActiveIdle None *)
    unfold do_active_idle, assert_entry in H. rewrite Hs1 in H. cbn [kind_of do_fn_entry state_kind_eqb bind] in H.
    rewrite (handle_lost_token_quiet A f1 now w1 now Hl1) in H;
      [|rewrite Z.sub_diag; reflexivity|rewrite Z.sub_diag, Hp1; cbn; exact Hto].
    cbn [bind] in H. rewrite Hs1 in H. cbn [get_active_idle bind] in H.
    unfold receive_all_telegrams in H. rewrite Hrx1 in H. unfold receive_all_fuel in H.
    rewrite receive_all_step, Hd in H. cbn [bind] in H. injection H as <- <-.
    destruct (spb_spec f1 (set_rx A w1 []) eq_refl) as [S1 [S2 S3]].
    split; [exact (sblp_trans _ _ _ Hsame S1)|]. split; [exact S2|]. split; [rewrite S3; exact Hl1|].
    cbn. rewrite Htx1, Hca1, Hap1. repeat split; reflexivity.
  - (* ClaimToken ScanAwaitResponse *)
    unfold do_claim_token, assert_entry in H. rewrite Hs1 in H.
    cbn [kind_of do_fn_entry state_kind_eqb bind get_claim_token_step] in H.
    destruct (await_gap_poll_response A f1 now w1 a0) as [[[f2 w2] r]| |] eqn:Ea; cbn [bind] in H; try discriminate H.
    apply await_garbage in Ea; [|rewrite Hrx1; exact Hd|exact Hl1|exact Hsl1].
    destruct Ea as [-> [S1 [S2 [S3 [Htx2 [Hca2 [Hap2 Hrx2]]]]]]]. injection H as <- <-.
    split; [exact (sblp_trans _ _ _ Hsame S1)|]. split; [exact S2|]. split; [exact S3|].
    rewrite Htx2, Hca2, Hap2, Hrx2, Htx1, Hca1, Hap1. repeat split; reflexivity.
  - (* AwaitDataResponse *)
    unfold do_await_data_response, assert_entry in H. rewrite Hs1 in H.
    cbn [kind_of do_fn_entry state_kind_eqb bind get_await_data_response] in H.
    destruct (nth_error (w_apps w1) (f_next_app f1)) as [app|]; [|discriminate H].
    rewrite receive_telegram_spec, Hrx1, Hd in H. cbn [bind] in H.
    match type of H with context [if ?c then note A w1 TReplyRxDiscard else w1] => destruct c end.
    all: destruct (check_slot_expired _ now) as [[f2 b]| |] eqn:Ecs; cbn [bind] in H; try discriminate H;
      match type of Ecs with check_slot_expired (sync_pending_bytes A ?g ?w) _ = _ =>
        destruct (spb_spec g w eq_refl) as [S1 [S2 S3]] end;
      (apply cse_fresh in Ecs; [|rewrite S3; exact Hl1|destruct S1 as [S1 _]; rewrite S1; exact Hsl1]);
      destruct Ecs as [-> ->]; injection H as <- <-;
      (split; [exact (sblp_trans _ _ _ Hsame S1)|]); (split; [exact S2|]); (split; [rewrite S3; exact Hl1|]);
      cbn; rewrite Htx1, Hca1, Hap1; repeat split; reflexivity.
  - (* CheckTokenPass *)
    unfold do_check_token_pass, assert_entry in H. rewrite Hs1 in H.
    cbn [kind_of do_fn_entry state_kind_eqb bind] in H.
    destruct (check_slot_expired f1 now) as [[f2 b]| |] eqn:Ecs; cbn [bind] in H; try discriminate H.
    apply cse_fresh in Ecs; [|exact Hl1|exact Hsl1]. destruct Ecs as [-> ->].
    rewrite Hrx1 in H. unfold receive_all_fuel in H. rewrite receive_all_step, Hd in H. cbn [bind] in H.
    injection H as <- <-.
    destruct (spb_spec f1 (set_rx A (note A w1 TCheckAwait) []) eq_refl) as [S1 [S2 S3]].
    split; [exact (sblp_trans _ _ _ Hsame S1)|]. split; [exact S2|]. split; [rewrite S3; exact Hl1|].
    cbn. rewrite Htx1, Hca1, Hap1. repeat split; reflexivity.
  - (* AwaitStatusResponse *)
    unfold do_await_status_response, assert_entry in H. rewrite Hs1 in H.
    cbn [kind_of do_fn_entry state_kind_eqb bind get_await_status_response_address] in H.
    destruct (await_gap_poll_response A f1 now w1 a0) as [[[f2 w2] r]| |] eqn:Ea; cbn [bind] in H; try discriminate H.
    apply await_garbage in Ea; [|rewrite Hrx1; exact Hd|exact Hl1|exact Hsl1].
    destruct Ea as [-> [S1 [S2 [S3 [Htx2 [Hca2 [Hap2 Hrx2]]]]]]]. injection H as <- <-.
    split; [exact (sblp_trans _ _ _ Hsame S1)|]. split; [exact S2|]. split; [exact S3|].
    rewrite Htx2, Hca2, Hap2, Hrx2, Htx1, Hca1, Hap1. repeat split; reflexivity.
Qed.

(* ------------------------------------------------------------------------------------------ *)
(* C06_lost_token_recovers_alone (partial: the idle states)                                     *)

Definition idle_state (s : state) : Prop :=
  (exists cc, s = ListenToken None cc) \/ (exists nps cc, s = ActiveIdle None nps cc).

Definition silent_in (t : Z) : Z * phy_in := (t, mkPhyIn false []).

(* a poll of an idle station on a silent bus before its time-out has run out changes nothing *)
Lemma idle_silent_poll f now (apps : list A) l :
  f_conn f = ConnOnline -> idle_state (f_state f) -> f_lba f = Some l -> time_ok l -> time_ok now ->
  l < now -> now - l < token_lost_timeout (f_p f) ->
  exists f', poll ops f now (mkPhyIn false []) apps = Ok (f', mkPhyOut None [], apps, []) /\
             f_conn f' = ConnOnline /\ f_state f' = f_state f /\ f_lba f' = Some l /\ f_p f' = f_p f.
Proof.
  intros Hc Hi Hl Tl Tn Hlt Hto. unfold poll, poll_traced. cbn [tx_busy rx].
  rewrite poll_inner_online; [|exact Hc|destruct Hi as [[cc ->]|[nps [cc ->]]]; reflexivity].
  unfold body, predicted. rewrite Hl. destruct (Z.leb_spec now l) as [C|_]; [lia|]. cbn [orb].
  unfold check_for_bus_activity. cbn [w_rx length].
  destruct (Nat.ltb_spec (f_pending f) 0) as [C|_]; [lia|].
  assert (Hq : forall w : W, handle_lost_token A f now w = Ok (f, w, false)).
  { intros w. apply (handle_lost_token_quiet A f now w l Hl).
    - unfold time_ok in *. apply i64_ok_small. lia.
    - rewrite Z.abs_eq by lia. exact Hto. }
  unfold dispatch.
  destruct Hi as [[cc Hs]|[nps [cc Hs]]]; rewrite Hs; cbn [kind_of poll_dispatch].
  - unfold do_listen_token, assert_entry. rewrite Hs. cbn [kind_of do_fn_entry state_kind_eqb bind].
    rewrite Hq. cbn [bind]. rewrite Hs. cbn [get_listen_token bind].
    unfold receive_all_telegrams, receive_all_fuel. cbn [w_rx length]. rewrite receive_all_step.
    cbn [decode_spec bind]. eexists. split; [reflexivity|]. cbn. repeat split; assumption.
  - unfold do_active_idle, assert_entry. rewrite Hs. cbn [kind_of do_fn_entry state_kind_eqb bind].
    rewrite Hq. cbn [bind]. rewrite Hs. cbn [get_active_idle bind].
    unfold receive_all_telegrams, receive_all_fuel. cbn [w_rx length]. rewrite receive_all_step.
    cbn [decode_spec bind]. eexists. split; [reflexivity|]. cbn. repeat split; assumption.
Qed.

(* A station alone on a silent bus, listening or idling in its ring, with its last recorded bus
   activity at l: under ANY poll schedule - polls ts1 before the time-out has run out, in any number
   and spacing, then a poll at T at or after l + token_lost_timeout - no poll panics, the early polls
   transmit nothing and change nothing, and the poll at T transmits the claim token TS -> TS: the
   station holds the token again (ClaimToken).  So the station is back within its time-out plus one
   poll period after the last activity.  PARTIAL with respect to the plan: the states PassToken /
   CheckTokenPass (a stale ring view has to be worked off by up to three retries per listed station)
   and a pending status request are not covered. *)
Theorem lone_station_claims : forall ts1 f (apps : list A) l T,
  f_conn f = ConnOnline -> idle_state (f_state f) -> f_lba f = Some l -> time_ok l ->
  Forall (fun t => time_ok t /\ l < t /\ t - l < token_lost_timeout (f_p f)) ts1 ->
  time_ok T -> token_lost_timeout (f_p f) <= T - l -> l + p_bits_to_time (f_p f) sync_pause_bits < T ->
  exists pre last,
    run_polls ops f apps (map silent_in (ts1 ++ [T])) = Ok (pre ++ [last]) /\
    Forall (fun s => tx (s_out s) = None /\ f_state (s_f' s) = f_state f) pre /\
    length pre = length ts1 /\
    s_now last = T /\ tx (s_out last) = Some (encode_token (ts f) (ts f)) /\
    f_state (s_f' last) = ClaimToken StepSecondToken /\ have_token (f_state (s_f' last)) = true.
Proof.
  induction ts1 as [|t ts1 IH]; intros f apps l T Hc Hi Hl Tl Hall TT Hto Hsync.
  - cbn [app map silent_in run_polls].
    destruct (claim_progress A ops f T [] apps l) as [f' [Hp Hs]]; try assumption.
    + destruct Hi as [[cc ->]|[nps [cc ->]]]; [left; eexists; eexists; reflexivity|right; eexists; eexists; eexists; reflexivity].
    + cbn. lia.
    + rewrite Hp. cbn [bind]. exists [], (mkStep f T (mkPhyIn false []) f' (mkPhyOut (Some (encode_token (ts f) (ts f))) [])).
      cbn. rewrite Hs. repeat split; try reflexivity. constructor.
  - inversion Hall as [|t0 l0 [Tt [Hlt Hbe]] Hall' E1]; subst.
    destruct (idle_silent_poll f t apps l Hc Hi Hl Tl Tt Hlt Hbe) as [f1 [Hp [Hc1 [Hs1 [Hl1 Hp1]]]]].
    cbn [app map silent_in run_polls]. fold silent_in. rewrite Hp. cbn [bind].
    destruct (IH f1 apps l T) as [pre [last [Hrun [Hpre [Hlen [Hnow [Htx [Hst Hht]]]]]]]]; try assumption.
    + rewrite Hs1. exact Hi.
    + rewrite Hp1. exact Hall'.
    + rewrite Hp1. exact Hto.
    + rewrite Hp1. exact Hsync.
    + change (map (fun t => (t, mkPhyIn false [])) (ts1 ++ [T])) with (map silent_in (ts1 ++ [T])).
      rewrite Hrun. cbn [bind].
      exists (mkStep f t (mkPhyIn false []) f1 (mkPhyOut None []) :: pre), last.
      split; [reflexivity|]. split.
      * constructor; [cbn; split; [reflexivity|exact Hs1]|].
        eapply Forall_impl; [|exact Hpre]. intros s [E1 E2]. split; [exact E1|congruence].
      * cbn [length]. rewrite Hlen. unfold ts in *. rewrite Hp1 in Htx. repeat split; try assumption.
Qed.


(* the poll that takes a freshly created station online on a silent bus: it starts listening, and its
   silence time-out starts now *)
Lemma online_first_poll f t0 (apps : list A) :
  f_conn f = ConnOnline -> f_state f = Offline -> f_lba f = None -> 0 < token_lost_timeout (f_p f) ->
  exists f', poll ops f t0 (mkPhyIn false []) apps = Ok (f', mkPhyOut None [], apps, []) /\
             f_conn f' = ConnOnline /\ f_state f' = ListenToken None 0 /\ f_lba f' = Some t0 /\ f_p f' = f_p f.
Proof.
  intros Hc Hs Hl Hto. unfold poll, poll_traced, poll_inner. rewrite Hc, Hs. cbn [kind_of online_entry_kind tx_busy rx].
  unfold trans, transition_listen_token, assert_kind. rewrite Hs. cbn [kind_of may_transition_listen_token bind].
  rewrite body_eq.
  remember (set_st f (ListenToken None 0)) as g eqn:Eg.
  assert (Hsg : f_state g = ListenToken None 0) by (subst g; reflexivity).
  assert (Hlg : f_lba g = None) by (subst g; exact Hl).
  assert (Hpg : f_p g = f_p f) by (subst g; reflexivity).
  assert (Hcg : f_conn g = ConnOnline) by (subst g; exact Hc).
  clear Eg.
  unfold body, predicted. rewrite Hlg. cbn [orb].
  unfold check_for_bus_activity. cbn [w_rx note length].
  destruct (Nat.ltb_spec (f_pending g) 0) as [C|_]; [lia|].
  unfold dispatch. rewrite Hsg. cbn [kind_of poll_dispatch].
  unfold do_listen_token, assert_entry. rewrite Hsg. cbn [kind_of do_fn_entry state_kind_eqb bind].
  unfold handle_lost_token, lba_get_or_insert. rewrite Hlg.
  unfold inst_diff. rewrite Z.sub_diag. replace (i64_ok 0) with true by reflexivity. cbn [bind Z.abs f_p set_lba].
  rewrite Hpg. destruct (Z.leb_spec (token_lost_timeout (f_p f)) 0) as [C|_]; [lia|].
  cbn [bind f_state set_lba]. rewrite Hsg. cbn [get_listen_token bind].
  unfold receive_all_telegrams, receive_all_fuel. cbn [w_rx note length]. rewrite receive_all_step.
  cbn [decode_spec bind]. eexists. split; [reflexivity|]. cbn. repeat split; assumption.
Qed.

(* holding the token in a state that does not read the receive buffer (UseToken, the transmitting steps
   of ClaimToken, PassToken): new receive bytes restart the synchronisation pause, so nothing is
   transmitted in that poll, the bytes stay buffered, and the state kind is kept *)
Lemma wait_sync_fresh f now f2 b :
  f_lba f = Some now -> wait_synchronization_pause f now = Ok (f2, b) -> b = true /\ f2 = f.
Proof.
  intros Hl H. unfold wait_synchronization_pause, lba_get_or_insert in H. rewrite Hl in H.
  unfold inst_add in H. destruct (i64_ok _); cbn [bind] in H; [|discriminate H].
  injection H as <- <-. split; [|reflexivity]. apply Z.leb_le. pose proof (sync_nonneg f). lia.
Qed.

Definition holds_without_reading (s : state) : bool :=
  match s with
  | UseToken _ _ _ | PassToken _ _ | ClaimToken StepFirstToken | ClaimToken StepSecondToken | ClaimToken StepScan => true
  | _ => false
  end.

Theorem holding_defers f now pin (apps : list A) f' o a c :
  holds_without_reading (f_state f) = true -> tx_busy pin = false -> predicted f now = false ->
  (f_pending f < length (rx pin))%nat ->
  poll ops f now pin apps = Ok (f', o, a, c) ->
  o = mkPhyOut None (rx pin) /\ a = apps /\ c = [] /\ f_state f' = f_state f /\ f_ring f' = f_ring f.
Proof.
  intros Hh Hb Hp Hn H.
  apply poll_inv in H. destruct H as [w' [H [-> [-> ->]]]]. rewrite Hb in H.
  apply poll_inner_cases in H. destruct H as [[_ [Hs _]]|[_ [f0 [w0 [Hpro H]]]]]; [rewrite Hs in Hh; discriminate Hh|].
  assert (Hf0 : f0 = f /\ w0 = mkWorld (rx pin) None apps [] []).
  { destruct (in_pass (f_state f)) eqn:Ep; [exact (prologue_in_pass A _ _ _ _ Hpro Ep)|].
    apply (prologue_have_token A _ _ _ _ Hpro).
    destruct (f_state f) as [ | | | | |[ | | |x]| | | | ]; try discriminate Hh; try discriminate Ep; reflexivity. }
  destruct Hf0 as [-> ->].
  unfold body in H. rewrite Hp in H. cbn [orb] in H.
  destruct (check_for_bus_activity A f now _) as [f1 w1] eqn:Ec.
  apply cfba_new_bytes in Ec; [|exact Hp|exact Hn].
  destruct Ec as [[_ [Hr1 [_ [_ [Hs1 _]]]]] [Hl1 [_ [Htx1 [Hca1 [Hrx1 Hap1]]]]]].
  cbn [w_tx w_calls w_rx w_apps] in Htx1, Hca1, Hrx1, Hap1.
  unfold dispatch in H. rewrite Hs1 in H.
  destruct (f_state f) as [ | | | |tk fa fcd|[ | | |x]| |dg att| | ] eqn:Es; try discriminate Hh; cbn [kind_of poll_dispatch] in H.
  - (* UseToken *)
    unfold do_use_token, assert_entry in H. rewrite Hs1 in H. cbn [kind_of do_fn_entry state_kind_eqb bind get_use_token] in H.
    match type of H with bind ?x _ = _ => destruct x as [[f2 w2]| |] eqn:E1 end; cbn [bind] in H; try discriminate H.
    assert (H2 : f_lba f2 = Some now /\ f_state f2 = f_state f1 /\ f_ring f2 = f_ring f1 /\ w2 = w1 \/
                 f_lba f2 = Some now /\ f_state f2 = f_state f1 /\ f_ring f2 = f_ring f1 /\ exists tg, w2 = note A w1 tg).
    { destruct (negb _).
      - destruct (inst_add _ _) as [e| |]; cbn [bind] in E1; try discriminate E1.
        destruct (f_gap f1).
        + injection E1 as <- <-. right. cbn. repeat split; try assumption. eexists; reflexivity.
        + destruct (inst_sub_dur _ _) as [e2| |]; cbn [bind] in E1; try discriminate E1.
          injection E1 as <- <-. right. cbn. repeat split; try assumption. eexists; reflexivity.
      - injection E1 as <- <-. left. repeat split; try assumption. }
    assert (H3 : f_lba f2 = Some now /\ f_state f2 = f_state f1 /\ f_ring f2 = f_ring f1 /\
                 w_tx w2 = None /\ w_calls w2 = [] /\ w_rx w2 = rx pin /\ w_apps w2 = apps).
    { destruct H2 as [[A1 [A2 [A3 ->]]]|[A1 [A2 [A3 [tg ->]]]]]; cbn; repeat split; assumption. }
    destruct H3 as [A1 [A2 [A3 [B1 [B2 [B3 B4]]]]]].
    destruct (wait_synchronization_pause f2 now) as [[f3 wait]| |] eqn:Ew; cbn [bind] in H; try discriminate H.
    apply wait_sync_fresh in Ew; [|exact A1]. destruct Ew as [-> ->].
    injection H as <- <-. cbn. rewrite B1, B2, B3, B4. repeat split; congruence.
  - (* ClaimToken FirstToken *)
    unfold do_claim_token, assert_entry in H. rewrite Hs1 in H. cbn [kind_of do_fn_entry state_kind_eqb bind get_claim_token_step] in H.
    destruct (wait_synchronization_pause f1 now) as [[f3 wait]| |] eqn:Ew; cbn [bind] in H; try discriminate H.
    apply wait_sync_fresh in Ew; [|exact Hl1]. destruct Ew as [-> ->].
    injection H as <- <-. cbn. rewrite Htx1, Hca1, Hrx1, Hap1. repeat split; congruence.
  - (* ClaimToken SecondToken *)
    unfold do_claim_token, assert_entry in H. rewrite Hs1 in H. cbn [kind_of do_fn_entry state_kind_eqb bind get_claim_token_step] in H.
    destruct (wait_synchronization_pause f1 now) as [[f3 wait]| |] eqn:Ew; cbn [bind] in H; try discriminate H.
    apply wait_sync_fresh in Ew; [|exact Hl1]. destruct Ew as [-> ->].
    injection H as <- <-. cbn. rewrite Htx1, Hca1, Hrx1, Hap1. repeat split; congruence.
  - (* ClaimToken Scan *)
    unfold do_claim_token, assert_entry in H. rewrite Hs1 in H. cbn [kind_of do_fn_entry state_kind_eqb bind get_claim_token_step] in H.
    unfold do_claim_token_scan in H.
    destruct (wait_synchronization_pause f1 now) as [[f3 wait]| |] eqn:Ew; cbn [bind] in H; try discriminate H.
    apply wait_sync_fresh in Ew; [|exact Hl1]. destruct Ew as [-> ->].
    injection H as <- <-. cbn. rewrite Htx1, Hca1, Hrx1, Hap1. repeat split; congruence.
  - (* PassToken *)
    unfold do_pass_token, assert_entry in H. rewrite Hs1 in H. cbn [kind_of do_fn_entry state_kind_eqb bind] in H.
    destruct (wait_synchronization_pause f1 now) as [[f3 wait]| |] eqn:Ew; cbn [bind] in H; try discriminate H.
    apply wait_sync_fresh in Ew; [|exact Hl1]. destruct Ew as [-> ->].
    injection H as <- <-. cbn. rewrite Htx1, Hca1, Hrx1, Hap1. repeat split; congruence.
Qed.


(* the same for a station that has just been set online (state still Offline, no bus activity recorded):
   its first poll at t0 starts the time-out *)
Theorem fresh_station_claims : forall ts1 f (apps : list A) t0 T,
  f_conn f = ConnOnline -> f_state f = Offline -> f_lba f = None -> 0 < token_lost_timeout (f_p f) -> time_ok t0 ->
  Forall (fun t => time_ok t /\ t0 < t /\ t - t0 < token_lost_timeout (f_p f)) ts1 ->
  time_ok T -> token_lost_timeout (f_p f) <= T - t0 -> t0 + p_bits_to_time (f_p f) sync_pause_bits < T ->
  exists first pre last,
    run_polls ops f apps (map silent_in (t0 :: ts1 ++ [T])) = Ok (first :: pre ++ [last]) /\
    tx (s_out first) = None /\ f_state (s_f' first) = ListenToken None 0 /\
    Forall (fun s => tx (s_out s) = None /\ f_state (s_f' s) = ListenToken None 0) pre /\
    length pre = length ts1 /\
    s_now last = T /\ tx (s_out last) = Some (encode_token (ts f) (ts f)) /\
    f_state (s_f' last) = ClaimToken StepSecondToken /\ have_token (f_state (s_f' last)) = true.
Proof.
  intros ts1 f apps t0 T Hc Hs Hl Hto T0 Hall TT Hge Hsync.
  destruct (online_first_poll f t0 apps Hc Hs Hl Hto) as [f1 [Hp [Hc1 [Hs1 [Hl1 Hp1]]]]].
  destruct (lone_station_claims ts1 f1 apps t0 T) as [pre [last [Hrun [Hpre [Hlen [Hnow [Htx [Hst Hht]]]]]]]]; try assumption.
  - left. exists 0. exact Hs1.
  - rewrite Hp1. exact Hall.
  - rewrite Hp1. exact Hge.
  - rewrite Hp1. exact Hsync.
  - cbn [map silent_in run_polls]. fold silent_in. rewrite Hp. cbn [bind].
    change (map (fun t => (t, mkPhyIn false [])) (ts1 ++ [T])) with (map silent_in (ts1 ++ [T])).
    rewrite Hrun. cbn [bind].
    exists (mkStep f t0 (mkPhyIn false []) f1 (mkPhyOut None [])), pre, last.
    split; [reflexivity|]. cbn [s_out s_f' tx]. rewrite Hs1 in Hpre. unfold ts in *. rewrite Hp1 in Htx.
    repeat split; assumption.
Qed.

End WithApps.

(* a concrete run (non-vacuity of lone_station_claims): station 1 (default parameters: 19200 baud, slot
   100 bit, token-lost time-out (6 + 2*1) * 100 bit = 41666 us), listening since time 0, polled at
   10 ms, 20 ms and 45 ms on a silent bus *)
Definition ex_lone_station : res fdl :=
  let* r := ring_new 1 in
  Ok (mkFdl default_params r ConnOnline (GapDoPoll 1) (ListenToken None 0) (Some 0) 0 0 0 0).

Definition ex_lone_trace : res (list (state_kind * option bytes * nat)) :=
  let* f := ex_lone_station in
  let* steps := run_polls unit_app_ops f [tt] (map silent_in [10000; 20000; 45000]) in
  Ok (ghost_trace 0 steps).

