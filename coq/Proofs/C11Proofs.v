(* C11 (token hand-over: supervision, retry, heard-successor rule, second offer) over Model/Fdl.v.
   Part 1: decomposition of a poll, complete characterisation of do_pass_token and do_check_token_pass.
   Part 2: what every other do_* function can lead to (entry into a hand-over).
   Part 3: runs of polls, the ghost counter of token transmissions, C11_retry_discipline.
   Part 4: single-telegram polls in ActiveIdle, C11_accept_second_offer. *)
From PB Require Import Common Tables FdlTables Telegram Phy TokenRing Params Fdl FdlProofs FdlStepProofs DecodeSpec C16Proofs.

(* ------------------------------------------------------------------------------------------ *)
(* the ring view changes only through witness_token_pass calls                                  *)

Definition ring_witnessed (r r' : ring) : Prop := exists passes, run_w r passes = Ok r'.

Lemma rw_refl r : ring_witnessed r r.
Proof. exists []. reflexivity. Qed.

Lemma run_w_app_ p1 : forall p2 r, run_w r (p1 ++ p2) = (let* r' := run_w r p1 in run_w r' p2).
Proof.
  induction p1 as [|[sa da] t IH]; intros p2 r; cbn [app run_w bind]; [reflexivity|].
  destruct (witness r sa da); cbn [bind]; [apply IH|reflexivity|reflexivity].
Qed.

Lemma rw_step r r1 r2 sa da : ring_witnessed r r1 -> witness r1 sa da = Ok r2 -> ring_witnessed r r2.
Proof.
  intros [ps H] Hw. exists (ps ++ [(sa, da)]). rewrite run_w_app_, H. cbn [bind run_w]. rewrite Hw. reflexivity.
Qed.

Lemma rw_trans r r1 r2 : ring_witnessed r r1 -> ring_witnessed r1 r2 -> ring_witnessed r r2.
Proof. intros [p1 H1] [p2 H2]. exists (p1 ++ p2). rewrite run_w_app_, H1. exact H2. Qed.

Definition in_pass (s : state) : bool :=
  match s with PassToken _ _ | CheckTokenPass _ => true | _ => false end.

(* states a station can be in after it heard traffic while supervising / idling *)
Definition heard_kind (s : state) : Prop :=
  match s with ActiveIdle _ _ _ | UseToken _ _ _ | ListenToken _ _ => True | _ => False end.


(* one poll of a run: station before, time, PHY input, station after, PHY output *)
Record step_rec : Type := mkStep { s_f : fdl; s_now : Z; s_in : phy_in; s_f' : fdl; s_out : phy_out }.

Definition att_index (a : attempt) : nat := match a with AttFirst => 1 | AttSecond => 2 | AttThird => 3 end.

(* Ghost counter of token transmissions of the current hand-over.  It is driven by observations only
   (does the poll transmit; is the station in PassToken / CheckTokenPass afterwards): it counts the
   transmissions, starts again at 1 with the transmission after the third, and is 0 outside a hand-over. *)
Definition ghost_next (c : nat) (f' : fdl) (o : phy_out) : nat :=
  if in_pass (f_state f') then
    match tx o with Some _ => if Nat.eqb c 3 then 1%nat else S c | None => c end
  else 0%nat.

(* the ghost counter agrees with the attempt label of the code *)
Definition ghost_ok (c : nat) (f : fdl) : Prop :=
  match f_state f with
  | CheckTokenPass a => c = att_index a
  | PassToken _ a => c = pred (att_index a) \/ (a = AttFirst /\ c = 3%nat)
  | _ => c = 0%nat
  end.

Section WithApps.
Variable A : Type.
Variable ops : app_ops A.
Notation W := (world A).

(* ------------------------------------------------------------------------------------------ *)
(* Part 1a: a poll = connectivity prologue; busy / predicted-end guard; bus activity; dispatch    *)

Definition dispatch (f : fdl) (now : Z) (w : W) : res (fdl * W) :=
  match poll_dispatch (kind_of (f_state f)) with
  | TgUnreachable => Panic SiteUnreachable
  | TgTodo => Panic SiteUnreachable
  | TgDo DoListenToken => do_listen_token A f now w
  | TgDo DoClaimToken => do_claim_token A f now w
  | TgDo DoUseToken => do_use_token A ops f now w
  | TgDo DoAwaitDataResponse => do_await_data_response A ops f now w
  | TgDo DoPassToken => do_pass_token A f now w
  | TgDo DoCheckTokenPass => do_check_token_pass A f now w
  | TgDo DoActiveIdle => do_active_idle A f now w
  | TgDo DoAwaitStatusResponse => do_await_status_response A f now w
  end.

(* `now` is not after the recorded (predicted) end of bus activity *)
Definition predicted (f : fdl) (now : Z) : bool :=
  match f_lba f with Some l => now <=? l | None => false end.

Definition body (f : fdl) (now : Z) (busy : bool) (w : W) : res (fdl * W) :=
  if busy || predicted f now
  then Ok (mark_bus_activity f now, note A w (if busy then TOngoingPhy else TOngoingPredicted))
  else let (f1, w1) := check_for_bus_activity A f now w in dispatch f1 now w1.

Lemma body_eq f now busy w :
  (let '(f1, w1, done) := check_for_ongoing_transmision A f now busy w in
   if done then Ok (f1, w1) else
   let (f2, w2) := check_for_bus_activity A f1 now w1 in
   match poll_dispatch (kind_of (f_state f2)) with
   | TgUnreachable => Panic SiteUnreachable
   | TgTodo => Panic SiteUnreachable
   | TgDo DoListenToken => do_listen_token A f2 now w2
   | TgDo DoClaimToken => do_claim_token A f2 now w2
   | TgDo DoUseToken => do_use_token A ops f2 now w2
   | TgDo DoAwaitDataResponse => do_await_data_response A ops f2 now w2
   | TgDo DoPassToken => do_pass_token A f2 now w2
   | TgDo DoCheckTokenPass => do_check_token_pass A f2 now w2
   | TgDo DoActiveIdle => do_active_idle A f2 now w2
   | TgDo DoAwaitStatusResponse => do_await_status_response A f2 now w2
   end) = body f now busy w.
Proof.
  unfold body, check_for_ongoing_transmision, predicted, dispatch. cbn [ongoing_uses_predicted_end andb].
  destruct (busy || match f_lba f with Some l => now <=? l | None => false end); reflexivity.
Qed.

(* what the connectivity prologue does to the station before the body of the poll *)
Inductive prologue : fdl -> W -> fdl -> W -> Prop :=
| ProNone f w : prologue f w f w
| ProTrans f w s' : in_pass (f_state f) = false -> have_token (f_state f) = false ->
    (s' = ListenToken None 0 /\ f_conn f = ConnOnline /\ online_entry_kind (kind_of (f_state f)) = true) \/ s' = PassiveIdle ->
    prologue f w (set_st f s') (note A w (TTrans (kind_of (f_state f)) (kind_of s'))).

Lemma poll_inner_cases f now busy w f' w' : poll_inner ops f now busy w = Ok (f', w') ->
  (f_conn f = ConnOffline /\ f_state f = Offline /\ f' = f /\ w' = w) \/
  (f_conn f <> ConnOffline /\ exists f0 w0, prologue f w f0 w0 /\ body f0 now busy w0 = Ok (f', w')).
Proof.
  unfold poll_inner. intros H. destruct (f_conn f) eqn:Ec.
  - destruct (f_state f) eqn:Es; try discriminate H. cbn [bind] in H. injection H as <- <-. left. repeat split; reflexivity.
  - right. split; [discriminate|].
    destruct (passive_entry_kind (kind_of (f_state f))) eqn:Ek.
    + unfold trans, transition_passive_idle, assert_kind in H.
      destruct (may_transition_passive_idle (kind_of (f_state f))); cbn [bind] in H; [|discriminate H].
      rewrite body_eq in H. eexists. eexists. split; [|exact H].
      apply ProTrans; [destruct (f_state f); try discriminate Ek; reflexivity|destruct (f_state f); try discriminate Ek; reflexivity|right; reflexivity].
    + cbn [bind] in H. rewrite body_eq in H. eexists. eexists. split; [apply ProNone|exact H].
  - right. split; [discriminate|].
    destruct (online_entry_kind (kind_of (f_state f))) eqn:Ek.
    + unfold trans, transition_listen_token, assert_kind in H.
      destruct (may_transition_listen_token (kind_of (f_state f))); cbn [bind] in H; [|discriminate H].
      rewrite body_eq in H. eexists. eexists. split; [|exact H].
      apply ProTrans; [destruct (f_state f); try discriminate Ek; reflexivity|destruct (f_state f); try discriminate Ek; reflexivity|left; split; [reflexivity|split; [exact Ec|exact Ek]]].
    + cbn [bind] in H. rewrite body_eq in H. eexists. eexists. split; [apply ProNone|exact H].
Qed.

(* states that the prologue leaves alone (everything but Offline / PassiveIdle and, for the passive
   connectivity, ListenToken / ActiveIdle) *)
Lemma prologue_in_pass f w f0 w0 : prologue f w f0 w0 -> in_pass (f_state f) = true -> f0 = f /\ w0 = w.
Proof. intros [f1 w1|f1 w1 s' Hn _ _] Hp; [split; reflexivity|rewrite Hp in Hn; discriminate Hn]. Qed.

Lemma prologue_have_token f w f0 w0 : prologue f w f0 w0 -> have_token (f_state f) = true -> f0 = f /\ w0 = w.
Proof. intros [f1 w1|f1 w1 s' _ Hn _] Hp; [split; reflexivity|rewrite Hp in Hn; discriminate Hn]. Qed.

Lemma prologue_frame f w f0 w0 : prologue f w f0 w0 ->
  f_p f0 = f_p f /\ f_ring f0 = f_ring f /\ f_lba f0 = f_lba f /\ f_pending f0 = f_pending f /\ f_gap f0 = f_gap f /\
  w_tx w0 = w_tx w /\ w_calls w0 = w_calls w /\ w_rx w0 = w_rx w /\ w_apps w0 = w_apps w.
Proof. intros [f1 w1|f1 w1 s' _ _ _]; cbn; repeat split; reflexivity. Qed.

Lemma prologue_not_in_pass f w f0 w0 : prologue f w f0 w0 -> in_pass (f_state f) = false -> in_pass (f_state f0) = false.
Proof. intros [f1 w1|f1 w1 s' _ _ [[-> _]| ->]] Hp; [exact Hp|reflexivity|reflexivity]. Qed.

(* `poll` in terms of poll_inner *)
Lemma poll_inv f now pin (apps : list A) f' o a c :
  poll ops f now pin apps = Ok (f', o, a, c) ->
  exists w', poll_inner ops f now (tx_busy pin) (mkWorld (rx pin) None apps [] []) = Ok (f', w') /\
             o = mkPhyOut (w_tx w') (w_rx w') /\ a = w_apps w' /\ c = w_calls w'.
Proof.
  unfold poll, poll_traced. intros H.
  destruct (poll_inner ops f now (tx_busy pin) (mkWorld (rx pin) None apps [] [])) as [[f1 w1]| |]; cbn [bind] in H; try discriminate H.
  injection H as <- <- <- <-. exists w1. repeat split; reflexivity.
Qed.

(* bus-activity bookkeeping leaves everything but last_bus_activity / pending_bytes alone *)
Definition same_but_lba_pending (f f' : fdl) : Prop :=
  f_p f' = f_p f /\ f_ring f' = f_ring f /\ f_conn f' = f_conn f /\ f_gap f' = f_gap f /\
  f_state f' = f_state f /\ f_last_token_time f' = f_last_token_time f /\
  f_end_tht f' = f_end_tht f /\ f_next_app f' = f_next_app f.

Lemma sblp_refl f : same_but_lba_pending f f.
Proof. unfold same_but_lba_pending. repeat split; reflexivity. Qed.

Lemma sblp_trans f g h : same_but_lba_pending f g -> same_but_lba_pending g h -> same_but_lba_pending f h.
Proof. unfold same_but_lba_pending. intuition congruence. Qed.

Lemma sbl_sblp f f' : same_but_lba f f' -> same_but_lba_pending f f'.
Proof. unfold same_but_lba, same_but_lba_pending. intuition congruence. Qed.

Lemma mark_bus_activity_sblp f now : same_but_lba_pending f (mark_bus_activity f now).
Proof. unfold mark_bus_activity, lba_get_or_insert, same_but_lba_pending. destruct (f_lba f); cbn; repeat split; reflexivity. Qed.

Lemma mark_bus_activity_lba f now :
  f_lba (mark_bus_activity f now) = Some (match f_lba f with Some l => Z.max l now | None => now end) /\
  f_pending (mark_bus_activity f now) = f_pending f.
Proof. unfold mark_bus_activity, lba_get_or_insert. destruct (f_lba f); cbn; rewrite ?Z.max_id; split; reflexivity. Qed.

Lemma cfba_spec f now (w : W) f1 w1 : check_for_bus_activity A f now w = (f1, w1) ->
  same_but_lba_pending f f1 /\ w_tx w1 = w_tx w /\ w_calls w1 = w_calls w /\ w_rx w1 = w_rx w /\ w_apps w1 = w_apps w /\
  (if Nat.ltb (f_pending f) (length (w_rx w))
   then f_lba f1 = Some (match f_lba f with Some l => Z.max l now | None => now end) /\ f_pending f1 = length (w_rx w)
   else f1 = f).
Proof.
  unfold check_for_bus_activity. destruct (Nat.ltb (f_pending f) (length (w_rx w))); intros H; injection H as <- <-.
  - split; [|cbn; repeat split; try reflexivity; apply mark_bus_activity_lba].
    eapply sblp_trans; [apply mark_bus_activity_sblp|]. unfold same_but_lba_pending. cbn. repeat split; reflexivity.
  - split; [apply sblp_refl|]. repeat split; reflexivity.
Qed.

(* ------------------------------------------------------------------------------------------ *)
(* Part 1b: do_pass_token, completely                                                           *)

Lemma phy_send_token (w : W) da sa : w_tx w = None ->
  phy_send A w (TxToken da sa) =
  Ok (mkWorld (w_rx w) (Some (encode_token da sa)) (w_apps w) (w_calls w) (w_trace w), 3%nat).
Proof.
  intros Hw. unfold phy_send, transmit. replace (Nat.ltb tx_buffer_size 3) with false by reflexivity.
  cbn [bind]. unfold phy_transmit. rewrite Hw. reflexivity.
Qed.

(* the result of the token transmission at the end of do_pass_token *)
Definition token_passed (f : fdl) (now : Z) (att : attempt) (w : W) (f' : fdl) (w' : W) : Prop :=
  exists r', witness (f_ring f) (ts f) (r_ns (f_ring f)) = Ok r' /\ f_ring f' = r' /\
    w_tx w' = Some (encode_token (r_ns (f_ring f)) (ts f)) /\
    f_state f' = (if r_ns r' =? ts f then UseToken now None false else CheckTokenPass att) /\
    f_p f' = f_p f /\ f_conn f' = f_conn f /\ w_calls w' = w_calls w /\ w_rx w' = w_rx w /\ w_apps w' = w_apps w.

Lemma pass_tail_spec f now (w : W) f' w' dg att :
  f_state f = PassToken dg att -> w_tx w = None ->
  (let* (w1, n) := phy_send A w (TxToken (r_ns (f_ring f)) (ts f)) in
   let* r := witness (f_ring f) (ts f) (r_ns (f_ring f)) in
   let* (f1, w0) :=
     (if r_ns (f_ring (set_ring f r)) =? ts (set_ring f r)
      then trans A (set_ring f r) (note A w1 TPassTokenToSelf) (fun s : state => transition_use_token s now None)
      else let* (_, attempt) := get_pass_token (f_state (set_ring f r)) in
           trans A (set_ring f r) (note A w1 TPassToken) (fun s : state => transition_check_token_pass s attempt)) in
   let* f0 := mark_tx f1 now n in Ok (f0, w0)) = Ok (f', w') ->
  token_passed f now att w f' w'.
Proof.
  intros Hst Hw H. rewrite (phy_send_token w _ _ Hw) in H. cbn [bind] in H.
  destruct (witness (f_ring f) (ts f) (r_ns (f_ring f))) as [r| |] eqn:Ewit; cbn [bind] in H; try discriminate H.
  cbn [set_ring f_ring f_state] in H. change (ts (set_ring f r)) with (ts f) in H.
  match type of H with bind ?x _ = _ => destruct x as [[f1 w0]| |] eqn:E end; cbn [bind] in H; try discriminate H.
  destruct (mark_tx f1 now 3) as [f0| |] eqn:Em; cbn [bind] in H; try discriminate H.
  injection H as <- <-. apply mark_tx_same in Em. destruct Em as [Hp [Hr [Hc [_ [Hs _]]]]].
  exists r. split; [exact Ewit|].
  destruct (r_ns r =? ts f).
  - apply trans_spec in E. destruct E as [s' [Ht [-> ->]]]. cbn [set_ring f_state] in Ht. rewrite Hst in Ht.
    cbn in Ht. injection Ht as <-. rewrite Hr, Hs, Hp, Hc. cbn. repeat split; reflexivity.
  - rewrite Hst in E. cbn [get_pass_token bind] in E.
    apply trans_spec in E. destruct E as [s' [Ht [-> ->]]]. cbn [set_ring f_state] in Ht. rewrite Hst in Ht.
    cbn in Ht. injection Ht as <-. rewrite Hr, Hs, Hp, Hc. cbn. repeat split; reflexivity.
Qed.

Inductive pass_outcome (f : fdl) (now : Z) (dg : bool) (att : attempt) (w : W) (f' : fdl) (w' : W) : Prop :=
| PoWait : same_but_lba f f' -> w_tx w' = None -> w_calls w' = w_calls w -> w_rx w' = w_rx w -> w_apps w' = w_apps w ->
    pass_outcome f now dg att w f' w'                       (* synchronisation pause not over *)
| PoGapPoll a : dg = true -> f_state f' = AwaitStatusResponse a -> f_ring f' = f_ring f -> f_p f' = f_p f -> f_conn f' = f_conn f ->
    w_tx w' <> None -> w_calls w' = w_calls w -> w_rx w' = w_rx w -> w_apps w' = w_apps w ->
    pass_outcome f now dg att w f' w'                       (* a GAP poll instead of the token *)
| PoToken : token_passed f now att w f' w' -> pass_outcome f now dg att w f' w'.

Lemma do_pass_token_spec f now (w : W) f' w' dg att :
  f_state f = PassToken dg att -> w_tx w = None ->
  do_pass_token A f now w = Ok (f', w') -> pass_outcome f now dg att w f' w'.
Proof.
  intros Hst Hw H. unfold do_pass_token, assert_entry in H. rewrite Hst in H.
  cbn [kind_of do_fn_entry state_kind_eqb bind] in H.
  destruct (wait_synchronization_pause f now) as [[f1 wait]| |] eqn:Ew; cbn [bind] in H; try discriminate H.
  apply wait_sync_same in Ew. destruct Ew as [Hsame _]. pose proof Hsame as [Hp1 [Hr1 [Hc1 [Hg1 [Hs1 _]]]]].
  destruct wait.
  - injection H as <- <-. apply PoWait; try reflexivity; [exact Hsame|exact Hw].
  - rewrite Hs1, Hst in H. cbn [get_pass_token bind] in H.
    assert (Htok : forall f2 (w2 : W), f_state f2 = PassToken dg att -> f_ring f2 = f_ring f -> f_p f2 = f_p f -> f_conn f2 = f_conn f ->
              w_tx w2 = None -> w_calls w2 = w_calls w -> w_rx w2 = w_rx w -> w_apps w2 = w_apps w ->
              token_passed f2 now att w2 f' w' -> pass_outcome f now dg att w f' w').
    { intros f2 w2 Hs2 Hr2 Hp2 Hc2 Ht2 Hca2 Hrx2 Hap2 [r' [Hwit [Hr' [Htx [Hst' [Hp' [Hc' [Hca' [Hrx' Hap']]]]]]]]].
      apply PoToken. exists r'. unfold ts in *. rewrite Hr2, Hp2 in *. repeat split; try assumption; congruence. }
    destruct dg.
    + match type of H with bind (bind ?r _) _ = _ => destruct r as [[f2 w2]| |] eqn:Eg end; cbn [bind] in H; try discriminate H.
      destruct (transmit_gap_poll_if_pending A f2 now w2) as [[[f3 w3] polled]| |] eqn:Et; cbn [bind] in H; try discriminate H.
      assert (Hf2 : f_state f2 = PassToken true att /\ f_ring f2 = f_ring f /\ f_p f2 = f_p f /\ f_conn f2 = f_conn f /\
                    w_tx w2 = None /\ w_calls w2 = w_calls w /\ w_rx w2 = w_rx w /\ w_apps w2 = w_apps w).
      { destruct (f_gap f1) as [rc|cur] eqn:Eg1.
        - destruct (p_gap_wait (f_p f1) <? rc).
          + unfold next_gap_poll_traced in Eg. destruct (next_gap_poll f1 (ts f1)) as [g| |]; cbn [bind] in Eg; try discriminate Eg.
            injection Eg as <- <-. cbn. rewrite Hs1, Hst, Hr1, Hp1, Hc1. repeat split; try reflexivity; exact Hw.
          + unfold u8_add in Eg. destruct (rc + 1 <=? 255); cbn [bind] in Eg; [|discriminate Eg].
            injection Eg as <- <-. cbn. rewrite Hs1, Hst, Hr1, Hp1, Hc1. repeat split; try reflexivity; exact Hw.
        - unfold next_gap_poll_traced in Eg. destruct (next_gap_poll f1 cur) as [g| |]; cbn [bind] in Eg; try discriminate Eg.
          injection Eg as <- <-. cbn. rewrite Hs1, Hst, Hr1, Hp1, Hc1. repeat split; try reflexivity; exact Hw. }
      destruct Hf2 as [Hs2 [Hr2 [Hp2 [Hc2 [Ht2 [Hca2 [Hrx2 Hap2]]]]]]].
      pose proof Et as Et'. apply transmit_gap_poll_spec in Et. destruct Et as [[Hp3 [Hr3 [Hc3 [Hg3 [Hs3 _]]]]] Hpol].
      destruct polled as [pa|].
      * apply trans_spec in H. destruct H as [s' [Ht [-> ->]]].
        rewrite Hs3, Hs2 in Ht. cbn in Ht. injection Ht as <-.
        destruct Hpol as [Hgp [Hne [Hnone [wire Hsome]]]].
        unfold transmit_gap_poll_if_pending in Et'. rewrite Hgp in Et'.
        destruct (pa =? ts f2); [discriminate Et'|].
        destruct (phy_send A w2 _) as [[w4 n]| |] eqn:Eps; cbn [bind] in Et'; try discriminate Et'.
        destruct (mark_tx f2 now n) as [f4| |]; cbn [bind] in Et'; try discriminate Et'. injection Et' as _ <-.
        apply phy_send_tx in Eps. destruct Eps as [_ [_ [Hca4 [Hrx4 Hap4]]]].
        eapply PoGapPoll; cbn; try reflexivity; try congruence.
      * destruct Hpol as [_ [-> ->]].
        eapply Htok; [exact Hs2|exact Hr2|exact Hp2|exact Hc2|exact Ht2|exact Hca2|exact Hrx2|exact Hap2|].
        eapply pass_tail_spec; [exact Hs2|exact Ht2|exact H].
    + cbn [bind] in H.
      eapply Htok; [rewrite Hs1; exact Hst|exact Hr1|exact Hp1|exact Hc1|exact Hw|reflexivity|reflexivity|reflexivity|].
      eapply pass_tail_spec; [rewrite Hs1; exact Hst|exact Hw|exact H].
Qed.


(* ------------------------------------------------------------------------------------------ *)
(* Part 1c: handle_telegram never leaves {ActiveIdle, UseToken, ListenToken}, never transmits,
   and touches the ring view only through witness_token_pass                                     *)

Lemma handle_telegram_heard now f (w : W) t il f' w' :
  heard_kind (f_state f) -> handle_telegram A now f w t il = Ok (f', w') ->
  heard_kind (f_state f') /\ ring_witnessed (f_ring f) (f_ring f') /\ f_p f' = f_p f /\ f_conn f' = f_conn f /\
  w_tx w' = w_tx w /\ w_calls w' = w_calls w /\ w_apps w' = w_apps w /\ w_rx w' = w_rx w /\
  f_lba f' = f_lba f /\ f_pending f' = f_pending f.
Proof.
  unfold handle_telegram. intros Hk H.
  destruct (f_state f) as [ | |sr0 cc0|sr nps cc|tk fa fcd| | | | | ] eqn:Es; cbn in Hk; try contradiction.
  - injection H as <- <-. rewrite Es. cbn. repeat split; try reflexivity. apply rw_refl.
  - cbn [negb kind_of state_kind_eqb] in H.
    destruct t as [h pdu|da sa|].
    + destruct (is_fdl_status_request h && (h_da h =? ts f) && il).
      * cbn [get_active_idle bind] in H. injection H as <- <-. cbn. repeat split; try reflexivity. apply rw_refl.
      * injection H as <- <-. rewrite Es. cbn. repeat split; try reflexivity. apply rw_refl.
    + cbn [get_active_idle bind] in H. destruct (sa =? ts f).
      * destruct (u8_add cc 1) as [cc'| |]; cbn [bind] in H; try discriminate H.
        destruct (cc' =? active_idle_collision_tolerated).
        -- injection H as <- <-. cbn. repeat split; try reflexivity. apply rw_refl.
        -- apply trans_spec in H. destruct H as [s' [Ht [-> ->]]]. cbn in Ht. injection Ht as <-.
           cbn. repeat split; try reflexivity. apply rw_refl.
      * match type of H with (if ?c then _ else _) = _ => destruct c end.
        -- destruct (witness _ _ _) as [r| |] eqn:Ew; cbn [bind] in H; try discriminate H. injection H as <- <-.
           cbn. split; [exact I|]. split; [eapply rw_step; [apply rw_refl|exact Ew]|]. repeat split; reflexivity.
        -- match type of H with (if ?c then _ else _) = _ => destruct c end.
           ++ apply trans_spec in H. destruct H as [s' [Ht [-> ->]]]. cbn in Ht. injection Ht as <-.
              cbn. repeat split; try reflexivity. apply rw_refl.
           ++ destruct nps as [address|].
              ** destruct (address =? sa).
                 --- destruct (witness _ _ _) as [r| |] eqn:Ew; cbn [bind] in H; try discriminate H.
                     apply trans_spec in H. destruct H as [s' [Ht [-> ->]]]. cbn in Ht. injection Ht as <-.
                     cbn. split; [exact I|]. split; [eapply rw_step; [apply rw_refl|exact Ew]|]. repeat split; reflexivity.
                 --- injection H as <- <-. cbn. repeat split; try reflexivity. apply rw_refl.
              ** injection H as <- <-. cbn. repeat split; try reflexivity. apply rw_refl.
    + injection H as <- <-. rewrite Es. cbn. repeat split; try reflexivity. apply rw_refl.
  - cbn [negb kind_of state_kind_eqb] in H. discriminate H.
Qed.

(* ------------------------------------------------------------------------------------------ *)
(* Part 1d: do_check_token_pass, completely                                                      *)

Lemma cse_spec f now f1 b : check_slot_expired f now = Ok (f1, b) ->
  same_but_lba f f1 /\
  exists l, (match f_lba f with Some l0 => l = l0 | None => l = now end) /\ f_lba f1 = Some l /\
            b = (l + slot_time (f_p f) <? now).
Proof.
  unfold check_slot_expired. destruct (lba_get_or_insert f now) as [l f0] eqn:E.
  apply lba_get_or_insert_same in E. destruct E as [Hs [Hl Hm]].
  unfold inst_add. destruct (i64_ok _); cbn [bind]; [|discriminate].
  intros H. injection H as <- <-. split; [exact Hs|]. exists l. split; [exact Hm|]. split; [exact Hl|].
  destruct Hs as [Hp _]. rewrite Hp. reflexivity.
Qed.

(* invariant of the receive loop of do_check_token_pass: nothing heard yet (station untouched), or
   the station went to ActiveIdle and handled telegrams from there *)
Definition ctp_inv (f0 : fdl) (w0 : W) (s : fdl * W * bool) : Prop :=
  let '(f, w, fi) := s in
  w_tx w = w_tx w0 /\ w_calls w = w_calls w0 /\ w_apps w = w_apps w0 /\ f_p f = f_p f0 /\ f_conn f = f_conn f0 /\
  ring_witnessed (f_ring f0) (f_ring f) /\
  (if fi : bool then f_state f = f_state f0 /\ f_ring f = f_ring f0 else heard_kind (f_state f)).

Lemma ctp_telegram_inv now f0 (w0 : W) att s t il s' u :
  f_state f0 = CheckTokenPass att -> ctp_inv f0 w0 s ->
  check_token_pass_telegram A now s t il = Ok (s', u) -> ctp_inv f0 w0 s' /\ snd s' = false.
Proof.
  destruct s as [[f w] fi]. destruct s' as [[f' w'] fi']. intros Hst0 Hinv H.
  destruct Hinv as [Itx [Ica [Iap [Ip [Ic [Irw Ifi]]]]]].
  unfold check_token_pass_telegram in H.
  destruct (mark_rx_frame f now) as [Mp [Mr [Mg [Ms [Mc _]]]]].
  match type of H with bind ?x _ = _ => destruct x as [[f1 w1]| |] eqn:E1 end; cbn [bind] in H; try discriminate H.
  assert (H1 : heard_kind (f_state f1) /\ f_ring f1 = f_ring f /\ f_p f1 = f_p f /\ f_conn f1 = f_conn f /\
               w_tx w1 = w_tx w /\ w_calls w1 = w_calls w /\ w_apps w1 = w_apps w).
  { destruct fi.
    - destruct Ifi as [Ifs _]. apply trans_spec in E1. destruct E1 as [s1 [Ht [-> ->]]].
      rewrite Ms, Ifs, Hst0 in Ht. cbn in Ht. injection Ht as <-. cbn. rewrite Mr, Mp, Mc. repeat split; reflexivity.
    - injection E1 as <- <-. rewrite Ms, Mr, Mp, Mc. repeat split; try reflexivity. exact Ifi. }
  destruct H1 as [Hk1 [Hr1 [Hp1 [Hc1 [Htx1 [Hca1 Hap1]]]]]].
  destruct (handle_telegram A now f1 w1 t il) as [[f2 w2]| |] eqn:Eh; cbn [bind] in H; try discriminate H.
  injection H as <- <- <- _.
  apply handle_telegram_heard in Eh; [|exact Hk1].
  destruct Eh as [Hk2 [Hrw2 [Hp2 [Hc2 [Htx2 [Hca2 [Hap2 _]]]]]]].
  split; [|reflexivity]. unfold ctp_inv.
  split; [congruence|]. split; [congruence|]. split; [congruence|]. split; [congruence|]. split; [congruence|].
  split; [|exact Hk2]. eapply rw_trans; [exact Irw|]. rewrite <- Hr1. exact Hrw2.
Qed.

Lemma do_check_token_pass_waiting f now (w : W) f1 att f' w' :
  f_state f = CheckTokenPass att -> check_slot_expired f now = Ok (f1, false) ->
  do_check_token_pass A f now w = Ok (f', w') ->
  w_tx w' = w_tx w /\ w_calls w' = w_calls w /\ w_apps w' = w_apps w /\ f_p f' = f_p f /\ f_conn f' = f_conn f /\
  ring_witnessed (f_ring f) (f_ring f') /\
  match decode_spec (w_rx w) with
  | Accept _ _ => heard_kind (f_state f')
  | Reject => f_state f' = CheckTokenPass att /\ f_ring f' = f_ring f /\ f_gap f' = f_gap f /\ w_rx w' = [] /\ f_pending f' = 0%nat
  | NeedMore => f_state f' = CheckTokenPass att /\ f_ring f' = f_ring f /\ f_gap f' = f_gap f /\ w_rx w' = w_rx w
  end.
Proof.
  intros Hst Hexp H. unfold do_check_token_pass, assert_entry in H. rewrite Hst in H.
  cbn [kind_of do_fn_entry state_kind_eqb bind] in H. rewrite Hexp in H. cbn [bind] in H.
  apply cse_spec in Hexp. destruct Hexp as [[Hp1 [Hr1 [Hc1 [Hg1 [Hs1 _]]]]] _].
  unfold receive_all_fuel in H. rewrite receive_all_step in H.
  destruct (decode_spec (w_rx w)) as [ | |t n] eqn:D.
  - cbn [bind] in H. injection H as <- <-. cbn. rewrite Hs1, Hr1, Hp1, Hc1, Hg1, Hst.
    repeat split; try reflexivity; try apply rw_refl.
  - cbn [bind] in H. injection H as <- <-. cbn. rewrite Hs1, Hr1, Hp1, Hc1, Hg1, Hst.
    repeat split; try reflexivity; try apply rw_refl. destruct (f_pending f1); reflexivity.
  - cbv zeta in H.
    assert (Hinv0 : ctp_inv f1 w (f1, w, true)).
    { unfold ctp_inv. repeat split; try reflexivity. apply rw_refl. }
    assert (Hs1' : f_state f1 = CheckTokenPass att) by (rewrite Hs1; exact Hst).
    destruct (check_token_pass_telegram A now (f1, w, true) t (Nat.eqb n (length (w_rx w)))) as [[s1 r1]| |] eqn:Ecb;
      cbn [bind] in H; try discriminate H.
    destruct (ctp_telegram_inv _ _ _ _ _ _ _ _ _ Hs1' Hinv0 Ecb) as [Hinv1 Hfi1].
    assert (Hfin : exists f2 w2 rest, ctp_inv f1 w (f2, w2, false) /\ f' = sync_pending_bytes A f2 (set_rx A w2 rest) /\ w' = set_rx A w2 rest).
    { destruct (Nat.eqb n (length (w_rx w))).
      - cbn [bind] in H. destruct s1 as [[f2 w2] fi2]. cbn [snd] in Hfi1. subst fi2.
        injection H as <- <-. exists f2, w2, (skipn n (w_rx w)). split; [exact Hinv1|split; reflexivity].
      - destruct (receive_all (check_token_pass_telegram A now) (length (w_rx w)) s1 (skipn n (w_rx w))) as [[[s2 rest] r2]| |] eqn:Er;
          cbn [bind] in H; try discriminate H.
        assert (Hinv2 : ctp_inv f1 w s2 /\ snd s2 = false).
        { refine (receive_all_inv (fun s => ctp_inv f1 w s /\ snd s = false) (check_token_pass_telegram A now) _ _ s1 _ s2 rest r2 (conj Hinv1 Hfi1) Er).
          intros s t0 il s' u [Hi _] Hc. exact (ctp_telegram_inv _ _ _ _ _ _ _ _ _ Hs1' Hi Hc). }
        destruct s2 as [[f2 w2] fi2]. destruct Hinv2 as [Hinv2 Hfi2]. cbn [snd] in Hfi2. subst fi2.
        injection H as <- <-. exists f2, w2, rest. split; [exact Hinv2|split; reflexivity]. }
    destruct Hfin as [f2 [w2 [rest [[Itx [Ica [Iap [Ip [Ic [Irw Ik]]]]]] [-> ->]]]]].
    cbn. rewrite <- Hr1. rewrite Itx, Ica, Iap, Ip, Ic, Hp1, Hc1. repeat split; try reflexivity; assumption.
Qed.

Lemma do_check_token_pass_expired f now (w : W) f1 att f' w' :
  f_state f = CheckTokenPass att -> check_slot_expired f now = Ok (f1, true) ->
  do_check_token_pass A f now w = Ok (f', w') ->
  exists f2 w1, do_pass_token A f2 now w1 = Ok (f', w') /\
    f_state f2 = PassToken false (check_pass_next att) /\
    (if check_pass_removes att then remove_station (f_ring f) (r_ns (f_ring f)) = Ok (f_ring f2) else f_ring f2 = f_ring f) /\
    f_p f2 = f_p f /\ f_conn f2 = f_conn f /\ f_gap f2 = f_gap f /\ f_lba f2 = f_lba f1 /\
    w_tx w1 = w_tx w /\ w_calls w1 = w_calls w /\ w_rx w1 = w_rx w /\ w_apps w1 = w_apps w.
Proof.
  intros Hst Hexp H. unfold do_check_token_pass, assert_entry in H. rewrite Hst in H.
  cbn [kind_of do_fn_entry state_kind_eqb bind] in H. rewrite Hexp in H. cbn [bind] in H.
  apply cse_spec in Hexp. destruct Hexp as [[Hp1 [Hr1 [Hc1 [Hg1 [Hs1 _]]]]] _].
  rewrite Hs1, Hst in H. cbn [get_check_token_pass_attempt bind] in H.
  destruct (check_pass_removes att).
  - rewrite Hr1 in H.
    destruct (remove_station (f_ring f) (r_ns (f_ring f))) as [r| |] eqn:Er; cbn [bind] in H; try discriminate H.
    match type of H with bind ?x _ = _ => destruct x as [[f2 w2]| |] eqn:Et end; cbn [bind] in H; try discriminate H.
    apply trans_spec in Et. destruct Et as [s' [Ht [-> ->]]]. cbn [set_ring f_state] in Ht. rewrite Hs1, Hst in Ht.
    cbn in Ht. injection Ht as <-.
    eexists. eexists. split; [exact H|]. cbn. rewrite Hp1, Hc1, Hg1. repeat split; reflexivity.
  - cbn [bind] in H.
    match type of H with bind ?x _ = _ => destruct x as [[f2 w2]| |] eqn:Et end; cbn [bind] in H; try discriminate H.
    apply trans_spec in Et. destruct Et as [s' [Ht [-> ->]]]. rewrite Hs1, Hst in Ht.
    cbn in Ht. injection Ht as <-.
    eexists. eexists. split; [exact H|]. cbn. rewrite Hp1, Hc1, Hg1, Hr1. repeat split; reflexivity.
Qed.


(* ------------------------------------------------------------------------------------------ *)
(* Part 1e: whole polls from PassToken and CheckTokenPass                                        *)

(* last_bus_activity as the state function of this poll sees it (after check_for_bus_activity) *)
Definition lba_seen (f : fdl) (now : Z) (nrx : nat) : Z :=
  if Nat.ltb (f_pending f) nrx
  then match f_lba f with Some l => Z.max l now | None => now end
  else match f_lba f with Some l => l | None => now end.

(* the slot timer of the supervision has run out in this poll: what check_slot_expired computes *)
Definition slot_expired (f : fdl) (now : Z) (pin : phy_in) : bool :=
  negb (tx_busy pin) && negb (predicted f now) && (lba_seen f now (length (rx pin)) + slot_time (f_p f) <? now).

Lemma slot_expired_iff f now pin : 0 <= slot_time (f_p f) ->
  (slot_expired f now pin = true <->
   tx_busy pin = false /\ (length (rx pin) <= f_pending f)%nat /\ exists l, f_lba f = Some l /\ l + slot_time (f_p f) < now).
Proof.
  intros Hs. unfold slot_expired, lba_seen, predicted. split.
  - intros H. apply andb_true_iff in H. destruct H as [H H3]. apply andb_true_iff in H. destruct H as [H1 H2].
    apply Z.ltb_lt in H3. destruct (tx_busy pin); [discriminate H1|]. split; [reflexivity|].
    destruct (Nat.ltb_spec (f_pending f) (length (rx pin))) as [C|C].
    + exfalso. destruct (f_lba f); lia.
    + split; [exact C|]. destruct (f_lba f) as [l|]; [exists l; split; [reflexivity|exact H3]|lia].
  - intros [Hb [Hl [l [El Hlt]]]]. rewrite Hb, El.
    destruct (Nat.ltb_spec (f_pending f) (length (rx pin))) as [C|C]; [lia|].
    destruct (Z.leb_spec now l) as [C2|C2]; [lia|]. cbn [negb andb]. apply Z.ltb_lt. exact Hlt.
Qed.

Lemma poll_in_pass_body f now pin (apps : list A) f' o a c :
  in_pass (f_state f) = true -> poll ops f now pin apps = Ok (f', o, a, c) ->
  exists w', body f now (tx_busy pin) (mkWorld (rx pin) None apps [] []) = Ok (f', w') /\
             o = mkPhyOut (w_tx w') (w_rx w') /\ a = w_apps w' /\ c = w_calls w'.
Proof.
  intros Hp H. apply poll_inv in H. destruct H as [w' [H [Ho [Ha Hc]]]].
  apply poll_inner_cases in H. destruct H as [[_ [Hs _]]|[_ [f0 [w0 [Hpro H]]]]].
  - rewrite Hs in Hp. discriminate Hp.
  - destruct (prologue_in_pass _ _ _ _ Hpro Hp) as [-> ->]. exists w'. repeat split; assumption.
Qed.

(* what a poll does in PassToken: nothing (busy / synchronisation pause), a GAP poll, or the token
   to NS, after which the station supervises the pass - or uses the token itself when NS = TS *)
Lemma pass_token_poll f now pin (apps : list A) f' o a c dg att :
  f_state f = PassToken dg att -> poll ops f now pin apps = Ok (f', o, a, c) ->
  a = apps /\ c = [] /\ rx_left o = rx pin /\ f_p f' = f_p f /\
  ((tx o = None /\ f_state f' = PassToken dg att /\ f_ring f' = f_ring f) \/
   (exists addr, dg = true /\ tx o <> None /\ f_state f' = AwaitStatusResponse addr /\ f_ring f' = f_ring f) \/
   (exists r', witness (f_ring f) (ts f) (r_ns (f_ring f)) = Ok r' /\ f_ring f' = r' /\
               tx o = Some (encode_token (r_ns (f_ring f)) (ts f)) /\
               f_state f' = if r_ns r' =? ts f then UseToken now None false else CheckTokenPass att)).
Proof.
  intros Hst H. apply poll_in_pass_body in H; [|rewrite Hst; reflexivity].
  destruct H as [w' [H [-> [-> ->]]]]. cbn [tx rx_left]. unfold body in H.
  destruct (tx_busy pin || predicted f now).
  - injection H as <- <-. cbn. destruct (mark_bus_activity_sblp f now) as [Hp [Hr [_ [_ [Hs _]]]]].
    repeat split; try reflexivity; try exact Hp. left. split; [reflexivity|]. split; [rewrite Hs; exact Hst|exact Hr].
  - destruct (check_for_bus_activity A f now _) as [f1 w1] eqn:Ec. apply cfba_spec in Ec.
    destruct Ec as [[Hp1 [Hr1 [_ [_ [Hs1 _]]]]] [Htx1 [Hca1 [Hrx1 [Hap1 _]]]]]. cbn [w_tx w_calls w_rx w_apps] in Htx1, Hca1, Hrx1, Hap1.
    unfold dispatch in H. rewrite Hs1, Hst in H. cbn [kind_of poll_dispatch] in H.
    apply (do_pass_token_spec f1 now w1 f' w' dg att) in H; [|rewrite Hs1; exact Hst|exact Htx1].
    destruct H as [[Hp [Hr [_ [_ [Hs _]]]]] Htx Hca Hrx Hap|addr Hdg Hs Hr Hp _ Htx Hca Hrx Hap|[r' [Hwit [Hr [Htx [Hs [Hp [_ [Hca [Hrx Hap]]]]]]]]]].
    + repeat split; try congruence. left. repeat split; congruence.
    + repeat split; try congruence. right. left. exists addr. repeat split; congruence.
    + repeat split; try congruence. right. right. exists r'. unfold ts in *. rewrite Hr1, Hp1 in *. repeat split; assumption.
Qed.

(* what a poll does in CheckTokenPass, completely.  Slot timer run out: the next attempt (or, after
   the third, removal of NS and the first attempt to the new NS).  Otherwise: nothing is transmitted,
   the ring view changes at most by witnessed passes, and the station either still waits or - a
   telegram was heard - has gone to ActiveIdle and handled the telegrams from there. *)
Lemma check_pass_poll f now pin (apps : list A) f' o a c att :
  f_state f = CheckTokenPass att -> poll ops f now pin apps = Ok (f', o, a, c) ->
  a = apps /\ c = [] /\ f_p f' = f_p f /\
  if slot_expired f now pin then
    rx_left o = rx pin /\
    exists r1, (if check_pass_removes att then remove_station (f_ring f) (r_ns (f_ring f)) = Ok r1 else r1 = f_ring f) /\
      ((tx o = None /\ f_state f' = PassToken false (check_pass_next att) /\ f_ring f' = r1) \/
       (exists r', witness r1 (ts f) (r_ns r1) = Ok r' /\ f_ring f' = r' /\ tx o = Some (encode_token (r_ns r1) (ts f)) /\
                   f_state f' = if r_ns r' =? ts f then UseToken now None false else CheckTokenPass (check_pass_next att)))
  else
    tx o = None /\ ring_witnessed (f_ring f) (f_ring f') /\
    (if tx_busy pin || predicted f now then f_state f' = CheckTokenPass att /\ f_ring f' = f_ring f /\ rx_left o = rx pin
     else match decode_spec (rx pin) with
          | Accept _ _ => heard_kind (f_state f')
          | Reject => f_state f' = CheckTokenPass att /\ f_ring f' = f_ring f /\ rx_left o = []
          | NeedMore => f_state f' = CheckTokenPass att /\ f_ring f' = f_ring f /\ rx_left o = rx pin
          end).
Proof.
  intros Hst H. apply poll_in_pass_body in H; [|rewrite Hst; reflexivity].
  destruct H as [w' [H [-> [-> ->]]]]. cbn [tx rx_left]. unfold body in H. unfold slot_expired.
  destruct (tx_busy pin || predicted f now) eqn:Eb.
  - replace (negb (tx_busy pin) && negb (predicted f now)) with false
      by (destruct (tx_busy pin); [reflexivity|cbn in Eb; rewrite Eb; reflexivity]).
    cbn [andb]. injection H as <- <-. cbn. destruct (mark_bus_activity_sblp f now) as [Hp [Hr [_ [_ [Hs _]]]]].
    rewrite Hs, Hr. repeat split; try reflexivity; try assumption. apply rw_refl.
  - apply orb_false_elim in Eb. destruct Eb as [Eb1 Eb2]. rewrite Eb1, Eb2. cbn [negb andb].
    destruct (check_for_bus_activity A f now _) as [f1 w1] eqn:Ec. apply cfba_spec in Ec.
    destruct Ec as [[Hp1 [Hr1 [Hc1 [_ [Hs1 _]]]]] [Htx1 [Hca1 [Hrx1 [Hap1 Hlba]]]]]. cbn [w_tx w_calls w_rx w_apps] in Htx1, Hca1, Hrx1, Hap1, Hlba.
    unfold dispatch in H. rewrite Hs1, Hst in H. cbn [kind_of poll_dispatch] in H.
    assert (Hst1 : f_state f1 = CheckTokenPass att) by (rewrite Hs1; exact Hst).
    destruct (check_slot_expired f1 now) as [[f2 b]| |] eqn:Ecs.
    2:{ unfold do_check_token_pass, assert_entry in H. rewrite Hst1 in H. cbn [kind_of do_fn_entry state_kind_eqb bind] in H.
        rewrite Ecs in H. discriminate H. }
    2:{ unfold do_check_token_pass, assert_entry in H. rewrite Hst1 in H. cbn [kind_of do_fn_entry state_kind_eqb bind] in H.
        rewrite Ecs in H. discriminate H. }
    pose proof Ecs as Ecs'. apply cse_spec in Ecs'. destruct Ecs' as [_ [l [Hl [_ Hb]]]].
    assert (Hseen : lba_seen f now (length (rx pin)) = l).
    { unfold lba_seen. destruct (Nat.ltb (f_pending f) (length (rx pin))) eqn:En; try rewrite En in Hlba.
      - destruct Hlba as [Hlba _]. rewrite Hlba in Hl. symmetry. exact Hl.
      - subst f1. destruct (f_lba f); symmetry; exact Hl. }
    rewrite Hseen, <- Hp1, <- Hb.
    destruct b; cbv iota.
    + destruct (do_check_token_pass_expired f1 now w1 f2 att f' w' Hst1 Ecs H)
        as [f3 [w3 [Hd [Hs3 [Hrm [Hp3 [Hc3 [_ [_ [Htx3 [Hca3 [Hrx3 Hap3]]]]]]]]]]]].
      apply (do_pass_token_spec f3 now w3 f' w' false (check_pass_next att)) in Hd; [|exact Hs3|congruence].
      rewrite Hr1 in Hrm.
      destruct Hd as [[Hp [Hr [_ [_ [Hs _]]]]] Htx Hca Hrx Hap|addr Hdg _ _ _ _ _ _ _ _|[r' [Hwit [Hr [Htx [Hs [Hp [_ [Hca [Hrx Hap]]]]]]]]]].
      * split; [congruence|]. split; [congruence|]. split; [congruence|]. split; [congruence|].
        exists (f_ring f3). split; [exact Hrm|]. left. repeat split; congruence.
      * discriminate Hdg.
      * split; [congruence|]. split; [congruence|]. split; [congruence|]. split; [congruence|].
        exists (f_ring f3). split; [exact Hrm|]. right. exists r'.
        unfold ts in *. rewrite Hp3, Hp1 in *. repeat split; assumption.
    + destruct (do_check_token_pass_waiting f1 now w1 f2 att f' w' Hst1 Ecs H)
        as [Htx [Hca [Hap [Hp [_ [Hrw Hm]]]]]].
      split; [congruence|]. split; [congruence|]. split; [congruence|]. split; [congruence|].
      split; [rewrite <- Hr1; exact Hrw|]. rewrite Hrx1 in Hm.
      destruct (decode_spec (rx pin)) as [ | |t n].
      * destruct Hm as [M1 [M2 [_ M4]]]. repeat split; congruence.
      * destruct Hm as [M1 [M2 [_ [M4 _]]]]. repeat split; congruence.
      * exact Hm.
Qed.


(* ------------------------------------------------------------------------------------------ *)
(* Part 2: how a hand-over is entered from the other states: always with the first attempt; and a
   poll that ends in PassToken has not transmitted, one that ends in CheckTokenPass has            *)

Definition pass_entry (f' : fdl) (w' : W) : Prop :=
  match f_state f' with
  | PassToken _ a => a = AttFirst /\ w_tx w' = None
  | CheckTokenPass a => a = AttFirst /\ w_tx w' <> None
  | _ => True
  end.

Lemma pass_entry_other f' w' : in_pass (f_state f') = false -> pass_entry f' w'.
Proof. unfold pass_entry. destruct (f_state f'); cbn; try discriminate; intros _; exact I. Qed.

(* neither in a hand-over nor claiming *)
Definition quiet_kind (s : state) : bool :=
  match s with PassToken _ _ | CheckTokenPass _ | ClaimToken _ => false | _ => true end.

Lemma pe_other f' w' : quiet_kind (f_state f') = true -> pass_entry f' w' /\ kind_of (f_state f') <> KClaimToken.
Proof. unfold pass_entry. destruct (f_state f'); cbn; try discriminate; intros _; split; try exact I; discriminate. Qed.

Lemma heard_not_in_pass s : heard_kind s -> in_pass s = false.
Proof. destruct s; cbn; try contradiction; reflexivity. Qed.

Lemma do_claim_token_scan_entry f now (w : W) f' w' st :
  f_state f = ClaimToken st -> w_tx w = None -> do_claim_token_scan A f now w = Ok (f', w') -> pass_entry f' w'.
Proof.
  intros Hst Hw H. unfold do_claim_token_scan in H.
  destruct (wait_synchronization_pause f now) as [[f1 wait]| |] eqn:Ew; cbn [bind] in H; try discriminate H.
  apply wait_sync_same in Ew. destruct Ew as [[_ [_ [_ [_ [Hs1 _]]]]] _].
  destruct wait.
  - injection H as <- <-. apply pass_entry_other. rewrite Hs1, Hst. reflexivity.
  - destruct (f_gap f1) as [rc|cur].
    + match type of H with bind ?x _ = _ => destruct x as [[f2 w2]| |] eqn:Et end; cbn [bind] in H; try discriminate H.
      injection H as <- <-. apply trans_spec in Et. destruct Et as [s' [Ht [-> ->]]].
      rewrite Hs1, Hst in Ht. cbn in Ht. injection Ht as <-. unfold pass_entry. cbn. split; [reflexivity|exact Hw].
    + destruct (next_gap_poll_traced A f1 w cur) as [[f2 w2]| |] eqn:En; cbn [bind] in H; try discriminate H.
      apply next_gap_poll_traced_spec in En. destruct En as [g [_ [-> _]]].
      destruct (transmit_gap_poll_if_pending A (set_gap f1 g) now w2) as [[[f3 w3] polled]| |] eqn:Et; cbn [bind] in H; try discriminate H.
      apply transmit_gap_poll_spec in Et. destruct Et as [[_ [_ [_ [_ [Hs3 _]]]]] Hpol].
      destruct polled as [pa|].
      * unfold set_claim_step in H. destruct (get_claim_token_step (f_state f3)); cbn [bind] in H; try discriminate H.
        injection H as <- <-. apply pass_entry_other. reflexivity.
      * injection H as <- <-. apply pass_entry_other. rewrite Hs3. cbn. rewrite Hs1, Hst. reflexivity.
Qed.

Lemma do_claim_token_entry f now (w : W) f' w' :
  w_tx w = None -> do_claim_token A f now w = Ok (f', w') -> pass_entry f' w'.
Proof.
  intros Hw H. unfold do_claim_token, assert_entry in H.
  destruct (f_state f) as [ | | | | |step| | | | ] eqn:Es; cbn [kind_of do_fn_entry state_kind_eqb bind get_claim_token_step] in H; try discriminate H.
  destruct step as [ | | |a0].
  - destruct (wait_synchronization_pause f now) as [[f1 wait]| |] eqn:Ew; cbn [bind] in H; try discriminate H.
    apply wait_sync_same in Ew. destruct Ew as [[_ [_ [_ [_ [Hs1 _]]]]] _].
    destruct wait; [injection H as <- <-; apply pass_entry_other; rewrite Hs1, Es; reflexivity|].
    destruct (phy_send A w _) as [[w1 n]| |]; cbn [bind] in H; try discriminate H.
    unfold set_claim_step in H. cbn [set_ring f_state] in H. rewrite Hs1, Es in H. cbn [get_claim_token_step bind] in H.
    destruct (mark_tx _ now n) as [f2| |] eqn:Em; cbn [bind] in H; try discriminate H.
    injection H as <- <-. apply mark_tx_same in Em. destruct Em as [_ [_ [_ [_ [Hs2 _]]]]].
    apply pass_entry_other. rewrite Hs2. reflexivity.
  - destruct (wait_synchronization_pause f now) as [[f1 wait]| |] eqn:Ew; cbn [bind] in H; try discriminate H.
    apply wait_sync_same in Ew. destruct Ew as [[_ [_ [_ [_ [Hs1 _]]]]] _].
    destruct wait; [injection H as <- <-; apply pass_entry_other; rewrite Hs1, Es; reflexivity|].
    destruct (phy_send A w _) as [[w1 n]| |]; cbn [bind] in H; try discriminate H.
    unfold set_claim_step in H. cbn [set_ring f_state] in H. rewrite Hs1, Es in H. cbn [get_claim_token_step bind] in H.
    destruct (mark_tx _ now n) as [f2| |] eqn:Em; cbn [bind] in H; try discriminate H.
    injection H as <- <-. apply mark_tx_same in Em. destruct Em as [_ [_ [_ [_ [Hs2 _]]]]].
    apply pass_entry_other. rewrite Hs2. reflexivity.
  - eapply do_claim_token_scan_entry; [exact Es|exact Hw|exact H].
  - destruct (await_gap_poll_response A f now w a0) as [[[f1 w1] r]| |] eqn:Ea; cbn [bind] in H; try discriminate H.
    apply await_gap_poll_response_frame in Ea. destruct Ea as [_ [_ [Hs1 [Htx1 _]]]].
    destruct r.
    + injection H as <- <-. apply pass_entry_other. rewrite Hs1, Es. reflexivity.
    + unfold set_claim_step in H. rewrite Hs1, Es in H. cbn [get_claim_token_step bind] in H.
      eapply do_claim_token_scan_entry; [|rewrite Htx1; exact Hw|exact H]. reflexivity.
    + unfold set_claim_step in H. rewrite Hs1, Es in H. cbn [get_claim_token_step bind] in H.
      injection H as <- <-. apply pass_entry_other. reflexivity.
    + apply trans_spec in H. destruct H as [s' [Ht [-> _]]]. rewrite Hs1, Es in Ht. cbn in Ht. injection Ht as <-.
      apply pass_entry_other. reflexivity.
Qed.

Lemma handle_lost_token_entry f now (w : W) f' w' d :
  w_tx w = None -> handle_lost_token A f now w = Ok (f', w', d) ->
  if d then pass_entry f' w' else (same_but_lba f f' /\ w' = w).
Proof.
  intros Hw H. unfold handle_lost_token in H.
  destruct (lba_get_or_insert f now) as [l f0] eqn:El. apply lba_get_or_insert_same in El. destruct El as [Hsame _].
  destruct (inst_diff now l) as [since| |]; cbn [bind] in H; try discriminate H.
  destruct (token_lost_timeout (f_p f0) <=? since).
  - match type of H with context [trans A ?a ?b ?c] => destruct (trans A a b c) as [[f1 w1]| |] eqn:Et end; cbn [bind] in H; try discriminate H.
    apply trans_spec in Et. destruct Et as [s' [_ [-> ->]]].
    match type of H with bind ?x _ = _ => destruct x as [[f2 w2]| |] eqn:Ed end; cbn [bind] in H; try discriminate H.
    injection H as <- <- <-. eapply do_claim_token_entry; [|exact Ed]. exact Hw.
  - injection H as <- <- <-. split; [exact Hsame|reflexivity].
Qed.

Lemma do_listen_token_entry f now (w : W) f' w' :
  do_listen_token A f now w = Ok (f', w') -> in_pass (f_state f') = false.
Proof.
  intros H. apply do_listen_token_never_accepts in H.
  destruct (f_state f'); cbn in *; try reflexivity;
    destruct H as [H|[H|[H|[H _]]]]; discriminate H.
Qed.

Lemma active_idle_telegram_heard now s t il s' u :
  heard_kind (f_state (fst s)) -> active_idle_telegram A now s t il = Ok (s', u) -> heard_kind (f_state (fst s')).
Proof.
  destruct s as [f w]. destruct s' as [f' w']. cbn [fst]. unfold active_idle_telegram. intros Hk H.
  destruct (mark_rx_frame f now) as [_ [_ [_ [Ms _]]]].
  destruct (handle_telegram A now (mark_rx f now) w t il) as [[f1 w1]| |] eqn:Eh; cbn [bind] in H; try discriminate H.
  injection H as <- _ _. apply handle_telegram_heard in Eh; [tauto|rewrite Ms; exact Hk].
Qed.

Lemma do_active_idle_entry f now (w : W) f' w' :
  w_tx w = None -> do_active_idle A f now w = Ok (f', w') -> pass_entry f' w'.
Proof.
  intros Hw H. unfold do_active_idle, assert_entry in H.
  destruct (f_state f) as [ | | |sr nps cc| | | | | | ] eqn:Es; cbn [kind_of do_fn_entry state_kind_eqb bind] in H; try discriminate H.
  destruct (handle_lost_token A f now w) as [[[f0 w0] d]| |] eqn:Eh; cbn [bind] in H; try discriminate H.
  apply handle_lost_token_entry in Eh; [|exact Hw].
  destruct d; [injection H as <- <-; exact Eh|].
  destruct Eh as [[_ [_ [_ [_ [Hs0 _]]]]] ->]. rewrite Hs0, Es in H. cbn [get_active_idle bind] in H.
  destruct sr as [src|].
  - destruct (wait_synchronization_pause f0 now) as [[f1 wait]| |] eqn:Ew; cbn [bind] in H; try discriminate H.
    apply wait_sync_same in Ew. destruct Ew as [[_ [_ [_ [_ [Hs1 _]]]]] _].
    destruct wait; [injection H as <- <-; apply pass_entry_other; rewrite Hs1, Hs0, Es; reflexivity|].
    destruct (phy_send A w _) as [[w1 n]| |]; cbn [bind] in H; try discriminate H.
    destruct (mark_tx _ now n) as [f2| |] eqn:Em; cbn [bind] in H; try discriminate H.
    injection H as <- <-. apply mark_tx_same in Em. destruct Em as [_ [_ [_ [_ [Hs2 _]]]]].
    apply pass_entry_other. rewrite Hs2. reflexivity.
  - unfold receive_all_telegrams in H.
    destruct (receive_all _ _ _ _) as [[[s1 rest] r]| |] eqn:Er; cbn [bind] in H; try discriminate H.
    destruct s1 as [f1 w1]. injection H as <- <-.
    assert (Hk : heard_kind (f_state (fst (f1, w1)))).
    { refine (receive_all_inv (fun s : fdl * W => heard_kind (f_state (fst s))) (active_idle_telegram A now) _ _ (f0, w) _ (f1, w1) rest r _ Er).
      - intros s t il s' u Hp Hc. exact (active_idle_telegram_heard now s t il s' u Hp Hc).
      - cbn [fst]. rewrite Hs0, Es. exact I. }
    apply pass_entry_other, heard_not_in_pass. exact Hk.
Qed.

Definition is_use (s : state) : Prop := exists tk fa fcd, s = UseToken tk fa fcd.

Lemma app_transmit_entry f now (w : W) idx app hp f' w' d :
  is_use (f_state f) -> app_transmit_telegram A ops f now w idx app hp = Ok (f', w', d) ->
  if d then quiet_kind (f_state f') = true else (f' = f /\ w_tx w' = w_tx w).
Proof.
  intros [tk [fa [fcd Hst]]] H. unfold app_transmit_telegram in H.
  destruct (a_tx ops app now (f_p f) hp) as [[app' r]| |]; cbn [bind] in H; try discriminate H.
  destruct r as [[wire exp]|].
  - destruct (phy_transmit A _ wire) as [w1| |]; cbn [bind] in H; try discriminate H.
    match type of H with bind ?x _ = _ => destruct x as [[f1 w2]| |] eqn:E1 end; cbn [bind] in H; try discriminate H.
    destruct (mark_tx f1 now (length wire)) as [f2| |] eqn:Em; cbn [bind] in H; try discriminate H.
    injection H as <- <- <-. apply mark_tx_same in Em. destruct Em as [_ [_ [_ [_ [Hs2 _]]]]]. rewrite Hs2.
    destruct exp as [addr|].
    + rewrite Hst in E1. cbn [get_use_token bind] in E1. apply trans_spec in E1. destruct E1 as [s' [Ht [-> _]]].
      rewrite Hst in Ht. cbn in Ht. injection Ht as <-. reflexivity.
    + injection E1 as <- _. rewrite Hst. reflexivity.
  - injection H as <- <- <-. split; reflexivity.
Qed.

Lemma apps_loop_entry n : forall f now (w : W) hp f' w' d,
  is_use (f_state f) -> apps_transmit_loop A ops n f now w hp = Ok (f', w', d) ->
  if d then quiet_kind (f_state f') = true else (is_use (f_state f') /\ w_tx w' = w_tx w).
Proof.
  induction n as [|n IH]; intros f now w hp f' w' d Hu H; cbn [apps_transmit_loop] in H.
  - injection H as <- <- <-. split; [exact Hu|reflexivity].
  - destruct (nth_error (w_apps w) (f_next_app f)) as [app|]; [|discriminate H].
    destruct (app_transmit_telegram A ops f now w (f_next_app f) app hp) as [[[f1 w1] d1]| |] eqn:Ea; cbn [bind] in H; try discriminate H.
    apply app_transmit_entry in Ea; [|exact Hu].
    destruct d1.
    + injection H as <- <- <-. exact Ea.
    + destruct Ea as [-> Htx1].
      unfold schedule_next_application in H. destruct Hu as [tk [fa [fcd Hst]]]. rewrite Hst in H. cbn [get_use_token bind] in H.
      destruct (Nat.eqb (length (w_apps w1)) 0); [discriminate H|]. cbn [bind] in H.
      match type of H with (if ?c then _ else _) = _ => destruct c end.
      * injection H as <- <- <-. cbn. split; [eexists; eexists; eexists; reflexivity|exact Htx1].
      * apply IH in H; [|cbn; eexists; eexists; eexists; reflexivity].
        destruct d; [exact H|]. destruct H as [Hu' Htx']. split; [exact Hu'|]. rewrite Htx'. exact Htx1.
Qed.

Lemma do_use_token_entry2 f now (w : W) f' w' :
  w_tx w = None -> do_use_token A ops f now w = Ok (f', w') -> pass_entry f' w' /\ kind_of (f_state f') <> KClaimToken.
Proof.
  intros Hw H. unfold do_use_token, assert_entry in H.
  destruct (f_state f) as [ | | | |tk fa fcd| | | | | ] eqn:Es; cbn [kind_of do_fn_entry state_kind_eqb bind get_use_token] in H; try discriminate H.
  match type of H with bind ?x _ = _ => destruct x as [[f1 w1]| |] eqn:E1 end; cbn [bind] in H; try discriminate H.
  assert (H1 : w_tx w1 = None /\ f_state f1 = UseToken tk fa fcd).
  { destruct (negb _).
    - destruct (inst_add _ _) as [e| |]; cbn [bind] in E1; try discriminate E1.
      destruct (f_gap f).
      + injection E1 as <- <-. split; [exact Hw|exact Es].
      + destruct (inst_sub_dur _ _) as [e2| |]; cbn [bind] in E1; try discriminate E1.
        injection E1 as <- <-. split; [exact Hw|exact Es].
    - injection E1 as <- <-. split; [exact Hw|exact Es]. }
  destruct H1 as [Htx1 Hs1].
  destruct (wait_synchronization_pause f1 now) as [[f2 wait]| |] eqn:Ew; cbn [bind] in H; try discriminate H.
  apply wait_sync_same in Ew. destruct Ew as [[_ [_ [_ [_ [Hs2 _]]]]] _].
  destruct wait.
  - injection H as <- <-. apply pe_other. rewrite Hs2, Hs1. reflexivity.
  - rewrite Hs2, Hs1 in H. cbn [get_use_token bind] in H.
    match type of H with bind ?x _ = _ => destruct x as [[[f3 w3] d]| |] eqn:E3 end; cbn [bind] in H; try discriminate H.
    assert (H3 : if d then quiet_kind (f_state f3) = true else (is_use (f_state f3) /\ w_tx w3 = None)).
    { destruct (now <? f_end_tht f2).
      - unfold set_first_cycle_done in E3. rewrite Hs2, Hs1 in E3. cbn [get_use_token bind] in E3.
        unfold apps_transmit_telegram in E3.
        apply apps_loop_entry in E3; [|cbn; eexists; eexists; eexists; reflexivity].
        destruct d; [exact E3|]. destruct E3 as [U T]. split; [exact U|]. rewrite T. exact Htx1.
      - destruct (negb fcd).
        + unfold set_first_cycle_done in E3. rewrite Hs2, Hs1 in E3. cbn [get_use_token bind] in E3.
          unfold apps_transmit_telegram in E3.
          apply apps_loop_entry in E3; [|cbn; eexists; eexists; eexists; reflexivity].
          destruct d; [exact E3|]. destruct E3 as [U T]. split; [exact U|]. rewrite T. exact Htx1.
        + injection E3 as <- <- <-. split; [rewrite Hs2, Hs1; eexists; eexists; eexists; reflexivity|exact Htx1]. }
    destruct d.
    + injection H as <- <-. apply pe_other. exact H3.
    + destruct H3 as [[tk3 [fa3 [fcd3 Hs3]]] Htx3].
      match type of H with context [trans A ?a ?b ?c] => destruct (trans A a b c) as [[f4 w4]| |] eqn:Et end; cbn [bind] in H; try discriminate H.
      apply trans_spec in Et. destruct Et as [s' [Ht [-> ->]]]. rewrite Hs3 in Ht. cbn in Ht. injection Ht as <-.
      (* F20 repair: do_pass_token in the same poll *)
      apply (do_pass_token_spec _ now _ f' w' true AttFirst) in H; [|reflexivity|cbn; exact Htx3].
      destruct H as [[_ [_ [_ [_ [Hs _]]]]] Htx _ _ _|addr Hdg Hs _ _ _ _ _ _ _|[r' [_ [_ [Htx [Hs _]]]]]].
      * split; [unfold pass_entry; rewrite Hs; cbn; split; [reflexivity|exact Htx]|rewrite Hs; cbn; discriminate].
      * apply pe_other. rewrite Hs. reflexivity.
      * split; [unfold pass_entry|]; rewrite Hs; destruct (r_ns r' =? _); try exact I; try (cbn; discriminate). split; [reflexivity|rewrite Htx; discriminate].
Qed.

Lemma do_use_token_entry f now (w : W) f' w' :
  w_tx w = None -> do_use_token A ops f now w = Ok (f', w') -> pass_entry f' w'.
Proof. intros Hw H. exact (proj1 (do_use_token_entry2 f now w f' w' Hw H)). Qed.

Lemma do_await_data_response_entry2 f now (w : W) f' w' :
  w_tx w = None -> do_await_data_response A ops f now w = Ok (f', w') -> pass_entry f' w' /\ kind_of (f_state f') <> KClaimToken.
Proof.
  intros Hw H. unfold do_await_data_response, assert_entry in H.
  destruct (f_state f) as [ | | | | | |address tk fa| | | ] eqn:Es; cbn [kind_of do_fn_entry state_kind_eqb bind get_await_data_response] in H; try discriminate H.
  destruct (nth_error (w_apps w) (f_next_app f)) as [app|]; [|discriminate H].
  destruct (receive_telegram (fun t => t) (w_rx w)) as [[rest received]| |]; cbn [bind] in H; try discriminate H.
  destruct received as [t|].
  - destruct (mark_rx_frame f now) as [_ [_ [_ [Ms _]]]].
    destruct (is_valid_response (mark_rx f now) address t).
    + destruct (a_rx ops app now _ address t) as [app'| |]; cbn [bind] in H; try discriminate H.
      match type of H with context [trans A ?a ?b ?c] => destruct (trans A a b c) as [[f1 w1]| |] eqn:Et end; cbn [bind] in H; try discriminate H.
      apply trans_spec in Et. destruct Et as [s' [Ht [-> ->]]].
      cbn [sync_pending_bytes set_pending f_state] in Ht. rewrite Ms, Es in Ht. cbn in Ht. injection Ht as <-.
      unfold set_first_cycle_done in H. cbn [set_st f_state get_use_token bind] in H.
      injection H as <- <-. apply pe_other. reflexivity.
    + apply trans_spec in H. destruct H as [s' [Ht [-> ->]]]. rewrite Ms, Es in Ht. cbn in Ht. injection Ht as <-.
      apply pe_other. reflexivity.
  - destruct (check_slot_expired _ now) as [[f1 expired]| |] eqn:Ec; cbn [bind] in H; try discriminate H.
    apply check_slot_expired_same in Ec. destruct Ec as [_ [_ [_ [_ [Hs1 _]]]]].
    cbn [sync_pending_bytes set_pending f_state] in Hs1.
    destruct expired.
    + destruct (a_to ops app now _ address) as [app'| |]; cbn [bind] in H; try discriminate H.
      match type of H with context [trans A ?a ?b ?c] => destruct (trans A a b c) as [[f2 w2]| |] eqn:Et end; cbn [bind] in H; try discriminate H.
      apply trans_spec in Et. destruct Et as [s' [Ht [-> ->]]].
      rewrite Hs1, Es in Ht. cbn in Ht. injection Ht as <-.
      unfold set_first_cycle_done in H. cbn [set_st f_state get_use_token bind] in H.
      eapply do_use_token_entry2; [|exact H].
      cbn [w_tx note log_call set_app set_rx]. match goal with |- context [if ?c then _ else _] => destruct c end; exact Hw.
    + injection H as <- <-. apply pe_other. rewrite Hs1, Es. reflexivity.
Qed.

Lemma do_await_data_response_entry f now (w : W) f' w' :
  w_tx w = None -> do_await_data_response A ops f now w = Ok (f', w') -> pass_entry f' w'.
Proof. intros Hw H. exact (proj1 (do_await_data_response_entry2 f now w f' w' Hw H)). Qed.

Lemma do_await_status_response_entry2 f now (w : W) f' w' :
  w_tx w = None -> do_await_status_response A f now w = Ok (f', w') -> pass_entry f' w' /\ kind_of (f_state f') <> KClaimToken.
Proof.
  intros Hw H. unfold do_await_status_response, assert_entry in H.
  destruct (f_state f) as [ | | | | | | | | |address] eqn:Es; cbn [kind_of do_fn_entry state_kind_eqb bind get_await_status_response_address] in H; try discriminate H.
  destruct (await_gap_poll_response A f now w address) as [[[f1 w1] r]| |] eqn:Ea; cbn [bind] in H; try discriminate H.
  apply await_gap_poll_response_frame in Ea. destruct Ea as [_ [_ [Hs1 [Htx1 _]]]].
  destruct r.
  - injection H as <- <-. apply pe_other. rewrite Hs1, Es. reflexivity.
  - match type of H with context [trans A ?a ?b ?c] => destruct (trans A a b c) as [[f2 w2]| |] eqn:Et end; cbn [bind] in H; try discriminate H.
    apply trans_spec in Et. destruct Et as [s' [Ht [-> ->]]]. rewrite Hs1, Es in Ht. cbn in Ht. injection Ht as <-.
    apply (do_pass_token_spec _ now _ f' w' false AttFirst) in H; [|reflexivity|cbn; rewrite Htx1; exact Hw].
    destruct H as [[_ [_ [_ [_ [Hs _]]]]] Htx _ _ _|addr Hdg _ _ _ _ _ _ _ _|[r' [_ [_ [Htx [Hs _]]]]]].
    + split; [unfold pass_entry; rewrite Hs; cbn; split; [reflexivity|exact Htx]|rewrite Hs; cbn; discriminate].
    + discriminate Hdg.
    + split; [unfold pass_entry|]; rewrite Hs; destruct (r_ns r' =? _); try exact I; try (cbn; discriminate). split; [reflexivity|rewrite Htx; discriminate].
  - apply trans_spec in H. destruct H as [s' [Ht [-> ->]]]. rewrite Hs1, Es in Ht. cbn in Ht. injection Ht as <-.
    split; [unfold pass_entry; cbn; split; [reflexivity|rewrite Htx1; exact Hw]|cbn; discriminate].
  - apply trans_spec in H. destruct H as [s' [Ht [-> _]]]. rewrite Hs1, Es in Ht. cbn in Ht. injection Ht as <-.
    apply pe_other. reflexivity.
Qed.

Lemma do_await_status_response_entry f now (w : W) f' w' :
  w_tx w = None -> do_await_status_response A f now w = Ok (f', w') -> pass_entry f' w'.
Proof. intros Hw H. exact (proj1 (do_await_status_response_entry2 f now w f' w' Hw H)). Qed.

(* a whole poll from a state outside the hand-over *)
Lemma poll_entry f now pin (apps : list A) f' o a c :
  in_pass (f_state f) = false -> poll ops f now pin apps = Ok (f', o, a, c) ->
  match f_state f' with
  | PassToken _ att => att = AttFirst /\ tx o = None
  | CheckTokenPass att => att = AttFirst /\ tx o <> None
  | _ => True
  end.
Proof.
  intros Hp H. apply poll_inv in H. destruct H as [w' [H [-> [_ _]]]]. cbn [tx].
  change (pass_entry f' w').
  apply poll_inner_cases in H. destruct H as [[_ [_ [-> _]]]|[_ [f0 [w0 [Hpro H]]]]].
  - apply pass_entry_other. exact Hp.
  - assert (Hp0 : in_pass (f_state f0) = false /\ w_tx w0 = None).
    { split; [exact (prologue_not_in_pass _ _ _ _ Hpro Hp)|].
      destruct (prologue_frame _ _ _ _ Hpro) as [_ [_ [_ [_ [_ [T _]]]]]]. rewrite T. reflexivity. }
    destruct Hp0 as [Hp0 Hw0]. unfold body in H.
    destruct (tx_busy pin || predicted f0 now).
    + injection H as <- <-. apply pass_entry_other.
      destruct (mark_bus_activity_sblp f0 now) as [_ [_ [_ [_ [Hs _]]]]]. rewrite Hs. exact Hp0.
    + destruct (check_for_bus_activity A f0 now w0) as [f1 w1] eqn:Ec. apply cfba_spec in Ec.
      destruct Ec as [[_ [_ [_ [_ [Hs1 _]]]]] [Htx1 _]]. rewrite Hw0 in Htx1.
      unfold dispatch in H. rewrite Hs1 in H.
      destruct (f_state f0) eqn:Es0; cbn [kind_of poll_dispatch] in H; try discriminate H; try discriminate Hp0.
      * apply pass_entry_other. eapply do_listen_token_entry. exact H.
      * eapply do_active_idle_entry; [exact Htx1|exact H].
      * eapply do_use_token_entry; [exact Htx1|exact H].
      * eapply do_claim_token_entry; [exact Htx1|exact H].
      * eapply do_await_data_response_entry; [exact Htx1|exact H].
      * eapply do_await_status_response_entry; [exact Htx1|exact H].
Qed.


(* ------------------------------------------------------------------------------------------ *)
(* Part 3: runs of polls and the retry discipline                                                *)

Fixpoint run_polls (f : fdl) (apps : list A) (ins : list (Z * phy_in)) : res (list step_rec) :=
  match ins with
  | [] => Ok []
  | (now, pin) :: t =>
      let* (f', o, apps', _) := poll ops f now pin apps in
      let* l := run_polls f' apps' t in
      Ok (mkStep f now pin f' o :: l)
  end.

(* what the retry discipline demands of one poll, given the ghost count c before it *)
Definition retry_step_ok (c : nat) (s : step_rec) : Prop :=
  let f := s_f s in let f' := s_f' s in let o := s_out s in let tsa := ts f in
  (c <= 3)%nat /\
  (forall att, f_state f = CheckTokenPass att ->
     c = att_index att /\
     if slot_expired f (s_now s) (s_in s) then
       exists r1, (if Nat.eqb c 3 then remove_station (f_ring f) (r_ns (f_ring f)) = Ok r1 else r1 = f_ring f) /\
         ((tx o = None /\ f_state f' = PassToken false (check_pass_next att) /\ f_ring f' = r1) \/
          (exists r', witness r1 tsa (r_ns r1) = Ok r' /\ f_ring f' = r' /\ tx o = Some (encode_token (r_ns r1) tsa) /\
             f_state f' = if r_ns r' =? tsa then UseToken (s_now s) None false else CheckTokenPass (check_pass_next att)))
     else tx o = None /\ ring_witnessed (f_ring f) (f_ring f')) /\
  (forall dg att, f_state f = PassToken dg att ->
     (tx o = None /\ f_ring f' = f_ring f) \/ (f_ring f' = f_ring f /\ exists a, f_state f' = AwaitStatusResponse a) \/
     (tx o = Some (encode_token (r_ns (f_ring f)) tsa) /\ witness (f_ring f) tsa (r_ns (f_ring f)) = Ok (f_ring f') /\
      f_state f' = if r_ns (f_ring f') =? tsa then UseToken (s_now s) None false else CheckTokenPass att)).

Fixpoint retry_ok (c : nat) (steps : list step_rec) : Prop :=
  match steps with
  | [] => True
  | s :: t => retry_step_ok c s /\ retry_ok (ghost_next c (s_f' s) (s_out s)) t
  end.

Lemma ghost_ok_out c f : in_pass (f_state f) = false -> (ghost_ok c f <-> c = 0%nat).
Proof. unfold ghost_ok. destruct (f_state f); cbn; try discriminate; intros _; tauto. Qed.

Lemma retry_step f now pin (apps : list A) f' o a cs c :
  ghost_ok c f -> poll ops f now pin apps = Ok (f', o, a, cs) ->
  retry_step_ok c (mkStep f now pin f' o) /\ ghost_ok (ghost_next c f' o) f'.
Proof.
  intros Hg H. unfold retry_step_ok. cbn [s_f s_f' s_out s_now s_in].
  destruct (in_pass (f_state f)) eqn:Ep.
  - destruct (f_state f) as [ | | | | | | |dg att|att| ] eqn:Es; try discriminate Ep.
    + (* PassToken *)
      unfold ghost_ok in Hg. rewrite Es in Hg.
      destruct (pass_token_poll f now pin apps f' o a cs dg att Es H) as [_ [_ [_ [_ D]]]].
      split.
      * split; [destruct Hg as [Hg|[_ Hg]]; subst c; destruct att; cbn; lia|].
        split; [intros a0 Hs; discriminate Hs|].
        intros dg0 a0 Hs. injection Hs as E1 E2. subst dg0 a0.
        destruct D as [[Htx [_ Hr]]|[[addr [_ [_ [Hs Hr]]]]|[r' [Hwit [Hr [Htx Hs]]]]]].
        -- left. split; assumption.
        -- right. left. split; [exact Hr|exists addr; exact Hs].
        -- right. right. subst r'. split; [exact Htx|]. split; [exact Hwit|exact Hs].
      * unfold ghost_next, ghost_ok.
        destruct D as [[Htx [Hs Hr]]|[[addr [_ [_ [Hs Hr]]]]|[r' [Hwit [Hr [Htx Hs]]]]]].
        -- rewrite Hs, Htx. cbn [in_pass]. exact Hg.
        -- rewrite Hs. reflexivity.
        -- rewrite Hs, Htx. destruct (r_ns r' =? ts f); cbn [in_pass]; [reflexivity|].
           destruct Hg as [Hg|[Ha Hg]]; [subst c; destruct att; reflexivity|subst att c; reflexivity].
    + (* CheckTokenPass *)
      unfold ghost_ok in Hg. rewrite Es in Hg. subst c.
      destruct (check_pass_poll f now pin apps f' o a cs att Es H) as [_ [_ [_ D]]].
      destruct (slot_expired f now pin) eqn:Ex.
      * destruct D as [_ [r1 [Hrm D]]].
        split.
        -- split; [destruct att; cbn; lia|].
           split; [|intros dg0 a0 Hs; discriminate Hs].
           intros a0 Hs. injection Hs as E1. subst a0. split; [reflexivity|].
           exists r1. split; [destruct att; exact Hrm|exact D].
        -- unfold ghost_next, ghost_ok.
           destruct D as [[Htx [Hs _]]|[r' [_ [_ [Htx Hs]]]]].
           ++ rewrite Hs, Htx. cbn [in_pass]. destruct att; cbn; [left; reflexivity|left; reflexivity|right; split; reflexivity].
           ++ rewrite Hs, Htx. destruct (r_ns r' =? ts f); cbn [in_pass]; [reflexivity|]. destruct att; reflexivity.
      * destruct D as [Htx [Hrw D]].
        split.
        -- split; [destruct att; cbn; lia|].
           split; [|intros dg0 a0 Hs; discriminate Hs].
           intros a0 Hs. injection Hs as E1. subst a0. split; [reflexivity|]. split; assumption.
        -- unfold ghost_next. rewrite Htx.
           assert (Hcase : f_state f' = CheckTokenPass att \/ heard_kind (f_state f')).
           { destruct (tx_busy pin || predicted f now); [left; tauto|].
             destruct (decode_spec (rx pin)); [left; tauto|left; tauto|right; exact D]. }
           destruct Hcase as [Hs|Hk].
           ++ rewrite Hs. cbn [in_pass]. unfold ghost_ok. rewrite Hs. reflexivity.
           ++ rewrite (heard_not_in_pass _ Hk). apply ghost_ok_out; [exact (heard_not_in_pass _ Hk)|reflexivity].
  - apply (ghost_ok_out c f Ep) in Hg. subst c.
    pose proof (poll_entry f now pin apps f' o a cs Ep H) as He.
    split.
    + split; [lia|]. split.
      * intros a0 Hs. rewrite Hs in Ep. discriminate Ep.
      * intros dg0 a0 Hs. rewrite Hs in Ep. discriminate Ep.
    + unfold ghost_next, ghost_ok. destruct (f_state f') as [ | | | | | | |dg att|att| ]; cbn [in_pass]; try reflexivity.
      * destruct He as [-> ->]. left. reflexivity.
      * destruct He as [-> He]. destruct (tx o); [reflexivity|contradiction He; reflexivity].
Qed.

(* C11_retry_discipline: over every run of polls, from every station state whose attempt label agrees
   with the ghost count, with every input *)
Theorem retry_discipline : forall ins f0 apps0 c0 steps,
  ghost_ok c0 f0 -> run_polls f0 apps0 ins = Ok steps -> retry_ok c0 steps.
Proof.
  induction ins as [|[now pin] t IH]; intros f0 apps0 c0 steps Hg H; cbn [run_polls] in H.
  - injection H as <-. exact I.
  - destruct (poll ops f0 now pin apps0) as [[[[f' o] apps'] cs]| |] eqn:Ep; cbn [bind] in H; try discriminate H.
    destruct (run_polls f' apps' t) as [l| |] eqn:Er; cbn [bind] in H; try discriminate H.
    injection H as <-. destruct (retry_step _ _ _ _ _ _ _ _ _ Hg Ep) as [Hs Hg'].
    cbn [retry_ok s_f' s_out]. split; [exact Hs|]. exact (IH _ _ _ _ Hg' Er).
Qed.


(* ------------------------------------------------------------------------------------------ *)
(* Part 4: a poll of an idle ring member that finds exactly one complete telegram                *)

Lemma poll_inner_online f now busy (w : W) :
  f_conn f = ConnOnline -> online_entry_kind (kind_of (f_state f)) = false ->
  poll_inner ops f now busy w = body f now busy w.
Proof. intros Hc Hk. unfold poll_inner. rewrite Hc, Hk. cbn [bind]. apply body_eq. Qed.

Lemma handle_lost_token_quiet f now (w : W) l :
  f_lba f = Some l -> i64_ok (now - l) = true -> Z.abs (now - l) < token_lost_timeout (f_p f) ->
  handle_lost_token A f now w = Ok (f, w, false).
Proof.
  intros Hl Hok Hlt. unfold handle_lost_token, lba_get_or_insert, inst_diff. rewrite Hl, Hok. cbn [bind].
  destruct (Z.leb_spec (token_lost_timeout (f_p f)) (Z.abs (now - l))) as [C|_]; [lia|reflexivity].
Qed.

(* ActiveIdle without a pending status request, one complete telegram newly in the receive buffer, the
   bus otherwise quiet: the poll is handle_telegram on that telegram (as last telegram), applied to the
   station with refreshed bus-activity bookkeeping; nothing is transmitted, the buffer is consumed. *)
Lemma ai_single_poll f now buf (apps : list A) nps cc t f' o a c :
  f_conn f = ConnOnline -> f_state f = ActiveIdle None nps cc ->
  (forall l, f_lba f = Some l -> l < now) -> (f_pending f < length buf)%nat ->
  decode_spec buf = Accept t (length buf) -> 0 < token_lost_timeout (f_p f) ->
  poll ops f now (mkPhyIn false buf) apps = Ok (f', o, a, c) ->
  exists fm f1 (w0 w1 : W),
    f_state fm = f_state f /\ f_ring fm = f_ring f /\ f_p fm = f_p f /\ f_conn fm = f_conn f /\
    handle_telegram A now fm w0 t true = Ok (f1, w1) /\
    f_state f' = f_state f1 /\ f_ring f' = f_ring f1 /\ f_p f' = f_p f1 /\ f_conn f' = f_conn f1 /\
    f_lba f' = Some now /\ f_pending f' = 0%nat /\ o = mkPhyOut None [] /\ a = apps /\ c = [].
Proof.
  intros Hc Hst Hlba Hpend Hdec Hto H.
  apply poll_inv in H. destruct H as [w' [H [-> [-> ->]]]]. cbn [tx_busy rx] in H.
  rewrite poll_inner_online in H; [|exact Hc|rewrite Hst; reflexivity].
  unfold body in H. cbn [orb] in H.
  assert (Hpred : predicted f now = false).
  { unfold predicted. destruct (f_lba f) as [l|] eqn:El; [|reflexivity]. apply Z.leb_gt. apply Hlba. reflexivity. }
  rewrite Hpred in H.
  destruct (check_for_bus_activity A f now _) as [f1 w1] eqn:Ec. apply cfba_spec in Ec.
  destruct Ec as [[Hp1 [Hr1 [Hc1 [_ [Hs1 _]]]]] [Htx1 [Hca1 [Hrx1 [Hap1 Hl1]]]]].
  cbn [w_tx w_calls w_rx w_apps] in Htx1, Hca1, Hrx1, Hap1, Hl1.
  destruct (Nat.ltb_spec (f_pending f) (length buf)) as [_|C]; [|lia]. destruct Hl1 as [Hl1 Hpe1].
  assert (Hl1' : f_lba f1 = Some now).
  { rewrite Hl1. destruct (f_lba f) as [l|] eqn:El; [|reflexivity]. specialize (Hlba l eq_refl). rewrite Z.max_r by lia. reflexivity. }
  unfold dispatch in H. rewrite Hs1, Hst in H. cbn [kind_of poll_dispatch] in H.
  unfold do_active_idle, assert_entry in H. rewrite Hs1, Hst in H. cbn [kind_of do_fn_entry state_kind_eqb bind] in H.
  rewrite (handle_lost_token_quiet f1 now w1 now Hl1') in H;
    [|rewrite Z.sub_diag; reflexivity|rewrite Z.sub_diag, Hp1; cbn; exact Hto].
  cbn [bind] in H. rewrite Hs1, Hst in H. cbn [get_active_idle bind] in H.
  unfold receive_all_telegrams in H. rewrite Hrx1 in H. unfold receive_all_fuel in H.
  rewrite receive_all_step, Hdec in H. cbv zeta in H. rewrite Nat.eqb_refl in H.
  unfold active_idle_telegram in H.
  destruct (handle_telegram A now (mark_rx f1 now) w1 t true) as [[f2 w2]| |] eqn:Eh; cbn [bind] in H; try discriminate H.
  injection H as <- <-.
  destruct (mark_rx_frame f1 now) as [Mp [Mr [_ [Ms [Mc _]]]]].
  pose proof Eh as Eh'. apply handle_telegram_heard in Eh'; [|rewrite Ms, Hs1, Hst; exact I].
  destruct Eh' as [_ [_ [_ [_ [Htx2 [Hca2 [Hap2 [_ [Hl2 _]]]]]]]]].
  exists (mark_rx f1 now), f2, w1, w2.
  split; [congruence|]. split; [congruence|]. split; [congruence|]. split; [congruence|].
  split; [exact Eh|]. cbn. rewrite skipn_all. cbn.
  rewrite Hl2, Htx2, Hca2, Hap2, Htx1, Hca1, Hap1.
  repeat split; try reflexivity.
  - unfold mark_rx, mark_bus_activity, lba_get_or_insert. cbn. rewrite Hl1'. cbn. rewrite Z.max_id. reflexivity.
  - destruct (f_pending f2); reflexivity.
Qed.

(* the two collision counters: what handle_telegram does with a token that carries the own address *)
Lemma handle_telegram_collision (f : fdl) (w : W) now sr nps cc da il f' w' :
  f_state f = ActiveIdle sr nps cc ->
  handle_telegram A now f w (TToken da (ts f)) il = Ok (f', w') ->
  cc + 1 <= 255 /\ f_ring f' = f_ring f /\ f_conn f' = f_conn f /\
  f_state f' = if cc + 1 =? active_idle_collision_tolerated then ActiveIdle sr nps (cc + 1) else ListenToken None 0.
Proof.
  intros Hst H. unfold handle_telegram in H. rewrite Hst in H. cbn [kind_of state_kind_eqb negb] in H.
  cbn [get_active_idle bind] in H. rewrite Z.eqb_refl in H.
  unfold u8_add in H. destruct (Z.leb_spec (cc + 1) 255) as [Hle|_]; cbn [bind] in H; [|discriminate H].
  split; [exact Hle|].
  destruct (cc + 1 =? active_idle_collision_tolerated).
  - injection H as <- <-. repeat split; reflexivity.
  - apply trans_spec in H. destruct H as [s' [Ht [-> _]]]. cbn in Ht. injection Ht as <-. repeat split; reflexivity.
Qed.

(* C11_accept_second_offer as a history of two polls.  Poll 1: a stranger (not the predecessor, not
   the pending one) offers the token: only recorded.  Poll 2: the same stranger again: accepted;
   a different stranger: replaces the pending one (so that the first stranger has to start over). *)
Theorem accept_second_offer f now1 (apps : list A) nps cc sa f1 o1 a1 c1 :
  f_conn f = ConnOnline -> f_state f = ActiveIdle None nps cc ->
  (forall l, f_lba f = Some l -> l < now1) -> (f_pending f < 3)%nat -> 0 < token_lost_timeout (f_p f) ->
  sa <> ts f -> sa <> r_ps (f_ring f) -> nps <> Some sa ->
  poll ops f now1 (mkPhyIn false (encode_token (ts f) sa)) apps = Ok (f1, o1, a1, c1) ->
  (f_state f1 = ActiveIdle None (Some sa) 0 /\ f_ring f1 = f_ring f /\ o1 = mkPhyOut None [] /\ a1 = apps /\ c1 = []) /\
  forall now2, now1 < now2 ->
    (forall f2 o2 a2 c2, poll ops f1 now2 (mkPhyIn false (encode_token (ts f) sa)) a1 = Ok (f2, o2, a2, c2) ->
       f_state f2 = UseToken now2 None false /\ o2 = mkPhyOut None [] /\ c2 = []) /\
    (forall sb f2 o2 a2 c2, sb <> sa -> sb <> ts f -> sb <> r_ps (f_ring f) ->
       poll ops f1 now2 (mkPhyIn false (encode_token (ts f) sb)) a1 = Ok (f2, o2, a2, c2) ->
       f_state f2 = ActiveIdle None (Some sb) 0 /\ f_ring f2 = f_ring f /\ o2 = mkPhyOut None [] /\ c2 = []).
Proof.
  intros Hc Hst Hlba Hpend Hto Hsa Hps Hnps H.
  apply ai_single_poll with (nps := nps) (cc := cc) (t := TToken (ts f) sa) in H; try assumption; try reflexivity.
  destruct H as [fm [g1 [w0 [w1 [Hsm [Hrm [Hpm [Hcm [Hh [Hs1 [Hr1 [Hp1 [Hc1 [Hl1 [Hpe1 [-> [-> ->]]]]]]]]]]]]]]]]].
  assert (Hts : ts fm = ts f) by (unfold ts; rewrite Hpm; reflexivity).
  rewrite <- Hts in Hh.
  pose proof Hh as Hh'. apply handle_telegram_heard in Hh'; [|rewrite Hsm, Hst; exact I].
  destruct Hh' as [_ [_ [Hpg [Hcg _]]]].
  destruct (handle_telegram_accept_iff A fm w0 now1 None nps cc sa g1 w1) as [_ Hrej];
    [rewrite Hsm; exact Hst|rewrite Hts; exact Hsa|exact Hh|].
  destruct Hrej as [Hsg Hrg]; [rewrite Hrm; intros [X|X]; [exact (Hps X)|exact (Hnps X)]|].
  assert (Hst1 : f_state f1 = ActiveIdle None (Some sa) 0) by congruence.
  assert (Hring1 : f_ring f1 = f_ring f) by congruence.
  assert (Hpp1 : f_p f1 = f_p f) by congruence.
  assert (Hcc1 : f_conn f1 = ConnOnline) by congruence.
  split; [repeat split; assumption|].
  intros now2 Hnow.
  assert (Hlba1 : forall l, f_lba f1 = Some l -> l < now2) by (intros l El; rewrite Hl1 in El; injection El as <-; exact Hnow).
  assert (Hpend1 : (f_pending f1 < 3)%nat) by (rewrite Hpe1; lia).
  assert (Hto1 : 0 < token_lost_timeout (f_p f1)) by (rewrite Hpp1; exact Hto).
  split.
  - intros f2 o2 a2 c2 H2.
    apply ai_single_poll with (nps := Some sa) (cc := 0) (t := TToken (ts f) sa) in H2; try assumption; try reflexivity.
    destruct H2 as [fm2 [g2 [w02 [w12 [Hsm2 [Hrm2 [Hpm2 [_ [Hh2 [Hs2 [_ [_ [_ [_ [_ [-> [_ ->]]]]]]]]]]]]]]]]].
    assert (Hts2 : ts fm2 = ts f) by (unfold ts; rewrite Hpm2, Hpp1; reflexivity).
    rewrite <- Hts2 in Hh2.
    destruct (handle_telegram_accept_iff A fm2 w02 now2 None (Some sa) 0 sa g2 w12) as [Hacc _];
      [rewrite Hsm2; exact Hst1|rewrite Hts2; exact Hsa|exact Hh2|].
    rewrite Hs2, Hacc by (right; reflexivity). repeat split; reflexivity.
  - intros sb f2 o2 a2 c2 Hsb Hsbts Hsbps H2.
    apply ai_single_poll with (nps := Some sa) (cc := 0) (t := TToken (ts f) sb) in H2; try assumption; try reflexivity.
    destruct H2 as [fm2 [g2 [w02 [w12 [Hsm2 [Hrm2 [Hpm2 [_ [Hh2 [Hs2 [Hr2 [_ [_ [_ [_ [-> [_ ->]]]]]]]]]]]]]]]]].
    assert (Hts2 : ts fm2 = ts f) by (unfold ts; rewrite Hpm2, Hpp1; reflexivity).
    rewrite <- Hts2 in Hh2.
    destruct (handle_telegram_accept_iff A fm2 w02 now2 None (Some sa) 0 sb g2 w12) as [_ Hrej2];
      [rewrite Hsm2; exact Hst1|rewrite Hts2; exact Hsbts|exact Hh2|].
    destruct Hrej2 as [Hsg2 Hrg2].
    { rewrite Hrm2, Hring1. intros [X|X]; [exact (Hsbps X)|injection X as X; apply Hsb; symmetry; exact X]. }
    repeat split; congruence.
Qed.


(* ------------------------------------------------------------------------------------------ *)
(* corollaries in the form of the property text                                                  *)

(* C11_supervise, second half: while supervising a pass the station transmits only when the slot
   timer has run out *)
Lemma supervise_tx_only_expired f now pin (apps : list A) f' o a c att :
  f_state f = CheckTokenPass att -> poll ops f now pin apps = Ok (f', o, a, c) ->
  tx o <> None -> slot_expired f now pin = true.
Proof.
  intros Hst H Htx. destruct (check_pass_poll f now pin apps f' o a c att Hst H) as [_ [_ [_ D]]].
  destruct (slot_expired f now pin); [reflexivity|]. destruct D as [D _]. contradiction.
Qed.

(* new bytes in the receive buffer restart the slot timer *)
Lemma new_bytes_not_expired f now pin :
  0 <= slot_time (f_p f) -> (f_pending f < length (rx pin))%nat -> slot_expired f now pin = false.
Proof.
  intros Hs Hn. unfold slot_expired, lba_seen.
  destruct (Nat.ltb_spec (f_pending f) (length (rx pin))) as [_|C]; [|lia].
  replace (_ + slot_time (f_p f) <? now) with false; [apply andb_false_r|].
  symmetry. apply Z.ltb_ge. destruct (f_lba f); lia.
Qed.

(* C11_heard_not_removed: bus activity seen by the poll (new bytes in the receive buffer) while the
   pass is supervised: nothing is transmitted and nobody is removed (the ring view changes by witnessed
   passes only); a complete telegram takes the station out of the hand-over (to ActiveIdle, where the
   telegrams are handled), an incomplete one lets it wait on, undecodable bytes are dropped. *)
Lemma heard_not_removed f now pin (apps : list A) f' o a c att :
  f_state f = CheckTokenPass att -> 0 <= slot_time (f_p f) ->
  tx_busy pin = false -> predicted f now = false -> (f_pending f < length (rx pin))%nat ->
  poll ops f now pin apps = Ok (f', o, a, c) ->
  tx o = None /\ c = [] /\ ring_witnessed (f_ring f) (f_ring f') /\
  match decode_spec (rx pin) with
  | Accept _ _ => heard_kind (f_state f')
  | Reject => f_state f' = CheckTokenPass att /\ f_ring f' = f_ring f /\ rx_left o = []
  | NeedMore => f_state f' = CheckTokenPass att /\ f_ring f' = f_ring f /\ rx_left o = rx pin
  end.
Proof.
  intros Hst Hs Hb Hp Hn H. destruct (check_pass_poll f now pin apps f' o a c att Hst H) as [_ [Hc [_ D]]].
  rewrite (new_bytes_not_expired f now pin Hs Hn), Hb, Hp in D. cbn [orb] in D.
  destruct D as [Htx [Hrw D]]. repeat split; assumption.
Qed.

End WithApps.

Arguments run_polls {A}.

(* ------------------------------------------------------------------------------------------ *)
(* a concrete run (non-vacuity of C11_retry_discipline): station 1 with successor 5 in its ring view,
   nobody answers.  Observed per poll: state kind afterwards, transmission, ghost count afterwards. *)

Fixpoint ghost_trace (c : nat) (steps : list step_rec) : list (state_kind * option bytes * nat) :=
  match steps with
  | [] => []
  | s :: t => let c' := ghost_next c (s_f' s) (s_out s) in
              (kind_of (f_state (s_f' s)), tx (s_out s), c') :: ghost_trace c' t
  end.

Definition ex_ring : res ring :=
  let* r := ring_new 1 in let* r := set_next_station r 5 in Ok (claim_token r).

Definition ex_station (r : ring) : fdl :=
  mkFdl default_params r ConnOnline (GapWaiting 0) (PassToken false AttFirst) (Some 0) 0 0 0 0.

Definition ex_inputs : list (Z * phy_in) :=
  [(100000, mkPhyIn false []); (200000, mkPhyIn false []); (300000, mkPhyIn false []);
   (301000, mkPhyIn false []); (303000, mkPhyIn false []); (400000, mkPhyIn false [])].

Definition ex_trace : res (list (state_kind * option bytes * nat)) :=
  let* r := ex_ring in
  let* steps := run_polls unit_app_ops (ex_station r) [tt] ex_inputs in
  Ok (ghost_trace 0 steps).

