"""Registry of the properties the machinery decides: Coq target, harness domains, evidence rules."""

CODEC_TB = [
    "hand model coq/Model/Telegram.v of src/fdl/telegram.rs (FunctionCode, DataTelegramHeader::serialize, "
    "DataTelegram/TokenTelegram/Telegram::deserialize, TelegramTx), tied by differential execution on this run's cases",
    "Rust u8/usize operators as modelled: wrapping_add = sum mod 256, | & << >> = Z.lor/Z.land/Z.shiftl/Z.shiftr on 0..255",
]

PROPS = {
    "C09": {
        "coq": "Properties/C09.v",
        "domains": ["codec"],
        "nontrivial": ["enc:ok", "fc:valid", "tok", "sc"],
        "rule": "cases = generated ENC/TOK/SC/FC lines (every SAP combination x every PDU length 0..limit+1, every "
                "function code x structural lengths, all 256 FC bytes, oversize and small-buffer inputs), deduplicated; "
                "non-trivial = distinct in-domain encodes (valid header, length byte <= 249, buffer large enough), valid FC bytes, token and SC encodes",
        "trusted_base": CODEC_TB,
        "technique": "Coq proof (round-trip theorems over a Gallina model of telegram.rs) + differential correspondence model vs crate",
        "level_text": "Machine-checked theorems (Coq 8.16.1, closed under the global context) that the model of the encoder writes exactly the "
                      "PROFIBUS frame layout, reports its length, and that the model of the decoder inverts it for every header, function code and payload "
                      "up to the frame limit, consuming exactly those bytes. The model is tied to the crate on every run by executing both on ~40k generated "
                      "encodes/decodes (all SAP combinations x all PDU lengths, all function codes, all 256 FC bytes) and comparing outputs; the theorem's "
                      "boolean oracle also runs on the crate's outputs.",
        "level_note": "Trusted: Coq kernel, the regex translator for constants/enum tables, OCaml extraction + driver, Rust harness; the hand-written model "
                      "is validated, not verified, against telegram.rs (differential execution on the explored inputs).",
        "design_ref": "DESIGN.md section 4, C09",
        "assumptions": ["addresses 0..127, SAP and PDU bytes 0..255, length byte <= 249 (the code's own assert), transmit buffer >= telegram length"],
    },
    "C10": {
        "claimed": False,
        "coq": "Properties/C10.v",
        "domains": ["codec"],
        "nontrivial": ["dec:A", "dec:R", "mut:"],
        "rule": "cases = generated DEC/MUT lines (all strings of length <= 1, length-2 strings with delimiter first (all in thorough), "
                "structured SD2 headers, every proper prefix and every position x 8 bit flips + random + delimiter substitutions of valid frames, "
                "random/mutational strings to 262 bytes), deduplicated; non-trivial = distinct decodes that get past the length guard "
                "(model verdict Accept or Reject) plus all single-byte substitutions",
        "trusted_base": CODEC_TB,
        "technique": "Coq proof (decoder characterisation, totality, prefix consistency, single-byte corruption) + differential correspondence",
        "level_text": "Machine-checked theorems over all byte strings (no length bound) about the Gallina model of Telegram::deserialize: never panics, "
                      "Accept lies inside the input and meets the frame criterion, NeedMore only when shorter than the announced length, verdicts are stable "
                      "under extension, every single-byte substitution of a valid data frame or SC is rejected (except first-delimiter swaps to another valid "
                      "delimiter, a limit of the frame format). Model tied to the crate by differential execution incl. all short strings and every "
                      "position of sampled valid frames.",
        "level_note": "Trusted: Coq kernel, translator, extraction + OCaml driver, Rust harness; hand model validated differentially, not verified.",
        "design_ref": "DESIGN.md section 4, C10",
        "assumptions": ["input bytes 0..255", "a substitution of the first start delimiter by another valid delimiter is outside the single-byte clause (DESIGN 4.0)"],
    },
    "C19": {
        "coq": "Properties/C19.v",
        "domains": ["gsd"],
        "nontrivial": ["interp:tree"],
        "rule": "cases = corpus (F8 witnesses, the inputs of tests/parser_panic.rs) + generated: mock.gsd, ~1500 texts rendered from random station "
                "descriptions by the harness's GSD pretty-printer under random lexical styles (keyword case, blanks/tabs, comments, line continuations in "
                "white space / number lists / strings, LF / CR LF / lone CR, preamble, ignored settings and blocks; every 5th is a settings-only file), "
                "~3000 grammar-aware mutations of those and of mock.gsd (value kind swaps, numeric extremes and overflow, unknown data types, dangling "
                "references, dropped (n) / parentheses, deleted / duplicated / swapped lines, emptied or unterminated blocks, ~100 directed snippets), "
                "~700 token/line soups, ~300 random byte strings; deduplicated; thorough = 12x. non-trivial = distinct cases whose text pest accepts, "
                "i.e. that reach the interpretation step with a pair tree (STAT interp:tree:<size bucket>)",
        "trusted_base": [
            "the pest library 2.9.1 (text -> pair tree for gsd.pest: PEG matching, implicit WHITESPACE/COMMENT skipping, atomic/silent rules, error "
            "construction and formatting) is NOT modelled: it is run, in the crate and in the harness's own parser compiled from a copy of the same "
            "gsd.pest; its no-panic behaviour is only tested (all generated texts incl. random bytes)",
            "hand model coq/Model/GsdInterp.v of gsd-parser/src/parser.rs parse_inner after pest (helpers, statement loop, post-processing), tied by "
            "differential execution on the REAL pair trees of this run's cases; Rust u32/i64 from_str_radix / str::parse / trim_start_matches / "
            "str::replace / to_lowercase (ASCII identifiers) / BTreeMap order as modelled there; usize = 64 bit",
            "gen/tr_gsd.py: rule enumeration and grammar value from gsd.pest, scalar fields/types/defaults and SupportedSpeeds masks from lib.rs, the "
            "key -> action table of the top-level setting match and the data type names from parser.rs (regenerated on this run)",
            "coq/Model/Peg.v: PEG interpreter with pest's semantics (implicit skipping, atomic/silent rules, lookahead, pair production), written from "
            "pest_generator's generator.rs - validated against the real pest parser at tree level on every case of this run; the shape predicate "
            "(GsdShape.child_rx) is PROVED to hold for every tree Peg.v returns and is additionally checked on every real pair tree",
            "the harness's GSD pretty-printer and description generator (fidelity oracle: parse(render(d, style)) = d)",
        ],
        "technique": "Coq proof (totality of the interpretation step over all grammar-shaped pair trees; settings-fragment round trip) + differential "
                     "correspondence model vs crate on real pest pair trees + differential round trip on the implementation",
        "level_text": "No-panic half: machine-checked (Coq 8.16.1, closed under the global context) that the Gallina model of parser.rs's interpretation "
                      "step - with every unwrap/expect/assert!/unreachable!/panic! as an explicit panic outcome - returns a description or the parser's "
                      "error for EVERY pair tree of the shape the grammar prescribes (Shape, computed from the grammar value translated from gsd.pest; "
                      "structural induction, no fuel). On the unchanged tree this is false at 14 sites (F8: five defect classes, repaired by five minimal "
                      "fix: commits; the model is of the repaired code, the witnesses are in the corpus). The model is tied to the crate on every run by "
                      "feeding the REAL pest pair tree of each case to the model and comparing OK-dump/ERR/PANIC with the real parser, and the shape "
                      "predicate is checked on every real tree. Fidelity half (partial): proved at tree level for the key = number|string settings "
                      "fragment under all spellings; every other statement kind and the lexical layer are validated by parse(render(d, style)) = d on "
                      "the implementation (oracle failures are violations).",
        "level_note": "Trusted: Coq kernel, gen/tr_gsd.py, extraction + OCaml driver, Rust harness incl. its pretty-printer; the pest library (text -> pair "
                      "tree) is trusted and only tested; the hand model of the interpretation step is validated differentially, not verified against Rust.",
        "partial_gap": "PROVED: (1) C19_interp_total / C19_interp_never_panics - for all pair trees t with Shape t (the grammar-derived shape), interp t is "
                       "Ok or Err, never a panic (all statement kinds, all helpers, post-processing); C19_tree_shape - the run-time checker shapeb decides "
                       "Shape; C19_peg_tree_shape / C19_text_level_no_panic - every pair tree that the PEG model of pest (Model/Peg.v) returns for ANY text "
                       "has that shape, hence no accepted text can make the interpretation panic; C19_model_never_panics - the text-level model "
                       "gsd_model (Peg.v then interp) has no panic outcome for any text. "
                       "(2) C19_roundtrip_settings_partial - for files consisting of key = number|string settings (known non-special keys in any "
                       "letter case, or unknown keys; numbers as any decimal/0x-hex digit string within the field's type; strings without back slash, cut "
                       "by any line continuation markers; any preamble; no field written twice) the interpretation of the pair tree yields exactly the "
                       "written values, or-ed speed flags and defaults elsewhere; C19_settings_tree_shape. "
                       "ONLY VALIDATED (differential, this run's cases): that the real pest library behaves like Peg.v (same accept/reject verdict and "
                       "identical pair tree incl. leaf texts on every valid-UTF-8 case) and never panics itself; that pest maps the rendered text to the "
                       "tree of the theorem (white space, comments, line ends, CR/LF, preamble: every settings-only file's real tree equals settings_tree "
                       "of its decoded items); fidelity for Modular_Station/Max_Module, PrmText, ExtUserPrmData, modules, slots, Ext_/User_Prm_Data, unit "
                       "diagnostics (oracle parse(render(d, style)) = d on the implementation). "
                       "NOT DONE: C19_parse_total (termination of the PEG model within a linear fuel bound for all texts; peg_parse may in principle "
                       "return OutOfFuel - it never did on this run's cases), a text-level round trip theorem through Peg.v.",
        "design_ref": "DESIGN.md section 4, C19 (pest itself remains a named, differentially validated oracle: section 10)",
        "assumptions": ["input is what gsd_parser::parse_from_file passes on: String::from_utf8_lossy of the file bytes",
                        "entry points gsd_parser::parser::parse / parse_with_warnings (parse_from_file itself panics on Err by design)",
                        "64-bit usize"],
    },
}

NOT_CLAIMED = {}
