"""Registry of the properties the machinery decides: Coq target, harness domains, evidence rules."""

CODEC_TB = [
    "hand model coq/Model/Telegram.v of src/fdl/telegram.rs (FunctionCode, DataTelegramHeader::serialize, "
    "DataTelegram/TokenTelegram/Telegram::deserialize, TelegramTx), tied by differential execution on this run's cases",
    "Rust u8/usize operators as modelled: wrapping_add = sum mod 256, | & << >> = Z.lor/Z.land/Z.shiftl/Z.shiftr on 0..255",
]

PROPS = {
    "C09": {
        "coq": "Properties/C09.v",
        "domains": ["codec"],
        "nontrivial": ["enc:ok", "fc:valid", "tok", "sc"],
        "rule": "cases = generated ENC/TOK/SC/FC lines (every SAP combination x every PDU length 0..limit+1, every "
                "function code x structural lengths, all 256 FC bytes, oversize and small-buffer inputs), deduplicated; "
                "non-trivial = distinct in-domain encodes (valid header, length byte <= 249, buffer large enough), valid FC bytes, token and SC encodes",
        "trusted_base": CODEC_TB,
        "technique": "Coq proof (round-trip theorems over a Gallina model of telegram.rs) + differential correspondence model vs crate",
        "level_text": "Machine-checked theorems (Coq 8.16.1, closed under the global context) that the model of the encoder writes exactly the "
                      "PROFIBUS frame layout, reports its length, and that the model of the decoder inverts it for every header, function code and payload "
                      "up to the frame limit, consuming exactly those bytes. The model is tied to the crate on every run by executing both on ~40k generated "
                      "encodes/decodes (all SAP combinations x all PDU lengths, all function codes, all 256 FC bytes) and comparing outputs; the theorem's "
                      "boolean oracle also runs on the crate's outputs.",
        "level_note": "Trusted: Coq kernel, the regex translator for constants/enum tables, OCaml extraction + driver, Rust harness; the hand-written model "
                      "is validated, not verified, against telegram.rs (differential execution on the explored inputs).",
        "design_ref": "DESIGN.md section 4, C09",
        "assumptions": ["addresses 0..127, SAP and PDU bytes 0..255, length byte <= 249 (the code's own assert), transmit buffer >= telegram length"],
    },
    "C10": {
        "claimed": False,
        "coq": "Properties/C10.v",
        "domains": ["codec"],
        "nontrivial": ["dec:A", "dec:R", "mut:"],
        "rule": "cases = generated DEC/MUT lines (all strings of length <= 1, length-2 strings with delimiter first (all in thorough), "
                "structured SD2 headers, every proper prefix and every position x 8 bit flips + random + delimiter substitutions of valid frames, "
                "random/mutational strings to 262 bytes), deduplicated; non-trivial = distinct decodes that get past the length guard "
                "(model verdict Accept or Reject) plus all single-byte substitutions",
        "trusted_base": CODEC_TB,
        "technique": "Coq proof (decoder characterisation, totality, prefix consistency, single-byte corruption) + differential correspondence",
        "level_text": "Machine-checked theorems over all byte strings (no length bound) about the Gallina model of Telegram::deserialize: never panics, "
                      "Accept lies inside the input and meets the frame criterion, NeedMore only when shorter than the announced length, verdicts are stable "
                      "under extension, every single-byte substitution of a valid data frame or SC is rejected (except first-delimiter swaps to another valid "
                      "delimiter, a limit of the frame format). Model tied to the crate by differential execution incl. all short strings and every "
                      "position of sampled valid frames.",
        "level_note": "Trusted: Coq kernel, translator, extraction + OCaml driver, Rust harness; hand model validated differentially, not verified.",
        "design_ref": "DESIGN.md section 4, C10",
        "assumptions": ["input bytes 0..255", "a substitution of the first start delimiter by another valid delimiter is outside the single-byte clause (DESIGN 4.0)"],
    },
    "C19": {
        "claimed": False,
        "coq": "Properties/C19.v",
        "domains": ["gsd"],
        "nontrivial": ["interp:tree"],
        "rule": "TODO",
        "trusted_base": [],
        "technique": "TODO",
        "level_text": "TODO",
        "level_note": "TODO",
        "design_ref": "DESIGN.md section 4, C19",
        "assumptions": [],
    },
}

NOT_CLAIMED = {}
