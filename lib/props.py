"""Registry of the properties the machinery decides: Coq target, harness domains, evidence rules."""

CODEC_TB = [
    "hand model coq/Model/Telegram.v of src/fdl/telegram.rs (FunctionCode, DataTelegramHeader::serialize, "
    "DataTelegram/TokenTelegram/Telegram::deserialize, TelegramTx), tied by differential execution on this run's cases",
    "Rust u8/usize operators as modelled: wrapping_add = sum mod 256, | & << >> = Z.lor/Z.land/Z.shiftl/Z.shiftr on 0..255",
]

PROPS = {
    "C09": {
        "coq": "Properties/C09.v",
        "domains": ["codec"],
        "nontrivial": ["enc:ok", "fc:valid", "tok", "sc"],
        "rule": "cases = generated ENC/TOK/SC/FC lines (every SAP combination x every PDU length 0..limit+1, every "
                "function code x structural lengths, all 256 FC bytes, oversize and small-buffer inputs), deduplicated; "
                "non-trivial = distinct in-domain encodes (valid header, length byte <= 249, buffer large enough), valid FC bytes, token and SC encodes",
        "trusted_base": CODEC_TB,
        "technique": "Coq proof (round-trip theorems over a Gallina model of telegram.rs) + differential correspondence model vs crate",
        "level_text": "Machine-checked theorems (Coq 8.16.1, closed under the global context) that the model of the encoder writes exactly the "
                      "PROFIBUS frame layout, reports its length, and that the model of the decoder inverts it for every header, function code and payload "
                      "up to the frame limit, consuming exactly those bytes. The model is tied to the crate on every run by executing both on ~40k generated "
                      "encodes/decodes (all SAP combinations x all PDU lengths, all function codes, all 256 FC bytes) and comparing outputs; the theorem's "
                      "boolean oracle also runs on the crate's outputs.",
        "level_note": "Trusted: Coq kernel, the regex translator for constants/enum tables, OCaml extraction + driver, Rust harness; the hand-written model "
                      "is validated, not verified, against telegram.rs (differential execution on the explored inputs).",
        "design_ref": "DESIGN.md section 4, C09",
        "assumptions": ["addresses 0..127, SAP and PDU bytes 0..255, length byte <= 249 (the code's own assert), transmit buffer >= telegram length"],
    },
    "C10": {
        "claimed": False,
        "coq": "Properties/C10.v",
        "domains": ["codec"],
        "nontrivial": ["dec:A", "dec:R", "mut:"],
        "rule": "cases = generated DEC/MUT lines (all strings of length <= 1, length-2 strings with delimiter first (all in thorough), "
                "structured SD2 headers, every proper prefix and every position x 8 bit flips + random + delimiter substitutions of valid frames, "
                "random/mutational strings to 262 bytes), deduplicated; non-trivial = distinct decodes that get past the length guard "
                "(model verdict Accept or Reject) plus all single-byte substitutions",
        "trusted_base": CODEC_TB,
        "technique": "Coq proof (decoder characterisation, totality, prefix consistency, single-byte corruption) + differential correspondence",
        "level_text": "Machine-checked theorems over all byte strings (no length bound) about the Gallina model of Telegram::deserialize: never panics, "
                      "Accept lies inside the input and meets the frame criterion, NeedMore only when shorter than the announced length, verdicts are stable "
                      "under extension, every single-byte substitution of a valid data frame or SC is rejected (except first-delimiter swaps to another valid "
                      "delimiter, a limit of the frame format). Model tied to the crate by differential execution incl. all short strings and every "
                      "position of sampled valid frames.",
        "level_note": "Trusted: Coq kernel, translator, extraction + OCaml driver, Rust harness; hand model validated differentially, not verified.",
        "design_ref": "DESIGN.md section 4, C10",
        "assumptions": ["input bytes 0..255", "a substitution of the first start delimiter by another valid delimiter is outside the single-byte clause (DESIGN 4.0)"],
    },
}

DP_TB = [
    "hand models coq/Model/Peripheral.v + DpMaster.v of src/dp/peripheral.rs, master.rs, peripheral_set.rs (after fix commits F4 F6 F10 F11), "
    "tied by transcript replay: every FdlApplication callback and API call of generated histories is executed on the real DpMaster and on the model, "
    "all outputs compared (TX bytes, events, is_live/is_running/pi_i/pi_q/last_diagnostics, operating state)",
    "reference slave coq/Model/Slave.v (environment, written against the PROFIBUS standard, not the crate) and its Rust twin in harness/src/dp.rs, compared on every slave reply",
    "the FdlApplication contract (C15) as the space of histories; harness emulates the FDL reply admission filter",
]

def _dp(pid, rule, technique, level_text, assumptions, nontrivial):
    return {
        "claimed": False,
        "coq": "Properties/%s.v" % pid,
        "domains": ["dp"],
        "nontrivial": nontrivial,
        "rule": rule,
        "trusted_base": DP_TB,
        "technique": technique,
        "level_text": level_text,
        "level_note": "Trusted: Coq kernel, translator (gen/translate.py, gen/tr_dp.py), extraction + OCaml driver, Rust harness; hand model validated differentially, not verified.",
        "design_ref": "DESIGN.md section 4, %s" % pid,
        "assumptions": assumptions,
    }

_DP_RULE = ("cases = generated DP histories (0..4 peripherals in dense/sparse/Vec storage, all option values, conforming/silent/faulty/mismatching slaves, "
            "lost requests/replies, malformed and unexpected replies, power cycles, user calls between bus events, time advances, fault-free tails), deduplicated; "
            "non-trivial = callbacks executed on the real master (transmit / reply / timeout steps)")
_DP_NT = ["dp:step:transmit", "dp:step:reply", "dp:step:timeout"]  # callbacks executed on the real master; history kinds are in dp:history:*
_DP_ASSUME = ["histories allowed by the FdlApplication contract (C15)", "bytes 0..255, addresses 0..125, max_retry_limit 1..15 (ParametersBuilder bounds)"]

PROPS["C03"] = _dp("C03", _DP_RULE, "phase 1: model + correspondence + executable monitor; one-step theorems",
                   "Phase 1: executable Coq model of the DP master tied by transcript replay, bring-up monitor (DpOracle.c03_monitor) run on every implementation transcript; "
                   "one-step theorems over all peripheral states: C03_set_prm_bytes, C03_chk_cfg_bytes, C03_dx_only_in_data_exchange, C03_watchdog_factors. "
                   "Missing for a claim: C03_order (the monitor accepts every history of the model).", _DP_ASSUME, _DP_NT)
PROPS["C04"] = _dp("C04", _DP_RULE, "phase 1: model + correspondence + executable monitor; one-step theorems",
                   "Phase 1: model, correspondence, process-image monitor (DpOracle.c04_monitor) on every implementation transcript; one-step theorems over all states: "
                   "C04_pi_i_frame, C04_request_carries_pi_q. Missing for a claim: C04_event_iff, C04_others_untouched (master level), C04_end_to_end.", _DP_ASSUME, _DP_NT)
PROPS["C07"] = _dp("C07", _DP_RULE, "phase 1: model + correspondence + executable recovery monitor",
                   "Phase 1: model, correspondence, bounded-recovery monitor (DpOracle.c07_monitor, bound max_retry+16 cycles) on fault histories followed by a fault-free tail; "
                   "one-step theorems C07_offline_reported, C07_reply_never_counts. Known finding F15 (class DpOracle.c07_known_f15). Missing for a claim: C07_recovery over the joint system.", _DP_ASSUME, _DP_NT)
PROPS["C08"] = _dp("C08", _DP_RULE, "phase 1: model + correspondence + executable wire monitor; one-step theorems",
                   "Phase 1: model, correspondence, frame-count-bit / retry monitor per destination (DpOracle.c08_monitor) on every implementation transcript; one-step theorems over all states: "
                   "C08_first_offline, C08_first_probe, C08_toggle_after_accept, C08_transmit_step. Missing for a claim: the history theorems (monitor accepts every history of the model).", _DP_ASSUME, _DP_NT)
PROPS["C14"] = _dp("C14", _DP_RULE, "phase 1: model + correspondence + executable cycle/event monitor; termination theorem",
                   "Phase 1: model, correspondence, cycle and event life-cycle monitor (DpOracle.c14_monitor); C14_turn_ends / C14_loop_bound: transmit_telegram returns within #slots+2 loop iterations for every master state. "
                   "Missing for a claim: C14_one_turn_each, C14_cycle_completed_once, C14_no_event_lost, C14_lifecycle.", _DP_ASSUME, _DP_NT)

NOT_CLAIMED = {}
