"""Registry of the properties the machinery decides: Coq target, harness domains, evidence rules."""

CODEC_TB = [
    "hand model coq/Model/Telegram.v of src/fdl/telegram.rs (FunctionCode, DataTelegramHeader::serialize, "
    "DataTelegram/TokenTelegram/Telegram::deserialize, TelegramTx), tied by differential execution on this run's cases",
    "Rust u8/usize operators as modelled: wrapping_add = sum mod 256, | & << >> = Z.lor/Z.land/Z.shiftl/Z.shiftr on 0..255",
]

PROPS = {
    "C09": {
        "coq": "Properties/C09.v",
        "domains": ["codec"],
        "nontrivial": ["enc:ok", "fc:valid", "tok", "sc"],
        "rule": "cases = generated ENC/TOK/SC/FC lines (every SAP combination x every PDU length 0..limit+1, every "
                "function code x structural lengths, all 256 FC bytes, oversize and small-buffer inputs), deduplicated; "
                "non-trivial = distinct in-domain encodes (valid header, length byte <= 249, buffer large enough), valid FC bytes, token and SC encodes",
        "trusted_base": CODEC_TB,
        "technique": "Coq proof (round-trip theorems over a Gallina model of telegram.rs) + differential correspondence model vs crate",
        "level_text": "Machine-checked theorems (Coq 8.16.1, closed under the global context) that the model of the encoder writes exactly the "
                      "PROFIBUS frame layout, reports its length, and that the model of the decoder inverts it for every header, function code and payload "
                      "up to the frame limit, consuming exactly those bytes. The model is tied to the crate on every run by executing both on ~40k generated "
                      "encodes/decodes (all SAP combinations x all PDU lengths, all function codes, all 256 FC bytes) and comparing outputs; the theorem's "
                      "boolean oracle also runs on the crate's outputs.",
        "level_note": "Trusted: Coq kernel, the regex translator for constants/enum tables, OCaml extraction + driver, Rust harness; the hand-written model "
                      "is validated, not verified, against telegram.rs (differential execution on the explored inputs).",
        "design_ref": "DESIGN.md section 4, C09",
        "assumptions": ["addresses 0..127, SAP and PDU bytes 0..255, length byte <= 249 (the code's own assert), transmit buffer >= telegram length"],
    },
    "C10": {
        "claimed": False,
        "coq": "Properties/C10.v",
        "domains": ["codec"],
        "nontrivial": ["dec:A", "dec:R", "mut:"],
        "rule": "cases = generated DEC/MUT lines (all strings of length <= 1, length-2 strings with delimiter first (all in thorough), "
                "structured SD2 headers, every proper prefix and every position x 8 bit flips + random + delimiter substitutions of valid frames, "
                "random/mutational strings to 262 bytes), deduplicated; non-trivial = distinct decodes that get past the length guard "
                "(model verdict Accept or Reject) plus all single-byte substitutions",
        "trusted_base": CODEC_TB,
        "technique": "Coq proof (decoder characterisation, totality, prefix consistency, single-byte corruption) + differential correspondence",
        "level_text": "Machine-checked theorems over all byte strings (no length bound) about the Gallina model of Telegram::deserialize: never panics, "
                      "Accept lies inside the input and meets the frame criterion, NeedMore only when shorter than the announced length, verdicts are stable "
                      "under extension, every single-byte substitution of a valid data frame or SC is rejected (except first-delimiter swaps to another valid "
                      "delimiter, a limit of the frame format). Model tied to the crate by differential execution incl. all short strings and every "
                      "position of sampled valid frames.",
        "level_note": "Trusted: Coq kernel, translator, extraction + OCaml driver, Rust harness; hand model validated differentially, not verified.",
        "design_ref": "DESIGN.md section 4, C10",
        "assumptions": ["input bytes 0..255", "a substitution of the first start delimiter by another valid delimiter is outside the single-byte clause (DESIGN 4.0)"],
    },
}

NOT_CLAIMED = {}

SCAN_TB = [
    "hand models coq/Model/LiveList.v of src/fdl/live_list.rs and coq/Model/Scan.v of src/dp/scan.rs (state, transmit_telegram / receive_reply / "
    "handle_timeout / take_last_event), driven by coq/Model/ScanBase.v in the call order the FDL layer guarantees (C15), tied by differential "
    "execution on this run's histories",
    "bitvec BitArr!(for 128) modelled as a Z bit mask with get -> None / set -> panic beyond 128",
    "cargo feature verif-hooks: DpScanner::verif_iter_stations (read-only view of the private station set)",
]

PROPS["C18"] = {
    "coq": "Properties/C18.v",
    "domains": ["scan"],
    "nontrivial": ["scan:L", "scan:S", "raw:"],
    "rule": "cases = generated histories (own address, live list | DP scanner, up to 5 address sweeps, populations empty/sparse/dense/full/boundary "
            "incl. the own address, appear/disappear/ident-change events, lost replies, other answers: SC, token, request, wrong source, wrong SAP, "
            "short PDU, undecodable) plus RAW callback sequences outside the contract (panic sites), deduplicated; non-trivial = all of them "
            "(every history polls the application at least once); distribution counts polls, probes, reaction classes, events and stable windows",
    "trusted_base": SCAN_TB,
    "technique": "Coq proof (induction over arbitrary histories on Gallina models of LiveList and DpScanner) + differential correspondence (transcript replay)",
    "level_text": "Machine-checked theorems (Coq 8.16.1, closed under the global context), by induction over ARBITRARY histories (lists of "
                  "environment reactions as functions of the probed address) and from any state with the cursor in range, about Gallina models of "
                  "LiveList and DpScanner driven in the FDL call order: no panic; only 0..125 probed, +1 per completed probe, wrap 125->0 (closed form "
                  "c+i mod 126); after any history and one stable sweep (a fortiori two) the live list is exactly R minus TS and the scanner's station "
                  "set and last reported ident/master are exactly the answering peripherals'; every event is justified by the observation of its poll; "
                  "the station set always equals the set told by the events (Discovered/Found and Lost strictly alternate per address) - for the live "
                  "list under the stated hypothesis that answers are response telegrams, with the O1 deviation (bare SC marks without Discovered) proved "
                  "as the only one and exhibited. Both models are tied to the crate on every run by replaying ~3600 generated histories (~600k polls: "
                  "appear/disappear/ident change, lost replies, SC/token/request/wrong-SAP/short/undecodable answers, own address in the population) "
                  "and comparing every request (wire bytes), event and station set; the oracle suite run on the crate's transcripts is itself proved to hold "
                  "of every model transcript (C18_oracle_sound), so an oracle failure can only come from the crate.",
    "level_note": "Trusted: Coq kernel, translator, extraction + OCaml driver, Rust harness (which also plays the environment); hand models validated "
                  "differentially, not verified; the FDL call contract (C15) is an assumption here.",
    "design_ref": "DESIGN.md section 4, C18",
    "assumptions": ["callbacks arrive in the order of the C15 contract", "own address 0..125", "events are collected after every callback"],
}
