"""Registry of the properties the machinery decides: Coq target, harness domains, evidence rules."""

CODEC_TB = [
    "hand model coq/Model/Telegram.v of src/fdl/telegram.rs (FunctionCode, DataTelegramHeader::serialize, "
    "DataTelegram/TokenTelegram/Telegram::deserialize, TelegramTx), tied by differential execution on this run's cases",
    "Rust u8/usize operators as modelled: wrapping_add = sum mod 256, | & << >> = Z.lor/Z.land/Z.shiftl/Z.shiftr on 0..255",
]

PROPS = {
    "C09": {
        "coq": "Properties/C09.v",
        "domains": ["codec"],
        "nontrivial": ["enc:ok", "fc:valid", "tok", "sc"],
        "rule": "cases = generated ENC/TOK/SC/FC lines (every SAP combination x every PDU length 0..limit+1, every "
                "function code x structural lengths, all 256 FC bytes, oversize and small-buffer inputs), deduplicated; "
                "non-trivial = distinct in-domain encodes (valid header, length byte <= 249, buffer large enough), valid FC bytes, token and SC encodes",
        "trusted_base": CODEC_TB,
        "technique": "Coq proof (round-trip theorems over a Gallina model of telegram.rs) + differential correspondence model vs crate",
        "level_text": "Machine-checked theorems (Coq 8.16.1, closed under the global context) that the model of the encoder writes exactly the "
                      "PROFIBUS frame layout, reports its length, and that the model of the decoder inverts it for every header, function code and payload "
                      "up to the frame limit, consuming exactly those bytes. The model is tied to the crate on every run by executing both on ~40k generated "
                      "encodes/decodes (all SAP combinations x all PDU lengths, all function codes, all 256 FC bytes) and comparing outputs; the theorem's "
                      "boolean oracle also runs on the crate's outputs.",
        "level_note": "Trusted: Coq kernel, the regex translator for constants/enum tables, OCaml extraction + driver, Rust harness; the hand-written model "
                      "is validated, not verified, against telegram.rs (differential execution on the explored inputs).",
        "design_ref": "DESIGN.md section 4, C09",
        "assumptions": ["addresses 0..127, SAP and PDU bytes 0..255, length byte <= 249 (the code's own assert), transmit buffer >= telegram length"],
    },
    "C10": {
        "claimed": False,
        "coq": "Properties/C10.v",
        "domains": ["codec"],
        "nontrivial": ["dec:A", "dec:R", "mut:"],
        "rule": "cases = generated DEC/MUT lines (all strings of length <= 1, length-2 strings with delimiter first (all in thorough), "
                "structured SD2 headers, every proper prefix and every position x 8 bit flips + random + delimiter substitutions of valid frames, "
                "random/mutational strings to 262 bytes), deduplicated; non-trivial = distinct decodes that get past the length guard "
                "(model verdict Accept or Reject) plus all single-byte substitutions",
        "trusted_base": CODEC_TB,
        "technique": "Coq proof (decoder characterisation, totality, prefix consistency, single-byte corruption) + differential correspondence",
        "level_text": "Machine-checked theorems over all byte strings (no length bound) about the Gallina model of Telegram::deserialize: never panics, "
                      "Accept lies inside the input and meets the frame criterion, NeedMore only when shorter than the announced length, verdicts are stable "
                      "under extension, every single-byte substitution of a valid data frame or SC is rejected (except first-delimiter swaps to another valid "
                      "delimiter, a limit of the frame format). Model tied to the crate by differential execution incl. all short strings and every "
                      "position of sampled valid frames.",
        "level_note": "Trusted: Coq kernel, translator, extraction + OCaml driver, Rust harness; hand model validated differentially, not verified.",
        "design_ref": "DESIGN.md section 4, C10",
        "assumptions": ["input bytes 0..255", "a substitution of the first start delimiter by another valid delimiter is outside the single-byte clause (DESIGN 4.0)"],
    },
}

NOT_CLAIMED = {}

PHY_TB = [
    "hand models coq/Model/Phy.v (receive_telegram, receive_all_telegrams, poll_pending_received_bytes, transmit_telegram of src/phy/mod.rs, "
    "both over a byte list and over an abstract PHY = view/drop pair), coq/Model/SimBus.v (SimulatorBus/SimulatorPhy of src/phy/simulator.rs: "
    "current_cursor, pending_bytes, is_active, enqueue_telegram with its collision/delay panics, cursor) and coq/Model/Telegram.v (decoder), "
    "tied by differential execution on this run's cases",
    "one receive_* call sees an atomic snapshot of the PHY (true of SimulatorPhy and of the harness PHY: the bus time does not change inside a call)",
    "Instant/Duration arithmetic as modelled: i64/u64 with overflow = panic (debug build), Instant - Instant = absolute difference",
]

PROPS["C16"] = {
    "coq": "Properties/C16.v",
    "domains": ["phyrx"],
    "nontrivial": ["buf:", "sim:RXS", "sim:RXQ"],
    "rule": "cases = generated RXB/RXS/RXQ lines, deduplicated: every chunking of 11 short streams (<= 11 bytes) under receive_all_telegrams and "
            "receive_telegram; every SD1/SD2/SD3 PDU length x SAP combination inside 1..3-telegram streams with random chunkings; random streams of "
            "1..8 telegrams (token, SC, SD1/SD2/SD3) in 1..2 episodes with 7 chunking styles incl. empty polls; streams with garbage episodes of 8 kinds "
            "between clean ones; simulator runs over all 11 baudrates with polls during and between transmissions; simulator corner cases (short gaps, "
            "collisions, receiver transmitting, time running backwards, arithmetic overflow). non-trivial = harness-PHY cases + simulator cases (each is a "
            "whole poll sequence)",
    "trusted_base": PHY_TB,
    "technique": "Coq proof (refinement of the receive helpers to a frame-length spec of the byte stream, by induction over telegram lists and chunk lists) "
                 "+ differential correspondence model vs crate over the harness PHY and SimulatorPhy",
    "level_text": "Machine-checked theorems (Coq 8.16.1, closed under the global context), for ALL lists of valid telegrams and ALL chunkings (no bounds): "
                  "the model of receive_all_telegrams / receive_telegram, fed chunk after chunk, delivers exactly the telegrams sent, in order, each once, "
                  "flags a telegram as last exactly when nothing is buffered behind it, leaves exactly the incomplete tail in the buffer, terminates within "
                  "|buffer|+1 iterations without panic for every byte string and every callback, drops the whole buffer on undecodable data and then "
                  "receives a telegram that arrives separately; the simulator's byte availability is a monotone prefix of the stream. The helper model "
                  "over an abstract PHY (view/drop) is proved equal to the byte-list model for every coherent PHY, and SimulatorPhy and the harness PHY "
                  "are proved coherent. Models tied to the crate on every run by ~13k poll sequences over both PHYs with 0 divergences; the "
                  "frame-length oracle (decoder-free) also runs on the crate's outputs.",
    "level_note": "Trusted: Coq kernel, translator for constants/tables, extraction + OCaml driver, Rust harness (its BufPhy and the reference frame builder); "
                  "hand models validated differentially, not verified, against phy/mod.rs, simulator.rs, telegram.rs. The serial/linux/rp2040 PHYs are not covered.",
    "design_ref": "DESIGN.md section 4, C16",
    "assumptions": ["telegrams valid for the encoder: addresses 0..127, SAP/PDU bytes 0..255, length byte <= 249",
                    "fault-free clauses: the bytes seen are the concatenation of the frames; resync clause: the next telegram arrives after the discard",
                    "simulator monotonicity: bus time not before the start of the last transmission and below the u64 overflow point of time_to_bits"],
}
