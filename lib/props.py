"""Registry of the properties the machinery decides: Coq target, harness domains, evidence rules."""

CODEC_TB = [
    "hand model coq/Model/Telegram.v of src/fdl/telegram.rs (FunctionCode, DataTelegramHeader::serialize, "
    "DataTelegram/TokenTelegram/Telegram::deserialize, TelegramTx), tied by differential execution on this run's cases",
    "Rust u8/usize operators as modelled: wrapping_add = sum mod 256, | & << >> = Z.lor/Z.land/Z.shiftl/Z.shiftr on 0..255",
]

PROPS = {
    "C09": {
        "coq": "Properties/C09.v",
        "domains": ["codec"],
        "nontrivial": ["enc:ok", "fc:valid", "tok", "sc"],
        "rule": "cases = generated ENC/TOK/SC/FC lines (every SAP combination x every PDU length 0..limit+1, every "
                "function code x structural lengths, all 256 FC bytes, oversize and small-buffer inputs), deduplicated; "
                "non-trivial = distinct in-domain encodes (valid header, length byte <= 249, buffer large enough), valid FC bytes, token and SC encodes",
        "trusted_base": CODEC_TB,
        "technique": "Coq proof (round-trip theorems over a Gallina model of telegram.rs) + differential correspondence model vs crate",
        "level_text": "Machine-checked theorems (Coq 8.16.1, closed under the global context) that the model of the encoder writes exactly the "
                      "PROFIBUS frame layout, reports its length, and that the model of the decoder inverts it for every header, function code and payload "
                      "up to the frame limit, consuming exactly those bytes. The model is tied to the crate on every run by executing both on ~40k generated "
                      "encodes/decodes (all SAP combinations x all PDU lengths, all function codes, all 256 FC bytes) and comparing outputs; the theorem's "
                      "boolean oracle also runs on the crate's outputs.",
        "level_note": "Trusted: Coq kernel, the regex translator for constants/enum tables, OCaml extraction + driver, Rust harness; the hand-written model "
                      "is validated, not verified, against telegram.rs (differential execution on the explored inputs).",
        "design_ref": "DESIGN.md section 4, C09",
        "assumptions": ["addresses 0..127, SAP and PDU bytes 0..255, length byte <= 249 (the code's own assert), transmit buffer >= telegram length"],
    },
    "C10": {
        "claimed": False,
        "coq": "Properties/C10.v",
        "domains": ["codec"],
        "nontrivial": ["dec:A", "dec:R", "mut:"],
        "rule": "cases = generated DEC/MUT lines (all strings of length <= 1, length-2 strings with delimiter first (all in thorough), "
                "structured SD2 headers, every proper prefix and every position x 8 bit flips + random + delimiter substitutions of valid frames, "
                "random/mutational strings to 262 bytes), deduplicated; non-trivial = distinct decodes that get past the length guard "
                "(model verdict Accept or Reject) plus all single-byte substitutions",
        "trusted_base": CODEC_TB,
        "technique": "Coq proof (decoder characterisation, totality, prefix consistency, single-byte corruption) + differential correspondence",
        "level_text": "Machine-checked theorems over all byte strings (no length bound) about the Gallina model of Telegram::deserialize: never panics, "
                      "Accept lies inside the input and meets the frame criterion, NeedMore only when shorter than the announced length, verdicts are stable "
                      "under extension, every single-byte substitution of a valid data frame or SC is rejected (except first-delimiter swaps to another valid "
                      "delimiter, a limit of the frame format). Model tied to the crate by differential execution incl. all short strings and every "
                      "position of sampled valid frames.",
        "level_note": "Trusted: Coq kernel, translator, extraction + OCaml driver, Rust harness; hand model validated differentially, not verified.",
        "design_ref": "DESIGN.md section 4, C10",
        "assumptions": ["input bytes 0..255", "a substitution of the first start delimiter by another valid delimiter is outside the single-byte clause (DESIGN 4.0)"],
    },
    "C02": {
        "claimed": True,
        "coq": "Properties/C02.v",
        "domains": ["las"],
        "nontrivial": ["disc:n", "step:W:D", "step:W:V", "step:W:L", "step:N", "step:R", "api:reached-valid"],
        "rule": "cases = operation sequences on one TokenRing (own address, then W sa da / C / N a / R a), observed after EVERY operation "
                "(las_state from Debug, ready_for_ring, NS, PS, LAS): all 256 own addresses; exhaustive sequences up to length 3-6 over small "
                "address alphabets incl. 0, 125, 126..128, 255; random rings (1..126 members, 0 and 125 forced in, two-station rings) discovered "
                "from an ignored prefix + wrap-around + two rotations, then further rotations, leaves, joins, own passes, GAP results "
                "(set_next_station / remove_station), invalid addresses, claims; random operation soup; the same discovery/leave/join histories through the public API only (a listening FdlActiveStation on the simulator bus hearing token telegrams, observed by inspect_token_ring()). Deduplicated. Non-trivial = discovery cases "
                "accepted by the Coq shape predicate plus every witnessed pass in Discovery/Verification/Valid and every N/R step",
        "trusted_base": [
            "hand model coq/Model/TokenRing.v of src/fdl/token_ring.rs (bit array of 128 as list bool, every index/range panic site, Debug impl), "
            "tied by differential execution after every operation on this run's cases",
            "bitvec BitArray semantics as used: set/index/range-slice panic outside 0..128, fill, any, iter_ones ascending",
        ],
        "technique": "Coq proof (LAS discovery / verification / live update theorems over a Gallina model of token_ring.rs, all rings, all own "
                     "addresses, all initial LAS contents) + differential correspondence model vs crate after every operation",
        "partial_gap": "global half (N-station timed composition: convergence within a bounded time, token once per rotation in address order) "
                       "is not proved; only the per-station LAS data structure theorems are",
        "level_text": "PARTIAL: only the per-station data-structure half of C02 is proved; the global half (N-station timed composition: "
                      "convergence within a bounded time, every station receiving the token once per rotation in address order) is NOT proved. "
                      "Proved (Coq 8.16.1, closed under the global context) about the Gallina model of fdl::TokenRing, for every ring R (strictly "
                      "increasing addresses 0..125), every own address and every initial LAS content: after the wrap-around and two rotations of R a "
                      "listening station is Valid with LAS = R exactly and NS/PS the cyclic neighbours of TS; Valid is reached by listening only through a "
                      "verification rotation in which every pass verified against the LAS frozen at the end of discovery; an established LAS is unchanged "
                      "by further passes of R; a skipped station is removed exactly, a newcomer's pass adds exactly it; addresses > 125 are ignored; no panic "
                      "for any byte; NS/PS always are the cyclic neighbours of TS in the LAS. The model is tied to the crate on every run by replaying "
                      "~10^5 operation sequences on both and comparing the full observable state after every operation; the theorems' boolean "
                      "oracles also run on the crate's outputs.",
        "level_note": "Trusted: Coq kernel, extraction + OCaml driver, Rust harness, the verif-hooks wrapper (forwarding only); hand model validated "
                      "differentially, not verified, against token_ring.rs. The global ring-formation claim of C02 is outside this check.",
        "design_ref": "DESIGN.md section 4, C02 (data-structure half) - LAS; global half: section 4 'C02 (global half), C06'",
        "assumptions": ["own address 0..125 for the discovery/stability theorems (0..127 for no-panic)", "witnessed addresses are bytes 0..255",
                        "set_next_station / remove_station arguments < 128 (the FDL layer only passes addresses < HSA <= 126)",
                        "the LAS bit array has 128 entries (BitArr!(for 128))"],
    },
}

NOT_CLAIMED = {}
