"""Registry of the properties the machinery decides: Coq target, harness domains, evidence rules.
One top-level `PROPS["Cxx"] = {...}` statement per property (append-only, merge friendly)."""

PROPS = {}
NOT_CLAIMED = {}

PROPS["C09"] = {'coq': 'Properties/C09.v',
 'domains': ['codec'],
 'nontrivial': ['enc:ok', 'fc:valid', 'tok', 'sc'],
 'rule': 'cases = generated ENC/TOK/SC/FC lines (every SAP combination x every PDU length 0..limit+1, every function code x structural lengths, all '
         '256 FC bytes, oversize and small-buffer inputs), deduplicated; non-trivial = distinct in-domain encodes (valid header, length byte <= 249, '
         'buffer large enough), valid FC bytes, token and SC encodes',
 'trusted_base': ['hand model coq/Model/Telegram.v of src/fdl/telegram.rs (FunctionCode, DataTelegramHeader::serialize, '
                  "DataTelegram/TokenTelegram/Telegram::deserialize, TelegramTx), tied by differential execution on this run's cases",
                  'Rust u8/usize operators as modelled: wrapping_add = sum mod 256, | & << >> = Z.lor/Z.land/Z.shiftl/Z.shiftr on 0..255'],
 'technique': 'Coq proof (round-trip theorems over a Gallina model of telegram.rs) + differential correspondence model vs crate',
 'level_text': 'Machine-checked theorems (Coq 8.16.1, closed under the global context) that the model of the encoder writes exactly the PROFIBUS '
               'frame layout, reports its length, and that the model of the decoder inverts it for every header, function code and payload up to the '
               'frame limit, consuming exactly those bytes. The model is tied to the crate on every run by executing both on ~40k generated '
               "encodes/decodes (all SAP combinations x all PDU lengths, all function codes, all 256 FC bytes) and comparing outputs; the theorem's "
               "boolean oracle also runs on the crate's outputs.",
 'level_note': 'Trusted: Coq kernel, the regex translator for constants/enum tables, OCaml extraction + driver, Rust harness; the hand-written model '
               'is validated, not verified, against telegram.rs (differential execution on the explored inputs).',
 'design_ref': 'DESIGN.md section 4, C09',
 'assumptions': ["addresses 0..127, SAP and PDU bytes 0..255, length byte <= 249 (the code's own assert), transmit buffer >= telegram length"]}

PROPS["C10"] = {'claimed': True,
 'coq': 'Properties/C10.v',
 'domains': ['codec'],
 'nontrivial': ['dec:A', 'dec:R', 'mut:'],
 'rule': 'cases = generated DEC/MUT lines (all strings of length <= 1, length-2 strings with delimiter first (all in thorough), structured SD2 '
         'headers, every proper prefix and every position x 8 bit flips + random + delimiter substitutions of valid frames, random/mutational '
         'strings to 262 bytes), deduplicated; non-trivial = distinct decodes that get past the length guard (model verdict Accept or Reject) plus '
         'all single-byte substitutions',
 'trusted_base': ['hand model coq/Model/Telegram.v of src/fdl/telegram.rs (FunctionCode, DataTelegramHeader::serialize, '
                  "DataTelegram/TokenTelegram/Telegram::deserialize, TelegramTx), tied by differential execution on this run's cases",
                  'Rust u8/usize operators as modelled: wrapping_add = sum mod 256, | & << >> = Z.lor/Z.land/Z.shiftl/Z.shiftr on 0..255'],
 'technique': 'Coq proof (decoder characterisation, totality, prefix consistency, single-byte corruption) + differential correspondence',
 'level_text': 'Machine-checked theorems over all byte strings (no length bound) about the Gallina model of Telegram::deserialize: never panics, '
               'Accept lies inside the input and meets the frame criterion, NeedMore only when shorter than the announced length, verdicts are '
               'stable under extension, every single-byte substitution of a valid data frame or SC is rejected (except first-delimiter swaps to '
               'another valid delimiter, a limit of the frame format). Model tied to the crate by differential execution incl. all short strings and '
               'every position of sampled valid frames.',
 'level_note': 'Trusted: Coq kernel, translator, extraction + OCaml driver, Rust harness; hand model validated differentially, not verified.',
 'design_ref': 'DESIGN.md section 4, C10',
 'assumptions': ['input bytes 0..255',
                 'a substitution of the first start delimiter by another valid delimiter is outside the single-byte clause (DESIGN 4.0)']}

PROPS["C20"] = {'coq': 'Properties/C20.v',
 'domains': ['prm'],
 'nontrivial': ['set:ok', 'set:err', 'wv:ok', 'wv:err', 'new:'],
 'rule': 'cases = corpus/prm (F9 witnesses) + generated lines, deduplicated: WV = write_value_to_slice on bare slices (every data type incl. all '
         'Bit(0..9)/BitArea(0..8,0..8) and malformed positions x boundary/extreme values x short/exact/long slices); PRM = a random description '
         '(single fields of every type; several Bit/BitArea fields sharing a byte over constants plus integers; fully random overlapping layouts '
         'with malformed bit positions, out-of-type defaults, duplicated names) followed by 3-14 set_prm/set_prm_from_text calls with in-range, '
         'boundary, out-of-range, out-of-type, extreme (i64::MIN/MAX) values, unknown names and texts; as_bytes() and Ok/Err(kind)/PANIC after every '
         'call. evaluations = case lines; non-trivial = individual new()/set calls and write_value calls by model verdict (set:ok:<type>, '
         'set:err:<kind>, new:*, wv:*)',
 'trusted_base': ['hand model coq/Model/Prm.v of gsd-parser/src/lib.rs (UserPrmDataType::write_value_to_slice, PrmValueConstraint::assert_valid, '
                  'get_prm, get_value_from_text, write_constrained_value_to_slice, PrmBuilder::{new, set_prm, set_prm_from_text, as_bytes}), tied by '
                  "differential execution on this run's cases",
                  'gen/tr_prm.py: data type enum, size() table and the integer type of every integer arm of write_value_to_slice regenerated from '
                  'the source',
                  "hand specification coq/Model/PrmOracle.v (value ranges of the GSD data types, field bit positions, big-endian two's complement as "
                  'Z.testbit)',
                  'Rust u8 operators as modelled: & | ^ << on 0..255 = Z.land/Z.lor/Z.lxor/Z.shiftl (mod 256); names/text keys are numeric ids '
                  'mapped to the strings p<id>/t<id>'],
 'technique': 'Coq proof (overlay / exact-bits / rejects-unchanged / exact type ranges / no-panic / history theorems over a Gallina model of the '
              'parameter-block builder, with the known class F9-bitarea excluded and refuted inside) + differential correspondence model vs crate + '
              "spec oracle on the crate's outputs",
 'level_text': "Machine-checked theorems (Coq 8.16.1, closed under the global context) about the Gallina model of gsd-parser's PrmBuilder: new() "
               'builds exactly the constants overlaid field by field with the defaults; an admitted set_prm/set_prm_from_text changes exactly the '
               "bits that (offset, data type) define to the big-endian two's-complement value and no other bit, for every data type and every block "
               'state; every other call (unknown name/text, outside range/enumeration or data type) returns Err and leaves the block unchanged; each '
               'data type accepts exactly its value range (signed types their signed range); no description and no call sequence panics; the '
               'per-call oracle holds along every history. All of it for everything OUTSIDE one known class (F9-bitarea: a BitArea field written '
               'into a byte that has a bit set outside the area), inside which the law is refuted by theorem and reported as a known finding. The '
               'model is tied to the crate on every run by executing both on ~8k generated case lines (~35k individual new/set/write_value calls) '
               "and comparing as_bytes() and Ok/Err kind after every call; the specification oracle also runs on the crate's outputs.",
 'level_note': 'KNOWN FINDING F9-bitarea (status finding, not fixable with the suite unedited: regress_prm snapshot pins the clobbered byte): '
               'BitArea assigns the whole byte, so the property is FALSE of the crate inside the known class; the check prints KNOWN-FINDING and '
               'excuses only that class (a weaker oracle - own bits correct, all other bytes unchanged - still runs there). Three further F9 defects '
               'were repaired in the repository clone (Bit could not be cleared, Signed16 through u16, overflow panics on bit positions outside the '
               'byte); the model is of the repaired code. Trusted: Coq kernel, the regex translator, OCaml extraction + driver, Rust harness; the '
               'hand-written model is validated differentially, not verified, against lib.rs. usize overflow of offset+size and allocation failure '
               'are outside the model (offsets are nat).',
 'design_ref': 'DESIGN.md section 4, C20; section 7, F9',
 'assumptions': ['constant bytes 0..255, bit positions 0..255 (u8), values i64; offsets small enough that offset+size does not overflow usize and '
                 'the block can be allocated',
                 'outside the known class F9-bitarea (known_write / known_new in coq/Model/PrmOracle.v)',
                 'text keys of one PrmText are unique (BTreeMap); the first reference with a name wins (get_prm)']}

PROPS["C17"] = {'coq': 'Properties/C17.v',
 'domains': ['diag'],
 'nontrivial': ['fill:stored',
                'fill:too-large',
                'fill:no-buffer',
                'iter:1-block',
                'iter:2+blocks',
                'iter:0-blocks',
                'dp:accepted',
                'dp:rejected',
                'scan:found'],
 'rule': 'cases = generated ED lines (hook path: ExtendedDiagnostics::from_buffer + fill + raw_diag_buffer + iter_diag_blocks + Debug; all 1-byte '
         'strings x capacities {none,0,1,|ext|-1,|ext|,64,244}, all 65536 2-byte strings, every header byte with exact / short / long / chained '
         'structured tails, all values of channel bytes 1 and 2, fill sequences with previous content, random and structured strings of every length '
         '0..244), DP lines (public path: DpMaster + Peripheral driven through FdlApplication::transmit_telegram/receive_reply with hand-made reply '
         'telegrams, PDUs of every length 0..244, reply sequences with wrong SAPs, SC and short PDUs in between, last_diagnostics() + Debug with the '
         'formatting logger installed) and SCAN lines (DpScanner::receive_reply), plus corpus/diag, deduplicated; non-trivial = fills (stored / too '
         'large / no buffer), iterations of available buffers by number of blocks, accepted and rejected DP replies, scanner finds',
 'trusted_base': ['hand model coq/Model/Diag.v of src/dp/diagnostics.rs (ExtendedDiagnostics, ExtDiagBlockIter::next, ChannelError/ChannelDataType) '
                  "and of handle_diagnostics_response / parse_diag_response (peripheral.rs, scan.rs), tied by differential execution on this run's "
                  'cases',
                  'gen/tr_diag.py: DiagnosticFlags masks, header byte positions, channel error / data type tables, block type codes, length masks '
                  'and the presence of the length-0 guard are regenerated from the source; the hand-written specification tables in '
                  'Model/DiagOracle.v are proved equal to them',
                  'Rust u8/u16/usize operators as modelled: & | >> = Z.land/Z.lor/Z.shiftr on 0..255, from_le/be_bytes = a + 256 b, flags.remove = '
                  'Z.ldiff; usize cursor arithmetic cannot overflow for buffers that fit in memory (not modelled)',
                  'BitSlice<u8, Lsb0>::from_slice / iter_ones of the bitvec crate are taken as: bit k of byte j is index 8j+k (checked '
                  'differentially)'],
 'technique': 'Coq proof (header faithfulness, buffer fill, iterator totality and tiling for all byte strings, channel byte sweeps) over a Gallina '
              'model of the fixed code + differential correspondence model vs crate through the hook and through the public DP path',
 'level_text': 'Machine-checked theorems (Coq 8.16.1, closed under the global context) over ALL byte strings about the Gallina model of the '
               'diagnostics code: the reported ident, master address and every flag bit equal the wire bytes except the deliberately cleared marker '
               'bit 10; PDUs shorter than 6 bytes (and only those) are rejected; extended diagnostics are stored iff EXT_DIAG is set, a buffer '
               'exists and the string fits, otherwise the previous content is unchanged; the block iterator never panics, needs at most |buf|+1 '
               'steps, and its output is THE tiling of the buffer into consecutive well-formed blocks of their announced length, stopping exactly at '
               'the first malformed (reserved type, length 0) or truncated block; identifier / device data and all 256 values of each channel byte '
               'decode as the specification tables say; Debug formatting and any history of replies through handle_diagnostics_response never panic. '
               'The model is of the code WITH the F5 fix (length-0 block headers panicked the unfixed iterator; proved for the unguarded model, '
               'reproduced through the public DP path, fixed in commit c46c975, guard detected by the translator). Model tied to the crate on every '
               'run by ~87k cases (all 1- and 2-byte strings, all header bytes, PDU lengths 0..244, all capacity classes) through the verif-hooks '
               "wrappers and through DpMaster/DpScanner; the theorems' boolean oracles also run on the crate's outputs.",
 'level_note': 'Trusted: Coq kernel, gen/tr_diag.py, extraction + OCaml driver, Rust harness; the hand-written model is validated, not verified, '
               'against the Rust source (differential execution). Debug output is compared only as panic / no panic. Observation outside the '
               'property: iter_diag_blocks().next() on a peripheral WITHOUT diag buffer panics (raw_diag_buffer().unwrap()); modelled and stated '
               'explicitly.',
 'design_ref': 'DESIGN.md section 4, C17 (interpretation 4.0; finding F5 in section 7)',
 'assumptions': ["bytes 0..255; the 'permanent' marker bit (bit 10 of the status word) is cleared on purpose and excluded from 'equal to the wire' "
                 '(DESIGN 4.0)',
                 'iteration is over the visible bytes of a container that has a buffer (without buffer there is no byte string; next() panics there, '
                 'stated as C17_container_without_buffer_panics)',
                 'debug logging enabled (worst case: the ext diag buffer is formatted on every stored reply)']}

PROPS["C02"] = {'claimed': True,
 'coq': 'Properties/C02.v',
 'domains': ['las'],
 'nontrivial': ['disc:n', 'step:W:D', 'step:W:V', 'step:W:L', 'step:N', 'step:R', 'api:reached-valid'],
 'rule': 'cases = operation sequences on one TokenRing (own address, then W sa da / C / N a / R a), observed after EVERY operation (las_state from '
         'Debug, ready_for_ring, NS, PS, LAS): all 256 own addresses; exhaustive sequences up to length 3-6 over small address alphabets incl. 0, '
         '125, 126..128, 255; random rings (1..126 members, 0 and 125 forced in, two-station rings) discovered from an ignored prefix + wrap-around '
         '+ two rotations, then further rotations, leaves, joins, own passes, GAP results (set_next_station / remove_station), invalid addresses, '
         'claims; random operation soup; the same discovery/leave/join histories through the public API only (a listening FdlActiveStation on the '
         'simulator bus hearing token telegrams, observed by inspect_token_ring()). Deduplicated. Non-trivial = discovery cases accepted by the Coq '
         'shape predicate plus every witnessed pass in Discovery/Verification/Valid and every N/R step',
 'trusted_base': ['hand model coq/Model/TokenRing.v of src/fdl/token_ring.rs (bit array of 128 as list bool, every index/range panic site, Debug '
                  "impl), tied by differential execution after every operation on this run's cases",
                  'bitvec BitArray semantics as used: set/index/range-slice panic outside 0..128, fill, any, iter_ones ascending'],
 'technique': 'Coq proof (LAS discovery / verification / live update theorems over a Gallina model of token_ring.rs, all rings, all own addresses, '
              'all initial LAS contents) + differential correspondence model vs crate after every operation',
 'partial_gap': 'global half (N-station timed composition: convergence within a bounded time, token once per rotation in address order) is not '
                'proved; only the per-station LAS data structure theorems are',
 'level_text': 'PARTIAL: only the per-station data-structure half of C02 is proved; the global half (N-station timed composition: convergence within '
               'a bounded time, every station receiving the token once per rotation in address order) is NOT proved. Proved (Coq 8.16.1, closed '
               'under the global context) about the Gallina model of fdl::TokenRing, for every ring R (strictly increasing addresses 0..125), every '
               'own address and every initial LAS content: after the wrap-around and two rotations of R a listening station is Valid with LAS = R '
               'exactly and NS/PS the cyclic neighbours of TS; Valid is reached by listening only through a verification rotation in which every '
               'pass verified against the LAS frozen at the end of discovery; an established LAS is unchanged by further passes of R; a skipped '
               "station is removed exactly, a newcomer's pass adds exactly it; addresses > 125 are ignored; no panic for any byte; NS/PS always are "
               'the cyclic neighbours of TS in the LAS. The model is tied to the crate on every run by replaying ~10^5 operation sequences on both '
               "and comparing the full observable state after every operation; the theorems' boolean oracles also run on the crate's outputs.",
 'level_note': 'Trusted: Coq kernel, extraction + OCaml driver, Rust harness, the verif-hooks wrapper (forwarding only); hand model validated '
               'differentially, not verified, against token_ring.rs. The global ring-formation claim of C02 is outside this check.',
 'design_ref': "DESIGN.md section 4, C02 (data-structure half) - LAS; global half: section 4 'C02 (global half), C06'",
 'assumptions': ['own address 0..125 for the discovery/stability theorems (0..127 for no-panic)',
                 'witnessed addresses are bytes 0..255',
                 'set_next_station / remove_station arguments < 128 (the FDL layer only passes addresses < HSA <= 126)',
                 'the LAS bit array has 128 entries (BitArr!(for 128))']}

PROPS["C16"] = {'coq': 'Properties/C16.v',
 'domains': ['phyrx'],
 'nontrivial': ['buf:', 'sim:RXS', 'sim:RXQ'],
 'rule': 'cases = generated RXB/RXS/RXQ lines, deduplicated: every chunking of 11 short streams (<= 11 bytes) under receive_all_telegrams and '
         'receive_telegram; every SD1/SD2/SD3 PDU length x SAP combination inside 1..3-telegram streams with random chunkings; random streams of '
         '1..8 telegrams (token, SC, SD1/SD2/SD3) in 1..2 episodes with 7 chunking styles incl. empty polls; streams with garbage episodes of 8 '
         'kinds between clean ones; simulator runs over all 11 baudrates with polls during and between transmissions; simulator corner cases (short '
         'gaps, collisions, receiver transmitting, time running backwards, arithmetic overflow). non-trivial = harness-PHY cases + simulator cases '
         '(each is a whole poll sequence)',
 'trusted_base': ['hand models coq/Model/Phy.v (receive_telegram, receive_all_telegrams, poll_pending_received_bytes, transmit_telegram of '
                  'src/phy/mod.rs, both over a byte list and over an abstract PHY = view/drop pair), coq/Model/SimBus.v (SimulatorBus/SimulatorPhy '
                  'of src/phy/simulator.rs: current_cursor, pending_bytes, is_active, enqueue_telegram with its collision/delay panics, cursor) and '
                  "coq/Model/Telegram.v (decoder), tied by differential execution on this run's cases",
                  'one receive_* call sees an atomic snapshot of the PHY (true of SimulatorPhy and of the harness PHY: the bus time does not change '
                  'inside a call)',
                  'Instant/Duration arithmetic as modelled: i64/u64 with overflow = panic (debug build), Instant - Instant = absolute difference'],
 'technique': 'Coq proof (refinement of the receive helpers to a frame-length spec of the byte stream, by induction over telegram lists and chunk '
              'lists) + differential correspondence model vs crate over the harness PHY and SimulatorPhy',
 'level_text': 'Machine-checked theorems (Coq 8.16.1, closed under the global context), for ALL lists of valid telegrams and ALL chunkings (no '
               'bounds): the model of receive_all_telegrams / receive_telegram, fed chunk after chunk, delivers exactly the telegrams sent, in '
               'order, each once, flags a telegram as last exactly when nothing is buffered behind it, leaves exactly the incomplete tail in the '
               'buffer, terminates within |buffer|+1 iterations without panic for every byte string and every callback, drops the whole buffer on '
               "undecodable data and then receives a telegram that arrives separately; the simulator's byte availability is a monotone prefix of the "
               'stream. The helper model over an abstract PHY (view/drop) is proved equal to the byte-list model for every coherent PHY, and '
               'SimulatorPhy and the harness PHY are proved coherent. Models tied to the crate on every run by ~13k poll sequences over both PHYs '
               "with 0 divergences; the frame-length oracle (decoder-free) also runs on the crate's outputs.",
 'level_note': 'Trusted: Coq kernel, translator for constants/tables, extraction + OCaml driver, Rust harness (its BufPhy and the reference frame '
               'builder); hand models validated differentially, not verified, against phy/mod.rs, simulator.rs, telegram.rs. The serial/linux/rp2040 '
               'PHYs are not covered.',
 'design_ref': 'DESIGN.md section 4, C16',
 'assumptions': ['telegrams valid for the encoder: addresses 0..127, SAP/PDU bytes 0..255, length byte <= 249',
                 'fault-free clauses: the bytes seen are the concatenation of the frames; resync clause: the next telegram arrives after the discard',
                 'simulator monotonicity: bus time not before the start of the last transmission and below the u64 overflow point of time_to_bits']}

PROPS["C18"] = {'coq': 'Properties/C18.v',
 'domains': ['scan'],
 'nontrivial': ['scan:L', 'scan:S', 'raw:'],
 'rule': 'cases = generated histories (own address, live list | DP scanner, up to 5 address sweeps, populations empty/sparse/dense/full/boundary '
         'incl. the own address, appear/disappear/ident-change events, lost replies, other answers: SC, token, request, wrong source, wrong SAP, '
         'short PDU, undecodable) plus RAW callback sequences outside the contract (panic sites), deduplicated; non-trivial = all of them (every '
         'history polls the application at least once); distribution counts polls, probes, reaction classes, events and stable windows',
 'trusted_base': ['hand models coq/Model/LiveList.v of src/fdl/live_list.rs and coq/Model/Scan.v of src/dp/scan.rs (state, transmit_telegram / '
                  'receive_reply / handle_timeout / take_last_event), driven by coq/Model/ScanBase.v in the call order the FDL layer guarantees '
                  "(C15), tied by differential execution on this run's histories",
                  'bitvec BitArr!(for 128) modelled as a Z bit mask with get -> None / set -> panic beyond 128',
                  'cargo feature verif-hooks: DpScanner::verif_iter_stations (read-only view of the private station set)'],
 'technique': 'Coq proof (induction over arbitrary histories on Gallina models of LiveList and DpScanner) + differential correspondence (transcript '
              'replay)',
 'level_text': 'Machine-checked theorems (Coq 8.16.1, closed under the global context), by induction over ARBITRARY histories (lists of environment '
               'reactions as functions of the probed address) and from any state with the cursor in range, about Gallina models of LiveList and '
               'DpScanner driven in the FDL call order: no panic; only 0..125 probed, +1 per completed probe, wrap 125->0 (closed form c+i mod 126); '
               "after any history and one stable sweep (a fortiori two) the live list is exactly R minus TS and the scanner's station set and last "
               "reported ident/master are exactly the answering peripherals'; every event is justified by the observation of its poll; the station "
               'set always equals the set told by the events (Discovered/Found and Lost strictly alternate per address) - for the live list under '
               'the stated hypothesis that answers are response telegrams, with the O1 deviation (bare SC marks without Discovered) proved as the '
               'only one and exhibited. Both models are tied to the crate on every run by replaying ~3600 generated histories (~600k polls: '
               'appear/disappear/ident change, lost replies, SC/token/request/wrong-SAP/short/undecodable answers, own address in the population) '
               "and comparing every request (wire bytes), event and station set; the oracle suite run on the crate's transcripts is itself proved to "
               'hold of every model transcript (C18_oracle_sound), so an oracle failure can only come from the crate.',
 'level_note': 'Trusted: Coq kernel, translator, extraction + OCaml driver, Rust harness (which also plays the environment); hand models validated '
               'differentially, not verified; the FDL call contract (C15) is an assumption here.',
 'design_ref': 'DESIGN.md section 4, C18',
 'assumptions': ['callbacks arrive in the order of the C15 contract', 'own address 0..125', 'events are collected after every callback']}

PROPS["C01"] = {'claimed': True,
 'coq': 'Properties/C01.v',
 'domains': ['fdl'],
 'nontrivial': ['tx:', 'tag:ht:accept', 'tag:reply:', 'tag:gap:reply', 'tag:gap:no-response', 'tag:check:', 'tag:lt:reply'],
 'rule': 'cases = corpus (F1 F2 F3 F12 witnesses, API / parameter edge cases) + generated histories: station alone with responders, environment '
         'rings of 1..3 masters that admit the station, hand-made token traffic (predecessor / stranger / own / invalid addresses), adversarial '
         'injections (tokens, status requests / replies, SC, data replies, garbage, truncated and corrupted frames, two telegrams at once) at all '
         'poll timings incl. periods above Tslot/4, PHY busy answers exact / never / late / random, set_offline / set_online in every state, 0..3 '
         'scripted applications, stable two-master rings over many token visits with small HSA (complete GAP sweeps, late successor inside the GAP, '
         'GAP replies ready / in-ring / not-ready / slave / wrong source / wrong destination / status != Ok), rings of 3..4 known stations whose '
         'successor vanishes and returns, re-claims after the other masters died (GAP cursor mid-sweep / waiting), short TTR with applications that never decline / whose '
         'requests time out after another application declined, PHY busy longer than the predicted transmission with successors answering late, replies that break off after their first bytes, masters that die in the middle of '
         'a token telegram, min_tsdr_bits 11 (two thirds) / 12 / 20 / 60 / 97 / 150 / 255, max_retry 1..15, TTR up to the builder maximum; every case runs '
         'under a wall-clock watchdog (TIMEOUT); non-trivial = polls that transmit, accept a token, deliver a reply / time-out or run a GAP branch',
 'trusted_base': ['hand model coq/Model/Fdl.v of src/fdl/active.rs (all of it: states, legality assertions, poll_inner branch for branch), on top of '
                  "Telegram.v / Phy.v / TokenRing.v / Params.v; tied by differential execution poll by poll on this run's histories (all outputs, "
                  'public getters and the private state through the verif-hooks fingerprint)',
                  'gen/tr_fdl.py: transition legality tables, have_token / is_in_ring sets, dispatch, retry table and numeric constants regenerated '
                  'from active.rs',
                  'harness PHY / scripted applications / scripted environment of harness/src/fdl.rs; monitors of coq/Model/FdlOracle.v (extracted) '
                  "run on the implementation's transcript"],
 'technique': 'Coq theorems (one poll, ALL station states / inputs / applications) about the Gallina model of the FDL active station + differential '
              "correspondence poll by poll + executable monitor of the property on the implementation's transcript",
 'level_text': 'PARTIAL (single-station obligations proved, N-station composition not proved). Proved in Coq for one station, every state, every '
               'input: C01_who_may_transmit (a poll transmits only from a token-holding state, from PassToken, from CheckTokenPass after slot expiry, '
               'from ListenToken/ActiveIdle with a pending status request - C01_status_request_is_addressed: such a request was addressed to TS - or as '
               'the claim after the own token-lost time-out), C01_not_while_busy, C01_not_before_predicted_end, C01_sync_pause (every transmission later '
               'than last_bus_activity + 33 bit), C01_reply_after_min_tsdr (hence later than + 11 bit), C01_claim_stagger (+ _by_address: time-out = '
               'bits_to_time((6 + 2 TS) * slot_bits), 2 slot times more per address, strictly increasing), C01_at_most_one_tx_per_poll (via the '
               "representation invariant of C05). The bus-level monitors run on the implementation's transcripts.",
 'level_note': 'Trusted: Coq kernel, the regex translators, OCaml extraction + driver, Rust harness. The hand model is validated, not verified, '
               'against active.rs (differential execution on the explored histories). last_bus_activity is the station\'s own notion of the end of the '
               'previous telegram (RX growth seen at a poll, received telegram, predicted end of its own transmission); that it bounds the true end of '
               'the previous telegram on the wire is part of the unproved composition. C01_at_most_one_tx_per_poll is stated through the model\'s PHY, '
               'which panics on a second transmission in one poll, plus the no-panic theorem of C05.',
 'partial_gap': 'NOT proved: the N-station composition - that no two transmissions overlap on a shared bus for all station sets and all jittered '
                'poll schedules (C01_compose of DESIGN.md section 4 and the discharge of its timing assumptions: token hand-over and reply-in-slot '
                'races, claim stagger against poll jitter). Only the per-station obligations above are theorems; for the multi-station statement the '
                "evidence is the bus-level monitors (another check) and the per-station monitor of this check running on the implementation.",
 'design_ref': 'DESIGN.md section 4, C01',
 'assumptions': ['single station; the multi-station composition is not covered', 'C01_who_may_transmit / C01_claim_stagger: 0 <= slot_time and 0 < token_lost_timeout (true for builder-valid parameters: C01_builder_timeouts)']}

PROPS["C05"] = {'claimed': True,
 'coq': 'Properties/C05.v',
 'domains': ['fdl'],
 'nontrivial': ['tx:', 'tag:ht:accept', 'tag:reply:', 'tag:gap:reply', 'tag:gap:no-response', 'tag:check:', 'tag:lt:reply'],
 'rule': 'cases = corpus (F1 F2 F3 F12 witnesses, API / parameter edge cases) + generated histories: station alone with responders, environment '
         'rings of 1..3 masters that admit the station, hand-made token traffic (predecessor / stranger / own / invalid addresses), adversarial '
         'injections (tokens, status requests / replies, SC, data replies, garbage, truncated and corrupted frames, two telegrams at once) at all '
         'poll timings incl. periods above Tslot/4, PHY busy answers exact / never / late / random, set_offline / set_online in every state, 0..3 '
         'scripted applications, stable two-master rings over many token visits with small HSA (complete GAP sweeps, late successor inside the GAP, '
         'GAP replies ready / in-ring / not-ready / slave / wrong source / wrong destination / status != Ok), rings of 3..4 known stations whose '
         'successor vanishes and returns, re-claims after the other masters died (GAP cursor mid-sweep / waiting), short TTR with applications that never decline / whose '
         'requests time out after another application declined, PHY busy longer than the predicted transmission with successors answering late, replies that break off after their first bytes, masters that die in the middle of '
         'a token telegram, min_tsdr_bits 11 (two thirds) / 12 / 20 / 60 / 97 / 150 / 255, max_retry 1..15, TTR up to the builder maximum; every case runs '
         'under a wall-clock watchdog (TIMEOUT); non-trivial = polls that transmit, accept a token, deliver a reply / time-out or run a GAP branch',
 'trusted_base': ['hand model coq/Model/Fdl.v of src/fdl/active.rs (all of it: states, legality assertions, poll_inner branch for branch), on top of '
                  "Telegram.v / Phy.v / TokenRing.v / Params.v; tied by differential execution poll by poll on this run's histories (all outputs, "
                  'public getters and the private state through the verif-hooks fingerprint)',
                  'gen/tr_fdl.py: transition legality tables, have_token / is_in_ring sets, dispatch, retry table and numeric constants regenerated '
                  'from active.rs',
                  'harness PHY / scripted applications / scripted environment of harness/src/fdl.rs; monitors of coq/Model/FdlOracle.v (extracted) '
                  "run on the implementation's transcript"],
 'technique': 'Coq proof of an inductive representation invariant of the Gallina model of the FDL active station (all states satisfying it, all '
              "inputs, all total applications) + differential correspondence poll by poll + executable monitor on the implementation's transcript",
 'level_text': 'FULL Rep-based theorem for the FDL active station (not the partial per-state variant): C05_rep_init (Rep holds for a new station with '
               'builder-valid parameters and after set_online / set_offline), C05_rep_step (from ANY state satisfying Rep, poll with any tx_busy, any '
               'received byte list, any now in [0, 2^62) and any number - including zero - of total applications is Ok: no panic site of the model is '
               'reached - legality assertions, unreachable!, unwrap, index, u8 / Instant / Duration arithmetic, a second transmission - and neither the '
               'receive loop (fuel |rx| + 1) nor the application loop (|apps| iterations) is exhausted; Rep holds again), C05_no_panic (all histories '
               'of polls / set_online / set_offline, by induction). All nine poll states are covered (Offline, ListenToken, ActiveIdle, UseToken, '
               'ClaimToken, AwaitDataResponse, PassToken, CheckTokenPass, AwaitStatusResponse). Model and implementation agree on PANIC / no PANIC on '
               'every explored history (debug assertions, overflow checks, formatting logger); the implementation shows no panic.',
 'level_note': 'Trusted: Coq kernel, the regex translators, OCaml extraction + driver, Rust harness. The hand model is validated, not verified, '
               'against active.rs (differential execution on the explored histories); the theorem is about the model of the FIXED tree (F1 F2 F3 F12). '
               'Applications are abstract: the hypothesis apps_total says every callback returns and a telegram handed to the PHY has at most 65536 '
               'bytes; the DP master / live list / scanner applications are covered by their own properties and by the correspondence runs, not by this '
               'theorem. Logging side effects (F3 class) are covered by the correspondence run with the formatting logger, not by the model.',
 'partial_gap': 'the theorem covers the FDL active station with abstract total applications; that DpMaster / LiveList / DpScanner satisfy '
                'apps_total is not part of this file (correspondence + their own checks); set_passive / PassiveIdle (documented todo!()) is outside',
 'design_ref': 'DESIGN.md section 4, C05',
 'assumptions': ['builder-valid parameters; set_passive (documented todo!()) and constructor assertions excluded (DESIGN 4.0)', 'now in [0, 2^62) microseconds (not necessarily monotone); the receive buffer holds bytes (0..255); applications total (apps_total); the application list keeps its length']}

PROPS["C06"] = {'claimed': True,
 'coq': 'Properties/C06.v',
 'domains': ['fdl'],
 'nontrivial': ['tx:', 'tag:ht:accept', 'tag:reply:', 'tag:gap:reply', 'tag:gap:no-response', 'tag:check:', 'tag:lt:reply'],
 'rule': 'cases = corpus (F1 F2 F3 F12 witnesses, API / parameter edge cases) + generated histories: station alone with responders, environment '
         'rings of 1..3 masters that admit the station, hand-made token traffic (predecessor / stranger / own / invalid addresses), adversarial '
         'injections (tokens, status requests / replies, SC, data replies, garbage, truncated and corrupted frames, two telegrams at once) at all '
         'poll timings incl. periods above Tslot/4, PHY busy answers exact / never / late / random, set_offline / set_online in every state, 0..3 '
         'scripted applications, stable two-master rings over many token visits with small HSA (complete GAP sweeps, late successor inside the GAP, '
         'GAP replies ready / in-ring / not-ready / slave / wrong source / wrong destination / status != Ok), rings of 3..4 known stations whose '
         'successor vanishes and returns, re-claims after the other masters died (GAP cursor mid-sweep / waiting), short TTR with applications that never decline / whose '
         'requests time out after another application declined, PHY busy longer than the predicted transmission with successors answering late, replies that break off after their first bytes, masters that die in the middle of '
         'a token telegram, min_tsdr_bits 11 (two thirds) / 12 / 20 / 60 / 97 / 150 / 255, max_retry 1..15, TTR up to the builder maximum; every case runs '
         'under a wall-clock watchdog (TIMEOUT); non-trivial = polls that transmit, accept a token, deliver a reply / time-out or run a GAP branch',
 'trusted_base': ['hand model coq/Model/Fdl.v of src/fdl/active.rs (all of it: states, legality assertions, poll_inner branch for branch), on top of '
                  "Telegram.v / Phy.v / TokenRing.v / Params.v; tied by differential execution poll by poll on this run's histories (all outputs, "
                  'public getters and the private state through the verif-hooks fingerprint)',
                  'gen/tr_fdl.py: transition legality tables, have_token / is_in_ring sets, dispatch, retry table and numeric constants regenerated '
                  'from active.rs',
                  'harness PHY / scripted applications / scripted environment of harness/src/fdl.rs; monitors of coq/Model/FdlOracle.v (extracted) '
                  "run on the implementation's transcript"],
 'technique': "Coq theorems about the Gallina model of the FDL active station (one-step theorems over all states, two-poll and n-poll histories) + differential correspondence poll by poll + executable monitor of the property on the implementation's transcript",
 'level_text': 'PARTIAL - single-station half only. Machine-checked theorems (Coq 8.16.1, closed under the global context) about the model coq/Model/Fdl.v of src/fdl/active.rs, whole polls, all station states / parameters / applications / times / inputs under the stated hypotheses: C06_claim_progress (silence for the token-lost time-out => the next poll transmits the claim token); C06_claim_only_after_timeout + C06_claim_needs_silence (a poll enters ClaimToken only from ListenToken/ActiveIdle and only if the recorded bus activity, new receive bytes included, is at least the time-out old); C06_claim_stagger (time-out = (6 + 2 TS) Tslot grows by >= 2 Tslot per address step); C06_backoff (waiting for a data reply / GAP reply / scan reply and finding another complete telegram => ActiveIdle, nothing transmitted, no application called, ring view unchanged) and C06_holding_defers (UseToken / transmitting ClaimToken steps / PassToken do not read the buffer: new bytes => nothing transmitted in that poll, state kept); C06_collision_* (ActiveIdle: token telegrams with own source address - first tolerated, second in a row leaves the ring for ListenToken; ListenToken: any telegram with own source address - first tolerated, second takes the station offline by re-creating it; closure-level and two-poll histories); C06_garbage_discarded (undecodable new bytes in a reading state: buffer dropped, nothing transmitted, only last_bus_activity / pending_bytes change); C06_lost_token_recovers_alone_partial (a lone idle station on a silent bus, ANY poll schedule: no poll panics, nothing happens before the time-out, the first poll at or after last activity + time-out transmits the claim token and the station holds the token; _fresh_partial: the same counted from the first poll of a station just set online). Retry and removal of a silent successor are C11_retry_discipline. The N-station property itself is NOT proved: it is only monitored on the implementation (see partial_gap).',
 'level_note': 'Trusted: Coq kernel, the regex translators (constants token_lost_base / token_lost_per_addr, collision tolerances, tables regenerated from the crate), OCaml extraction + driver, Rust harness. The hand model is validated, not verified, against active.rs (differential execution poll by poll). One poll sees an atomic PHY snapshot. Theorems other than C06_claim_progress and C06_lost_token_recovers_alone_partial assume the poll returns (no panic); those two prove it. The monitors of coq/Model/FdlOracle.v run on single-station implementation transcripts.',
 'partial_gap': 'NOT PROVED: the property proper - after an arbitrary finite fault plan the remaining N online stations re-establish a single circulating token within a bounded time, re-admit every live station and remove the gone ones. There is no theorem about N stations, about the timed composition, or about a recovery bound; that part is only MONITORED on the implementation (single-station monitors of the fdl domain in this check; bus-level N-station monitors under fault plans are a separate check under construction) - a test, not a proof. Also open in the single-station half: C06_lost_token_recovers_alone for the states PassToken / CheckTokenPass (working off a stale ring view: each step is described by C11_retry_discipline, the bound over the whole LAS is missing) and with a status request pending.',
 'design_ref': 'DESIGN.md section 4, C06',
 'assumptions': ['single station']}

PROPS["C11"] = {'claimed': True,
 'coq': 'Properties/C11.v',
 'domains': ['fdl'],
 'nontrivial': ['tx:', 'tag:ht:accept', 'tag:reply:', 'tag:gap:reply', 'tag:gap:no-response', 'tag:check:', 'tag:lt:reply'],
 'rule': 'cases = corpus (F1 F2 F3 F12 witnesses, API / parameter edge cases) + generated histories: station alone with responders, environment '
         'rings of 1..3 masters that admit the station, hand-made token traffic (predecessor / stranger / own / invalid addresses), adversarial '
         'injections (tokens, status requests / replies, SC, data replies, garbage, truncated and corrupted frames, two telegrams at once) at all '
         'poll timings incl. periods above Tslot/4, PHY busy answers exact / never / late / random, set_offline / set_online in every state, 0..3 '
         'scripted applications, stable two-master rings over many token visits with small HSA (complete GAP sweeps, late successor inside the GAP, '
         'GAP replies ready / in-ring / not-ready / slave / wrong source / wrong destination / status != Ok), rings of 3..4 known stations whose '
         'successor vanishes and returns, re-claims after the other masters died (GAP cursor mid-sweep / waiting), short TTR with applications that never decline / whose '
         'requests time out after another application declined, PHY busy longer than the predicted transmission with successors answering late, replies that break off after their first bytes, masters that die in the middle of '
         'a token telegram, min_tsdr_bits 11 (two thirds) / 12 / 20 / 60 / 97 / 150 / 255, max_retry 1..15, TTR up to the builder maximum; every case runs '
         'under a wall-clock watchdog (TIMEOUT); non-trivial = polls that transmit, accept a token, deliver a reply / time-out or run a GAP branch',
 'trusted_base': ['hand model coq/Model/Fdl.v of src/fdl/active.rs (all of it: states, legality assertions, poll_inner branch for branch), on top of '
                  "Telegram.v / Phy.v / TokenRing.v / Params.v; tied by differential execution poll by poll on this run's histories (all outputs, "
                  'public getters and the private state through the verif-hooks fingerprint)',
                  'gen/tr_fdl.py: transition legality tables, have_token / is_in_ring sets, dispatch, retry table and numeric constants regenerated '
                  'from active.rs',
                  'harness PHY / scripted applications / scripted environment of harness/src/fdl.rs; monitors of coq/Model/FdlOracle.v (extracted) '
                  "run on the implementation's transcript"],
 'technique': "Coq theorems about the Gallina model of the FDL active station: one-step theorems over all station states and inputs, and history theorems by induction over arbitrary lists of polls with a ghost counter; + differential correspondence poll by poll + executable monitor of the property on the implementation's transcript",
 'level_text': 'Machine-checked theorems (Coq 8.16.1, closed under the global context) about the model coq/Model/Fdl.v of src/fdl/active.rs, for ALL station states, parameters, applications, times and inputs unless stated. Acceptance: C11_accept_iff (in ActiveIdle a token addressed to the station, received as last buffered telegram, is accepted iff the sender is PS or the pending new_previous_station, otherwise the sender becomes pending and the ring view is unchanged), C11_own_address_never_accepts, C11_not_last_only_witnessed, C11_listen_never_accepts (do_listen_token ends in ListenToken / Offline / ActiveIdle, or in ClaimToken only after its own time-out), C11_accept_second_offer (two-poll history: first offer of a stranger only recorded, second consecutive offer accepted, a different stranger in between replaces the pending one). Supervision: C11_supervise (a poll in PassToken transmits nothing, a GAP poll, or the token to NS, after which the state is CheckTokenPass with the same attempt, or UseToken when the updated ring view has NS = TS), C11_supervise_silent_until_slot (in CheckTokenPass a poll transmits only if check_slot_expired holds: PHY idle, now > last bus activity + slot time, no new receive bytes), C11_check_pass_poll (complete case analysis of a poll in CheckTokenPass). Retry: C11_retry_discipline - for every run of polls from every state, a ghost counter driven only by observations (does the poll transmit, is the station in PassToken/CheckTokenPass) never exceeds 3 and equals the attempt label while supervising; when the slot timer runs out with count < 3 the pass is repeated on the unchanged ring view, with count = 3 - and only then - remove_station NS is applied and the token goes to the new NS, or the station keeps it (UseToken) if the new NS is TS; otherwise nothing is transmitted and the ring view changes by witnessed passes only. C11_heard_not_removed: new receive bytes while supervising => nothing transmitted, no removal; a complete telegram takes the station to ActiveIdle (handled from there), an incomplete one restarts the timer, undecodable bytes are dropped. Concrete runs are evaluated inside Coq as non-vacuity examples. The model is tied to the crate on every run by the fdl correspondence check (0 divergences) and the C11 monitors run on the implementation transcripts.',
 'level_note': 'Trusted: Coq kernel, the regex translators (retry table check_pass_next / check_pass_removes, legality tables, constants are regenerated from active.rs), OCaml extraction + driver, Rust harness. The hand model is validated, not verified, against active.rs (differential execution poll by poll on the explored histories). One poll sees an atomic PHY snapshot. "remove_station is not applied" is stated as: the ring view after the poll is obtained from the one before by witness_token_pass calls only (ring_witnessed) or is unchanged; remove_station is called nowhere else in the model (do_check_token_pass only). The theorems assume the poll returns (no panic); panic-freedom is C05.',
 'partial_gap': 'all planned C11 theorems are proved. Stated as coded rather than as planned: (a) after the token transmission the station keeps the token iff the ring view AFTER witnessing its own pass has NS = TS (for all states, also inconsistent ring views); (b) when the synchronisation pause exceeds the slot time (not possible for builder-valid parameters, slot >= 100 bit > 33 bit) the retry / post-removal pass is sent by a later poll, which the theorems state as a separate case; (c) C11_accept_second_offer assumes no pending status request (sr = None; with one pending the station answers it first and reads the token afterwards). Time-outs in C11_heard_not_removed use slot_time >= 0.',
 'design_ref': 'DESIGN.md section 4, C11',
 'assumptions': ['single station']}

PROPS["C12"] = {'claimed': True,
 'coq': 'Properties/C12.v',
 'domains': ['fdl'],
 'nontrivial': ['tx:', 'tag:ht:accept', 'tag:reply:', 'tag:gap:reply', 'tag:gap:no-response', 'tag:check:', 'tag:lt:reply'],
 'rule': 'cases = corpus (F1 F2 F3 F12 witnesses, API / parameter edge cases) + generated histories: station alone with responders, environment '
         'rings of 1..3 masters that admit the station, hand-made token traffic (predecessor / stranger / own / invalid addresses), adversarial '
         'injections (tokens, status requests / replies, SC, data replies, garbage, truncated and corrupted frames, two telegrams at once) at all '
         'poll timings incl. periods above Tslot/4, PHY busy answers exact / never / late / random, set_offline / set_online in every state, 0..3 '
         'scripted applications, stable two-master rings over many token visits with small HSA (complete GAP sweeps, late successor inside the GAP, '
         'GAP replies ready / in-ring / not-ready / slave / wrong source / wrong destination / status != Ok), rings of 3..4 known stations whose '
         'successor vanishes and returns, re-claims after the other masters died (GAP cursor mid-sweep / waiting), short TTR with applications that never decline / whose '
         'requests time out after another application declined, PHY busy longer than the predicted transmission with successors answering late, replies that break off after their first bytes, masters that die in the middle of '
         'a token telegram, min_tsdr_bits 11 (two thirds) / 12 / 20 / 60 / 97 / 150 / 255, max_retry 1..15, TTR up to the builder maximum; every case runs '
         'under a wall-clock watchdog (TIMEOUT); non-trivial = polls that transmit, accept a token, deliver a reply / time-out or run a GAP branch',
 'trusted_base': ['hand model coq/Model/Fdl.v of src/fdl/active.rs (all of it: states, legality assertions, poll_inner branch for branch), on top of '
                  "Telegram.v / Phy.v / TokenRing.v / Params.v; tied by differential execution poll by poll on this run's histories (all outputs, "
                  'public getters and the private state through the verif-hooks fingerprint)',
                  'gen/tr_fdl.py: transition legality tables, have_token / is_in_ring sets, dispatch, retry table and numeric constants regenerated '
                  'from active.rs',
                  'harness PHY / scripted applications / scripted environment of harness/src/fdl.rs; monitors of coq/Model/FdlOracle.v (extracted) '
                  "run on the implementation's transcript"],
 'technique': 'Coq proofs (whole-poll theorems for every station state and input, one history induction, a ranking-function argument, forward timing '
              'lemmas) about the Gallina model of the FDL active station + differential correspondence poll by poll + executable monitor of the '
              "property on the implementation's transcript",
 'level_text': 'Machine-checked theorems (Coq 8.16.1, closed under the global context) over the model of src/fdl/active.rs, each for ALL station '
               'states (reachable or not), ALL inputs of a poll (time, PHY busy flag, receive buffer, applications) and ALL parameters: '
               'C12_poll_transmissions classifies every transmission of a poll as application telegram / token / GAP status request / status reply '
               '(since the repair of F20 the token and the GAP request also go out at the end of a poll that began in UseToken / AwaitDataResponse and '
               'found nothing (more) to send: then the call log holds declines only), '
               'so the GAP requests are exactly the polls that transmit and end in AwaitStatusResponse a or ClaimToken::ScanAwaitResponse a; '
               'C12_poll_in_gap: for those, a is strictly between TS and NS cyclically (a <> TS, a <> NS), below HSA when TS and the cursor were, '
               'for all (TS, NS, HSA, cursor) incl. NS=TS, NS=TS-1, NS=HSA-1, TS=HSA-1, TS=0 (F1 fixed); C12_one_per_visit (history induction over '
               'arbitrary poll sequences with a ghost counter, plus the one-step facts that after a GAP request only the token TS->NS is '
               'transmitted, that PassToken{do_gap} performs exactly one GAP step and that nothing else touches the GAP state but that step - taken from '
               'PassToken{do_gap} or, after the F20 repair, at the end of the last poll of a token-use state; the post-claim scan '
               'issues requests back to back until Waiting); C12_sweep_bound: for 0 <= TS,NS < HSA <= 126, gap_wait_rotations 0..254 and any GAP '
               'state every GAP address is polled within |GAP| + gap_wait_rotations + 2 GAP steps without panic (ranking function; |GAP| proved to '
               'be the number of GAP addresses); C12_found_becomes_successor: an accepted reply (status Ok, master ready / in ring, from the polled '
               'address to TS, first in the buffer) applies set_next_station(a) (NS := a, LAS gets a and loses everything between, proved), the next '
               'transmission is the token TS->a; every other outcome leaves the ring view (a time-out passes the token to the unchanged NS); '
               'C12_status_reply_truth: a listening/idle station transmits only its claim token or the status reply to the recorded requester, a '
               "requester is recorded only by a status request addressed to TS that is the last telegram of the poll's receive buffer, the reported "
               'state is not-ready / ready (LAS valid and requester = PS) / in-ring exactly as coded; C12_status_reply_in_slot: the reply goes out '
               'at the first poll later than 33 bit after the poll that received the request, i.e. at most 2P + 33 bit after the end of the request '
               'for poll period P, and 2P + 33 bit + 11 bit (rounded up) + 1 us <= Tslot for every builder-valid parameter set (regenerated '
               'min_slot_bits table, integer microsecond rounding included) whenever P <= Tslot/4 - no baud rate fails. The model is tied to the '
               "crate on every run by differential execution poll by poll, and the C12 monitor runs on the crate's transcripts.",
 'level_note': 'Trusted: Coq kernel, the regex translators (tables and constants of active.rs / parameters.rs), OCaml extraction + driver, Rust '
               'harness. The hand model coq/Model/Fdl.v is validated, not verified, against active.rs (differential execution on the explored '
               "histories, 0 divergences). Theorems are about a single station's poll function; 'token visit' is abstracted as: one visit = one GAP "
               'step = one run of do_pass_token with do_gap: Yes past the synchronisation pause - reached from PassToken{do_gap: Yes} or, since the '
               'F20 repair, directly at the end of do_use_token (proved to perform exactly one GAP step; the ghost-counter '
               'theorem shows there is at most one GAP request between token transmissions). The timing theorem assumes an idle bus after the '
               "request (empty receive buffer, PHY not busy) and polls at most P apart; the requester side of 'within the slot time' is the one-step "
               "theorem C12_requester_keeps_waiting (new bytes restart the requester's slot timer before it is tested; no time-out up to Tslot after "
               'its time stamp); responder and requester halves are not composed into one two-station theorem.',
 'partial_gap': 'PROVED (coq/Properties/C12.v, 24 theorems): C12_poll_transmissions, C12_poll_in_gap (whole poll), '
                'C12_after_gap_request_only_the_token, C12_one_per_visit (ghost counter over poll histories), C12_visit_performs_gap_step, '
                'C12_gap_state_frame, C12_claim_scan_back_to_back, C12_sweep_bound, C12_gap_size_counts, C12_found_becomes_successor, '
                'C12_set_next_station_effect, C12_found_gets_next_token, C12_successor_unchanged_otherwise, C12_status_reply_truth, '
                'C12_reply_state_truth, C12_status_request_must_be_last, C12_status_reply_in_slot, C12_slot_time_covers_reply, '
                'C12_requester_keeps_waiting, and the earlier function-level C12_next_gap_poll_in_gap, C12_in_gapb_spec, C12_sweep_end_resets_wait, '
                'C12_pass_token_polls_in_gap, C12_claim_scan_polls_in_gap. NOT PROVED: a multi-station statement (that the token really comes back '
                "|GAP| + wait + 2 times, that successors 'learnt from witnessed passes' during a sweep keep the bound - the bound is per constant "
                'NS, every NS change restarts it from an arbitrary GAP state, which the theorem covers); the sweep bound is stated over the sequence '
                'of GAP steps, tied to polls by the one-step theorems rather than by one end-to-end history theorem; the composition of the '
                'responder half (C12_status_reply_in_slot) and the requester half (C12_requester_keeps_waiting) of the slot-time argument into one '
                'two-station theorem. ONLY VALIDATED: model = crate (differential), monitor on transcripts.',
 'design_ref': 'DESIGN.md section 4, C12',
 'assumptions': ['single station']}

PROPS["C13"] = {'claimed': False,
 'coq': 'Properties/C13.v',
 'domains': ['fdl'],
 'nontrivial': ['tx:', 'tag:ht:accept', 'tag:reply:', 'tag:gap:reply', 'tag:gap:no-response', 'tag:check:', 'tag:lt:reply'],
 'rule': 'cases = corpus (F1 F2 F3 F12 witnesses, API / parameter edge cases) + generated histories: station alone with responders, environment '
         'rings of 1..3 masters that admit the station, hand-made token traffic (predecessor / stranger / own / invalid addresses), adversarial '
         'injections (tokens, status requests / replies, SC, data replies, garbage, truncated and corrupted frames, two telegrams at once) at all '
         'poll timings incl. periods above Tslot/4, PHY busy answers exact / never / late / random, set_offline / set_online in every state, 0..3 '
         'scripted applications, stable two-master rings over many token visits with small HSA (complete GAP sweeps, late successor inside the GAP, '
         'GAP replies ready / in-ring / not-ready / slave / wrong source / wrong destination / status != Ok), rings of 3..4 known stations whose '
         'successor vanishes and returns, re-claims after the other masters died (GAP cursor mid-sweep / waiting), short TTR with applications that never decline / whose '
         'requests time out after another application declined, PHY busy longer than the predicted transmission with successors answering late, replies that break off after their first bytes, masters that die in the middle of '
         'a token telegram, min_tsdr_bits 11 (two thirds) / 12 / 20 / 60 / 97 / 150 / 255, max_retry 1..15, TTR up to the builder maximum; every case runs '
         'under a wall-clock watchdog (TIMEOUT); non-trivial = polls that transmit, accept a token, deliver a reply / time-out or run a GAP branch',
 'trusted_base': ['hand model coq/Model/Fdl.v of src/fdl/active.rs (all of it: states, legality assertions, poll_inner branch for branch), on top of '
                  "Telegram.v / Phy.v / TokenRing.v / Params.v; tied by differential execution poll by poll on this run's histories (all outputs, "
                  'public getters and the private state through the verif-hooks fingerprint)',
                  'gen/tr_fdl.py: transition legality tables, have_token / is_in_ring sets, dispatch, retry table and numeric constants regenerated '
                  'from active.rs',
                  'harness PHY / scripted applications / scripted environment of harness/src/fdl.rs; monitors of coq/Model/FdlOracle.v (extracted) '
                  "run on the implementation's transcript"],
 'technique': 'Coq one-step theorems about the Gallina model of the FDL active station + differential correspondence poll by poll + executable '
              "monitor of the property on the implementation's transcript",
 'level_text': 'One-step theorem: after the hold time (and the guaranteed cycle) no application is asked and the token is passed. The monitor checks '
               'the hold-time rule on call logs.',
 'level_note': 'Trusted: Coq kernel, the regex translators, OCaml extraction + driver, Rust harness. The hand model is validated, not verified, '
               'against active.rs (differential execution on the explored histories). The theorems proved so far are one-step facts about the model; '
               'the history-level theorems of DESIGN.md section 4 are not yet proved, so nothing is claimed in MANIFEST.json.',
 'partial_gap': 'only one-step theorems are proved; the invariant / history-level theorems planned in DESIGN.md section 4 (C13_hold_rule (only-if '
                'half), C13_rotation_bound) are open',
 'design_ref': 'DESIGN.md section 4, C13',
 'assumptions': ['single station']}

PROPS["C15"] = {'claimed': False,
 'coq': 'Properties/C15.v',
 'domains': ['fdl'],
 'nontrivial': ['tx:', 'tag:ht:accept', 'tag:reply:', 'tag:gap:reply', 'tag:gap:no-response', 'tag:check:', 'tag:lt:reply'],
 'rule': 'cases = corpus (F1 F2 F3 F12 witnesses, API / parameter edge cases) + generated histories: station alone with responders, environment '
         'rings of 1..3 masters that admit the station, hand-made token traffic (predecessor / stranger / own / invalid addresses), adversarial '
         'injections (tokens, status requests / replies, SC, data replies, garbage, truncated and corrupted frames, two telegrams at once) at all '
         'poll timings incl. periods above Tslot/4, PHY busy answers exact / never / late / random, set_offline / set_online in every state, 0..3 '
         'scripted applications, stable two-master rings over many token visits with small HSA (complete GAP sweeps, late successor inside the GAP, '
         'GAP replies ready / in-ring / not-ready / slave / wrong source / wrong destination / status != Ok), rings of 3..4 known stations whose '
         'successor vanishes and returns, re-claims after the other masters died (GAP cursor mid-sweep / waiting), short TTR with applications that never decline / whose '
         'requests time out after another application declined, PHY busy longer than the predicted transmission with successors answering late, replies that break off after their first bytes, masters that die in the middle of '
         'a token telegram, min_tsdr_bits 11 (two thirds) / 12 / 20 / 60 / 97 / 150 / 255, max_retry 1..15, TTR up to the builder maximum; every case runs '
         'under a wall-clock watchdog (TIMEOUT); non-trivial = polls that transmit, accept a token, deliver a reply / time-out or run a GAP branch',
 'trusted_base': ['hand model coq/Model/Fdl.v of src/fdl/active.rs (all of it: states, legality assertions, poll_inner branch for branch), on top of '
                  "Telegram.v / Phy.v / TokenRing.v / Params.v; tied by differential execution poll by poll on this run's histories (all outputs, "
                  'public getters and the private state through the verif-hooks fingerprint)',
                  'gen/tr_fdl.py: transition legality tables, have_token / is_in_ring sets, dispatch, retry table and numeric constants regenerated '
                  'from active.rs',
                  'harness PHY / scripted applications / scripted environment of harness/src/fdl.rs; monitors of coq/Model/FdlOracle.v (extracted) '
                  "run on the implementation's transcript"],
 'technique': 'Coq one-step theorems about the Gallina model of the FDL active station + differential correspondence poll by poll + executable '
              "monitor of the property on the implementation's transcript",
 'level_text': "One-step theorem: the reply admission filter is exactly 'SC or response from the addressed station to us'. The monitor checks the "
               'application contract (token held, one outstanding request, matched reply or time-out, round robin) on call logs.',
 'level_note': 'Trusted: Coq kernel, the regex translators, OCaml extraction + driver, Rust harness. The hand model is validated, not verified, '
               'against active.rs (differential execution on the explored histories). The theorems proved so far are one-step facts about the model; '
               'the history-level theorems of DESIGN.md section 4 are not yet proved, so nothing is claimed in MANIFEST.json.',
 'partial_gap': 'only one-step theorems are proved; the invariant / history-level theorems planned in DESIGN.md section 4 (C15_contract, '
                'C15_routing, C15_round_robin, C15_zero_apps) are open',
 'design_ref': 'DESIGN.md section 4, C15',
 'assumptions': ['0..3 scripted applications']}

PROPS["C19"] = {'coq': 'Properties/C19.v',
 'domains': ['gsd'],
 'nontrivial': ['interp:tree'],
 'rule': 'cases = corpus (F8 witnesses, the inputs of tests/parser_panic.rs) + generated: mock.gsd, ~1500 texts rendered from random station '
         "descriptions by the harness's GSD pretty-printer under random lexical styles (keyword case, blanks/tabs, comments, line continuations in "
         'white space / number lists / strings, LF / CR LF / lone CR, preamble, ignored settings and blocks; every 5th is a settings-only file), '
         '~3000 grammar-aware mutations of those and of mock.gsd (value kind swaps, numeric extremes and overflow, unknown data types, dangling '
         'references, dropped (n) / parentheses, deleted / duplicated / swapped lines, emptied or unterminated blocks, ~100 directed snippets), ~700 '
         'token/line soups, ~300 random byte strings; deduplicated; thorough = 12x. non-trivial = distinct cases whose text pest accepts, i.e. that '
         'reach the interpretation step with a pair tree (STAT interp:tree:<size bucket>)',
 'trusted_base': ['the pest library 2.9.1 (text -> pair tree for gsd.pest: PEG matching, implicit WHITESPACE/COMMENT skipping, atomic/silent rules, '
                  "error construction and formatting) is NOT modelled: it is run, in the crate and in the harness's own parser compiled from a copy "
                  'of the same gsd.pest; its no-panic behaviour is only tested (all generated texts incl. random bytes)',
                  'hand model coq/Model/GsdInterp.v of gsd-parser/src/parser.rs parse_inner after pest (helpers, statement loop, post-processing), '
                  "tied by differential execution on the REAL pair trees of this run's cases; Rust u32/i64 from_str_radix / str::parse / "
                  'trim_start_matches / str::replace / to_lowercase (ASCII identifiers) / BTreeMap order as modelled there; usize = 64 bit',
                  'gen/tr_gsd.py: rule enumeration and grammar value from gsd.pest, scalar fields/types/defaults and SupportedSpeeds masks from '
                  'lib.rs, the key -> action table of the top-level setting match and the data type names from parser.rs (regenerated on this run)',
                  "coq/Model/Peg.v: PEG interpreter with pest's semantics (implicit skipping, atomic/silent rules, lookahead, pair production), "
                  "written from pest_generator's generator.rs - validated against the real pest parser at tree level on every case of this run; the "
                  'shape predicate (GsdShape.child_rx) is PROVED to hold for every tree Peg.v returns and is additionally checked on every real pair '
                  'tree',
                  "the harness's GSD pretty-printer and description generator (fidelity oracle: parse(render(d, style)) = d)"],
 'technique': 'Coq proof (totality of the interpretation step over all grammar-shaped pair trees; whole-file round trip at tree level with closed forms per fragment) + differential correspondence model vs crate on real pest pair trees (incl. decode / re-render of every rendered file) + differential round trip on the implementation',
 'level_text': "No-panic half: machine-checked (Coq 8.16.1, closed under the global context) that the Gallina model of parser.rs's interpretation step - with every unwrap/expect/assert!/unreachable!/panic! as an explicit panic outcome - returns a description or the parser's error for EVERY pair tree of the shape the grammar prescribes (Shape, computed from the grammar value translated from gsd.pest; structural induction, no fuel), and for every tree the PEG model of pest returns for any text. On the unchanged tree this is false at 14 sites (F8: five defect classes, repaired by five minimal fix: commits; the model is of the repaired code, the witnesses are in the corpus). The model is tied to the crate on every run by feeding the REAL pest pair tree of each case to the model and comparing OK-dump/ERR/PANIC with the real parser. Fidelity half: proved AT TREE LEVEL for whole files of every statement kind in any order (C19_roundtrip_file: the interpretation of file_tree stmts is what the written statements say), with closed forms for the scalar settings incl. speeds, response times, Modular_Station, Max_Module (C19_roundtrip_scalars), PrmText / ExtUserPrmData definitions, station-level Ext_/legacy user parameter data and modules (C19_roundtrip_prm_modules) and slots (C19_roundtrip_slots_partial: Module blocks before SlotDefinition blocks), under all spellings of keys, numbers and strings; the step text -> pair tree (white space, comments, line ends, preamble) is validated, not proved: Peg.v = pest at tree level on every case, the real tree of every rendered file = file_tree of its decoded statements, and parse(render(d, style)) = d on the implementation (oracle failures are violations).",
 'level_note': 'Trusted: Coq kernel, gen/tr_gsd.py, extraction + OCaml driver, Rust harness incl. its pretty-printer; the pest library (text -> pair '
               'tree) is trusted and only tested; the hand model of the interpretation step is validated differentially, not verified against Rust.',
 'partial_gap': "PROVED, no-panic half: C19_interp_total / C19_interp_never_panics (all Shape trees), C19_tree_shape, C19_peg_tree_shape / C19_text_level_no_panic / C19_model_never_panics (every tree of the PEG model, every text). PROVED, fidelity half, at tree level (trees as pest delivers them; any spelling of keys / type names, any decimal or 0x-hex digit string incl. leading zeros and minus signs, any placement of line continuation markers in strings whose content has no back slash directly before CR/LF, any preamble): C19_roundtrip_file - for every well-formed file (file_okb: values within their types, references defined before use, legacy data within its declared length, known data type names, no index on plain keys) made of ANY statements in ANY order (settings, PrmText, ExtUserPrmData, Unit_Diag_Area, Module, SlotDefinition, ignored blocks) the interpretation of its pair tree equals file_says, the reading of the written values (no tree, no parsing); closed forms: C19_roundtrip_scalars - identification data, speeds (*_supp), response times (MaxTsdr_*), sizes, flags, Modular_Station and Max_Module arrive exactly as written, speeds are the or of the non-zero *_supp, defaults elsewhere (no scalar field written twice); C19_roundtrip_prm_modules - with unique PrmText / ExtUserPrmData ids: every reference means the definition block with that id (name, data type incl. Bit / BitArea, default, range or set, Changeable / Visible, text table of the referenced PrmText), the station's user parameter data is exactly the Ext_ constants and resolved references in file order, else the legacy User_Prm_Data_Len / User_Prm_Data lines, the modules are exactly the Module blocks in order (name, config bytes, reference, Info_Text, prm length, constants, resolved references); C19_roundtrip_slots_partial - slots (name, number, default module, allowed modules for a set or range) when no Module block follows a SlotDefinition block (other layouts: C19_roundtrip_file only); C19_number_as_written, C19_string_as_written, C19_roundtrip_settings_partial, C19_settings_tree_shape as before. Unit_Diag_Bit / _Not_Bit / _Help and Unit_Diag_Area are covered by C19_roundtrip_file without a separate closed form. The number of warnings is part of file_says (= interp) but has no closed form. ONLY VALIDATED (differential, this run's cases): text -> pair tree, i.e. that the real pest library behaves like Peg.v (same verdict and identical pair tree incl. leaf texts on every valid-UTF-8 case) and never panics itself; that pest maps a rendered text to the tree of the theorems (white space, comments, line ends, CR/LF, preamble): the real pair tree of every rendered file (1500 per quick run) equals file_tree of its decoded statements, all hypotheses of the theorems hold for it, and file_says equals the implementation's result; the implementation-level oracle parse(render(d, style)) = d. Files that write an index on a plain key (GSD_Revision(3) = ..: the parser takes the index for the value) are outside the proved fragment. NOT DONE: C19_parse_total (termination of the PEG model within a linear fuel bound; peg_parse may in principle return OutOfFuel - it never did), a text-level round trip theorem through Peg.v.",
 'design_ref': 'DESIGN.md section 4, C19 (pest itself remains a named, differentially validated oracle: section 10)',
 'assumptions': ['input is what gsd_parser::parse_from_file passes on: String::from_utf8_lossy of the file bytes',
                 'entry points gsd_parser::parser::parse / parse_with_warnings (parse_from_file itself panics on Err by design)',
                 '64-bit usize']}

PROPS["C03"] = {'claimed': True,
 'coq': 'Properties/C03.v',
 'domains': ['dp'],
 'nontrivial': ['dp:step:transmit', 'dp:step:reply', 'dp:step:timeout'],
 'rule': 'cases = generated DP histories (0..4 peripherals in dense/sparse/Vec storage, all option values, conforming/silent/faulty/mismatching '
         'slaves, lost requests/replies, malformed and unexpected replies, power cycles, user calls between bus events, time advances, fault-free '
         'tails), deduplicated; non-trivial = callbacks executed on the real master (transmit / reply / timeout steps)',
 'trusted_base': ['hand models coq/Model/Peripheral.v + DpMaster.v of src/dp/peripheral.rs, master.rs, peripheral_set.rs (after fix commits F4 F6 '
                  'F10 F11), tied by transcript replay: every FdlApplication callback and API call of generated histories is executed on the real '
                  'DpMaster and on the model, all outputs compared (TX bytes, events, is_live/is_running/pi_i/pi_q/last_diagnostics, operating '
                  'state)',
                  'reference slave coq/Model/Slave.v (environment, written against the PROFIBUS standard, not the crate) and its Rust twin in '
                  'harness/src/dp.rs, compared on every slave reply',
                  'the FdlApplication contract (C15) as the space of histories; harness emulates the FDL reply admission filter'],
 'technique': 'Coq history theorems by invariant (bring-up monitors as functions of the wire trace; invariant relating pe_state to the phase; step '
              'preservation for every call from every state satisfying it; lift by induction; master histories projected per peripheral) + one-step '
              'theorems over all states with literal SAP numbers and PDU layout + watchdog factor search theorem + differential correspondence by '
              'transcript replay + executable bring-up monitor (DpOracle.c03_monitor) on every implementation transcript',
 'level_text': 'Machine-checked theorems (Coq 8.16.1, closed under the global context; coq/Properties/C03.v, proofs in coq/Proofs/DpHistory.v, '
               'C03Proofs.v, DpMasterHistory.v) about the model of src/dp/peripheral.rs + master.rs after the fixes F6 F10 F16 F17 F18. HISTORIES as '
               'for C08: any calls on a freshly constructed peripheral (all reply kinds and statuses, lost requests / replies, user calls anywhere) '
               'respecting the FdlApplication contract, all option values, every max_retry_limit >= 1; lifted to every peripheral of every history '
               'of the DpMaster model (any peripheral count / storage) by C08_master_histories_project. MONITORS (functions of the wire trace): '
               'bringup_phase = DpOracle.c03_step per peripheral (NeedDiag -> DiagAnswered -> PrmAcked -> CfgAcked -> Ready; Ready only by an '
               'accepted diagnostics reply without Prm_Fault, Cfg_Fault, Station_Not_Ready, Prm_Req; Prm_Req resets to DiagAnswered from every phase '
               'incl. Ready, fix F16; the events Offline / ParameterError / ConfigError reset to NeedDiag) and strict_phase (wire + Offline event '
               'only, faults read from the diagnostics flags, plus reset Ready -> CfgAcked on a Data_Exchange reply "service not activated"). '
               'THEOREMS: C03_order (whenever a request on the default SAP = Data_Exchange is emitted both monitors are in Ready; it is SRD-high '
               'master -> peripheral) and C03_order_master; C03_each_request_in_order (every request is the one its phase calls for: Slave_Diag only '
               'in NeedDiag / CfgAcked / Ready, Set_Prm only in DiagAnswered, Chk_Cfg only in PrmAcked, Data_Exchange only in Ready); '
               'C03_invariant_relates_state_and_phase (pe_state <-> strict phase exactly; text phase equal or Ready while strict re-validates); '
               'C03_requests_use_standard_saps (every request of every history: DSAP 60 / 61 / 62 from SSAP 62 as SRD low, or default SAP as SRD '
               "high, literal numbers, from the master's to the peripheral's address) + C03_standard_saps_all_states (one-step, all states) + "
               'C03_global_control_saps (127, DSAP 58, SSAP 62, SDN) + C03_diag_reply_saps (accepted only from SSAP 60 to DSAP 62, >= 6 bytes); '
               'C03_options_faithful (in every history, for all option values: Set_Prm PDU = [0x80|sync 0x20|freeze 0x10|wd 0x08; f1; f2; min Tsdr; '
               'ident hi; ident lo; groups] ++ user_parameters of the configured options, Chk_Cfg PDU = config bytes, Slave_Diag no payload) + '
               'C03_set_prm_layout (all parameters / options) + C03_set_prm_is_bytes; kept: C03_set_prm_bytes, C03_chk_cfg_bytes, '
               'C03_dx_only_in_data_exchange, C03_watchdog_factors (10 ms..650 s). A changed SAP constant breaks the proofs (seeded: '
               'SAP_SLAVE_SET_PRM 61 -> 63 gives VIOLATION). Non-vacuity: C03_history_example.',
 'level_note': 'Trusted: Coq kernel, translator (gen/translate.py, gen/tr_dp.py), extraction + OCaml driver, Rust harness; hand model validated '
               'differentially, not verified.',
 'design_ref': 'DESIGN.md section 4, C03',
 'assumptions': ['histories allowed by the FdlApplication contract (C15); peripherals added before the history starts',
                 'max_retry_limit >= 1 (ParametersBuilder admits 1..15); runs that do not panic (panic freedom is C05)',
                 'bytes 0..255, addresses 0..125'],
 'partial_gap': 'all planned C03 theorems are proved. Peripheral::reset_address (a user call that asks for a new bring-up, possibly at another address) is NOT an operation of the history theorems: histories containing it are covered by the correspondence check (model p_reset_address / dp_reset_address, harness op RA) and the executable monitors DpOracle.c03_monitor_ra / c04_monitor_ra / c08_monitor_ra / c14_monitor_ra only (phase back to NeedDiag, next request FCV=0/FCB=1, life-cycle Off without event); known finding F22 (class DpOracle.known_reset_while_pending): reset_address while that peripheral\'s reply is outstanding. Stated as coded: (a) a diagnostics reply with Prm_Req both restarts the bring-up and counts as '
                'its answered diagnostics request (DESIGN 4.0); (b) in Ready a diagnostics reply with fault flags but without Prm_Req does not leave '
                'Ready (the master does not consider the peripheral offline there); (c) with user_parameters / config = None the peripheral idles in '
                "WaitForParam / WaitForConfig (observation O7); (d) the Data_Exchange PDU itself is C04's subject; (e) the requested watchdog time "
                'is truncated to 10 ms (O3, stated in C03_watchdog_factors); fail_safe and max_tsdr are not part of Set_Prm in the code. Not proved '
                'in Coq: that the executable oracle DpOracle.c03_monitor (on decoded transcripts) accepts every model transcript - bringup_phase '
                'mirrors its per-peripheral transition function and the oracle runs on every implementation transcript; dp_add during a running '
                'history is outside the master-level theorem.'}

PROPS["C04"] = {'claimed': True,
 'coq': 'Properties/C04.v',
 'domains': ['dp'],
 'nontrivial': ['dp:step:transmit', 'dp:step:reply', 'dp:step:timeout'],
 'rule': 'cases = generated DP histories (0..4 peripherals in dense/sparse/Vec storage, all option values, conforming/silent/faulty/mismatching '
         'slaves, lost requests/replies, malformed and unexpected replies, power cycles, user calls between bus events, time advances, fault-free '
         'tails), deduplicated; non-trivial = callbacks executed on the real master (transmit / reply / timeout steps)',
 'trusted_base': ['hand models coq/Model/Peripheral.v + DpMaster.v of src/dp/peripheral.rs, master.rs, peripheral_set.rs (after fix commits F4 F6 '
                  'F10 F11), tied by transcript replay: every FdlApplication callback and API call of generated histories is executed on the real '
                  'DpMaster and on the model, all outputs compared (TX bytes, events, is_live/is_running/pi_i/pi_q/last_diagnostics, operating '
                  'state)',
                  'reference slave coq/Model/Slave.v (environment, written against the PROFIBUS standard, not the crate) and its Rust twin in '
                  'harness/src/dp.rs, compared on every slave reply',
                  'the FdlApplication contract (C15) as the space of histories; harness emulates the FDL reply admission filter'],
 'technique': 'Coq theorems about the Gallina model of Peripheral / DpMaster: one-step theorems from ALL peripheral and master states, history '
              'theorems by monitor + invariant over arbitrary callback lists (framework of C14History.v), composition with the FDL station model '
              '(poll with DP masters as applications, C15) + differential correspondence + the executable process-image monitor on the '
              'implementation transcript',
 'level_text': 'Machine-checked (Coq 8.16.1, closed under the global context; coq/Properties/C04.v, proofs coq/Proofs/C04Proofs.v + DpStepProofs.v + '
               'C14History.v) about the Gallina model of src/dp/peripheral.rs + master.rs. dx_accepts p t := p in PreDataExchange / DataExchange, no '
               'diagnostics request in flight, and t a data response with status Ok/DataLow/DataHigh of exactly length(pi_i) bytes '
               '(DpOracle.dx_reply_payload, the predicate of the executable monitor) or an SC for an input-less peripheral. C04_event_iff (every '
               'peripheral state, every telegram): DataExchanged is returned iff dx_accepts; pi_i is then the payload byte for byte and unchanged '
               'otherwise; pi_q unchanged. C04_others_untouched (every master state): a reply is handled by the peripheral whose turn is in progress '
               '(address = addr); every other slot is identical afterwards; its pi_q is unchanged; DataExchanged is in last_events iff dx_accepts, '
               'with that slot handle. C04_transmit_touches_no_image: transmit_telegram changes no image and reports no event but Offline. '
               'C04_images_history: over arbitrary histories pi_i changes only in receive_reply for the slot whose turn it is, pi_q only by the user '
               'write to that slot (and then equals what was written). C04_wrong_replies_harmless: a reply that is not dx_accepts (wrong length, '
               'error status, wrong kind, wrong state) changes no image of any peripheral; C04_reply_total_peripheral / _master / '
               'C04_no_crash_history: SC / response telegrams never panic Peripheral::receive_reply (active frame count bit), admissible replies for '
               'the outstanding request never panic DpMaster::receive_reply, and that precondition holds after every history respecting the '
               'FdlApplication contract. C04_pi_q_user_writes: over arbitrary histories with user writes anywhere every Data_Exchange request '
               'carries exactly the output image as last written by the user if the master is in Operate at that transmit callback, zeros of the '
               'same length in Clear; the master never changes pi_q. C04_request_carries_pi_q / C04_pi_i_frame (one-step, phase 1). C04_end_to_end / '
               '_effect: in the FDL station model running DP masters as applications (poll, any receive buffer, any state, any time) every telegram '
               'handed to receive_reply is admissible (SC or response from the addressed station to this master; via C15 poll_reply_shape) - wrong '
               'source / destination, requests, tokens never reach it - and is then processed without panic with the effect above. Model tied to the '
               'crate by the dp correspondence check and the c04 monitor.',
 'level_note': 'Trusted: Coq kernel, translator (gen/translate.py, gen/tr_dp.py), extraction + OCaml driver, Rust harness; hand model validated '
               'differentially, not verified.',
 'design_ref': 'DESIGN.md section 4, C04',
 'assumptions': ['histories = arbitrary callback lists (C04_no_crash_history: respecting the FdlApplication contract, C15)',
                 'bytes 0..255; fixed peripheral set during a history'],
 'partial_gap': 'the wire bytes of a request are related to (header, pdu) by send_data / the codec theorems of C09, not re-stated here; add() during '
                'a history is not covered (fixed peripheral set); C04_end_to_end_effect takes the waiting master state as satisfying safe_inv '
                '(proved invariant of contract-respecting histories) rather than re-deriving it inside the FDL run.'}

PROPS["C07"] = {'claimed': True,
 'coq': 'Properties/C07.v',
 'domains': ['dp'],
 'nontrivial': ['dp:step:transmit', 'dp:step:reply', 'dp:step:timeout'],
 'rule': 'cases = generated DP histories (0..4 peripherals in dense/sparse/Vec storage, all option values, conforming/silent/faulty/mismatching '
         'slaves, lost requests/replies, malformed and unexpected replies, power cycles, user calls between bus events, time advances, fault-free '
         'tails), deduplicated; non-trivial = callbacks executed on the real master (transmit / reply / timeout steps)',
 'trusted_base': ['hand models coq/Model/Peripheral.v + DpMaster.v of src/dp/peripheral.rs, master.rs, peripheral_set.rs (after fix commits F4 F6 '
                  'F10 F11 F12 F13 F14), tied by transcript replay: every FdlApplication callback and API call of generated histories is executed on the real '
                  'DpMaster and on the model, all outputs compared (TX bytes, events, is_live/is_running/pi_i/pi_q/last_diagnostics, operating '
                  'state)',
                  'reference slave coq/Model/Slave.v (environment, written against the PROFIBUS standard, not the crate) and its Rust twin in '
                  'harness/src/dp.rs, compared on every slave reply',
                  'the FdlApplication contract (C15) as the space of histories; harness emulates the FDL reply admission filter'],
 'technique': 'Coq proofs: data-independence simulation (concrete joint cycle -> finite control system), complete forallb check of the finite control '
              'space by vm_compute with a symbolic retry counter, closed-set (invariant) arguments, history induction for the life-cycle automaton; '
              'plus the executable recovery monitor on implementation transcripts',
 'level_text': 'Machine-checked theorems (Coq 8.16.1, closed under the global context; coq/Properties/C07.v, 14 theorems). Joint system = ONE peripheral '
               'state machine of the DP master driven directly through Peripheral.p_transmit / p_receive_reply (one cycle of a master with a single '
               'occupied slot; NOT through DpMaster.dp_transmit) x the reference slave Slave.slave_step over a fault-free wire (frame_spec bytes, decode, '
               'FDL admission rule DpOracle.admissible). C07_recovery: from EVERY joint state satisfying jinv (master and device fit together as in '
               'DpOracle.healthy, device not silent / no forced flags, sizes within the frame format, max_retry_limit 1..15, frame count bit not Inactive, '
               'retry counter >= 0, slave ready delay and not-ready counter <= 2) and outside the F15 class - any peripheral state, retry count, flags, '
               'images, slave state, stored bit and ANY stored response bytes - within max_retry + 11 cycles (C07_bound_within_monitor: <= '
               'DpOracle.c07_bound = max_retry + 16) the peripheral is in DataExchange with the slave in Data_Exch, no cycle panics, and it stays there '
               'for every later cycle count. C07_recovery_explicit: the same outside the explicit class f15_suspect (slave in Wait_Cfg while the master is '
               'past Chk_Cfg or about to repeat a Chk_Cfg that the slave takes for a retransmission). Known finding F15 as theorems: C07_f15_refuted (the '
               'core - master ValidateConfig, slave Wait_Cfg without fault flags, in sync - is closed under the fault-free cycle: never recovers), '
               'C07_f15_class_never_recovers, Example C07_f15_witness (computed). Proof steps stated as theorems: C07_data_independence (the control '
               'projection of one concrete cycle is one step of the finite control system, for all payloads), C07_control_space (complete check of 18 x 2 x '
               '122,688 control states by vm_compute, retry counter and max_retry symbolic). C07_silent_goes_offline (a live peripheral without replies '
               'repeats the SAME request in its next max_retry+1-retry_count turns - exactly 1+max_retry transmissions from 0 - then raises Offline, not '
               'live, bit reset), C07_life_history (over EVERY history of one peripheral - turns, replies with any telegram, timeouts, user calls - the '
               'events follow the life-cycle automaton DpOracle.l_step), C07_no_data_exchange_before_configured, C07_online_again (from every joint state '
               'with the peripheral Offline: data exchange within the bound, events accepted Off->Cfg and containing Online then Configured), '
               'C07_slave_retry_detection (Slave.v: FCV=1 with the stored bit => stored response, state unchanged; otherwise processed and stored; '
               'FCV=0/FCB=1 resets), one-step C07_offline_reported, C07_reply_never_counts. The monitor DpOracle.c07_monitor (bound max_retry+16 '
               'completed cycles, class DpOracle.c07_known_f15) runs on every implementation transcript with a fault-free tail.',
 'partial_gap': 'All planned C07 theorems are proved. Slaves that stay "station not ready" for more than 2 diagnostics polls after Chk_Cfg (ready delay 3..8 in the generated fault-free tails, with max_retry 1..3) are OUTSIDE theorem C07_recovery: they are covered by correspondence and by the executable monitors DpOracle.c07_monitor_slow (bound max_retry+16+2*delay cycles) and c07_no_offline_monitor (no Offline event for a healthy, answering station after the first max_retry+4 cycles of the tail) only. Scope notes: (a) the joint system has ONE peripheral driven at the Peripheral level; the composition '
                'with DpMaster slot iteration / global-control telegrams for several peripherals is not part of C07_recovery (C14 covers the cycle '
                'structure; the monitor checks the multi-peripheral case on implementation transcripts). (b) The bound max_retry + 11 is proved for slave '
                'ready delays <= 2 diagnostics cycles (the generator range); larger delays lengthen recovery by the delay and are outside the theorem. '
                '(c) F15 is excluded exactly: f15_class = states whose fault-free run enters the F15 core within the bound; the transcript-level class '
                'DpOracle.c07_known_f15 used by the monitor is a different (observational) description of the same finding, their equivalence is not '
                'proved.',
 'level_note': 'Trusted: Coq kernel, translator (gen/translate.py, gen/tr_dp.py), extraction + OCaml driver, Rust harness; hand model validated '
               'differentially, not verified.',
 'design_ref': 'DESIGN.md section 4, C07',
 'assumptions': ['histories allowed by the FdlApplication contract (C15)',
                 'bytes 0..255, addresses 0..125, max_retry_limit 1..15 (ParametersBuilder bounds)']}

PROPS["C08"] = {'claimed': True,
 'coq': 'Properties/C08.v',
 'domains': ['dp'],
 'nontrivial': ['dp:step:transmit', 'dp:step:reply', 'dp:step:timeout'],
 'rule': 'cases = generated DP histories (0..4 peripherals in dense/sparse/Vec storage, all option values, conforming/silent/faulty/mismatching '
         'slaves, lost requests/replies, malformed and unexpected replies, power cycles, user calls between bus events, time advances, fault-free '
         'tails), deduplicated; non-trivial = callbacks executed on the real master (transmit / reply / timeout steps)',
 'trusted_base': ['hand models coq/Model/Peripheral.v + DpMaster.v of src/dp/peripheral.rs, master.rs, peripheral_set.rs (after fix commits F4 F6 '
                  'F10 F11), tied by transcript replay: every FdlApplication callback and API call of generated histories is executed on the real '
                  'DpMaster and on the model, all outputs compared (TX bytes, events, is_live/is_running/pi_i/pi_q/last_diagnostics, operating '
                  'state)',
                  'reference slave coq/Model/Slave.v (environment, written against the PROFIBUS standard, not the crate) and its Rust twin in '
                  'harness/src/dp.rs, compared on every slave reply',
                  'the FdlApplication contract (C15) as the space of histories; harness emulates the FDL reply admission filter'],
 'technique': 'Coq history theorems by invariant (ghost wire monitor over the callback list: Inv init, step preservation for every call from every '
              'state satisfying Inv, lift by induction; master histories projected to per-peripheral histories by a second invariant) about the '
              'Gallina model of Peripheral / DpMaster + differential correspondence by transcript replay + executable wire monitor '
              '(DpOracle.c08_monitor) on every implementation transcript',
 'level_text': 'Machine-checked theorems (Coq 8.16.1, closed under the global context; coq/Properties/C08.v, proofs in coq/Proofs/DpHistory.v, '
               'C08Proofs.v, DpMasterHistory.v) about the model of src/dp/peripheral.rs + master.rs after the fixes F6 F10 F17 F18. HISTORIES: any '
               'sequence of calls on a freshly constructed peripheral (transmit_telegram in any operating state, receive_reply with ANY telegram - '
               'accepted, well-formed but rejected, SC, wrong SAPs / length -, time-out or silently dropped request, request_diagnostics(), pi_q '
               'writes) that does not panic and respects the FdlApplication contract; every max_retry_limit >= 1 (1..15 included), every address, '
               'all options. C08_master_histories_project: every contract-respecting history of the DpMaster model (callbacks + user API, any number '
               'of slots / peripherals, any storage layout, from any master state) projects for every slot to such a peripheral history, so all '
               'theorems hold per peripheral of every master history; C08_master_log_is_model / C08_master_log_faithful tie the per-slot log to '
               'dp_tx_loop, to the bytes returned to the FDL layer and to the event left for take_last_events(). WIRE TRACE per peripheral = '
               "requests (header, PDU), replies, time-outs, idle turns, events; accepted reply = the standard's view DpOracle.reply_accepted, proved "
               'to be exactly what receive_reply accepts. THEOREMS: C08_first (the first request after start-up or after an Offline event - every '
               'earlier request of the trace is followed by an Offline event - is a Slave_Diag request DSAP 60 / SSAP 62 with FCV=0/FCB=1, function '
               'code 0x6C); C08_same_bit_only_retransmission (two consecutive requests - no request and no Offline event between - with the same '
               'FCB: no accepted reply in between, same service, same destination, and the same function code byte, except that a probe of a '
               'peripheral that is not live carries FCV=0/FCB=1 again, fix F18); C08_toggle_history (a request following an accepted reply has FCV=1 '
               'and the FCB of the previous request negated); C08_retry_bound (in a stretch after a request without accepted reply, idle turn or '
               'event at most max_retry further requests occur: <= 1+max_retry transmissions); C08_offline_when_exhausted (transmit_telegram raises '
               'no event but Offline and only after a request stayed unanswered through exactly 1+max_retry transmissions) with the converse '
               'C08_exhausted_then_offline (the next turn then neither sends nor idles); C08_offline_then_probes (after the Offline event until a '
               'diagnostics reply is accepted: no further event - exactly one Offline -, every request is a payload-free Slave_Diag probe with 0x6C, '
               'and the turn before each probe was idle: no probe is repeated in its turn, one per DP cycle); C08_invariant_step (the engine: every '
               'call from every state satisfying the invariant) and C08_wire_monitor_accepts (the monitor as ONE predicate: ev_ok over the fold '
               'ghost_of accepts every event of every history; the theorems above are its readings). Non-vacuity: C08_history_example, '
               'C08_master_example (computed histories showing every clause). One-step theorems over all states kept: C08_first_offline, '
               'C08_first_probe, C08_toggle_after_accept, C08_transmit_step.',
 'level_note': 'Trusted: Coq kernel, translator (gen/translate.py, gen/tr_dp.py), extraction + OCaml driver, Rust harness; hand model validated '
               'differentially, not verified.',
 'design_ref': 'DESIGN.md section 4, C08',
 'assumptions': ['histories allowed by the FdlApplication contract (C15); peripherals added before the history starts',
                 'max_retry_limit >= 1 (ParametersBuilder admits 1..15); runs that do not panic (panic freedom is C05)',
                 'bytes 0..255, addresses 0..125'],
 'partial_gap': 'all planned C08 theorems are proved. Peripheral::reset_address (a user call that asks for a new bring-up, possibly at another address) is NOT an operation of the history theorems: histories containing it are covered by the correspondence check (model p_reset_address / dp_reset_address, harness op RA) and the executable monitors DpOracle.c03_monitor_ra / c04_monitor_ra / c08_monitor_ra / c14_monitor_ra only (phase back to NeedDiag, next request FCV=0/FCB=1, life-cycle Off without event); known finding F22 (class DpOracle.known_reset_while_pending): reset_address while that peripheral\'s reply is outstanding. Stated as coded: (a) "first request" after F18: besides the first request after start-up / an '
                'Offline event, every probe that follows an unanswered probe of a peripheral that is not live carries FCV=0/FCB=1 again; the '
                'property text allows it as a retransmission (same service and destination, no acceptable reply) and C08_offline_then_probes states '
                'it; (b) after a parameter / configuration fault (internal offline state without Offline event, DESIGN 4.0) the first probe toggles '
                'the bit, later probes are first requests, no Offline event is raised while not live; (c) "one probe per DP cycle" is stated per '
                'peripheral as "the transmit_telegram turn before a probe was idle" - that DpMaster ends the peripheral\'s turn of the cycle on an '
                "idle turn is visible in dp_tx_loop (increment_cycle) but the cycle count itself is C14's subject; (d) a retransmitted Data_Exchange "
                'request repeats service, destination and function code but carries the CURRENT output image (the user may have written pi_q in '
                'between). Not proved in Coq: that the executable oracle DpOracle.c08_monitor (which works on decoded transcripts) accepts every '
                'model transcript - it mirrors the proved monitor and runs on every implementation transcript; dp_add during a running history is '
                'outside the master-level theorem.'}

PROPS["C14"] = {'claimed': True,
 'coq': 'Properties/C14.v',
 'domains': ['dp'],
 'nontrivial': ['dp:step:transmit', 'dp:step:reply', 'dp:step:timeout'],
 'rule': 'cases = generated DP histories (0..4 peripherals in dense/sparse/Vec storage, all option values, conforming/silent/faulty/mismatching '
         'slaves, lost requests/replies, malformed and unexpected replies, power cycles, user calls between bus events, time advances, fault-free '
         'tails), deduplicated; non-trivial = callbacks executed on the real master (transmit / reply / timeout steps)',
 'trusted_base': ['hand models coq/Model/Peripheral.v + DpMaster.v of src/dp/peripheral.rs, master.rs, peripheral_set.rs (after fix commits F4 F6 '
                  'F10 F11), tied by transcript replay: every FdlApplication callback and API call of generated histories is executed on the real '
                  'DpMaster and on the model, all outputs compared (TX bytes, events, is_live/is_running/pi_i/pi_q/last_diagnostics, operating '
                  'state)',
                  'reference slave coq/Model/Slave.v (environment, written against the PROFIBUS standard, not the crate) and its Rust twin in '
                  'harness/src/dp.rs, compared on every slave reply',
                  'the FdlApplication contract (C15) as the space of histories; harness emulates the FDL reply admission filter'],
 'technique': 'Coq history theorems about the Gallina model of DpMaster / Peripheral: instrumented (ghost-logged) copies of the callbacks with an '
              'erasure theorem, a relational characterisation of one slot-loop call, monitors over arbitrary callback histories with explicit '
              'invariants (one-step lemma for every callback from every state satisfying the invariant, lift by induction) + differential '
              'correspondence of the model + the executable cycle/event monitor on the implementation transcript',
 'level_text': 'Machine-checked (Coq 8.16.1, closed under the global context; coq/Properties/C14.v, proofs coq/Proofs/C14History.v) about the '
               'Gallina model of src/dp/master.rs + peripheral_set.rs + peripheral.rs (after fixes F4 F6 F10-F14). Histories = ARBITRARY lists of '
               'callbacks on the master from any start state with the stated invariant: transmit_telegram / receive_reply / handle_timeout, '
               'take_last_events, request_diagnostics, pi_q writes, enter_state, in any order, any reply telegram, any loss (time-out or the request '
               'simply dropped = token given up mid-cycle), any times; ALL slot vectors (empty, all None, sparse); a panic ends the run (every '
               'theorem holds for every prefix up to a panic). The peripheral set is fixed during a history (add() is not a callback). Ghost log per '
               'callback = the calls made to Peripheral::transmit_telegram / receive_reply; C14_ghost_erasure: the instrumented functions and run '
               'are exactly the model plus the log. C14_one_turn_each: the monitor cycle_item accepts every history - a request is sent only by the '
               'head of `rem` (occupied slots still due in this pass), a turn ends only for the head of rem which is then removed, rem always equals '
               'the concrete cycle position (occupied slots at or after the cycle index; after an event-ended call (F11) the next slot), occupancy '
               'never changes; so between two cycle_completed reports every occupied slot gets exactly one turn in slot order. '
               'C14_cycle_completed_once: per callback from every state with the invariant, cycle_completed is reported iff the scheduler ran and '
               'the last turn of the pass ended in that callback (empty master: iff the scheduler ran), and then all occupied slots are due again. '
               'C14_turn_is_one_request: all transmissions of one turn carry the same frame count bit and there are at most 1+max_retry_limit of '
               'them. C14_call_shape: one transmit call = silent turn ends, then a request (returns Some) or ONE turn ending with Offline (returns '
               'None, F11) or the end of the pass. C14_no_event_lost: with take_last_events after every FdlApplication callback (extra takes allowed '
               'anywhere) the events collected at each callback are exactly the events the Peripheral objects produced in it (with the slot handle), '
               'cycle_completed collected iff reported; whole sequences equal (none lost, none duplicated, order kept). C14_lifecycle (+_init, '
               '_public): per slot the event word is accepted by the life-cycle automaton DpOracle.l_step (the same one the executable monitor runs '
               'on the implementation) and after every callback the automaton state agrees with every peripheral (Off iff not live, Cfg whenever '
               '(Pre)DataExchange hence whenever is_running), for max_retry_limit >= 1. C14_gc_interleaving / C14_gc_when_due (one call, every '
               'state): a global control broadcast is written only by a HighPrioOnly::No transmit of a non-stopped master when due, and always when '
               'due, whatever the cycle position; it is an SDN request (expects no reply), cycle position / slots / operating state untouched, event '
               'slot emptied; C14_gc_interval: between two broadcasts without enter_state in between >= slot_time x 50 (regenerated constant). '
               'C14_zero_peripherals (+_history): an empty master returns None at once having reported cycle_completed (unless stopped / broadcast '
               'due), in every history, and never processes a reply (F4). C14_contract_safe: after any history respecting the FdlApplication '
               'contract a reply within the contract is processed without panic (the unreachable!() sites are unreachable). C14_turn_ends / '
               'C14_loop_bound: the call returns within #slots+2 loop iterations from every state. Non-vacuity: C14_history_example (sparse slots, '
               'GC, Online, time-out, Offline ending a call, two completed cycles). The model is tied to the crate by the dp correspondence check (0 '
               'divergences) and the c14 monitor on the implementation transcript.',
 'level_note': 'Trusted: Coq kernel, translator (gen/translate.py, gen/tr_dp.py), extraction + OCaml driver, Rust harness; hand model validated '
               'differentially, not verified.',
 'design_ref': 'DESIGN.md section 4, C14',
 'assumptions': ['histories = arbitrary callback lists; C14_contract_safe additionally assumes the FdlApplication contract (C15)',
                 'max_retry_limit >= 1 for C14_lifecycle (ParametersBuilder allows 1..15)',
                 'peripheral set fixed during a history; fresh peripherals (Peripheral::new) or any start state satisfying the stated invariant'],
 'partial_gap': 'The life-cycle oracle the driver runs is DpOracle.c14_monitor_lenient: c14_monitor_ra, and when that rejects, once more with the Diagnostics events dropped that occur while the peripheral is live but not yet Configured (the property text does not say when a Diagnostics event may occur; l_step, over which C14_lifecycle is stated for the model, allows them only once Configured). It accepts whatever c14_monitor_ra accepts (Proofs/DpLenient.v: c14_lenient_accepts, c14_lenient_sound). HighPrioOnly is varied per transmit call by the harness; the rule "a master that is not stopped returns None without cycle_completed and without a peripheral event only as the call that closes a cycle completed by the preceding reply" (DpOracle.c14_silent_none_monitor, oracle turn_skipped_on_high_prio) is monitored on the implementation, it is not part of Proofs/DpOracleSound.v. add() during a history is not covered (the peripheral set is fixed; the executable monitor marks such cycles and does not judge '
                'them either). "Retransmission" is stated as: same frame count bit, same slot, at most 1+max_retry per turn - that the bytes repeat '
                'is C08 (and not true of Data_Exchange when the user rewrites pi_q between retries). Freedom from the other panic sites (u8 index '
                'for > 256 slots, Instant overflow, transmit buffer too small) is C05; theorems are stated up to a panic.'}

PROPS["C13"] = {'claimed': True,
 'coq': 'Properties/C13.v',
 'domains': ['fdl'],
 'nontrivial': ['tx:', 'tag:ht:accept', 'tag:reply:', 'tag:gap:reply', 'tag:gap:no-response', 'tag:check:', 'tag:lt:reply'],
 'rule': 'cases = corpus (F1 F2 F3 F12 witnesses, API / parameter edge cases) + generated histories: station alone with responders, environment '
         'rings of 1..3 masters that admit the station, hand-made token traffic (predecessor / stranger / own / invalid addresses), adversarial '
         'injections (tokens, status requests / replies, SC, data replies, garbage, truncated and corrupted frames, two telegrams at once) at all '
         'poll timings incl. periods above Tslot/4, PHY busy answers exact / never / late / random, set_offline / set_online in every state, 0..3 '
         'scripted applications, stable two-master rings over many token visits with small HSA (complete GAP sweeps, late successor inside the GAP, '
         'GAP replies ready / in-ring / not-ready / slave / wrong source / wrong destination / status != Ok), rings of 3..4 known stations whose '
         'successor vanishes and returns, re-claims after the other masters died (GAP cursor mid-sweep / waiting), short TTR with applications that never decline / whose '
         'requests time out after another application declined, PHY busy longer than the predicted transmission with successors answering late, replies that break off after their first bytes, masters that die in the middle of '
         'a token telegram, min_tsdr_bits 11 (two thirds) / 12 / 20 / 60 / 97 / 150 / 255, max_retry 1..15, TTR up to the builder maximum; every case runs '
         'under a wall-clock watchdog (TIMEOUT); non-trivial = polls that transmit, accept a token, '
         'deliver a reply / time-out or run a GAP branch',
 'trusted_base': ['hand model coq/Model/Fdl.v of src/fdl/active.rs (all of it: states, legality assertions, poll_inner branch for branch), on top of '
                  "Telegram.v / Phy.v / TokenRing.v / Params.v; tied by differential execution poll by poll on this run's histories (all outputs, "
                  'public getters and the private state through the verif-hooks fingerprint)',
                  'gen/tr_fdl.py: transition legality tables, have_token / is_in_ring sets, dispatch, retry table and numeric constants regenerated '
                  'from active.rs',
                  'harness PHY / scripted applications / scripted environment of harness/src/fdl.rs; monitors of coq/Model/FdlOracle.v (extracted) '
                  "run on the implementation's transcript"],
 'technique': 'Coq theorems about the Gallina model of the FDL active station: one-step theorems from all states and history theorems by induction '
              'over arbitrary event sequences with an explicit invariant (for arbitrary applications) + differential correspondence poll by poll + '
              "executable monitor of the property on the implementation's transcript; abstract rotation theorem over visit records",
 'level_text': 'PARTIAL: the station-local hold-time rule is proved in full, the ring-wide rotation bound only CONDITIONALLY. Machine-checked (Coq '
               '8.16.1, closed under the global context) about the Gallina model of src/fdl/active.rs, arbitrary applications. Local, one-step from '
               'ALL states: C13_hold_rule / C13_hold_rule_poll - in do_use_token and in a whole poll (incl. the time-out path) applications are '
               'asked for normal telegrams only if now < end_token_hold_time, otherwise only for high-priority telegrams and only if '
               'first_cycle_done was false; C13_hold_over_passes - hold time over and guaranteed cycle done: nobody is asked and the rest of the poll '
               'is do_pass_token from PassToken{do_gap, First} (F20 repair: the token is passed in the same poll); C13_deadline_as_coded - the deadline is computed once per visit as previous token time + TTR - (Tslot + 100 '
               'bit if a GAP poll is due). Local, over arbitrary histories (polls at any time with any PHY input, set_online / set_offline, user '
               'interference) with stated invariants: C13_visit_bounded - in every visit a high-priority-only round happens only after the deadline '
               'and only if no application was asked before in that visit, normal rounds only before the deadline (so at most one message cycle '
               'starts after the deadline); C13_one_gap_poll_per_visit - between two visits AwaitStatusResponse is entered (= one GAP request sent) '
               'at most once, in the last poll of the visit or from PassToken. C13_deadline_constant_in_visit - all polls of a visit that ask applications see the same '
               'end_token_hold_time. Global, conditional: C13_rotation_bound_conditional - for any N and any sequence of visits of a stable ring '
               'whose visits satisfy visit_ok (= per round exactly the conclusion of C13_hold_rule / C13_visit_bounded, deadline <= previous token '
               'time + TTR from C13_deadline_as_coded, plus assumed bounds C on a message cycle and O on the hand-over), every rotation takes at '
               'most TTR + N (C + O) (via the abstract rotation_bound). The model is tied to the crate by the fdl correspondence check and the C13 '
               'rules of the FdlOracle.v monitor.',
 'level_note': 'Trusted: Coq kernel, the regex translators, OCaml extraction + driver, Rust harness. The hand model is validated, not verified, '
               'against active.rs (differential execution on the explored histories). The rotation bound is a theorem about abstract visit records; '
               'its hypotheses are discharged for ONE model station only in the sense that hold_ok / deadline_ok restate the conclusions of the '
               'local theorems; the timing hypotheses (C, O, ring stability) are assumptions about the environment and the poll schedule.',
 'partial_gap': 'NOT proved: that the composed N-station timed system (N model stations on a shared medium with a poll schedule) produces visit '
                'sequences satisfying ring_run and visit_ok - i.e. ring stability, a bound C on one message cycle (slot time, poll latency, peers '
                'answering or timing out), a bound O on the hand-over (GAP poll, token telegram, retries), and the formal extraction of `visit` '
                "records from the N station histories (that last_token_time is the token time of the station's previous visit along histories is "
                'only given one-step by C13_deadline_as_coded). No starvation-freedom statement for stations or applications is proved beyond the '
                'bound above. The first GAP request of a sweep is not covered by the hold-time reserve (as coded).',
 'design_ref': 'DESIGN.md section 4, C13',
 'assumptions': ['single station for the local theorems; arbitrary applications, the same number passed to every poll',
                 'for the rotation bound: a stable ring of N stations whose visits satisfy visit_ok with bounds C (message cycle) and O (hand-over)']}

PROPS["C15"] = {'claimed': True,
 'coq': 'Properties/C15.v',
 'domains': ['fdl'],
 'nontrivial': ['tx:', 'tag:ht:accept', 'tag:reply:', 'tag:gap:reply', 'tag:gap:no-response', 'tag:check:', 'tag:lt:reply'],
 'rule': 'cases = corpus (F1 F2 F3 F12 witnesses, API / parameter edge cases) + generated histories: station alone with responders, environment '
         'rings of 1..3 masters that admit the station, hand-made token traffic (predecessor / stranger / own / invalid addresses), adversarial '
         'injections (tokens, status requests / replies, SC, data replies, garbage, truncated and corrupted frames, two telegrams at once) at all '
         'poll timings incl. periods above Tslot/4, PHY busy answers exact / never / late / random, set_offline / set_online in every state, 0..3 '
         'scripted applications, stable two-master rings over many token visits with small HSA (complete GAP sweeps, late successor inside the GAP, '
         'GAP replies ready / in-ring / not-ready / slave / wrong source / wrong destination / status != Ok), rings of 3..4 known stations whose '
         'successor vanishes and returns, re-claims after the other masters died (GAP cursor mid-sweep / waiting), short TTR with applications that never decline / whose '
         'requests time out after another application declined, PHY busy longer than the predicted transmission with successors answering late, replies that break off after their first bytes, masters that die in the middle of '
         'a token telegram, min_tsdr_bits 11 (two thirds) / 12 / 20 / 60 / 97 / 150 / 255, max_retry 1..15, TTR up to the builder maximum; every case runs '
         'under a wall-clock watchdog (TIMEOUT); non-trivial = polls that transmit, accept a token, '
         'deliver a reply / time-out or run a GAP branch',
 'trusted_base': ['hand model coq/Model/Fdl.v of src/fdl/active.rs (all of it: states, legality assertions, poll_inner branch for branch), on top of '
                  "Telegram.v / Phy.v / TokenRing.v / Params.v; tied by differential execution poll by poll on this run's histories (all outputs, "
                  'public getters and the private state through the verif-hooks fingerprint)',
                  'gen/tr_fdl.py: transition legality tables, have_token / is_in_ring sets, dispatch, retry table and numeric constants regenerated '
                  'from active.rs',
                  'harness PHY / scripted applications / scripted environment of harness/src/fdl.rs; monitors of coq/Model/FdlOracle.v (extracted) '
                  "run on the implementation's transcript"],
 'technique': 'Coq theorems about the Gallina model of the FDL active station: one-step theorems from all states and history theorems by induction '
              'over arbitrary event sequences with an explicit invariant (for arbitrary applications) + differential correspondence poll by poll + '
              "executable monitor of the property on the implementation's transcript",
 'level_text': 'Machine-checked (Coq 8.16.1, closed under the global context) about the Gallina model of src/fdl/active.rs, for ARBITRARY '
               'applications (any state type, any three callbacks, any number n of them) and ARBITRARY histories of a newly created station: polls '
               'at any time with any PHY input, set_online / set_offline, arbitrary user changes of the application objects between polls (a history '
               'ends at a panic, so callbacks need not be total). Proved by one monitor + invariant Inv (C15_inv_init, C15_step_preserves for every '
               'event from every state satisfying Inv, lift C15_history_monitor) and projected to: C15_contract - an application is asked only in '
               'polls that begin in UseToken / AwaitDataResponse (have_token states) and while no request is outstanding; receive_reply(da, t) / '
               'handle_timeout(da) reach an application only while it waits for da and end the waiting, i.e. the per-application log matches '
               '(tx->None | tx->Some(no reply) | tx->Some(reply da); at most one of receive_reply da t / handle_timeout da)* - exactly one unless '
               'the station gives up the token while waiting (invalid telegram -> ActiveIdle, or set_offline), the only cases in which a request is '
               'dropped without callback; C15_expects_reply_by_table - for applications using the TelegramTx they are handed, expects_reply is the '
               'regenerated req_expects_reply table applied to the request, DA as address; C15_delivered_reply_shape (one poll from ANY state, and '
               "histories) - a delivered telegram is SC or a response with SA = addressed station and DA = TS; C15_routing - in the station's call "
               'log every reply / time-out is immediately preceded by the transmit call of the same application with that address; C15_round_robin - '
               'only the application whose turn it is (= next_application) is called, the turn moves exactly at a decline to (i+1) mod n, nobody is '
               'asked after n declines in a visit, the poll with the n-th decline passes the token on (F20 repair: it ends in a token-passing state '
               'PassToken / AwaitStatusResponse / CheckTokenPass or, the station being its own successor, in the first state of its next visit), '
               'and a visit ends that way only after n declines or with end_token_hold_time <= now; C15_zero_apps - no application: no callback ever, never AwaitDataResponse, do_use_token passes '
               'the token without reaching the % 0 of schedule_next_application. Non-vacuity: a concrete sending application run through the model; '
               'the acceptors reject wrong logs. The model is tied to the crate by the fdl correspondence check (0..3 scripted applications) and the '
               "C15 monitor of FdlOracle.v on the implementation's transcript.",
 'level_note': 'Trusted: Coq kernel, the regex translators, OCaml extraction + driver, Rust harness. The hand model is validated, not verified, '
               'against active.rs (differential execution poll by poll on the explored histories, incl. application call logs). The theorems are '
               "about the model; 'exactly one of reply / time-out' of DESIGN.md is false of the code (token given up while waiting) and is stated as "
               "'at most one, exactly one unless the token is given up', which is what the property text asks. The history theorems assume the "
               'caller passes the same number of applications to every poll (as poll / poll_multi users do).',
 'partial_gap': 'none for the station-local statement of C15. Not covered: liveness (that an application is eventually asked again) - it depends on '
                "the ring (C01/C13 global); panic-freedom of the application-facing code under total callbacks is C05's subject; the executable "
                'monitor in FdlOracle.v is not proved equal to the Coq acceptors (it is run on transcripts only; it does not model the reset of '
                'next_application when an address collision drops the station offline inside a poll)',
 'design_ref': 'DESIGN.md section 4, C15',
 'assumptions': ['single station; arbitrary applications, arbitrary number of them, the same number passed to every poll',
                 'applications that use the TelegramTx they are handed (only for C15_expects_reply_by_table)']}

# bus-level layer (N real stations on a harness bus; monitors and their soundness theorems in Properties/BusLevel.v)
for _pid in ("C01", "C02", "C06", "C13"):
    PROPS[_pid]["domains"] = list(PROPS[_pid]["domains"]) + ["bus"]
    PROPS[_pid]["coq_extra"] = ["Properties/BusLevel.v"]
    PROPS[_pid]["nontrivial"] = list(PROPS[_pid]["nontrivial"]) + ["bus:"]

PROPS["C05"] = {'claimed': True,
 'coq': 'Properties/C05.v',
 'domains': ['fdl', 'apps'],
 'nontrivial': ['tx:',
                'tag:ht:accept',
                'tag:reply:',
                'tag:gap:reply',
                'tag:gap:no-response',
                'tag:check:',
                'tag:lt:reply',
                'apps:call:',
                'apps:event:',
                'apps:tx'],
 'rule': 'fdl domain: cases = corpus (F1 F2 F3 F12 witnesses, API / parameter edge cases) + generated histories: station alone with responders, '
         'environment rings of 1..3 masters that admit the station, hand-made token traffic (predecessor / stranger / own / invalid addresses), '
         'adversarial injections (tokens, status requests / replies, SC, data replies, garbage, truncated and corrupted frames, two telegrams at '
         'once) at all poll timings incl. periods above Tslot/4, PHY busy answers exact / never / late / random, set_offline / set_online in every '
         'state, 0..3 scripted applications, stable two-master rings over many token visits with small HSA (complete GAP sweeps, late successor '
         'inside the GAP, GAP replies ready / in-ring / not-ready / slave / wrong source / wrong destination / status != Ok), rings of 3..4 known '
         'stations whose successor vanishes and returns; every case runs under a wall-clock watchdog (TIMEOUT); non-trivial = polls that transmit, '
         'accept a token, deliver a reply / time-out or run a GAP branch. apps domain: the real FdlActiveStation polled through poll_multi with the '
         'REAL applications attached - 0..4 of DpMaster (0..3 peripherals, Vec / fixed storage, Operate / Stop, image / parameter / configuration '
         'sizes up to the frame limits 246 / 237 / 244), LiveList, DpScanner, () in any mixture - against scripted DP slaves and bare FDL stations '
         'with 0..60 % noise (no reply, SC, random bytes, random responses, late and foreign replies), take_last_events after polls, set_offline / '
         'set_online in between; the transcript is replayed on the extracted Fdl.poll any_app_ops and every transmitted byte, consumed count, taken '
         'event and final application state is compared; non-trivial = callbacks made (send / reply / time-out per application kind), events taken',
 'trusted_base': ['hand model coq/Model/Fdl.v of src/fdl/active.rs (all of it: states, legality assertions, poll_inner branch for branch), on top of '
                  "Telegram.v / Phy.v / TokenRing.v / Params.v; tied by differential execution poll by poll on this run's histories (all outputs, "
                  'public getters and the private state through the verif-hooks fingerprint)',
                  'gen/tr_fdl.py: transition legality tables, have_token / is_in_ring sets, dispatch, retry table and numeric constants regenerated '
                  'from active.rs',
                  'harness PHY / scripted applications / scripted environment of harness/src/fdl.rs; monitors of coq/Model/FdlOracle.v (extracted) '
                  "run on the implementation's transcript",
                  'coq/Model/AppsGlue.v (app_ops of DpMaster / LiveList / DpScanner / () and their sum, 256-byte transmit buffer) over the hand '
                  'models DpMaster.v / Peripheral.v / LiveList.v / Scan.v; tied by the apps correspondence run (harness/src/apps.rs, '
                  'ocaml/run_apps.ml): real station + real applications vs extracted model, poll by poll'],
 'technique': 'Coq proof of an inductive representation invariant of the Gallina model of the FDL active station (all states satisfying it, all '
              'inputs) for abstract total applications AND for the models of the three real applications under the FdlApplication contract '
              '(invariants DpRep / ll_ok / sc_ok, station-application tie AppsInv) + differential correspondence poll by poll (scripted '
              "applications; real applications) + executable monitor on the implementation's transcript",
 'level_text': 'FULL Rep-based theorem for the FDL active station (not the partial per-state variant): C05_rep_init (Rep holds for a new station '
               'with builder-valid parameters and after set_online / set_offline), C05_rep_step (from ANY state satisfying Rep, poll with any '
               'tx_busy, any received byte list, any now in [0, 2^62) and any number - including zero - of total applications is Ok: no panic site '
               'of the model is reached - legality assertions, unreachable!, unwrap, index, u8 / Instant / Duration arithmetic, a second '
               'transmission - and neither the receive loop (fuel |rx| + 1) nor the application loop (|apps| iterations) is exhausted; Rep holds '
               'again), C05_no_panic (all histories of polls / set_online / set_offline, by induction). All nine poll states are covered (Offline, '
               'ListenToken, ActiveIdle, UseToken, ClaimToken, AwaitDataResponse, PassToken, CheckTokenPass, AwaitStatusResponse). APPLICATION SIDE '
               '(full composition, not the _partial fallback): apps_total is replaced by apps_contract (callbacks total under the FdlApplication '
               'contract) and discharged for the real applications: C05_dp_master_total / C05_dp_transmit_total / C05_dp_receive_reply_total (DpRep: '
               'any number of slots and peripherals incl. none, any occupancy / cycle / operating state / retry counters / peripheral states; '
               'transmit_telegram Ok at any time for any builder-valid parameters, slot loop within its fuel, no u8 overflow of the retry counter, '
               'no FrameCountBit::cycle on Inactive, no event assertion; receive_reply Ok for the awaited address with ANY non-token non-request '
               'telegram), C05_live_list_total, C05_scanner_total (cursor in 0..125; any station set), C05_any_app_total (their sum, any mixture in '
               'one list), C05_rep_step_contract / C05_rep_step_with_apps (one poll from ANY Rep station and ANY application states satisfying '
               'AppsInv: Ok, invariants again) and C05_no_panic_with_apps (+ _dp_master / _live_list / _scanner single-application instances): all '
               'histories of polls, set_online / set_offline and invariant-keeping user calls between polls (C05_dp_user_calls / '
               'C05_dp_user_calls_dense: take_last_events, enter_state, request_diagnostics, output image writes, add - also while a reply is '
               'outstanding) return Ok. That only contract-conforming calls occur inside poll is proved, not assumed: AppsInv (while the station is '
               'in AwaitDataResponse addr the application whose turn it is waits for addr) is carried through poll_inner using the C15 frame lemmas '
               '(quiet) for the six callback-free do_* functions. C05_dp_oversize_output_panics / C05_dp_reply_outside_contract show the '
               'preconditions are needed. C05_demo_run: a concrete 18-poll run asking all three applications. Model and implementation agree on '
               'PANIC / no PANIC and on every output on every explored history (debug assertions, overflow checks, formatting logger), with scripted '
               'and with the real applications; the implementation shows no panic.',
 'level_note': 'Trusted: Coq kernel, the regex translators, OCaml extraction + drivers, Rust harness. The hand models are validated, not verified, '
               'against the crate (differential execution on the explored histories); the theorems are about the models of the FIXED tree (F1 F2 F3 '
               'F12; F4 F6 F10 F11 F12 F13 F14 on the DP side). DpRep contains preconditions the crate does not document and does not check: '
               'peripheral address < 128, output image <= 246 bytes, user parameters <= 237 bytes, configuration <= 244 bytes (beyond them '
               'transmit_telegram panics at telegram.rs assert!(length_byte <= 249): reproduced on the crate with an output image of 247 bytes, '
               'pb_harness run dp); storage with at most 256 occupied slots is enforced by add() itself. DpRep admits any occupancy pattern of the '
               'storage; the composition (any_ok) uses DpRepD = DpRep + slots filled front to back (what new + add produce; sparse storages exist '
               'only through the verif-hooks constructor), which is what makes DpMaster::add safe at any time, also while a reply is outstanding '
               '(C05_dp_user_calls_dense; exercised by the apps correspondence: add while waiting). Logging side effects (F3 class) are covered by '
               'the correspondence runs with the formatting logger, not by the model.',
 'partial_gap': 'set_passive / PassiveIdle and DpMaster::enter_stop / enter_clear (documented todo!()) are outside; extended-diagnostics iteration '
                'inside log statements is C17; user calls that themselves panic by documentation (foreign handle, full fixed storage) are not part '
                'of a history',
 'design_ref': 'DESIGN.md section 4, C05',
 'assumptions': ['builder-valid parameters; set_passive (documented todo!()) and constructor assertions excluded (DESIGN 4.0)',
                 'now in [0, 2^62) microseconds (not necessarily monotone); the receive buffer holds bytes (0..255); the application list keeps its '
                 'length',
                 'abstract applications: total (apps_total); real applications: initial states satisfying DpRep / ll_ok / sc_ok (new objects do; '
                 'peripherals within the frame limits), PHY transmit buffer of 256 bytes']}

# C05 also covers the applications: an implementation panic / hang in these domains that the model does not predict is a C05 failure
PROPS["C05"]["panic_domains"] = ["dp", "scan", "diag", "phyrx", "codec"]

# Oracles of sibling properties (same domain run) whose failure is also a failure of this property:
#  C13 "one GAP poll per station and visit" is monitored as C12's two_gap_polls_per_visit (theorem C13_one_gap_poll_per_visit);
#  C04 "replies from the wrong source never modify an image" rests on the FDL admission filter monitored as C15's reply_invalid
#      (theorem C04_end_to_end uses the same lemma as C15_delivered_reply_shape) - needs the fdl domain;
#  C06 recovery fails when a poll of a station panics (C05's panic rule in the fdl domain).
PROPS["C13"]["also"] = [("C12", "two_gap_polls_per_visit")]
PROPS["C04"]["domains"] = list(PROPS["C04"]["domains"]) + ["fdl"]
PROPS["C04"]["also"] = [("C15", "reply_invalid")]
PROPS["C06"]["also"] = [("C05", "panic")]
#  C07 "a peripheral that stops answering is reported Offline / one that answers again is reported Online and Configured" is the
#      event life-cycle monitored as C14's cycle_events codes 1405 (event word rejected) and 1406 (is_live / is_running inconsistent with events).
PROPS["C07"]["also"] = [("C14", "cycle_events:1405"), ("C14", "cycle_events:1406")]
#  C12 "a station answers status requests addressed to it": a panicking poll answers nothing (C05's panic rule in the fdl domain).
PROPS["C12"]["also"] = [("C05", "panic")]
#  C15 "the token is passed once ... the hold time is over" is the hold rule monitored as C13's low_prio_after_hold_time /
#      second_cycle_after_hold_time (theorem C13_hold_rule).
PROPS["C15"]["also"] = [("C13", "low_prio_after_hold_time"), ("C13", "second_cycle_after_hold_time")]
#  C10 is anchored in src/phy/mod.rs too: the receive helpers must drop exactly the decoder's reported length
#      (C16's reassembly oracles in the phyrx domain).
PROPS["C10"]["domains"] = list(PROPS["C10"]["domains"]) + ["phyrx"]
PROPS["C10"]["also"] = [("C16", "reassembly"), ("C16", "is_last"), ("C16", "sim_reassembly")]

# ---- DP layer: oracle soundness (coq/Proofs/DpOracleSound.v) and the C07 bridge to the DP master (coq/Proofs/C07Bridge.v).
#      Only the DP entries are adjusted: what is now proved, which hypotheses remain.
_ORACLE_SOUND_HYP = (
    'for every configuration with cf_autotake, DpOracle.conf_sane, DpOracle.conf_within_limits, max_retry_limit >= 1, own address 0..126 and '
    'pre-placed peripherals in distinct storage slots (conf_ok), every input list - the three FdlApplication callbacks, a request dropped by the '
    'FDL, request_diagnostics(), pi_q writes, enter_state(), take_last_events(), add() DURING the history, environment steps - whose model '
    'transcript (model_run = DpRun.run_in + auto_take + observe from DpRun.init_sys, up to a model panic) passes DpOracle.contract_ok and the '
    "driver's guards driver_ok (no ill-formed input; add(k) only for a peripheral not yet in the master and only between requests, as the "
    'harness does)')
_ORACLE_SOUND_RA = (
    'RESET_ADDRESS (added after phase 1: input InResetAddr, the driver now runs the wrapper DpOracle.{m}_monitor_ra that follows the station '
    'address in force): {P}_oracle_sound_ra proves the wrapper accepts every model transcript WITH reset_address calls - any number, to the '
    'same or to another address, also for a peripheral added during the history - under the same hypotheses plus DpOracle.ra_sane (every '
    "intermediate address assignment duplicate-free: run_dp.ml's test before it runs the monitors) and reset_guard: the new address is a "
    'station address 0..125 and no reply of that peripheral is outstanding at the call, i.e. outside the known class F22 '
    '({P}_oracle_reset_guard: DpOracle.known_reset_while_pending = false and the address range imply reset_guard). The invariants are '
    'stated for the configuration in force, handles are compared by slot index (the address in a handle is stale after the call). '
    '{P}_oracle_sound (wrapper) and {P}_oracle_sound_plain (phase-1 monitor) are the corollaries for histories without reset_address; '
    '{P}_oracle_ra_agrees: on transcripts without a reset_address step the wrapper IS the phase-1 monitor. Non-vacuity: '
    '{P}_oracle_sound_ra_hypotheses (computed 21-step history, four reset_address calls: same address, changed address after a time-out, '
    'a peripheral just added, back to the first address).')
for _pid, _what in (("C03", "bring-up order / request contents"), ("C04", "process image"), ("C08", "frame count bit / retry"),
                    ("C14", "cycle / event accounting")):
    _m = _pid.lower()
    PROPS[_pid]["level_text"] += (
        f' ORACLE SOUNDNESS ({_pid}_oracle_sound, proofs in coq/Proofs/DpOracleSound.v): the executable {_what} monitor DpOracle.{_m}_monitor '
        f'that ocaml/run_dp.ml runs on the implementation transcripts ACCEPTS EVERY TRANSCRIPT OF THE MODEL: {_ORACLE_SOUND_HYP}, '
        f'{_m}_monitor returns None. Any peripheral set and storage layout, global control, time-outs, dropped requests, every reply telegram. '
        f'Proof: a simulation between the oracle state and the ghost state of the proved monitors (DpHistory.Inv per slot, the slots visited by '
        f'one slot-loop call, the turn bookkeeping), step by step over the transcript. So a failure code of this monitor on a transcript of the '
        f'real crate that agrees with the model (0 divergences) is not a false alarm of the monitor. Non-vacuity: {_pid}_oracle_sound_hypotheses '
        f'(computed 22-step history with add() during the run, Online, Offline, two completed cycles). No oracle bug was found. '
        + _ORACLE_SOUND_RA.format(m=_m, P=_pid))
    PROPS[_pid]["technique"] += (' + machine-checked soundness of the executable monitor on the model (simulation oracle state <-> ghost '
                                 'monitor state, induction over the transcript)')
for _pid in ("C03", "C08"):
    _old = PROPS[_pid]["partial_gap"]
    _cut = _old.index("Not proved in Coq: that the executable oracle")
    PROPS[_pid]["partial_gap"] = _old[:_cut] + (
        f'The executable oracle DpOracle.{_pid.lower()}_monitor is now PROVED to accept every model transcript ({_pid}_oracle_sound, including '
        'add() between requests during the history; with reset_address calls outside F22: ' + _pid + '_oracle_sound_ra); what remains outside: '
        'add() while a reply is outstanding (not generated; it re-routes the '
        'reply), max_retry_limit = 0 (rejected by ParametersBuilder), reset_address while the reply of that peripheral is outstanding (known '
        'finding F22: the monitors are not judged on that class) or to an address above 125 (not generated), and transcripts taken without '
        'take_last_events() after every callback (the monitors are not run on those).')
    _ra_old = ('histories containing it are covered by the correspondence check (model p_reset_address / dp_reset_address, harness op RA) and the '
               'executable monitors DpOracle.c03_monitor_ra / c04_monitor_ra / c08_monitor_ra / c14_monitor_ra only (phase back to NeedDiag, next '
               'request FCV=0/FCB=1, life-cycle Off without event)')
    assert _ra_old in PROPS[_pid]["partial_gap"]
    PROPS[_pid]["partial_gap"] = PROPS[_pid]["partial_gap"].replace(
        _ra_old,
        'histories containing it are covered by the correspondence check (model p_reset_address / dp_reset_address, harness op RA) and by the '
        'executable monitors DpOracle.c03_monitor_ra / c04_monitor_ra / c08_monitor_ra / c14_monitor_ra (phase back to NeedDiag, next request '
        'FCV=0/FCB=1, life-cycle Off without event), and these monitors are PROVED to accept every model transcript with reset_address calls '
        'outside F22 (C03/C04/C08/C14_oracle_sound_ra: new address 0..125, no reply of that peripheral outstanding at the call)')
PROPS["C04"]["partial_gap"] = PROPS["C04"]["partial_gap"].replace(
    'add() during a history is not covered (fixed peripheral set)',
    'add() during a history is not covered by the phase-2 history theorems (fixed peripheral set) but IS covered by C04_oracle_sound (add() '
    'between requests)')
PROPS["C14"]["partial_gap"] = PROPS["C14"]["partial_gap"].replace(
    'add() during a history is not covered (the peripheral set is fixed; the executable monitor marks such cycles and does not judge them either).',
    'add() during a history is not covered by the history theorems (the peripheral set is fixed); C14_oracle_sound covers it (add() between '
    'requests: the executable monitor marks such cycles dirty and does not judge their turn order, which the proof follows).')
for _pid in ("C04", "C14"):
    PROPS[_pid]["partial_gap"] += (
        ' Peripheral::reset_address (added after phase 1) is not an operation of the history theorems; the executable monitor the driver runs '
        f'(DpOracle.{_pid.lower()}_monitor_ra) is proved to accept every model transcript with reset_address calls outside F22 '
        f'({_pid}_oracle_sound_ra: new address 0..125, no reply of that peripheral outstanding at the call); reset_address while that reply is '
        'outstanding is known finding F22 (the monitors are not judged on that class), a new address above 125 is not generated and not covered.')
PROPS["C07"]["level_text"] += (
    ' BRIDGE TO THE DP MASTER (phase 3, proofs in coq/Proofs/C07Bridge.v): master_visit = one token visit of the fault-free bus with the DpMaster '
    'model and n >= 1 reference slaves (dp_transmit; a Global_Control broadcast is seen by every device; a request by the device with the '
    'destination address, its answer - if it decodes completely and passes the FDL admission rule - goes to dp_receive_reply, otherwise '
    'dp_handle_timeout), master_run = any schedule of visits, counting the visits that report cycle_completed. C07_master_runs_joint_system: '
    'after every run with K completed master cycles the peripheral of every slot and its device are exactly where n cycles of the '
    'single-peripheral joint system take the pair (device up to the recorded Global_Control command), n >= K from a cycle boundary and '
    'n + 1 >= K from inside a cycle: the transmit_telegram / '
    'receive_reply calls DpMaster makes for one peripheral ARE a run of the joint system, at least one joint cycle per master cycle (each occupied '
    'slot gets its turn in every cycle; a retransmission after a time-out happens at the next visit inside the same cycle). C07_recovery_master '
    '(and _explicit): no pair in the F15 class => in every run with at least max_retry + 11 (+ 1 when started inside a cycle) completed MASTER '
    'cycles every peripheral is in '
    'DataExchange with its device in Data_Exch, and stays there (the statement holds for every longer run). Any number of slots / storage '
    'layout / visit times, distinct addresses. C07_bridge_step: the invariant step for every token visit. Non-vacuity: '
    'C07_recovery_master_witness (two peripherals, 40 visits, 13 cycles, global control interleaved).')
PROPS["C07"]["technique"] += ' + invariant proof that the DP master model runs the joint system per slot (ghost log of the slot loop: one turn per slot and cycle)'
PROPS["C07"]["partial_gap"] = PROPS["C07"]["partial_gap"].replace(
    '(a) the joint system has ONE peripheral driven at the Peripheral level; the composition with DpMaster slot iteration / global-control '
    'telegrams for several peripherals is not part of C07_recovery (C14 covers the cycle structure; the monitor checks the multi-peripheral case '
    'on implementation transcripts).',
    '(a) C07_recovery itself is about ONE peripheral at the Peripheral level; the composition with the DpMaster slot iteration and global '
    'control for any number of peripherals is now proved (C07_master_runs_joint_system, C07_recovery_master), from any cycle position of the '
    'master with no request outstanding (max_retry + 11 master cycles from a cycle boundary, one more from inside a cycle), with one device per '
    'peripheral address and distinct addresses; the run is assumed not to reach a panic site (Ok): panic freedom is C05.')
assert "composition with DpMaster slot iteration" not in PROPS["C07"]["partial_gap"]
assert "is not covered (fixed peripheral set)" not in PROPS["C04"]["partial_gap"]
assert "does not judge them either" not in PROPS["C14"]["partial_gap"]
#  C02 "whenever the set of online stations stops changing ... every station's list equals the set of online stations": the
#      bus driver tags the window after the last disturbance (station stop / restart / corruption) C06; agreement of ring and
#      ring views with the final population there is C02's claim too.  A panicking poll never passes the token on (C13).
PROPS["C02"]["also"] = [("C06", "views"), ("C06", "rotation")]
PROPS["C13"]["also"] = list(PROPS["C13"].get("also", [])) + [("C05", "panic")]
#  C13 "no application ... is starved": the DP master must use the one message cycle the FDL grants it after the hold time
#      (HighPrioOnly::Yes) for its peripherals; monitored in the dp domain as C14's turn_skipped_on_high_prio.
PROPS["C13"]["domains"] = list(PROPS["C13"]["domains"]) + ["dp"]
PROPS["C13"]["also"] = list(PROPS["C13"].get("also", [])) + [("C14", "turn_skipped_on_high_prio")]

# ---- ORACLE SOUNDNESS of the FDL monitors (agent fdlx; Proofs/FdlOracleSound1..11.v, FdlOracleSoundAll.v) --------------------------------
# "The executable monitors of Model/FdlOracle.v that run on the implementation's transcripts never reject a transcript
#  of the MODEL."  Texts only: what is proved per property, and which rules are NOT yet covered.
_FDL_OS = ('ORACLE SOUNDNESS (Proofs/FdlOracleSound*.v): model_transcript = the event list the driver would build from a run of the model '
           '(A new, then any API calls and polls; harness PHY buffer; views computed from the model state); hypotheses: builder-valid '
           'parameters, any number of total applications, poll times in range and strictly increasing, received bytes are bytes. ')
PROPS["C01"]["level_note"] += (' ' + _FDL_OS + 'C01_oracle_sound: no rule of C01 of FdlOracle.monitor (tx_while_busy, sync_pause, who_may_transmit, '
    'check_pass_before_slot, claim_before_timeout) is reported on a model transcript, for ALL input histories - including the corner O9 (state Offline '
    'with last_bus_activity recorded after the self-re-creation on the second address collision with further telegrams in the buffer: two stations with '
    'one address, outside the class of C01). The rules were adapted to follow the code there (an offline station observes nothing; the claim reference '
    'is re-based at the self-offline poll); C01_oracle_corner_accepted is a computed transcript of the corner that the monitor accepts; 12000 fuzzed '
    'model histories x 800 polls (arbitrary bytes, busy flags, on/off) give no report of any rule.')
PROPS["C01"]["partial_gap"] += (' Oracle soundness: the promptness monitor Model/FdlPrompt.v (P01_sync_pause_exceeded) is NOT covered.')
PROPS["C05"]["level_note"] += (' ' + _FDL_OS + 'C05_oracle_sound: neither R05_panic nor R05_timeout is reported, for ALL input histories (set_passive ends '
    'the transcript with the excused panic).')
PROPS["C06"]["level_note"] += (' ' + _FDL_OS + 'C06_oracle_sound_partial: R06_no_claim_after_timeout is never reported on a model transcript (all input '
    'histories, the O9 corner of C01 included).')
PROPS["C06"]["level_note"] += (' C06_oracle_sound (FdlOracleSound8, FdlOracleSoundAll): no rule of C06 at all - also R06_no_backoff, the executable form of C06_backoff - is '
    'reported on a model transcript (all input histories, app_sends_data).')
PROPS["C13"]["level_note"] += (' ' + _FDL_OS + 'C13_oracle_sound: no rule of C13 (low_prio_after_hold_time in both forms, second_cycle_after_hold_time, '
    'high_prio_inside_hold_time) is reported, for ALL input histories and applications that hand data telegrams to the PHY (app_sends_data). The proof '
    'found one false alarm, repaired in the monitor: after the self-re-creation (second address collision) last_token_time is 0 again, the monitor '
    'kept the old token times (high_prio_inside_hold_time on the unchanged crate; reproduction in Properties/C13.v).')
PROPS["C15"]["level_note"] += (' ' + _FDL_OS + 'C15_oracle_sound_partial: of the rules of C15 only R15_no_reply_no_timeout can be reported on a model '
    'transcript (all input histories, app_sends_data); the executable round-robin acceptor and the pass-to-self detection from the transmitted token '
    'agree with the Coq acceptors (witnessing the own pass keeps NS: FdlOracleSound4.witness_own_pass_ns).')
PROPS["C15"]["partial_gap"] += ' Oracle soundness: the liveness rule R15_no_reply_no_timeout is NOT yet covered.'
PROPS["C11"]["level_note"] += (' ' + _FDL_OS + 'C11_oracle_sound_partial: of the rules of C11 only the liveness rule supervision_never_ends can be '
    'reported on a model transcript (all input histories, app_sends_data): accept_while_listening, accept_without_token, accept_from_stranger, '
    'offer_changes_ring_view, retry_too_early, too_many_retries, removed_too_early, heard_but_supervising never fire. Uses that the slot time covers '
    'the synchronisation pause for builder-valid parameters (a retry is never deferred to a later poll) and that the telegrams the monitor sees '
    'delivered are those the receive loops hand to handle_telegram.')
PROPS["C11"]["partial_gap"] += ' Oracle soundness: the liveness rule supervision_never_ends is NOT yet covered.'
PROPS["C12"]["level_note"] += (' ' + _FDL_OS + 'C12_oracle_sound_partial: the rules gap_poll_outside_gap, two_gap_polls_per_visit, found_not_successor, '
    'found_not_next_token, successor_changed_without_ready_reply are never reported on a model transcript (all input histories, app_sends_data); '
    'C12_oracle_sound_partial_req: for applications that transmit request telegrams (app_sends_requests) also reply_without_request, reply_untruthful, '
    'reply_from_wrong_state are never reported - only sweep_bound, post_claim_scan_incomplete and gap_wait_never_ends remain.')
PROPS["C12"]["partial_gap"] += (' Oracle soundness: the rules sweep_bound, post_claim_scan_incomplete and the liveness rule gap_wait_never_ends are NOT yet '
    'covered; the reply rules are covered only for applications that send request telegrams (a response telegram with the own source address from an '
    'application would be taken for a status reply).')

# ---- C15 oracle soundness complete; C13 extraction of visits (agent fc; Proofs/C15Liveness.v, Proofs/C13Visits.v) ---------------------------
PROPS["C15"]["level_note"] += (' C15_oracle_sound (Proofs/C15Liveness.v), FULL: NO rule of C15 is reported on a model transcript, for ALL input '
    'histories (total applications, builder-valid parameters, app_sends_data) - the liveness rule R15_no_reply_no_timeout included. The proof keeps, '
    'while the station waits for a data reply, the relation WA between the second monitor and the station: last_bus_activity = Some l with l <= l_ref '
    '(on entry both are the predicted end of the request; l moves to `now` only in polls in which the monitor sees something happen: PHY busy, RX growth, '
    'bytes the station had not counted yet - l_spur), l_txend <= l (so the monitor\'s "the poll looks at the receive buffer" coincides with '
    'check_for_ongoing_transmision), pending_bytes covers the PHY buffer unless l_spur is set. A poll in AwaitDataResponse that is quiet for the monitor '
    'then takes the `None` branch of do_await_data_response with l unchanged, check_slot_expired compares exactly l + Tslot < now, and since '
    'l_ref + Tslot < now the time-out callback is made (adr_poll: the exact bookkeeping of a poll that begins in AwaitDataResponse).')
PROPS["C15"]["partial_gap"] += (' UPDATE: the liveness rule R15_no_reply_no_timeout is now covered (C15_oracle_sound, full); no rule of C15 of the '
    'executable monitors is open.')
PROPS["C13"]["level_note"] += (' EXTRACTION OF VISITS (Proofs/C13Visits.v): visits_of reads the token visits of one station off a `run` history '
    '(previous token time, token time, deadline, rounds (time, high_prio_only), release). C13_station_visits_ok: for every newly created model '
    'station, any applications, any events with strictly increasing poll times, EVERY extracted visit satisfies sv_ok = previous token time < token '
    'time, every round after the arrival and exactly hold_ok, one deadline per visit <= previous token time + TTR (deadline_ok), arrival <= rounds <= '
    'release. C13_visits_linked: the visit after a completed visit has that visit\'s token time as previous token time (0 after a re-creation of the '
    'station). C13_rotation_bound_stations: for N MODEL stations (station_history: any applications, any events) the rotation bound TTR + N (C + O) '
    'follows from RING hypotheses only - the order of the visits (visit ix v of station st v, completed; N visits later the same station\'s next visit; '
    'no station re-created), and timing_ok C O (message cycle within C, token arrival within O of the release); hold_ok, deadline_ok and the '
    'previous-arrival link are no longer hypotheses. Explicit core of C, one step from all states: C13_request_starts_wait (the request poll sets '
    'last_bus_activity = now + 11 bit * |request|) and C13_reply_wait_expires (on a silent bus the first poll later than last_bus_activity + Tslot '
    'calls handle_timeout), i.e. a cycle without reply ends within 11 bit * |request| + Tslot + poll period.')
PROPS["C13"]["partial_gap"] += (' UPDATE (C13Visits.v): the extraction of `visit` records from station histories IS now formalised and the '
    'per-station hypotheses of the rotation bound are discharged (C13_station_visits_ok, C13_visits_linked, C13_rotation_bound_stations). STILL NOT '
    'proved: that N model stations composed on a shared medium produce histories with the assumed ring order (stable ring, no re-creation) and the '
    'timing bounds timing_ok C O; C and O are not derived in closed form for a ring (only the silent-bus time-out step of C is: '
    'C13_reply_wait_expires) - a reply and its reception, synchronisation pauses, poll latency, GAP poll and token hand-over depend on the other '
    'stations and the medium.')
# ---- agent fa, follow-up: C06_lost_token_recovers_alone from every state (coq/Proofs/C06Recover.v) ----
PROPS["C06"]["level_text"] = PROPS["C06"]["level_text"].replace(
    'Retry and removal of a silent successor are C11_retry_discipline.',
    'C06_lost_token_recovers_alone (FULL single-station recovery, Proofs/C06Recover.v): a lone online station on a silent bus (receive buffer empty in '
    'every poll, PHY busy at most while the station itself predicts the end of its own transmission), from EVERY state satisfying the representation '
    'invariant Rep of C05 - PassToken / CheckTokenPass with a stale ring view, AwaitStatusResponse, AwaitDataResponse, UseToken, ClaimToken, a status '
    'request pending, any total applications - under ANY poll schedule with gaps <= P: no poll panics and the station is in a token-holding state '
    '(it has claimed or kept the token) after some poll at or before recover_bound = max(t1, L + Tw + P) + k * (Ttx + Tw + P), where t1 is the first '
    'poll, L the last recorded bus activity, and for the idle states Tw = token-lost time-out of TS, Ttx = 6-byte telegram, k <= 2; for the other '
    'states Tw = Tslot, Ttx = token telegram, k <= 3 * (LAS entries other than TS) + 5 <= 3 * 128 + 5 (three passes per stale entry, the removal with '
    'the third expiry; ranking over (stale entries, attempt); between two progress polls the station provably only waits). '
    'C06_lost_token_recovers_alone_by / C06_recover_bound_explicit / C06_recover_example give the "schedule long enough" form, a closed form and a '
    'computed instance. Retry and removal of a silent successor are C11_retry_discipline.')
PROPS["C06"]["partial_gap"] = PROPS["C06"]["partial_gap"].replace(
    ' Also open in the single-station half: C06_lost_token_recovers_alone for the states PassToken / CheckTokenPass (working off a stale ring view: each '
    'step is described by C11_retry_discipline, the bound over the whole LAS is missing) and with a status request pending.',
    ' The single-station half is complete: C06_lost_token_recovers_alone covers every Rep state; its only side condition is that a station that has '
    'recorded no bus activity at all is in state Offline (true of every reachable state: invariant ti_some of Proofs/FdlOracleSound3.v), and "silent" '
    'means an empty receive buffer in every poll (stale bytes in the buffer are garbage / telegrams, covered by the one-step theorems only).')

# ---- agent fa, follow-up: oracle soundness of the C11 liveness rule (coq/Proofs/C11Liveness.v) ----
PROPS["C11"]["level_note"] += (' C11_supervision_liveness_sound (Proofs/C11Liveness.v): the liveness rule supervision_never_ends is never '
    'reported on a model transcript either (all input histories, app_sends_data); with it C11_oracle_sound: NO rule of C11 is reported on a '
    'transcript of the model. The proof keeps an exact account of last_bus_activity / pending_bytes against the monitor (l_ref, l_txend, l_spur) '
    'while the pass is supervised: established by every poll that transmits and ends in CheckTokenPass, kept by every poll that stays there; the '
    "monitor's expiry then implies the model's slot_expired and C11_check_pass_poll forces the retry / removal in that poll.")
PROPS["C11"]["partial_gap"] = PROPS["C11"]["partial_gap"].replace(
    ' Oracle soundness: the liveness rule supervision_never_ends is NOT yet covered.',
    ' Oracle soundness: complete for C11 (C11_oracle_sound), the liveness rule supervision_never_ends included.')
PROPS["C06"]["level_note"] += (' C06_lost_token_recovers_alone uses C05 (no poll panics from a Rep state), FdlOracleSound2.poll_bk (what a poll does to '
    'last_bus_activity) and FdlOracleSound9 (slot time covers the synchronisation pause).')
PROPS["C12"]["level_note"] += (' C12_oracle_sound_sweep / C12_oracle_sound_claim_scan / C12_oracle_sound_safety (Proofs/C12OracleSound.v): also '
    'R12_sweep_bound and R12_post_claim_scan_incomplete are never reported on a model transcript (all input histories, app_sends_data). '
    'R12_sweep_bound is the end-to-end history form of C12_sweep_bound (token visits counted on the transcript, window restarted when NS changes, '
    'on a claim token, on going back to listening / offline); the proof is a simulation between the monitor\'s visit counter / per-address marks and '
    'the model\'s GAP state with visits_until as potential, driven by the whole-poll relation C12_poll_sweep_rel (one GAP step per GAP request and '
    'per token of a visit, none otherwise; for all station states), for NS anywhere in 0..127 and successors changing during a sweep. With '
    'app_sends_requests the only C12 rule that can still be reported on a model transcript is the liveness rule gap_wait_never_ends.')
PROPS["C12"]["partial_gap"] += (' UPDATE: sweep_bound and post_claim_scan_incomplete are now covered (C12_oracle_sound_sweep, '
    'C12_oracle_sound_claim_scan; 30 theorems in coq/Properties/C12.v); of the oracle-soundness chain only the liveness rule gap_wait_never_ends '
    'remains open (needs exact tracking of pending_bytes / last_bus_activity against the monitor\'s l_ref / l_spur).')
PROPS["C12"]["level_note"] += (' C12_oracle_sound_gap_wait / C12_oracle_sound (Proofs/C12OracleSound.v, part 3): the liveness rule '
    'R12_gap_wait_never_ends is never reported on a model transcript either, so with app_sends_requests NO rule of C12 is reported on any model '
    'transcript (C12_oracle_sound: rule_prop r <> PC12). Proof: exact tracking of last_bus_activity / pending_bytes in the states that await a GAP '
    'reply (await_poll_exact: a poll that stays in such a state either stops at the ongoing-transmission check or looks at the buffer with the slot '
    'timer not run out; entry_plb: every entry is a transmission that leaves pending_bytes >= bytes buffered) and the simulation LW '
    '(last_bus_activity <= l_ref, l_txend <= last_bus_activity, pending_bytes = buffer length unless l_spur).')
PROPS["C12"]["partial_gap"] += (' UPDATE 2: gap_wait_never_ends is covered too (C12_oracle_sound_gap_wait, C12_oracle_sound; 32 theorems): the '
    'oracle-soundness chain of C12 is closed for model transcripts under apps_total, builder_valid, app_sends_data, app_sends_requests, ins_ok '
    '(strictly increasing poll times). What remains outside Coq is the usual link model <-> Rust (differential testing) and the hook-based fields '
    'of the view (v_gap_due, v_scan_await).')

# ---- agent fp: oracle soundness of the reaction-time monitor Model/FdlPrompt.v (coq/Proofs/FdlPromptSound1.v, FdlPromptSound2.v) ----
PROPS["C01"]["level_note"] += (' C01_prompt_monitor_sound (Proofs/FdlPromptSound1.v, FdlPromptSound2.v): the reaction-time monitor '
    'Model/FdlPrompt.v (rule P01_reaction_after_slot_time: in PassToken, UseToken, ClaimToken outside ScanAwaitResponse, ListenToken / ActiveIdle '
    'with a pending status request, on a quiet bus, the station must have acted by the first poll at or after reference + Tslot - 11 bit) is never '
    'triggered by the model: pmonitor p (pmodel_transcript A ops p apps ins) = [] for ALL parameters (pmonitor monitors what builder_validb accepts), '
    'any total applications, ALL input histories with strictly increasing poll times (API calls, busy flags, arbitrary received bytes; corner O9 '
    'included) - no exclusion. pmodel_transcript = the (event, flag) list ocaml/run_fdl.ml hands to pmonitor: the events of model_transcript '
    '(C01_prompt_transcript_events) with the per-event flag "a status request waits for its reply" as a function of the model state after the event '
    '(the driver reads it from the hook fingerprint). Also as inductive-step theorems from ANY station / monitor pair satisfying the explicit invariant '
    'FdlPromptSound2.PB (C01_prompt_monitor_step: one poll is accepted and keeps PB; C01_prompt_monitor_api; C01_prompt_invariant_init; '
    'C01_prompt_monitor_from: every continuation is accepted). Proof: simulation (q_ref >= last_bus_activity, q_txend agrees with it about an ongoing '
    'transmission, pending_bytes covers the buffer unless q_spur, in every state but Offline / ListenToken without request); model lemmas: a step that '
    'consumes nothing never marks bus activity (dispatch_nm, all do_* functions), a gated state whose synchronisation pause is over transmits, changes '
    'state or ends the GAP polling phase in that poll (gated_acts), 33 bit + 11 bit < Tslot for builder-valid parameters. Non-vacuity: '
    'C01_prompt_example (computed model history through the gated state ClaimToken with polls inside the synchronisation pause, accepted) and '
    'C01_prompt_monitor_rejects_stuck_station (a hand-made transcript of a station stuck in PassToken is reported).')
PROPS["C01"]["partial_gap"] = PROPS["C01"]["partial_gap"].replace(
    ' Oracle soundness: the promptness monitor Model/FdlPrompt.v (P01_sync_pause_exceeded) is NOT covered.',
    ' Oracle soundness: complete for the single-station monitors of C01, the reaction-time monitor Model/FdlPrompt.v included '
    '(C01_prompt_monitor_sound; hypotheses: total applications, strictly increasing poll times in range). Outside Coq remain the link model <-> Rust '
    '(differential testing) and the hook-based inputs of the monitor (state name, GAP phase, ScanAwaitResponse, pending status request read from the '
    'fingerprint).')
# ---- agent fr: ring-view monitor of C11 (coq/Model/FdlRing.v) and its soundness (coq/Proofs/FdlRingSound.v) ----
PROPS["C11"]["level_note"] += (' Ring-view monitor (coq/Model/FdlRing.v: rmonitor / ring_poll, rule P11_removal_passes_to_next, run by '
    "ocaml/run_fdl.ml on the implementation's transcripts next to FdlOracle.monitor): in a poll that starts in CheckTokenPass, consumes nothing and "
    'transmits a token of the station whose destination is not the previous NS, the destination must be the cyclic successor of the station in the '
    'previous list of active stations without that NS (the station itself when nobody is left) - WHERE the token goes after the removal of the '
    'silent successor, which the rules of FdlOracle.v (WHEN it may be removed) do not check. Its soundness is proved (Proofs/FdlRingSound.v): '
    'C11_ring_monitor_step_sound - one step, ALL station states / times / inputs / applications with only r_ts (f_ring f) = ts f (a conjunct of '
    'Rep; C11_ring_monitor_step_sound_rep states it under Rep): whenever a poll of the model returns, ring_poll (ts f) (view_of f) (poll_event ...) = [] '
    '(heart: clearing a LAS bit filters the ascending list of active stations - for every length of the bit list - and the NS that remove_station '
    'computes is next_of over that list, literally the monitor\'s next_after_removal; a poll in CheckTokenPass transmits only when the slot timer '
    'has run out, to the NS after the removal on the third attempt and to the unchanged NS before); C11_ring_monitor_sound - rmonitor p '
    '(model_transcript A ops p apps ins) = [] for ALL parameters (the monitor only runs for builder-valid ones), total applications and all '
    'admissible input histories (ins_ok; neither builder_valid nor app_sends_data is a hypothesis), by induction over the transcript with Rep as '
    'invariant; C11_ring_monitor_example (computed): station 7 with ring view {2, 7, 15} in CheckTokenPass(Third) removes 15 and transmits the token '
    '7 -> 2, which the rule accepts, while it rejects the same event with 7 -> 7 (remove_station without the wrap-around).')
PROPS["C11"]["partial_gap"] += (' Ring-view monitor P11_removal_passes_to_next: sound on model transcripts without exclusions '
    '(C11_ring_monitor_sound).')
# ---- agent nb: the COMPOSED N-station model (coq/Model/Multi.v, coq/Proofs/MultiProofs.v; statements in coq/Properties/BusLevel.v) ------
# Texts only.  What is proved: every STATION-LOCAL guarantee carries over to every station of N model stations composed on an
# arbitrary medium under an arbitrary schedule.  What is not: the global halves (token uniqueness, no overlap, rotation order / time).
_NB = ('COMPOSED N-STATION MODEL (Model/Multi.v, Proofs/MultiProofs.v, theorems in Properties/BusLevel.v): multi_run = N copies of Fdl.poll '
       '(any N, own parameters and any number of applications each) on a shared medium M under a schedule (list of (station, set_online | '
       'set_offline | poll at time t)); M is an ARBITRARY function history of all polls -> station -> time -> (new receive bytes, transmitter '
       'busy), universally quantified in every theorem (lossy, corrupting, delaying, inventing media included; medium_bytes M: it delivers '
       'octets); ideal_medium (byte timing of harness/src/bus.rs) is one instance, with a computed two-station run that exchanges the token '
       '(Multi.ex2_token_exchange). Multi_station_transcripts (NO hypotheses): the transcript of station i of the composed system IS the '
       'single-station model_transcript of the i-th configured station under the inputs the medium gave it, and every poll record is a poll '
       'of the single-station model; Multi_station_inputs_ok: these inputs satisfy ins_ok when per station the poll times are > 0, < 2^62 and '
       'strictly increasing (sched_ok; no relation between the clocks of different stations). ')
PROPS["C01"]["level_note"] += (' ' + _NB + 'Hence for C01: Multi_monitors_c01_c05 / Multi_monitors_silent - no rule of C01 (and, with '
    'app_sends_data / app_sends_requests, no rule of the FDL monitors at all) is reported on ANY station of the composed system, for every N, '
    'medium and schedule; C01_multi_sync_pause (no hypotheses): a station of the composed system hands bytes to its PHY only in a poll in which '
    'the medium reported its transmitter idle and its last_bus_activity is more than 33 bit times old; C01_multi_who_may_transmit: and it is '
    'then entitled in its own view (may_transmit, the disjunction of C01_who_may_transmit, with its configured parameters).')
PROPS["C01"]["partial_gap"] += (' UPDATE (composed model): the station-local obligations are now theorems about every station of the composed '
    'N-station model on an arbitrary medium (C01_multi_sync_pause, C01_multi_who_may_transmit, Multi_monitors_c01_c05). STILL NOT proved: the '
    'GLOBAL half - that the stations\' own views agree (at most one token holder), hence that no two transmissions overlap on the medium; that '
    'needs assumptions on the medium (it is false for a medium that loses a token telegram) and the discharge of the timing hypotheses of '
    'C01_compose (hand-over, reply-in-slot and claim races against poll jitter); it remains a TEST (bus-level monitors on N real stations).')
PROPS["C05"]["level_note"] += (' ' + _NB + 'Hence for C05: C05_multi_never_panics (Properties/BusLevel.v) - for every medium that delivers '
    'octets, every number of stations with builder-valid parameters and total applications, every schedule with poll times in [0, 2^62) (not even '
    'monotone): the composed system can be created and the run returns Ok - no station reaches a panic site or exhausts a loop bound - and every '
    'station satisfies Rep afterwards; Multi_monitors_c01_c05: R05_panic / R05_timeout are never reported on a station of the composed system.')
PROPS["C05"]["partial_gap"] += ('; the composed N-station statement (C05_multi_never_panics) is for abstract total applications (apps_total), '
    'not re-done for the contract-based real application models')
PROPS["C06"]["level_note"] += (' ' + _NB + 'Hence for C06: Multi_monitors_c01_c06_c13 - no rule of C06 (no_claim_after_timeout, no_backoff) is '
    'reported on any station of the composed system (app_sends_data); C06_multi_claim_needs_silence: a station of the composed system enters '
    'ClaimToken only after its own time-out (6 + 2 TS) Tslot of recorded silence and with no new receive bytes in that poll; C06_multi_backoff '
    '(no hypotheses): a station waiting for an answer that finds any other complete telegram (e.g. another station\'s token) gives the token up in '
    'that poll.')
PROPS["C06"]["partial_gap"] += (' UPDATE (composed model): the station-local recovery mechanisms are theorems about every station of the composed '
    'N-station model on an arbitrary medium (C06_multi_claim_needs_silence, C06_multi_backoff, Multi_monitors_c01_c06_c13). STILL NOT proved: '
    'the property proper - that N composed stations re-establish ONE circulating token within a bound after a fault plan (needs a medium that '
    'eventually delivers, and the global argument that the staggered time-outs elect exactly one claimant; the lock-step class F21 shows it is '
    'false without schedule assumptions).')
PROPS["C13"]["level_note"] += (' ' + _NB + 'Hence for C13: C13_multi_hold_rule (no hypotheses): every poll of every station of the composed '
    'system obeys the hold rule of C13_hold_rule_poll; C13_multi_station_history: the history of every station of a composed run is a '
    'station_history - the per-station hypothesis of C13_rotation_bound_stations is DISCHARGED by the composed model; C13_multi_visits_ok: every '
    'token visit of every station satisfies sv_ok (rounds before the deadline or the single high-priority round after it, one deadline per visit '
    '<= previous token time + TTR) and consecutive visits are linked; Multi_monitors_c01_c06_c13: no rule of C13 is reported on any station.')
PROPS["C13"]["partial_gap"] += (' UPDATE (composed model): that N model stations composed on a shared medium produce station histories '
    '(station_history, sv_ok per visit, linked visits) IS now proved for every medium and schedule (C13_multi_station_history, '
    'C13_multi_visits_ok). STILL NOT proved: the RING hypotheses of C13_rotation_bound_stations for the composed system - the order of the visits '
    '(stable ring, one holder at a time) and timing_ok C O - which need a well-behaved medium and a poll-period bound; the rotation bound for '
    'the composed system therefore remains conditional.')
# agent nb, stretch (coq/Proofs/MultiHandover.v): one GLOBAL step on the concrete medium
PROPS["C01"]["level_note"] += (' GLOBAL STEP on the concrete medium (Proofs/MultiHandover.v): Multi_ideal_delivers_rest (what ideal_medium hands to a '
    'station when the last transmission on the medium is complete and everything earlier was delivered) and Multi_handover_step_partial: in a '
    'composed system of any size on ideal_medium, when station ia has transmitted the token telegram to ib and supervises its pass '
    '(CheckTokenPass, not a holder in its own view) and ib idles in the ring with ia as predecessor (the already arrived bytes of the telegram '
    'in its buffer, other stations polling but nobody transmitting), the poll of ib at a time at which the telegram is complete returns, '
    'transmits nothing and makes ib the token holder in its own view, ia unchanged: exactly one of the two holds the token after the step. '
    'Multi_handover_hypotheses_satisfiable: the computed two-station run is in such a state after 163 polls.')
PROPS["C01"]["partial_gap"] += (' Multi_handover_step_partial is ONE global step (labelled _partial), not an invariant: token uniqueness over all '
    'reachable states of the composed system is not proved (missing: an inductive invariant tying all stations\' views to the medium\'s history '
    'through claims, GAP polls, retries and removals - a receiver still in CheckTokenPass, as in a two-station ring, is not covered by the lemma -, '
    'under a loss-free medium, a poll period small against Tslot and distinct addresses).')
PROPS["C05"].setdefault("coq_extra", []); PROPS["C05"]["coq_extra"] += ["Properties/BusLevel.v"] if "Properties/BusLevel.v" not in PROPS["C05"]["coq_extra"] else []

# ---- round-5 seeds ----
#  C03 "the PERIPHERAL answered a diagnostics request, acknowledged Set_Prm / Chk_Cfg": the DP master only compares the
#      address it awaits; that the delivered reply really comes from that station is the FDL admission filter
#      (do_await_data_response), monitored as C15's reply_invalid in the fdl domain (theorem C15_delivered_reply_shape).
#      Seeded R5-C03-2 drops the source check there: an absent peripheral is brought up by a stranger's replies.
PROPS["C03"]["domains"] = list(PROPS["C03"]["domains"]) + ["fdl"]
PROPS["C03"]["also"] = list(PROPS["C03"].get("also", [])) + [("C15", "reply_invalid")]
# agent fs (coq/Proofs/FdlSweepSound.v): soundness of the sweep-order / restart monitor Model/FdlSweep.v on model transcripts.  Texts only.
PROPS["C12"]["level_note"] += (' SWEEP-ORDER / RESTART MONITOR (Model/FdlSweep.v: smonitor, rules P12_sweep_order - two consecutive own GAP requests of '
    'one uninterrupted polling phase go to consecutive addresses below HSA - and P12_offline_forgets_ring - the view right after set_offline / new '
    'is that of a fresh station; run on every crate transcript). Soundness on the MODEL, UNCONDITIONAL (Proofs/FdlSweepSound.v): '
    'C12_sweep_monitor_step_sound - from every station state with Rep and sweep_inv (k0 = state kind, last = Some a -> GAP cursor = DoPoll a and not '
    'Offline), every time in range, input and total applications, a returning poll yields no rule and re-establishes Rep and sweep_inv (proof: '
    'C12_poll_sweep_rel + C12_poll_transmissions + C12_gap_state_frame; a transmission the monitor reads as an own GAP request is the request of '
    'exactly one gap_visit_step, so its address is gap_succ HSA cursor; any other poll keeps a polling cursor, ends the phase, is the claim '
    '(claim_tx) or re-creates the station (ends Offline: the monitor forgets `last`)); C12_offline_view_is_fresh (set_offline = new, its view is '
    'fresh_view); C12_sweep_monitor_sound: smonitor is silent on EVERY model transcript (apps_total, ins_ok; neither builder_valid nor app_sends_data '
    'needed). The proof found a false positive of the first version of the monitor (station re-created INSIDE a poll by the second address collision '
    'while listening, `last` stale; reproduced on the unmodified crate with 0 divergences, witness corpus/fdl/sweep-recreated-in-poll.cases); the monitor '
    'was repaired (a poll that ends Offline forgets `last`) and C12_sweep_monitor_recreated_in_poll is the model transcript of that history, accepted. '
    'C12_sweep_monitor_example_accepted (a lone station polls 4,0,1,2 in consecutive visits, twice; accepted) and _rejected (same address twice / an '
    'address skipped -> P12_sweep_order; valid LAS after set_offline -> P12_offline_forgets_ring) show the rules are not vacuous.')
PROPS["C12"]["partial_gap"] += (' UPDATE 3 (sweep monitor, 38 theorems/examples in coq/Properties/C12.v): the monitor Model/FdlSweep.v is proved sound on '
    'all model transcripts (C12_sweep_monitor_sound, no exclusion, after the repair of its in-poll re-creation corner). Completeness of the monitor '
    '(that it catches every sweep that moves backwards) is not a theorem; it is exercised by the seeded changes R5-C12-1 / R5-C12-2 and the hand-made '
    'events of C12_sweep_monitor_example_rejected.')
#  C06 "re-admit every station that is still online ... no live station permanently excluded": re-admission works through the
#      GAP polls of the stations in the ring; the single-station obligation behind the recovery bound (a function of HSA and the
#      gap factor) is that every GAP address is polled within the sweep bound, monitored as C12's sweep_bound and sweep_order in
#      the fdl domain.  Seeded R5-C06-1 restarts the sweep at every slave reply: stations above a slave are never polled again.
PROPS["C06"]["also"] = list(PROPS["C06"].get("also", [])) + [("C12", "sweep_bound"), ("C12", "sweep_order")]
# agent gt (coq/Model/ScanTruth.v, coq/Proofs/C18Truth.v): the decision of the ground-truth oracle converges_to_population is a Coq function
# with a soundness theorem.  Texts only.
PROPS["C18"]["level_text"] += (' GROUND-TRUTH ORACLE (converges_to_population): the case line says who is on the bus as a function of time; the decision - '
    'per address 0..125 of the final population other than TS the LAST probe inside the stable window decides (never probed: failure; answered validly: '
    'must be listed; anything else: no demand) and nothing else may be listed, bits 126/127 of the array included - is the Coq function '
    'Model/ScanTruth.v: truth_ok / truth_bad, extracted. Soundness for both models (Proofs/C18Truth.v): C18_ground_truth_sound / _scanner - from ANY state '
    'with the cursor in range, no uncollected event and bits 126/127 clear, any history of at least window + 252 calls whose window is explained by the '
    'population (every probe of an address outside the population or of TS timed out; NOTHING assumed about members: valid, other or no answer): truth_ok '
    'accepts, with the final station set read off the transcript as the driver does (last_bits); C18_ground_truth_sound_env / _env_scanner - the same with '
    'the environment given as functions (h1 ++ h2, every reaction function of h2 silent outside the population). Exact condition found by the proof: bits '
    '126/127 are never touched by the sweep, so they must be clear at the start (true of new()); C18_ground_truth_needs_hi_clear exhibits the run that '
    'refutes the statement without it. C18_ground_truth_example: a model run with a valid member, a member answering with a bare SC and a member never '
    'heard is accepted; the same transcript with the valid member unlisted, a silent address listed, or cut before the members are probed is rejected '
    'with the three reasons.')
PROPS["C18"]["level_note"] += (' The ground-truth RULE is no longer trusted OCaml: it is the extracted Coq function truth_ok with the soundness theorems '
    'C18_ground_truth_sound / _scanner (a converges_to_population failure on a clean case can only come from the crate). What stays OCaml in '
    'ocaml/run_scan.ml: ground_truth: parsing the case line (population after the last change, call of the last change), the clean / two-sweeps '
    'bookkeeping and printing the offending addresses. That the harness environment really is silent outside the population (harness/src/scan.rs) is '
    'the hypothesis `explained` of the theorems, not proved about the Rust harness.')
PROPS["C18"]["level_note"] += (' That hypothesis is evaluated (extracted `explained`) on the crate transcript of every clean checked case; a violation '
    'would be counted as truth:window-not-explained (absent from the distribution = never violated).')
#  C02 "once reached, this agreement is stable (no station is dropped or skipped again while the population is unchanged)":
#      at the level of one station a member of the ring view is only ever dropped by the supervision of a token pass - the
#      SILENT SUCCESSOR after the third unanswered pass, nobody else - which is C11's rule group (too_many_retries,
#      removed_too_early, removal_passes_to_next) in the fdl domain.  Seeded C02-1 (third failed pass removes the PREDECESSOR)
#      re-converges inside the generous bus-level bound and was reported only by ./check C11 until this link.
PROPS["C02"]["domains"] = list(PROPS["C02"]["domains"]) + ["fdl"]
PROPS["C02"]["also"] = list(PROPS["C02"].get("also", [])) + [("C11", "too_many_retries"), ("C11", "removed_too_early"), ("C11", "removal_passes_to_next")]
