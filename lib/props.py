"""Registry of the properties the machinery decides: Coq target, harness domains, evidence rules."""

CODEC_TB = [
    "hand model coq/Model/Telegram.v of src/fdl/telegram.rs (FunctionCode, DataTelegramHeader::serialize, "
    "DataTelegram/TokenTelegram/Telegram::deserialize, TelegramTx), tied by differential execution on this run's cases",
    "Rust u8/usize operators as modelled: wrapping_add = sum mod 256, | & << >> = Z.lor/Z.land/Z.shiftl/Z.shiftr on 0..255",
]

PROPS = {
    "C09": {
        "coq": "Properties/C09.v",
        "domains": ["codec"],
        "nontrivial": ["enc:ok", "fc:valid", "tok", "sc"],
        "rule": "cases = generated ENC/TOK/SC/FC lines (every SAP combination x every PDU length 0..limit+1, every "
                "function code x structural lengths, all 256 FC bytes, oversize and small-buffer inputs), deduplicated; "
                "non-trivial = distinct in-domain encodes (valid header, length byte <= 249, buffer large enough), valid FC bytes, token and SC encodes",
        "trusted_base": CODEC_TB,
        "technique": "Coq proof (round-trip theorems over a Gallina model of telegram.rs) + differential correspondence model vs crate",
        "level_text": "Machine-checked theorems (Coq 8.16.1, closed under the global context) that the model of the encoder writes exactly the "
                      "PROFIBUS frame layout, reports its length, and that the model of the decoder inverts it for every header, function code and payload "
                      "up to the frame limit, consuming exactly those bytes. The model is tied to the crate on every run by executing both on ~40k generated "
                      "encodes/decodes (all SAP combinations x all PDU lengths, all function codes, all 256 FC bytes) and comparing outputs; the theorem's "
                      "boolean oracle also runs on the crate's outputs.",
        "level_note": "Trusted: Coq kernel, the regex translator for constants/enum tables, OCaml extraction + driver, Rust harness; the hand-written model "
                      "is validated, not verified, against telegram.rs (differential execution on the explored inputs).",
        "design_ref": "DESIGN.md section 4, C09",
        "assumptions": ["addresses 0..127, SAP and PDU bytes 0..255, length byte <= 249 (the code's own assert), transmit buffer >= telegram length"],
    },
    "C10": {
        "claimed": False,
        "coq": "Properties/C10.v",
        "domains": ["codec"],
        "nontrivial": ["dec:A", "dec:R", "mut:"],
        "rule": "cases = generated DEC/MUT lines (all strings of length <= 1, length-2 strings with delimiter first (all in thorough), "
                "structured SD2 headers, every proper prefix and every position x 8 bit flips + random + delimiter substitutions of valid frames, "
                "random/mutational strings to 262 bytes), deduplicated; non-trivial = distinct decodes that get past the length guard "
                "(model verdict Accept or Reject) plus all single-byte substitutions",
        "trusted_base": CODEC_TB,
        "technique": "Coq proof (decoder characterisation, totality, prefix consistency, single-byte corruption) + differential correspondence",
        "level_text": "Machine-checked theorems over all byte strings (no length bound) about the Gallina model of Telegram::deserialize: never panics, "
                      "Accept lies inside the input and meets the frame criterion, NeedMore only when shorter than the announced length, verdicts are stable "
                      "under extension, every single-byte substitution of a valid data frame or SC is rejected (except first-delimiter swaps to another valid "
                      "delimiter, a limit of the frame format). Model tied to the crate by differential execution incl. all short strings and every "
                      "position of sampled valid frames.",
        "level_note": "Trusted: Coq kernel, translator, extraction + OCaml driver, Rust harness; hand model validated differentially, not verified.",
        "design_ref": "DESIGN.md section 4, C10",
        "assumptions": ["input bytes 0..255", "a substitution of the first start delimiter by another valid delimiter is outside the single-byte clause (DESIGN 4.0)"],
    },
}

# ------------------------------------------------------------------------------------------ FDL layer (domain fdl)
FDL_TB = [
    "hand model coq/Model/Fdl.v of src/fdl/active.rs (all of it: states, legality assertions, poll_inner branch for branch), "
    "on top of Telegram.v / Phy.v / TokenRing.v / Params.v; tied by differential execution poll by poll on this run's histories "
    "(all outputs, public getters and the private state through the verif-hooks fingerprint)",
    "gen/tr_fdl.py: transition legality tables, have_token / is_in_ring sets, dispatch, retry table and numeric constants regenerated from active.rs",
    "harness PHY / scripted applications / scripted environment of harness/src/fdl.rs; monitors of coq/Model/FdlOracle.v (extracted) run on the implementation's transcript",
]
FDL_RULE = ("cases = corpus (F1 F2 F3 F12 witnesses, API / parameter edge cases) + generated histories: station alone with responders, "
            "environment rings of 1..3 masters that admit the station, hand-made token traffic (predecessor / stranger / own / invalid addresses), "
            "adversarial injections (tokens, status requests / replies, SC, data replies, garbage, truncated and corrupted frames, two telegrams at once) "
            "at all poll timings incl. periods above Tslot/4, PHY busy answers exact / never / late / random, set_offline / set_online in every state, "
            "0..3 scripted applications; non-trivial = polls that transmit, accept a token, deliver a reply / time-out or run a GAP branch")
FDL_NONTRIVIAL = ["tx:", "tag:ht:accept", "tag:reply:", "tag:gap:reply", "tag:gap:no-response", "tag:check:", "tag:lt:reply"]
FDL_NOTE = ("Trusted: Coq kernel, the regex translators, OCaml extraction + driver, Rust harness. The hand model is validated, not verified, "
            "against active.rs (differential execution on the explored histories). The theorems proved so far are one-step facts about the model; "
            "the history-level theorems of DESIGN.md section 4 are not yet proved, so nothing is claimed in MANIFEST.json.")


def _fdl(pid, title, thm_text, assumptions):
    return {
        "claimed": False,
        "coq": f"Properties/{pid}.v",
        "domains": ["fdl"],
        "nontrivial": FDL_NONTRIVIAL,
        "rule": FDL_RULE,
        "trusted_base": FDL_TB,
        "technique": "Coq one-step theorems about the Gallina model of the FDL active station + differential correspondence poll by poll + "
                     "executable monitor of the property on the implementation's transcript",
        "level_text": thm_text,
        "level_note": FDL_NOTE,
        "partial_gap": "only one-step theorems are proved; the invariant / history-level theorems planned in DESIGN.md section 4 (" + title + ") are open",
        "design_ref": "DESIGN.md section 4, " + pid,
        "assumptions": assumptions,
    }


PROPS.update({
    "C01": _fdl("C01", "C01_who_may_transmit, C01_sync_pause, C01_claim_stagger, C01_compose",
                "One-step theorems: no transmission while the PHY is busy or before the predicted end of the own transmission. The monitor checks, on the "
                "implementation's transcripts, who may transmit, the 33 bit synchronisation pause after every observed bus activity, slot expiry before a token retry, "
                "and the claim time-out.", ["single station; the multi-station composition is not covered"]),
    "C05": _fdl("C05", "C05_no_panic under the representation invariant",
                "One-step theorems: GAP cursor total and never the own address (F1), offline and busy polls total. Model and implementation agree on PANIC / no PANIC "
                "on every explored history (debug assertions, overflow checks, formatting logger); the implementation shows no panic.",
                ["builder-valid parameters; set_passive (documented todo!()) and constructor assertions excluded (DESIGN 4.0)"]),
    "C06": _fdl("C06", "C06_backoff, C06_collision_leaves, N-station recovery",
                "One-step theorem: silence for the station's token-lost time-out makes the next poll transmit the claim token. The monitor checks it on transcripts.",
                ["single station"]),
    "C11": _fdl("C11", "C11_listen_never_accepts (whole poll), C11_supervise, C11_retry_discipline, C11_heard_not_removed",
                "One-step theorems about handle_telegram: acceptance iff predecessor or pending second offer, own address never accepted, non-last tokens only witnessed. "
                "The monitor checks acceptance, retry timing and count, removal and the heard-successor rule on transcripts.", ["single station"]),
    "C12": _fdl("C12", "C12_poll_in_gap (whole poll), C12_one_per_visit, C12_sweep_bound, C12_found_becomes_successor, C12_status_reply_truth",
                "One-step theorems: the next GAP address is strictly inside (TS, NS) cyclically, below HSA, never TS, for all triples (F1 fixed). The monitor checks GAP "
                "poll addresses, one poll per visit and the truthfulness of status replies on transcripts.", ["single station"]),
    "C13": _fdl("C13", "C13_hold_rule (only-if half), C13_rotation_bound",
                "One-step theorem: after the hold time (and the guaranteed cycle) no application is asked and the token is passed. The monitor checks the hold-time rule "
                "on call logs.", ["single station"]),
    "C15": _fdl("C15", "C15_contract, C15_routing, C15_round_robin, C15_zero_apps",
                "One-step theorem: the reply admission filter is exactly 'SC or response from the addressed station to us'. The monitor checks the application contract "
                "(token held, one outstanding request, matched reply or time-out, round robin) on call logs.", ["0..3 scripted applications"]),
})

NOT_CLAIMED = {}
