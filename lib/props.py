"""Registry of the properties the machinery decides: Coq target, harness domains, evidence rules."""

CODEC_TB = [
    "hand model coq/Model/Telegram.v of src/fdl/telegram.rs (FunctionCode, DataTelegramHeader::serialize, "
    "DataTelegram/TokenTelegram/Telegram::deserialize, TelegramTx), tied by differential execution on this run's cases",
    "Rust u8/usize operators as modelled: wrapping_add = sum mod 256, | & << >> = Z.lor/Z.land/Z.shiftl/Z.shiftr on 0..255",
]

PROPS = {
    "C09": {
        "coq": "Properties/C09.v",
        "domains": ["codec"],
        "nontrivial": ["enc:ok", "fc:valid", "tok", "sc"],
        "rule": "cases = generated ENC/TOK/SC/FC lines (every SAP combination x every PDU length 0..limit+1, every "
                "function code x structural lengths, all 256 FC bytes, oversize and small-buffer inputs), deduplicated; "
                "non-trivial = distinct in-domain encodes (valid header, length byte <= 249, buffer large enough), valid FC bytes, token and SC encodes",
        "trusted_base": CODEC_TB,
        "technique": "Coq proof (round-trip theorems over a Gallina model of telegram.rs) + differential correspondence model vs crate",
        "level_text": "Machine-checked theorems (Coq 8.16.1, closed under the global context) that the model of the encoder writes exactly the "
                      "PROFIBUS frame layout, reports its length, and that the model of the decoder inverts it for every header, function code and payload "
                      "up to the frame limit, consuming exactly those bytes. The model is tied to the crate on every run by executing both on ~40k generated "
                      "encodes/decodes (all SAP combinations x all PDU lengths, all function codes, all 256 FC bytes) and comparing outputs; the theorem's "
                      "boolean oracle also runs on the crate's outputs.",
        "level_note": "Trusted: Coq kernel, the regex translator for constants/enum tables, OCaml extraction + driver, Rust harness; the hand-written model "
                      "is validated, not verified, against telegram.rs (differential execution on the explored inputs).",
        "design_ref": "DESIGN.md section 4, C09",
        "assumptions": ["addresses 0..127, SAP and PDU bytes 0..255, length byte <= 249 (the code's own assert), transmit buffer >= telegram length"],
    },
    "C10": {
        "claimed": False,
        "coq": "Properties/C10.v",
        "domains": ["codec"],
        "nontrivial": ["dec:A", "dec:R", "mut:"],
        "rule": "cases = generated DEC/MUT lines (all strings of length <= 1, length-2 strings with delimiter first (all in thorough), "
                "structured SD2 headers, every proper prefix and every position x 8 bit flips + random + delimiter substitutions of valid frames, "
                "random/mutational strings to 262 bytes), deduplicated; non-trivial = distinct decodes that get past the length guard "
                "(model verdict Accept or Reject) plus all single-byte substitutions",
        "trusted_base": CODEC_TB,
        "technique": "Coq proof (decoder characterisation, totality, prefix consistency, single-byte corruption) + differential correspondence",
        "level_text": "Machine-checked theorems over all byte strings (no length bound) about the Gallina model of Telegram::deserialize: never panics, "
                      "Accept lies inside the input and meets the frame criterion, NeedMore only when shorter than the announced length, verdicts are stable "
                      "under extension, every single-byte substitution of a valid data frame or SC is rejected (except first-delimiter swaps to another valid "
                      "delimiter, a limit of the frame format). Model tied to the crate by differential execution incl. all short strings and every "
                      "position of sampled valid frames.",
        "level_note": "Trusted: Coq kernel, translator, extraction + OCaml driver, Rust harness; hand model validated differentially, not verified.",
        "design_ref": "DESIGN.md section 4, C10",
        "assumptions": ["input bytes 0..255", "a substitution of the first start delimiter by another valid delimiter is outside the single-byte clause (DESIGN 4.0)"],
    },
    "C17": {
        "coq": "Properties/C17.v",
        "domains": ["diag"],
        "nontrivial": ["fill:stored", "fill:too-large", "fill:no-buffer", "iter:1-block", "iter:2+blocks", "iter:0-blocks",
                       "dp:accepted", "dp:rejected", "scan:found"],
        "rule": "cases = generated ED lines (hook path: ExtendedDiagnostics::from_buffer + fill + raw_diag_buffer + iter_diag_blocks + Debug; "
                "all 1-byte strings x capacities {none,0,1,|ext|-1,|ext|,64,244}, all 65536 2-byte strings, every header byte with exact / "
                "short / long / chained structured tails, all values of channel bytes 1 and 2, fill sequences with previous content, random and "
                "structured strings of every length 0..244), DP lines (public path: DpMaster + Peripheral driven through FdlApplication::"
                "transmit_telegram/receive_reply with hand-made reply telegrams, PDUs of every length 0..244, reply sequences with wrong SAPs, "
                "SC and short PDUs in between, last_diagnostics() + Debug with the formatting logger installed) and SCAN lines (DpScanner::receive_reply), "
                "plus corpus/diag, deduplicated; non-trivial = fills (stored / too large / no buffer), iterations of available buffers by number of blocks, "
                "accepted and rejected DP replies, scanner finds",
        "trusted_base": [
            "hand model coq/Model/Diag.v of src/dp/diagnostics.rs (ExtendedDiagnostics, ExtDiagBlockIter::next, ChannelError/ChannelDataType) and of "
            "handle_diagnostics_response / parse_diag_response (peripheral.rs, scan.rs), tied by differential execution on this run's cases",
            "gen/tr_diag.py: DiagnosticFlags masks, header byte positions, channel error / data type tables, block type codes, length masks and the "
            "presence of the length-0 guard are regenerated from the source; the hand-written specification tables in Model/DiagOracle.v are proved equal to them",
            "Rust u8/u16/usize operators as modelled: & | >> = Z.land/Z.lor/Z.shiftr on 0..255, from_le/be_bytes = a + 256 b, flags.remove = Z.ldiff; "
            "usize cursor arithmetic cannot overflow for buffers that fit in memory (not modelled)",
            "BitSlice<u8, Lsb0>::from_slice / iter_ones of the bitvec crate are taken as: bit k of byte j is index 8j+k (checked differentially)",
        ],
        "technique": "Coq proof (header faithfulness, buffer fill, iterator totality and tiling for all byte strings, channel byte sweeps) over a Gallina "
                     "model of the fixed code + differential correspondence model vs crate through the hook and through the public DP path",
        "level_text": "Machine-checked theorems (Coq 8.16.1, closed under the global context) over ALL byte strings about the Gallina model of the diagnostics "
                      "code: the reported ident, master address and every flag bit equal the wire bytes except the deliberately cleared marker bit 10; PDUs "
                      "shorter than 6 bytes (and only those) are rejected; extended diagnostics are stored iff EXT_DIAG is set, a buffer exists and the string fits, "
                      "otherwise the previous content is unchanged; the block iterator never panics, needs at most |buf|+1 steps, and its output is THE tiling "
                      "of the buffer into consecutive well-formed blocks of their announced length, stopping exactly at the first malformed (reserved type, "
                      "length 0) or truncated block; identifier / device data and all 256 values of each channel byte decode as the specification tables "
                      "say; Debug formatting and any history of replies through handle_diagnostics_response never panic. The model is of the code WITH the "
                      "F5 fix (length-0 block headers panicked the unfixed iterator; proved for the unguarded model, reproduced through the public DP path, "
                      "fixed in commit b9ddb7c, guard detected by the translator). Model tied to the crate on every run by ~87k cases (all 1- and 2-byte "
                      "strings, all header bytes, PDU lengths 0..244, all capacity classes) through the verif-hooks wrappers and through DpMaster/DpScanner; "
                      "the theorems' boolean oracles also run on the crate's outputs.",
        "level_note": "Trusted: Coq kernel, gen/tr_diag.py, extraction + OCaml driver, Rust harness; the hand-written model is validated, not verified, "
                      "against the Rust source (differential execution). Debug output is compared only as panic / no panic. Observation outside the property: "
                      "iter_diag_blocks().next() on a peripheral WITHOUT diag buffer panics (raw_diag_buffer().unwrap()); modelled and stated explicitly.",
        "design_ref": "DESIGN.md section 4, C17 (interpretation 4.0; finding F5 in section 7)",
        "assumptions": ["bytes 0..255; the 'permanent' marker bit (bit 10 of the status word) is cleared on purpose and excluded from 'equal to the wire' (DESIGN 4.0)",
                        "iteration is over the visible bytes of a container that has a buffer (without buffer there is no byte string; next() panics there, stated as C17_container_without_buffer_panics)",
                        "debug logging enabled (worst case: the ext diag buffer is formatted on every stored reply)"],
    },
}

NOT_CLAIMED = {}
