"""Registry of the properties the machinery decides: Coq target, harness domains, evidence rules.
One top-level `PROPS["Cxx"] = {...}` statement per property (append-only, merge friendly)."""

PROPS = {}
NOT_CLAIMED = {}

PROPS["C09"] = {'coq': 'Properties/C09.v',
 'domains': ['codec'],
 'nontrivial': ['enc:ok', 'fc:valid', 'tok', 'sc'],
 'rule': 'cases = generated ENC/TOK/SC/FC lines (every SAP combination x every PDU length 0..limit+1, every function code x structural lengths, all '
         '256 FC bytes, oversize and small-buffer inputs), deduplicated; non-trivial = distinct in-domain encodes (valid header, length byte <= 249, '
         'buffer large enough), valid FC bytes, token and SC encodes',
 'trusted_base': ['hand model coq/Model/Telegram.v of src/fdl/telegram.rs (FunctionCode, DataTelegramHeader::serialize, '
                  "DataTelegram/TokenTelegram/Telegram::deserialize, TelegramTx), tied by differential execution on this run's cases",
                  'Rust u8/usize operators as modelled: wrapping_add = sum mod 256, | & << >> = Z.lor/Z.land/Z.shiftl/Z.shiftr on 0..255'],
 'technique': 'Coq proof (round-trip theorems over a Gallina model of telegram.rs) + differential correspondence model vs crate',
 'level_text': 'Machine-checked theorems (Coq 8.16.1, closed under the global context) that the model of the encoder writes exactly the PROFIBUS '
               'frame layout, reports its length, and that the model of the decoder inverts it for every header, function code and payload up to the '
               'frame limit, consuming exactly those bytes. The model is tied to the crate on every run by executing both on ~40k generated '
               "encodes/decodes (all SAP combinations x all PDU lengths, all function codes, all 256 FC bytes) and comparing outputs; the theorem's "
               "boolean oracle also runs on the crate's outputs.",
 'level_note': 'Trusted: Coq kernel, the regex translator for constants/enum tables, OCaml extraction + driver, Rust harness; the hand-written model '
               'is validated, not verified, against telegram.rs (differential execution on the explored inputs).',
 'design_ref': 'DESIGN.md section 4, C09',
 'assumptions': ["addresses 0..127, SAP and PDU bytes 0..255, length byte <= 249 (the code's own assert), transmit buffer >= telegram length"]}

PROPS["C10"] = {'claimed': True,
 'coq': 'Properties/C10.v',
 'domains': ['codec'],
 'nontrivial': ['dec:A', 'dec:R', 'mut:'],
 'rule': 'cases = generated DEC/MUT lines (all strings of length <= 1, length-2 strings with delimiter first (all in thorough), structured SD2 '
         'headers, every proper prefix and every position x 8 bit flips + random + delimiter substitutions of valid frames, random/mutational '
         'strings to 262 bytes), deduplicated; non-trivial = distinct decodes that get past the length guard (model verdict Accept or Reject) plus '
         'all single-byte substitutions',
 'trusted_base': ['hand model coq/Model/Telegram.v of src/fdl/telegram.rs (FunctionCode, DataTelegramHeader::serialize, '
                  "DataTelegram/TokenTelegram/Telegram::deserialize, TelegramTx), tied by differential execution on this run's cases",
                  'Rust u8/usize operators as modelled: wrapping_add = sum mod 256, | & << >> = Z.lor/Z.land/Z.shiftl/Z.shiftr on 0..255'],
 'technique': 'Coq proof (decoder characterisation, totality, prefix consistency, single-byte corruption) + differential correspondence',
 'level_text': 'Machine-checked theorems over all byte strings (no length bound) about the Gallina model of Telegram::deserialize: never panics, '
               'Accept lies inside the input and meets the frame criterion, NeedMore only when shorter than the announced length, verdicts are '
               'stable under extension, every single-byte substitution of a valid data frame or SC is rejected (except first-delimiter swaps to '
               'another valid delimiter, a limit of the frame format). Model tied to the crate by differential execution incl. all short strings and '
               'every position of sampled valid frames.',
 'level_note': 'Trusted: Coq kernel, translator, extraction + OCaml driver, Rust harness; hand model validated differentially, not verified.',
 'design_ref': 'DESIGN.md section 4, C10',
 'assumptions': ['input bytes 0..255',
                 'a substitution of the first start delimiter by another valid delimiter is outside the single-byte clause (DESIGN 4.0)']}

PROPS["C20"] = {'coq': 'Properties/C20.v',
 'domains': ['prm'],
 'nontrivial': ['set:ok', 'set:err', 'wv:ok', 'wv:err', 'new:'],
 'rule': 'cases = corpus/prm (F9 witnesses) + generated lines, deduplicated: WV = write_value_to_slice on bare slices (every data type incl. all '
         'Bit(0..9)/BitArea(0..8,0..8) and malformed positions x boundary/extreme values x short/exact/long slices); PRM = a random description '
         '(single fields of every type; several Bit/BitArea fields sharing a byte over constants plus integers; fully random overlapping layouts '
         'with malformed bit positions, out-of-type defaults, duplicated names) followed by 3-14 set_prm/set_prm_from_text calls with in-range, '
         'boundary, out-of-range, out-of-type, extreme (i64::MIN/MAX) values, unknown names and texts; as_bytes() and Ok/Err(kind)/PANIC after every '
         'call. evaluations = case lines; non-trivial = individual new()/set calls and write_value calls by model verdict (set:ok:<type>, '
         'set:err:<kind>, new:*, wv:*)',
 'trusted_base': ['hand model coq/Model/Prm.v of gsd-parser/src/lib.rs (UserPrmDataType::write_value_to_slice, PrmValueConstraint::assert_valid, '
                  'get_prm, get_value_from_text, write_constrained_value_to_slice, PrmBuilder::{new, set_prm, set_prm_from_text, as_bytes}), tied by '
                  "differential execution on this run's cases",
                  'gen/tr_prm.py: data type enum, size() table and the integer type of every integer arm of write_value_to_slice regenerated from '
                  'the source',
                  "hand specification coq/Model/PrmOracle.v (value ranges of the GSD data types, field bit positions, big-endian two's complement as "
                  'Z.testbit)',
                  'Rust u8 operators as modelled: & | ^ << on 0..255 = Z.land/Z.lor/Z.lxor/Z.shiftl (mod 256); names/text keys are numeric ids '
                  'mapped to the strings p<id>/t<id>'],
 'technique': 'Coq proof (overlay / exact-bits / rejects-unchanged / exact type ranges / no-panic / history theorems over a Gallina model of the '
              'parameter-block builder, with the known class F9-bitarea excluded and refuted inside) + differential correspondence model vs crate + '
              "spec oracle on the crate's outputs",
 'level_text': "Machine-checked theorems (Coq 8.16.1, closed under the global context) about the Gallina model of gsd-parser's PrmBuilder: new() "
               'builds exactly the constants overlaid field by field with the defaults; an admitted set_prm/set_prm_from_text changes exactly the '
               "bits that (offset, data type) define to the big-endian two's-complement value and no other bit, for every data type and every block "
               'state; every other call (unknown name/text, outside range/enumeration or data type) returns Err and leaves the block unchanged; each '
               'data type accepts exactly its value range (signed types their signed range); no description and no call sequence panics; the '
               'per-call oracle holds along every history. All of it for everything OUTSIDE one known class (F9-bitarea: a BitArea field written '
               'into a byte that has a bit set outside the area), inside which the law is refuted by theorem and reported as a known finding. The '
               'model is tied to the crate on every run by executing both on ~8k generated case lines (~35k individual new/set/write_value calls) '
               "and comparing as_bytes() and Ok/Err kind after every call; the specification oracle also runs on the crate's outputs.",
 'level_note': 'KNOWN FINDING F9-bitarea (status finding, not fixable with the suite unedited: regress_prm snapshot pins the clobbered byte): '
               'BitArea assigns the whole byte, so the property is FALSE of the crate inside the known class; the check prints KNOWN-FINDING and '
               'excuses only that class (a weaker oracle - own bits correct, all other bytes unchanged - still runs there). Three further F9 defects '
               'were repaired in the repository clone (Bit could not be cleared, Signed16 through u16, overflow panics on bit positions outside the '
               'byte); the model is of the repaired code. Trusted: Coq kernel, the regex translator, OCaml extraction + driver, Rust harness; the '
               'hand-written model is validated differentially, not verified, against lib.rs. usize overflow of offset+size and allocation failure '
               'are outside the model (offsets are nat).',
 'design_ref': 'DESIGN.md section 4, C20; section 7, F9',
 'assumptions': ['constant bytes 0..255, bit positions 0..255 (u8), values i64; offsets small enough that offset+size does not overflow usize and '
                 'the block can be allocated',
                 'outside the known class F9-bitarea (known_write / known_new in coq/Model/PrmOracle.v)',
                 'text keys of one PrmText are unique (BTreeMap); the first reference with a name wins (get_prm)']}

PROPS["C17"] = {'coq': 'Properties/C17.v',
 'domains': ['diag'],
 'nontrivial': ['fill:stored',
                'fill:too-large',
                'fill:no-buffer',
                'iter:1-block',
                'iter:2+blocks',
                'iter:0-blocks',
                'dp:accepted',
                'dp:rejected',
                'scan:found'],
 'rule': 'cases = generated ED lines (hook path: ExtendedDiagnostics::from_buffer + fill + raw_diag_buffer + iter_diag_blocks + Debug; all 1-byte '
         'strings x capacities {none,0,1,|ext|-1,|ext|,64,244}, all 65536 2-byte strings, every header byte with exact / short / long / chained '
         'structured tails, all values of channel bytes 1 and 2, fill sequences with previous content, random and structured strings of every length '
         '0..244), DP lines (public path: DpMaster + Peripheral driven through FdlApplication::transmit_telegram/receive_reply with hand-made reply '
         'telegrams, PDUs of every length 0..244, reply sequences with wrong SAPs, SC and short PDUs in between, last_diagnostics() + Debug with the '
         'formatting logger installed) and SCAN lines (DpScanner::receive_reply), plus corpus/diag, deduplicated; non-trivial = fills (stored / too '
         'large / no buffer), iterations of available buffers by number of blocks, accepted and rejected DP replies, scanner finds',
 'trusted_base': ['hand model coq/Model/Diag.v of src/dp/diagnostics.rs (ExtendedDiagnostics, ExtDiagBlockIter::next, ChannelError/ChannelDataType) '
                  "and of handle_diagnostics_response / parse_diag_response (peripheral.rs, scan.rs), tied by differential execution on this run's "
                  'cases',
                  'gen/tr_diag.py: DiagnosticFlags masks, header byte positions, channel error / data type tables, block type codes, length masks '
                  'and the presence of the length-0 guard are regenerated from the source; the hand-written specification tables in '
                  'Model/DiagOracle.v are proved equal to them',
                  'Rust u8/u16/usize operators as modelled: & | >> = Z.land/Z.lor/Z.shiftr on 0..255, from_le/be_bytes = a + 256 b, flags.remove = '
                  'Z.ldiff; usize cursor arithmetic cannot overflow for buffers that fit in memory (not modelled)',
                  'BitSlice<u8, Lsb0>::from_slice / iter_ones of the bitvec crate are taken as: bit k of byte j is index 8j+k (checked '
                  'differentially)'],
 'technique': 'Coq proof (header faithfulness, buffer fill, iterator totality and tiling for all byte strings, channel byte sweeps) over a Gallina '
              'model of the fixed code + differential correspondence model vs crate through the hook and through the public DP path',
 'level_text': 'Machine-checked theorems (Coq 8.16.1, closed under the global context) over ALL byte strings about the Gallina model of the '
               'diagnostics code: the reported ident, master address and every flag bit equal the wire bytes except the deliberately cleared marker '
               'bit 10; PDUs shorter than 6 bytes (and only those) are rejected; extended diagnostics are stored iff EXT_DIAG is set, a buffer '
               'exists and the string fits, otherwise the previous content is unchanged; the block iterator never panics, needs at most |buf|+1 '
               'steps, and its output is THE tiling of the buffer into consecutive well-formed blocks of their announced length, stopping exactly at '
               'the first malformed (reserved type, length 0) or truncated block; identifier / device data and all 256 values of each channel byte '
               'decode as the specification tables say; Debug formatting and any history of replies through handle_diagnostics_response never panic. '
               'The model is of the code WITH the F5 fix (length-0 block headers panicked the unfixed iterator; proved for the unguarded model, '
               'reproduced through the public DP path, fixed in commit c46c975, guard detected by the translator). Model tied to the crate on every '
               'run by ~87k cases (all 1- and 2-byte strings, all header bytes, PDU lengths 0..244, all capacity classes) through the verif-hooks '
               "wrappers and through DpMaster/DpScanner; the theorems' boolean oracles also run on the crate's outputs.",
 'level_note': 'Trusted: Coq kernel, gen/tr_diag.py, extraction + OCaml driver, Rust harness; the hand-written model is validated, not verified, '
               'against the Rust source (differential execution). Debug output is compared only as panic / no panic. Observation outside the '
               'property: iter_diag_blocks().next() on a peripheral WITHOUT diag buffer panics (raw_diag_buffer().unwrap()); modelled and stated '
               'explicitly.',
 'design_ref': 'DESIGN.md section 4, C17 (interpretation 4.0; finding F5 in section 7)',
 'assumptions': ["bytes 0..255; the 'permanent' marker bit (bit 10 of the status word) is cleared on purpose and excluded from 'equal to the wire' "
                 '(DESIGN 4.0)',
                 'iteration is over the visible bytes of a container that has a buffer (without buffer there is no byte string; next() panics there, '
                 'stated as C17_container_without_buffer_panics)',
                 'debug logging enabled (worst case: the ext diag buffer is formatted on every stored reply)']}

PROPS["C02"] = {'claimed': True,
 'coq': 'Properties/C02.v',
 'domains': ['las'],
 'nontrivial': ['disc:n', 'step:W:D', 'step:W:V', 'step:W:L', 'step:N', 'step:R', 'api:reached-valid'],
 'rule': 'cases = operation sequences on one TokenRing (own address, then W sa da / C / N a / R a), observed after EVERY operation (las_state from '
         'Debug, ready_for_ring, NS, PS, LAS): all 256 own addresses; exhaustive sequences up to length 3-6 over small address alphabets incl. 0, '
         '125, 126..128, 255; random rings (1..126 members, 0 and 125 forced in, two-station rings) discovered from an ignored prefix + wrap-around '
         '+ two rotations, then further rotations, leaves, joins, own passes, GAP results (set_next_station / remove_station), invalid addresses, '
         'claims; random operation soup; the same discovery/leave/join histories through the public API only (a listening FdlActiveStation on the '
         'simulator bus hearing token telegrams, observed by inspect_token_ring()). Deduplicated. Non-trivial = discovery cases accepted by the Coq '
         'shape predicate plus every witnessed pass in Discovery/Verification/Valid and every N/R step',
 'trusted_base': ['hand model coq/Model/TokenRing.v of src/fdl/token_ring.rs (bit array of 128 as list bool, every index/range panic site, Debug '
                  "impl), tied by differential execution after every operation on this run's cases",
                  'bitvec BitArray semantics as used: set/index/range-slice panic outside 0..128, fill, any, iter_ones ascending'],
 'technique': 'Coq proof (LAS discovery / verification / live update theorems over a Gallina model of token_ring.rs, all rings, all own addresses, '
              'all initial LAS contents) + differential correspondence model vs crate after every operation',
 'partial_gap': 'global half (N-station timed composition: convergence within a bounded time, token once per rotation in address order) is not '
                'proved; only the per-station LAS data structure theorems are',
 'level_text': 'PARTIAL: only the per-station data-structure half of C02 is proved; the global half (N-station timed composition: convergence within '
               'a bounded time, every station receiving the token once per rotation in address order) is NOT proved. Proved (Coq 8.16.1, closed '
               'under the global context) about the Gallina model of fdl::TokenRing, for every ring R (strictly increasing addresses 0..125), every '
               'own address and every initial LAS content: after the wrap-around and two rotations of R a listening station is Valid with LAS = R '
               'exactly and NS/PS the cyclic neighbours of TS; Valid is reached by listening only through a verification rotation in which every '
               'pass verified against the LAS frozen at the end of discovery; an established LAS is unchanged by further passes of R; a skipped '
               "station is removed exactly, a newcomer's pass adds exactly it; addresses > 125 are ignored; no panic for any byte; NS/PS always are "
               'the cyclic neighbours of TS in the LAS. The model is tied to the crate on every run by replaying ~10^5 operation sequences on both '
               "and comparing the full observable state after every operation; the theorems' boolean oracles also run on the crate's outputs.",
 'level_note': 'Trusted: Coq kernel, extraction + OCaml driver, Rust harness, the verif-hooks wrapper (forwarding only); hand model validated '
               'differentially, not verified, against token_ring.rs. The global ring-formation claim of C02 is outside this check.',
 'design_ref': "DESIGN.md section 4, C02 (data-structure half) - LAS; global half: section 4 'C02 (global half), C06'",
 'assumptions': ['own address 0..125 for the discovery/stability theorems (0..127 for no-panic)',
                 'witnessed addresses are bytes 0..255',
                 'set_next_station / remove_station arguments < 128 (the FDL layer only passes addresses < HSA <= 126)',
                 'the LAS bit array has 128 entries (BitArr!(for 128))']}

PROPS["C16"] = {'coq': 'Properties/C16.v',
 'domains': ['phyrx'],
 'nontrivial': ['buf:', 'sim:RXS', 'sim:RXQ'],
 'rule': 'cases = generated RXB/RXS/RXQ lines, deduplicated: every chunking of 11 short streams (<= 11 bytes) under receive_all_telegrams and '
         'receive_telegram; every SD1/SD2/SD3 PDU length x SAP combination inside 1..3-telegram streams with random chunkings; random streams of '
         '1..8 telegrams (token, SC, SD1/SD2/SD3) in 1..2 episodes with 7 chunking styles incl. empty polls; streams with garbage episodes of 8 '
         'kinds between clean ones; simulator runs over all 11 baudrates with polls during and between transmissions; simulator corner cases (short '
         'gaps, collisions, receiver transmitting, time running backwards, arithmetic overflow). non-trivial = harness-PHY cases + simulator cases '
         '(each is a whole poll sequence)',
 'trusted_base': ['hand models coq/Model/Phy.v (receive_telegram, receive_all_telegrams, poll_pending_received_bytes, transmit_telegram of '
                  'src/phy/mod.rs, both over a byte list and over an abstract PHY = view/drop pair), coq/Model/SimBus.v (SimulatorBus/SimulatorPhy '
                  'of src/phy/simulator.rs: current_cursor, pending_bytes, is_active, enqueue_telegram with its collision/delay panics, cursor) and '
                  "coq/Model/Telegram.v (decoder), tied by differential execution on this run's cases",
                  'one receive_* call sees an atomic snapshot of the PHY (true of SimulatorPhy and of the harness PHY: the bus time does not change '
                  'inside a call)',
                  'Instant/Duration arithmetic as modelled: i64/u64 with overflow = panic (debug build), Instant - Instant = absolute difference'],
 'technique': 'Coq proof (refinement of the receive helpers to a frame-length spec of the byte stream, by induction over telegram lists and chunk '
              'lists) + differential correspondence model vs crate over the harness PHY and SimulatorPhy',
 'level_text': 'Machine-checked theorems (Coq 8.16.1, closed under the global context), for ALL lists of valid telegrams and ALL chunkings (no '
               'bounds): the model of receive_all_telegrams / receive_telegram, fed chunk after chunk, delivers exactly the telegrams sent, in '
               'order, each once, flags a telegram as last exactly when nothing is buffered behind it, leaves exactly the incomplete tail in the '
               'buffer, terminates within |buffer|+1 iterations without panic for every byte string and every callback, drops the whole buffer on '
               "undecodable data and then receives a telegram that arrives separately; the simulator's byte availability is a monotone prefix of the "
               'stream. The helper model over an abstract PHY (view/drop) is proved equal to the byte-list model for every coherent PHY, and '
               'SimulatorPhy and the harness PHY are proved coherent. Models tied to the crate on every run by ~13k poll sequences over both PHYs '
               "with 0 divergences; the frame-length oracle (decoder-free) also runs on the crate's outputs.",
 'level_note': 'Trusted: Coq kernel, translator for constants/tables, extraction + OCaml driver, Rust harness (its BufPhy and the reference frame '
               'builder); hand models validated differentially, not verified, against phy/mod.rs, simulator.rs, telegram.rs. The serial/linux/rp2040 '
               'PHYs are not covered.',
 'design_ref': 'DESIGN.md section 4, C16',
 'assumptions': ['telegrams valid for the encoder: addresses 0..127, SAP/PDU bytes 0..255, length byte <= 249',
                 'fault-free clauses: the bytes seen are the concatenation of the frames; resync clause: the next telegram arrives after the discard',
                 'simulator monotonicity: bus time not before the start of the last transmission and below the u64 overflow point of time_to_bits']}

# TEMPORARY (agent-bus): lets `./check C06` run the bus-level layer on its own.  The integrator adds "bus"
# to the `domains` of C01 / C02 / C06 / C13 (the driver tags every ORACLE-FAIL with its property id) and
# moves the theorems of Properties/BusLevel.v into the C01/C02/C06/C13 property files.
PROPS["C06"] = {'claimed': False,
 'coq': 'Properties/BusLevel.v',
 'domains': ['bus'],
 'nontrivial': ['c01:in-class-traces', 'C02:windows-checked', 'C06:windows-checked', 'c13:traffic-windows', 'c13:idle-windows'],
 'rule': 'cases = corpus/bus + generated scenarios (2..5 real FdlActiveStations on the harness medium: cold start together / lock-step / '
         'joining an active bus / several joiners / staggered starts provoking the excluded claim race / applications of every appetite with '
         'and without a passive responder / fault plans / poll periods outside the class); non-trivial = traces checked by the C01 monitors and '
         'stable windows checked by the C02 / C06 / C13 monitors',
 'trusted_base': ['harness medium harness/src/bus.rs (byte timing of SimulatorBus, collisions, fault plan) and its event loop',
                  'hand model coq/Model/Telegram.v (decoder) used by the monitors to read the transmissions'],
 'technique': 'Coq-extracted trace monitors (proved sound w.r.t. declarative predicates) run on traces of N real stations; abstract '
              'composition theorem C01_compose; link of the C13 hold-rule monitor to the abstract rotation bound',
 'partial_gap': 'the bus level is a TEST of the implementation under proved-sound monitors; the timed N-station composition is not proved',
 'level_text': 'PARTIAL / test: monitors proved sound, run on generated multi-station scenarios.',
 'level_note': 'temporary registration of the bus-level layer under C06',
 'design_ref': 'DESIGN.md sections 4 (C01, C02 global half, C06, C13) and 5',
 'assumptions': ['poll periods <= Tslot/4, distinct addresses, consistent parameters; C01/C02/C13: empty fault plan; the cold-start claim race and '
                 'stale PHY buffers at set_online are excluded as in DESIGN section 5']}
