#!/usr/bin/env python3
"""Regenerate MANIFEST.json from lib/props.py (claimed checks) and properties.jsonl (the rest)."""
import json
import os
import sys

ROOT = os.path.dirname(os.path.dirname(os.path.abspath(__file__)))
sys.path.insert(0, os.path.join(ROOT, "lib"))
from props import PROPS, NOT_CLAIMED  # noqa

ids = [json.loads(l)["id"] for l in open(os.path.join(ROOT, "properties.jsonl"))]
checks = []
for pid in ids:
    if pid not in PROPS or not PROPS[pid].get('claimed', True):
        continue
    p = PROPS[pid]
    checks.append({
        "property_id": pid,
        "quick_cmd": f"./check {pid} --tier quick",
        "thorough_cmd": f"./check {pid} --tier thorough",
        "evidence_file": f"evidence/{pid}.json",
        "replay_cmd_template": "./check replay {path}",
        "engine": "coq-proof+correspondence",
        "level_claimed": {"category": "proof", "text": p["level_text"], "design_ref": p.get("design_ref", "DESIGN.md section 4")},
        "level_note": p["level_note"],
        "technique": p["technique"],
    })
manifest = {
    "version": 1,
    "setup_cmd": "./check setup",
    "hooks": {
        "guard": "cargo feature verif-hooks",
        "enable": "harness/Cargo.toml depends on profirust by path with features [std, phy-simulator, verif-hooks]",
        "baseline_off_cmd": "cd /repo && cargo test --workspace --no-fail-fast --offline",
        "source_commits": [l.strip() for l in open(os.path.join(ROOT, "lib", "hook_commits.txt")) if l.strip()] if os.path.exists(os.path.join(ROOT, "lib", "hook_commits.txt")) else [],
        "add_only": True,
    },
    "engines": [{
        "name": "coq-proof+correspondence", "path": "check",
        "serves_properties": [c["property_id"] for c in checks],
        "kind_free_text": "Coq 8.16.1 theorems about hand-written Gallina models (coq/), tables regenerated from /repo by gen/translate.py, "
                          "models extracted to OCaml and compared with the real crate (harness/) on generated cases; property oracles run on implementation outputs",
    }],
    "checks": checks,
    "notes": "See DESIGN.md. Known findings: known_findings.json. Replays are written to replays/.",
    "not_applicable": [{"property_id": pid, "reason": NOT_CLAIMED.get(pid, "check not built yet; nothing is claimed for this property")}
                       for pid in ids if pid not in [c['property_id'] for c in checks]],
}
json.dump(manifest, open(os.path.join(ROOT, "MANIFEST.json"), "w"), indent=1)
print("MANIFEST.json:", len(checks), "checks,", len(manifest["not_applicable"]), "not claimed")
