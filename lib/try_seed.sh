#!/bin/bash
# usage: lib/try_seed.sh <Cxx> <patch.diff> [tier]   -- apply a seeded change to /repo, run the check, undo.
set -u
pid=$1; patch=$2; tier=${3:-quick}
cd /repo || exit 2
if ! git diff --quiet; then echo "/repo has uncommitted changes"; exit 2; fi
git apply "$patch" || { echo "patch does not apply"; exit 2; }
cd /verif && timeout 3000 ./check "$pid" --tier "$tier"; rc=$?
git -C /repo checkout -- . ; git -C /repo clean -fdq -e target
echo "try_seed: check exit=$rc"
exit $rc
