#!/bin/bash
# Re-run a LIST of negative controls (seeded/harmless-*, seeded/benign-*) against the current tree; one line each:
#   lib/regress_controls.sh seeded/benign-1 ...      (uses $VERIF_REPO, default /repo; that tree must be clean)
# Runs the checks of the properties anchored in the touched files; expected: quiet (benign: quiet or no-failing-input-found).
set -u
REPO=${VERIF_REPO:-/repo}
cd "$(dirname "$0")/.." || exit 2
for d in "$@"; do
  s=$(basename $d)
  if ! git -C $REPO apply --check $PWD/$d/patch.diff 2>/dev/null; then echo "| $s | - | patch no longer applies |"; continue; fi
  files=$(grep '^+++ b/' $d/patch.diff | sed 's#+++ b/##')
  props=""
  for f in $files; do
    case $f in
      src/fdl/telegram.rs) props="$props C09 C10";;
      src/phy/*) props="$props C16 C10";;
      src/fdl/active.rs) props="$props C11 C12 C13 C15 C05";;
      src/fdl/token_ring.rs) props="$props C02 C11";;
      src/fdl/live_list.rs|src/dp/scan.rs) props="$props C18";;
      src/dp/peripheral.rs) props="$props C03 C04 C08 C07";;
      src/dp/master.rs) props="$props C14";;
      src/dp/diagnostics.rs) props="$props C17";;
      src/consts.rs|src/fdl/parameters.rs) props="$props C09 C03 C01";;
      gsd-parser/*) props="$props C19 C20";;
    esac
  done
  git -C $REPO apply $PWD/$d/patch.diff
  res=""
  for p in $(echo $props | tr ' ' '\n' | sort -u); do
    r=$(timeout 3000 ./check $p --tier quick 2>&1)
    if echo "$r" | grep -q "no-failing-input-found"; then res="$res $p:no-failing-input-found";
    elif echo "$r" | grep -q "^VIOLATION"; then res="$res $p:ALARM-WITH-FAILING-INPUT"; else res="$res $p:quiet"; fi
  done
  git -C $REPO checkout -q -- . ; git -C $REPO clean -fdq -e target
  echo "| $s | $(echo $props | tr ' ' '\n' | sort -u | tr '\n' ' ') | $res |"
done
git checkout -q evidence/ 2>/dev/null
