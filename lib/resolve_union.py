#!/usr/bin/env python3
"""Resolve git conflict markers in append-only shared files by keeping both sides (ours first)."""
import re, sys
for p in sys.argv[1:]:
    s = open(p).read()
    def rep(m):
        ours, theirs = m.group(1), m.group(2)
        if p.endswith(".json"):
            ours = ours.rstrip("\n")
            if not ours.rstrip().endswith(","):
                ours += ","
            return ours + "\n" + theirs
        return ours + theirs
    s2 = re.sub(r"<<<<<<< [^\n]*\n(.*?)=======\n(.*?)>>>>>>> [^\n]*\n", rep, s, flags=re.S)
    open(p, "w").write(s2)
    print(p, "resolved" if s2 != s else "no markers")
