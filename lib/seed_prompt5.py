#!/usr/bin/env python3
"""Round-5 prompt for a PAIR of properties: 2 seeds each, with the lists of what was already used."""
import json, os, sys
a, b = sys.argv[1], sys.argv[2]
tag = f"{a}{b}"
props = {}
for l in open("/verif/properties.jsonl"):
    p = json.loads(l); props[p["id"]] = p
def used(pid):
    out = []
    for d in sorted(os.listdir("/verif/seeded")):
        m = os.path.join("/verif/seeded", d, "meta.json")
        if d.startswith(pid + "-") and os.path.exists(m):
            out.append("- " + json.load(open(m))["breaks"])
    return "\n".join(out)
def block(pid):
    p = props[pid]
    return f"""PROPERTY {pid}: {p['title']}
Statement: {p['statement']}
Quantified over: {p['quantifier']['text']}
Anchored in: {', '.join(p['anchors']['files'])}
ALREADY USED for {pid} in earlier rounds (do not submit these, near-duplicates, or the same idea at a mirror-image site):
{used(pid)}
"""
print(f"""You are testing how well a verification effort detects bugs. You get TWO behavioural properties of the Rust project Rahix/profirust (a no_std PROFIBUS-DP stack: FDL token-ring active station, DP master, telegram codec, PHY backends, GSD parser) and a scratch git worktree of it at /tmp/seed-{tag} (branch seed5-{tag}). Work ONLY inside /tmp/seed-{tag} and /tmp/seed-{tag}-out. Do NOT read or use anything under /verif, /work or /root/.vp, and do not touch /repo itself. Offline sandbox: `CARGO_NET_OFFLINE=true cargo ... --offline`; the first build takes a minute or two. Hint files you may read: /tmp/fdl-seed-hints.txt (driving one FDL station), /tmp/dp-seed-hints.txt (driving the DP master directly), /tmp/bus-seed-hints.txt (several stations on a bus; its defect (a) has been repaired in this tree, (b) is still known and out of scope). Other known, tolerated defects that are OUT of scope: a BitArea GSD parameter overwriting the other bits of its byte; the DP master waiting for ever in config validation after a forged single-byte short confirmation; `Peripheral::reset_address()` while a reply of that peripheral is outstanding.

{block(a)}
{block(b)}
YOUR JOB: for EACH of the two properties produce 2 DIFFERENT small source changes (mutations) — 4 in total — each of which BREAKS its property while the project still compiles and its whole existing test suite still passes (`cd /tmp/seed-{tag} && CARGO_NET_OFFLINE=true cargo test --workspace --no-fail-fast --offline`, run it twice: some tests are randomised). This is round 5: the obvious single-site mistakes are used up (see the lists). Go for: two cooperating sites that each look fine alone; mistakes that need an unusual configuration value (a parameter at its builder limit, an address at 0 / 125 / HSA-1, a length at 0 / 1 / the maximum, a baud rate with awkward rounding); multi-step sequences (something must happen twice, or in a particular order); state left over from an earlier episode (after going offline/online, after a peripheral came back, after a claim); interactions between layers (FDL + DP master, live list beside DP master via poll_multi). Each change must look like a plausible developer mistake or simplification, not vandalism.
For each change create /tmp/seed-{tag}-out/<PROPERTY>-<i>/ (e.g. {a}-1, {a}-2, {b}-1, {b}-2) containing: patch.diff (`git diff` against HEAD, independent, apply-able with `git apply`, project files only); demo.rs — a Rust integration test (for `tests/` of the root crate `profirust`, or `gsd-parser/tests/` for GSD properties; public API only incl. #[doc(hidden)] items; no cargo feature `verif-hooks`) that FAILS with the change and PASSES without it; README.md — which clause breaks, what is needed to manifest, the commands you ran and their outcome. Verify all three facts yourself for every change; leave the worktree clean (`git -C /tmp/seed-{tag} checkout -- . && git -C /tmp/seed-{tag} clean -fd -e target`). Reply with one line per change.""")
