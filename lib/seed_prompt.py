#!/usr/bin/env python3
"""Print the prompt for an independent seeding sub-agent (gets ONLY the property text and a scratch worktree)."""
import json
import sys

pid = sys.argv[1]
n = sys.argv[2] if len(sys.argv) > 2 else "3"
for l in open("/verif/properties.jsonl"):
    p = json.loads(l)
    if p["id"] == pid:
        break
print(f"""You are testing how well a verification effort detects bugs. You get ONE behavioural property of the Rust project Rahix/profirust (a no_std PROFIBUS-DP stack: FDL token-ring active station, DP master, telegram codec, PHY backends, GSD parser) and a scratch git worktree of it at /tmp/seed-{pid} (branch seed-{pid}). Work ONLY inside /tmp/seed-{pid} and /tmp/seed-{pid}-out. Do NOT read or use anything under /verif, /work or /root/.vp, and do not touch /repo itself (the worktree is yours). The sandbox is offline: use `cargo ... --offline` (set CARGO_NET_OFFLINE=true); the first build in the worktree takes a minute or two.

PROPERTY {pid}: {p['title']}
Statement: {p['statement']}
Quantified over: {p['quantifier']['text']}
Anchored in: {', '.join(p['anchors']['files'])}

YOUR JOB: produce {n} DIFFERENT small source changes (mutations) to the project, each of which BREAKS this property while the project still compiles and its whole existing test suite still passes (`cd /tmp/seed-{pid} && CARGO_NET_OFFLINE=true cargo test --workspace --no-fail-fast --offline` — all tests must pass with the change applied). Each change should look like a plausible mistake or "simplification" a developer could make (an off-by-one, a dropped condition, a swapped comparison, a forgotten reset, a wrong constant, two sites that each look fine alone, ...), and should need something SPECIFIC to manifest — a particular input, an unusual value, a multi-step sequence of operations, a particular interleaving or timing, a fault at a particular point — not something ordinary use would expose at once. Avoid trivial vandalism (deleting a whole function body, panicking unconditionally) and avoid changes that merely alter log output or comments. Prefer variety: different functions / different clauses of the property.

For each change i = 1..{n} create the directory /tmp/seed-{pid}-out/<i>/ containing:
  * patch.diff — `git diff` of the change against the worktree's HEAD (apply-able with `git apply`); only files of the project, no new test files inside the patch;
  * a DEMONSTRATION: a Rust integration test file demo.rs (to be dropped into `tests/` of the affected crate — the root crate `profirust` (tests/ directory may need creating; default features include std and phy-simulator) or `gsd-parser/tests/`) or a small example program, which FAILS (assertion or panic) with the change applied and PASSES without it; say in README how to run it (exact commands). The demonstration must only use the crate's public API (anything `pub`, including #[doc(hidden)] items);
  * README.md — which clause of the property breaks, what specific input/sequence/timing is needed to see it, and the commands you ran with their outcome (test suite with the change: pass; demo without change: pass; demo with change: fail).
Verify all three facts yourself for every change before you finish; leave the worktree clean at the end (`git -C /tmp/seed-{pid} checkout -- . && git -C /tmp/seed-{pid} clean -fd -e target`), keeping only /tmp/seed-{pid}-out. Reply with a short list: per change one line (file/function touched, what it breaks, what is needed to manifest).""")
