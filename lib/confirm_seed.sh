#!/bin/bash
# usage: lib/confirm_seed.sh <worktree> <seed-out-dir> <crate-tests-dir-relative (tests|gsd-parser/tests)> <demo test name>
# Confirms in a scratch worktree: demo passes without the change; with the change: whole suite passes, demo fails.
set -u
wt=$1; sd=$2; tdir=${3:-tests}; name=${4:-demo}
export CARGO_NET_OFFLINE=true
cd "$wt" || exit 2
git checkout -q -- . ; git clean -fdq -e target
mkdir -p "$tdir"; cp "$sd/demo.rs" "$tdir/$name.rs"
pkg=profirust; [ "$tdir" = "gsd-parser/tests" ] && pkg=gsd-parser
echo "--- demo WITHOUT change"
cargo test --offline -p $pkg --test $name 2>&1 | grep -E "^test result|error(\[|:)" | head -3; r1=${PIPESTATUS[0]}
git apply "$sd/patch.diff" || { echo "APPLY-FAILED"; exit 2; }
echo "--- demo WITH change"
cargo test --offline -p $pkg --test $name 2>&1 | grep -E "^test result|panicked|error(\[|:)" | head -4; r2=${PIPESTATUS[0]}
rm -f "$tdir/$name.rs"
echo "--- suite WITH change"
cargo test --workspace --no-fail-fast --offline 2>&1 | grep -E "^test result" | awk '{p+=$4; f+=$6} END {print "passed="p" failed="f}'
git checkout -q -- . ; git clean -fdq -e target
echo "demo_without_exit=$r1 demo_with_exit=$r2"
