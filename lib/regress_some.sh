#!/bin/bash
# Re-run a LIST of filed seeded changes against the current tree, one line per seed on stdout:
#   lib/regress_some.sh seeded/C20-8 seeded/C20-7 ...      (uses $VERIF_REPO, default /repo; that tree must be clean)
set -u
REPO=${VERIF_REPO:-/repo}
cd "$(dirname "$0")/.." || exit 2
for d in "$@"; do
  s=$(basename $d); pid=${s%-*}
  if ! git -C $REPO apply --check $PWD/$d/patch.diff 2>/dev/null; then
    echo "| $s | $pid | patch no longer applies to the current tree (source moved on) |"; continue
  fi
  git -C $REPO apply $PWD/$d/patch.diff
  r=$(timeout 3000 ./check $pid --tier quick 2>&1)
  git -C $REPO checkout -q -- . ; git -C $REPO clean -fdq -e target
  if echo "$r" | grep -q "no-failing-input-found"; then v="VIOLATION no-failing-input-found";
  elif echo "$r" | grep -q "^VIOLATION"; then v="VIOLATION with failing input";
  else v="**NOT DETECTED**"; fi
  echo "| $s | $pid | $v ($(echo "$r" | grep -E '^check' | sed 's/.*discharged, //')) |"
done
git checkout -q evidence/ 2>/dev/null
