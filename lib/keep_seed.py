#!/usr/bin/env python3
"""usage: keep_seed.py <Cxx> <n> <src dir> <breaks> <needs> <detected-by>  -- file a confirmed seeded change under seeded/."""
import json, os, shutil, sys
pid, n, src, breaks, needs, detected = sys.argv[1:7]
dst = f"/verif/seeded/{pid}-{n}"
os.makedirs(dst, exist_ok=True)
for f in os.listdir(src):
    if os.path.isfile(os.path.join(src, f)):
        shutil.copy(os.path.join(src, f), dst)
json.dump({
    "property": pid, "breaks": breaks, "needs_to_manifest": needs,
    "origin": "independent sub-agent given only the property text and a scratch worktree of /repo",
    "confirmed": "lib/confirm_seed.sh in a scratch worktree: demo passes without the change; with the change the whole workspace test suite passes (70 incl. doc tests) and the demo fails",
    "checked_with": f"lib/try_seed.sh {pid} seeded/{pid}-{n}/patch.diff (git apply to /repo, ./check {pid} --tier quick, git checkout)",
    "result": detected,
}, open(os.path.join(dst, "meta.json"), "w"), indent=1)
print(dst)
