#!/usr/bin/env python3
"""usage: merge_props.py <branch> <Cxx>...  -- take PROPS entries from <branch>:lib/props.py and append them (append style) to ours."""
import pprint, subprocess, sys
branch, ids = sys.argv[1], sys.argv[2:]
src = subprocess.run(["git", "show", f"{branch}:lib/props.py"], capture_output=True, text=True, check=True).stdout
ns = {}
exec(src, ns)
subprocess.run(["git", "checkout", "--ours", "lib/props.py"], check=False)
ours = open("lib/props.py").read()
for k in ids:
    v = ns["PROPS"][k]
    ours += f'\nPROPS["{k}"] = ' + pprint.pformat(v, width=150, sort_dicts=False) + "\n"
open("lib/props.py", "w").write(ours)
print("appended", ids)
