#!/usr/bin/env python3
"""Round-3 seeding prompt: the base prompt plus the list of changes already used for this property (to be avoided)."""
import json, os, subprocess, sys
pid = sys.argv[1]
base = subprocess.run([sys.executable, "/verif/lib/seed_prompt.py", pid, "3"], capture_output=True, text=True).stdout
used = []
for d in sorted(os.listdir("/verif/seeded")):
    m = os.path.join("/verif/seeded", d, "meta.json")
    if d.startswith(pid + "-") and os.path.exists(m):
        used.append("- " + json.load(open(m))["breaks"])
print(base)
print("\nTHIS IS A LATER ROUND. The following changes were ALREADY submitted for this property by earlier rounds - do not submit them, near-duplicates of them, or the same idea at the mirror-image site; find DIFFERENT mistakes (other functions, other clauses, other boundary values, or two cooperating sites that each look fine alone):")
print("\n".join(used))
