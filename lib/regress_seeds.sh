#!/bin/bash
# Re-run every filed seeded change (and the negative controls) against the CURRENT tree:
#   lib/regress_seeds.sh [out-file]     (uses $VERIF_REPO, default /repo; that tree must be clean)
# For seeded/<Cxx>-<n>: apply patch, run ./check Cxx, expect VIOLATION; for seeded/harmless-<n>: run the checks
# of the properties anchored in the touched files, expect exit 0.
set -u
REPO=${VERIF_REPO:-/repo}
OUT=${1:-seeded/REGRESSION.md}
cd "$(dirname "$0")/.." || exit 2
echo "# Regression of the filed seeded changes against the current tree ($(git -C $REPO log --format=%h -1))" > $OUT
echo "" >> $OUT
echo "| seed | property | outcome |" >> $OUT
echo "|---|---|---|" >> $OUT
for d in seeded/C*-*; do
  s=$(basename $d); pid=${s%-*}
  if ! git -C $REPO apply --check $PWD/$d/patch.diff 2>/dev/null; then
    echo "| $s | $pid | patch no longer applies to the current tree (source moved on) |" >> $OUT; continue
  fi
  git -C $REPO apply $PWD/$d/patch.diff
  r=$(timeout 3000 ./check $pid --tier quick 2>&1)
  git -C $REPO checkout -q -- . ; git -C $REPO clean -fdq -e target
  if echo "$r" | grep -q "no-failing-input-found"; then v="VIOLATION no-failing-input-found";
  elif echo "$r" | grep -q "^VIOLATION"; then v="VIOLATION with failing input";
  else v="**NOT DETECTED**"; fi
  echo "| $s | $pid | $v ($(echo "$r" | grep -E '^check' | sed 's/.*discharged, //')) |" >> $OUT
done
for d in seeded/harmless-* seeded/benign-*; do
  s=$(basename $d)
  if ! git -C $REPO apply --check $PWD/$d/patch.diff 2>/dev/null; then
    echo "| $s | - | patch no longer applies |" >> $OUT; continue
  fi
  files=$(grep '^+++ b/' $d/patch.diff | sed 's#+++ b/##')
  props=""
  for f in $files; do
    case $f in
      src/fdl/telegram.rs) props="$props C09 C10";;
      src/fdl/active.rs) props="$props C11 C12 C13 C15 C05";;
      src/fdl/token_ring.rs) props="$props C02";;
      src/fdl/live_list.rs|src/dp/scan.rs) props="$props C18";;
      src/dp/peripheral.rs) props="$props C03 C04 C08 C07";;
      src/dp/master.rs) props="$props C14";;
      src/dp/diagnostics.rs) props="$props C17";;
      src/consts.rs|src/fdl/parameters.rs) props="$props C09 C03 C01";;
      gsd-parser/*) props="$props C19 C20";;
    esac
  done
  git -C $REPO apply $PWD/$d/patch.diff
  res=""
  for p in $(echo $props | tr ' ' '\n' | sort -u); do
    r=$(timeout 3000 ./check $p --tier quick 2>&1)
    if echo "$r" | grep -q "no-failing-input-found"; then res="$res $p:no-failing-input-found";
    elif echo "$r" | grep -q "^VIOLATION"; then res="$res $p:ALARM-WITH-FAILING-INPUT"; else res="$res $p:quiet"; fi
  done
  git -C $REPO checkout -q -- . ; git -C $REPO clean -fdq -e target
  echo "| $s | $(echo $props | tr ' ' '\n' | sort -u | tr '\n' ' ') | $res |" >> $OUT
done
git checkout -q evidence/ 2>/dev/null
echo "done: $OUT"
