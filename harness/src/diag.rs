//! Diagnostics domain (C17): diagnostics-reply header decoding, extended-diagnostics buffer,
//! block iterator, channel decoding, Debug formatting (panic / no panic only).
//!
//! Case lines (inputs):
//!   ED <cap|none> <ext>,<ext>,...          hook path: ExtendedDiagnostics::from_buffer(cap bytes of 0xEE) + fill(ext) per item
//!   DP <cap|none> <item>,<item>,...        public path: DpMaster + one Peripheral driven through FdlApplication;
//!                                          item = <pduhex|-> | a:<pdu> (wrong DSAP) | b:<pdu> (wrong SSAP) | sc (short confirmation)
//!   SCAN <addr> <pduhex|->                 public path: DpScanner::receive_reply
//! Results:
//!   ED:   per item `f=<0|1> raw=<hex|none> blk=<blocks|PANIC> dbg=<ok|PANIC>` joined by ` ; `
//!   DP:   per item `ev=<event|-> diag=<flags hex>:<ident>:<master|-> raw=.. blk=.. dbg=..` (or `diag=none ...`), or `PANIC <loc>`
//!   SCAN: `found <ident> <master|->` | `requery ..` | `none`
//! blocks: `-` or items joined by `|`:  D@<data offset>:<hex>   I@<data offset|->:<hex>:<set bit indices joined by . or ->
//!   C:<module>:<channel>:<input>:<output>:<dtype>:<error>
use crate::util::*;
use profirust::dp;
use profirust::fdl;
use profirust::fdl::FdlApplication;

fn dtype_str(d: dp::ChannelDataType) -> &'static str {
    match d {
        dp::ChannelDataType::Bit => "Bit",
        dp::ChannelDataType::Bit2 => "Bit2",
        dp::ChannelDataType::Bit4 => "Bit4",
        dp::ChannelDataType::Byte => "Byte",
        dp::ChannelDataType::Word => "Word",
        dp::ChannelDataType::DWord => "DWord",
        dp::ChannelDataType::Invalid => "Invalid",
    }
}

fn error_str(e: dp::ChannelError) -> String {
    match e {
        dp::ChannelError::ShortCircuit => "ShortCircuit".into(),
        dp::ChannelError::UnderVoltage => "UnderVoltage".into(),
        dp::ChannelError::OverVoltage => "OverVoltage".into(),
        dp::ChannelError::OverLoad => "OverLoad".into(),
        dp::ChannelError::OverTemperature => "OverTemperature".into(),
        dp::ChannelError::LineBreak => "LineBreak".into(),
        dp::ChannelError::UpperLimitOvershoot => "UpperLimitOvershoot".into(),
        dp::ChannelError::LowerLimitUndershoot => "LowerLimitUndershoot".into(),
        dp::ChannelError::Error => "Error".into(),
        dp::ChannelError::Reserved(v) => format!("Reserved{}", v),
        dp::ChannelError::Vendor(v) => format!("Vendor{}", v),
    }
}

fn block_str(b: &dp::ExtDiagBlock, base: usize) -> String {
    match b {
        dp::ExtDiagBlock::Device(d) => format!("D@{}:{}", (d.as_ptr() as usize).wrapping_sub(base), hex(d)),
        dp::ExtDiagBlock::Identifier(i) => {
            // rebuild the bytes from the bits (Lsb0 order: bit k of the slice = bit k%8 of byte k/8)
            let nbits = i.len();
            let mut bytes = vec![0u8; (nbits + 7) / 8];
            for k in 0..nbits {
                if i[k] {
                    bytes[k / 8] |= 1 << (k % 8);
                }
            }
            let ones: Vec<String> = i.iter_ones().map(|x| x.to_string()).collect();
            let off = if nbits == 0 {
                "-".to_string()
            } else {
                ((i.as_bitptr().pointer() as usize).wrapping_sub(base)).to_string()
            };
            format!(
                "I@{}:{}{}:{}",
                off,
                hex(&bytes),
                if nbits % 8 != 0 { "?" } else { "" },
                if ones.is_empty() { "-".to_string() } else { ones.join(".") }
            )
        }
        dp::ExtDiagBlock::Channel(c) => format!(
            "C:{}:{}:{}:{}:{}:{}",
            c.module,
            c.channel,
            c.input as u8,
            c.output as u8,
            dtype_str(c.dtype),
            error_str(c.error)
        ),
    }
}

/// raw=.. blk=.. for an ExtendedDiagnostics (each part guarded on its own)
fn ext_str(ed: &dp::ExtendedDiagnostics) -> String {
    let raw = match guarded(|| ed.raw_diag_buffer().map(|r| hex(r))) {
        Ok(Some(h)) => h,
        Ok(None) => "none".to_string(),
        Err(_) => "PANIC".to_string(),
    };
    let blk = match guarded(|| {
        let base = ed.raw_diag_buffer().map(|r| r.as_ptr() as usize).unwrap_or(0);
        let mut v = vec![];
        let mut n = 0usize;
        for b in ed.iter_diag_blocks() {
            v.push(block_str(&b, base));
            n += 1;
            if n > 1000 {
                // the iterator must advance: more blocks than bytes means it does not
                v.push("NONTERMINATING".to_string());
                break;
            }
        }
        if v.is_empty() {
            "-".to_string()
        } else {
            v.join("|")
        }
    }) {
        Ok(s) => s,
        Err(_) => "PANIC".to_string(),
    };
    format!("raw={} blk={}", raw, blk)
}

fn dbg_str<T: core::fmt::Debug>(x: &T) -> &'static str {
    match guarded(|| {
        let s = format!("{:?}", x);
        std::hint::black_box(s.len())
    }) {
        Ok(_) => "ok",
        Err(_) => "PANIC",
    }
}

fn parse_cap(s: &str) -> Option<usize> {
    if s == "none" {
        None
    } else {
        Some(s.parse().expect("cap"))
    }
}

fn run_ed(cap: Option<usize>, items: &str) -> String {
    let mut storage = vec![0xEEu8; cap.unwrap_or(0)];
    let mut ed = match cap {
        None => dp::ExtendedDiagnostics::default(),
        Some(_) => profirust::verif_hooks::diag::ext_diag_from_buffer(&mut storage[..]),
    };
    let mut out = vec![];
    for it in items.split(',') {
        let ext = unhex(it);
        let f = match guarded(|| profirust::verif_hooks::diag::ext_diag_fill(&mut ed, &ext)) {
            Ok(b) => (b as u8).to_string(),
            Err(_) => "PANIC".to_string(),
        };
        out.push(format!("f={} {} dbg={}", f, ext_str(&ed), dbg_str(&ed)));
    }
    out.join(" ; ")
}

const MASTER: u8 = 2;
const PERIPH: u8 = 7;

fn event_str(e: Option<dp::PeripheralEvent>) -> &'static str {
    match e {
        None => "-",
        Some(dp::PeripheralEvent::Online) => "Online",
        Some(dp::PeripheralEvent::Configured) => "Configured",
        Some(dp::PeripheralEvent::ConfigError) => "ConfigError",
        Some(dp::PeripheralEvent::ParameterError) => "ParameterError",
        Some(dp::PeripheralEvent::DataExchanged) => "DataExchanged",
        Some(dp::PeripheralEvent::Diagnostics) => "Diagnostics",
        Some(dp::PeripheralEvent::Offline) => "Offline",
    }
}

fn reply_header(dsap: Option<u8>, ssap: Option<u8>) -> fdl::DataTelegramHeader {
    fdl::DataTelegramHeader {
        da: MASTER,
        sa: PERIPH,
        dsap,
        ssap,
        fc: fdl::FunctionCode::Response {
            state: fdl::ResponseState::Slave,
            status: fdl::ResponseStatus::DataLow,
        },
    }
}

fn run_dp(cap: Option<usize>, items: &str) -> String {
    let items: Vec<&str> = items.split(',').collect();
    let r = guarded(|| {
        let mut storage = vec![0xEEu8; cap.unwrap_or(0)];
        let mut pi_i: [u8; 0] = [];
        let mut pi_q: [u8; 0] = [];
        let prm = [0u8; 3];
        let cfg = [0x10u8];
        let options = dp::PeripheralOptions {
            ident_number: 0x1234,
            user_parameters: Some(&prm),
            config: Some(&cfg),
            ..Default::default()
        };
        let mut master = dp::DpMaster::new(Vec::new());
        let mut periph = dp::Peripheral::new(PERIPH, options, &mut pi_i[..], &mut pi_q[..]);
        if cap.is_some() {
            periph = periph.with_diag_buffer(&mut storage[..]);
        }
        let handle = master.add(periph);
        master.enter_operate();
        let fdl_station = fdl::FdlActiveStation::new(
            fdl::ParametersBuilder::new(MASTER, profirust::Baudrate::B19200).build(),
        );
        let mut now = profirust::time::Instant::ZERO;
        let mut out: Vec<String> = vec![];
        let mut next = 0usize;
        let mut steps = 0;
        while next < items.len() {
            steps += 1;
            if steps > 200 {
                out.push("STUCK".to_string());
                break;
            }
            now = now + profirust::time::Duration::from_millis(1);
            let mut txbuf = [0xA5u8; 256];
            let res = master.transmit_telegram(now, &fdl_station, fdl::TelegramTx::new(&mut txbuf), fdl::HighPrioOnly::No);
            if res.is_none() {
                continue;
            }
            let (dsap, da) = match fdl::Telegram::deserialize(&txbuf) {
                Some(Ok((fdl::Telegram::Data(d), _))) => (d.h.dsap, d.h.da),
                _ => {
                    out.push("BADTX".to_string());
                    break;
                }
            };
            if da != PERIPH {
                continue; // global control broadcast
            }
            match dsap {
                Some(60) => {
                    let it = items[next];
                    next += 1;
                    if it == "sc" {
                        master.receive_reply(now, &fdl_station, PERIPH, fdl::Telegram::ShortConfirmation(fdl::ShortConfirmation));
                    } else {
                        let (h, hx) = if let Some(x) = it.strip_prefix("a:") {
                            (reply_header(Some(61), Some(60)), x)
                        } else if let Some(x) = it.strip_prefix("b:") {
                            (reply_header(Some(62), Some(61)), x)
                        } else {
                            (reply_header(Some(62), Some(60)), it)
                        };
                        let pdu = unhex(hx);
                        master.receive_reply(now, &fdl_station, PERIPH, fdl::Telegram::Data(fdl::DataTelegram { h, pdu: &pdu }));
                    }
                    let ev = master.take_last_events().peripheral.map(|(_, e)| e);
                    let p = master.get_mut(handle);
                    let s = match p.last_diagnostics() {
                        None => format!("ev={} diag=none", event_str(ev)),
                        Some(d) => format!(
                            "ev={} diag={:04x}:{}:{} {} dbg={}",
                            event_str(ev),
                            d.flags.bits(),
                            d.ident_number,
                            opt_str(d.master_address),
                            ext_str(d.extended_diagnostics),
                            dbg_str(&d)
                        ),
                    };
                    out.push(s);
                }
                Some(61) | Some(62) => {
                    master.receive_reply(now, &fdl_station, PERIPH, fdl::Telegram::ShortConfirmation(fdl::ShortConfirmation));
                }
                None => {
                    // cyclic data exchange: ask for diagnostics, answer with SC (no inputs)
                    master.get_mut(handle).request_diagnostics();
                    master.receive_reply(now, &fdl_station, PERIPH, fdl::Telegram::ShortConfirmation(fdl::ShortConfirmation));
                }
                _ => {
                    out.push("UNEXPECTED-SAP".to_string());
                    break;
                }
            }
        }
        out.join(" ; ")
    });
    match r {
        Ok(s) => s,
        Err(loc) => format!("PANIC {}", loc),
    }
}

fn run_scan(addr: u8, pdu: &[u8]) -> String {
    let r = guarded(|| {
        let mut scanner = dp::scan::DpScanner::new();
        let fdl_station = fdl::FdlActiveStation::new(
            fdl::ParametersBuilder::new(MASTER, profirust::Baudrate::B19200).build(),
        );
        let now = profirust::time::Instant::ZERO;
        let mut h = reply_header(Some(62), Some(60));
        h.sa = addr;
        scanner.receive_reply(now, &fdl_station, addr, fdl::Telegram::Data(fdl::DataTelegram { h, pdu }));
        match scanner.take_last_event() {
            Some(dp::scan::DpScanEvent::PeripheralFound(d)) => {
                format!("found {} {} {}", d.address, d.ident, opt_str(d.master_address))
            }
            Some(dp::scan::DpScanEvent::PeripheralRequery(d)) => {
                format!("requery {} {} {}", d.address, d.ident, opt_str(d.master_address))
            }
            Some(dp::scan::DpScanEvent::PeripheralLost(_)) => "lost".to_string(),
            None => "none".to_string(),
        }
    });
    match r {
        Ok(s) => s,
        Err(loc) => format!("PANIC {}", loc),
    }
}

pub fn run_case(line: &str) -> String {
    let p: Vec<&str> = line.split_whitespace().collect();
    match p[0] {
        "ED" => run_ed(parse_cap(p[1]), p[2]),
        "DP" => run_dp(parse_cap(p[1]), p[2]),
        "SCAN" => run_scan(p[1].parse().unwrap(), &unhex(p[2])),
        _ => "BADCASE".to_string(),
    }
}

// ------------------------------------------------------------------------------------ generation

fn cap_str(c: Option<usize>) -> String {
    match c {
        None => "none".to_string(),
        Some(n) => n.to_string(),
    }
}

/// the capacities the property names: none, 0, 1, |ext|-1, |ext|, 64, 244
fn caps_for(len: usize) -> Vec<Option<usize>> {
    let mut v = vec![None, Some(0), Some(1), Some(len), Some(64), Some(244)];
    if len >= 1 {
        v.push(Some(len - 1));
    }
    v.sort();
    v.dedup();
    v
}

/// A well-formed block of a random kind.
fn random_block(r: &mut Rng) -> Vec<u8> {
    match r.below(3) {
        0 => {
            let n = r.range(1, 12) as usize;
            let mut v = vec![n as u8];
            v.extend(r.bytes(n - 1));
            v
        }
        1 => {
            let n = r.range(1, 9) as usize;
            let mut v = vec![0x40 | n as u8];
            v.extend(r.bytes(n - 1));
            v
        }
        _ => vec![0x80 | (r.byte() & 0x3f), r.byte(), r.byte()],
    }
}

/// Mostly well-formed block sequences, sometimes with a malformed / truncated / zero-length tail.
fn structured_ext(r: &mut Rng, maxlen: usize) -> Vec<u8> {
    let mut v = vec![];
    let n = r.below(8);
    for _ in 0..n {
        v.extend(random_block(r));
    }
    match r.below(8) {
        0 => v.push(*r.pick(&[0x00u8, 0x40])),
        1 => v.push(0xc0 | (r.byte() & 0x3f)),
        2 => {
            let b = random_block(r);
            let cut = r.below(b.len() as u64) as usize;
            v.extend(&b[..cut.max(1).min(b.len())]);
        }
        3 => {
            v.push(r.byte());
            let k = r.below(6) as usize;
            v.extend(r.bytes(k));
        }
        _ => {}
    }
    v.truncate(maxlen);
    v
}

fn pdu_with(r: &mut Rng, ext: &[u8], force_ext_flag: bool) -> Vec<u8> {
    let mut b0 = r.byte();
    if force_ext_flag {
        b0 |= 0x08;
    }
    // keep the bring-up moving in most cases: no faults, sometimes ready
    if r.chance(3, 4) {
        b0 &= !0x44;
    }
    let b3 = if r.chance(1, 3) { 255 } else { r.byte() };
    let mut v = vec![b0, r.byte(), r.byte(), b3, r.byte(), r.byte()];
    v.extend_from_slice(ext);
    v
}

pub fn gen(seed: u64, thorough: bool, out: &mut dyn FnMut(String)) {
    let mut r = Rng::new(seed ^ 0xD1A6);
    let k = if thorough { 10 } else { 1 };

    // --- ED: every 1-byte string with every capacity, fresh buffer
    for a in 0..=255u8 {
        for c in caps_for(1) {
            out(format!("ED {} {}", cap_str(c), hex(&[a])));
        }
    }
    // --- every 2-byte string (capacity = fits exactly / 64), plus the other capacities on a sample
    for a in 0..=255u16 {
        for b in 0..=255u16 {
            let e = [a as u8, b as u8];
            out(format!("ED {} {}", if (a + b) % 2 == 0 { 2 } else { 64 }, hex(&e)));
            if thorough || (a * 7 + b) % 61 == 0 {
                for c in caps_for(2) {
                    out(format!("ED {} {}", cap_str(c), hex(&e)));
                }
            }
        }
    }
    // --- every header byte with structured tails: exact announced length, one short, one long, followed by another block
    for h in 0..=255u16 {
        let h = h as u8;
        let announced = if h >> 6 == 2 { 3 } else { (h & 0x3f) as usize };
        let mut lens = vec![announced, announced + 1, announced + 4, 1, 2, 3];
        if announced >= 1 {
            lens.push(announced - 1);
        }
        if announced >= 2 {
            lens.push(announced - 2);
        }
        lens.sort();
        lens.dedup();
        for l in lens {
            if l == 0 {
                continue;
            }
            for variant in 0..(2 * k) {
                let mut e = vec![h];
                e.extend(r.bytes(l - 1));
                if variant % 2 == 1 {
                    e.extend(structured_ext(&mut r, 40));
                }
                let cap = *r.pick(&caps_for(e.len()));
                out(format!("ED {} {}", cap_str(cap), hex(&e)));
                // and in front of it a valid block, so that the cursor is not zero
                let mut e2 = random_block(&mut r);
                e2.extend(&e);
                out(format!("ED {} {}", e2.len().max(1), hex(&e2)));
            }
        }
    }
    // --- every channel byte 1 / byte 2 value
    for b in 0..=255u16 {
        out(format!("ED 8 {}", hex(&[0x80 | r.byte() & 0x3f, b as u8, r.byte()])));
        out(format!("ED 8 {}", hex(&[0x80 | r.byte() & 0x3f, r.byte(), b as u8])));
    }
    // --- fill sequences: previous content, too-large strings in between, all capacity classes
    for _ in 0..(3000 * k) {
        let n = r.range(1, 4) as usize;
        let mut items = vec![];
        let first = if r.chance(1, 2) { structured_ext(&mut r, 244) } else { let l = r.below(40) as usize; r.bytes(l) };
        let caps = caps_for(first.len());
        let cap = *r.pick(&caps);
        items.push(first);
        for _ in 1..n {
            let e = match r.below(4) {
                0 => vec![],
                1 => { let l = r.below(245) as usize; r.bytes(l) }
                _ => structured_ext(&mut r, 244),
            };
            items.push(e);
        }
        let s: Vec<String> = items.iter().map(|e| hex(e)).collect();
        out(format!("ED {} {}", cap_str(cap), s.join(",")));
    }
    // --- random strings of every length 0..244
    for l in 0..=244usize {
        for _ in 0..(2 * k) {
            let e = if r.chance(1, 2) { r.bytes(l) } else { let mut v = structured_ext(&mut r, l); while v.len() < l { v.extend(random_block(&mut r)); } v.truncate(l); v };
            let cap = *r.pick(&caps_for(e.len()));
            out(format!("ED {} {}", cap_str(cap), hex(&e)));
        }
    }

    // --- DP: PDUs of every length 0..244 through the public path
    for l in 0..=244usize {
        for _ in 0..(2 * k) {
            let pdu = if l < 6 { r.bytes(l) } else {
                let mut e = structured_ext(&mut r, l - 6);
                while e.len() < l - 6 { e.push(r.byte()); }
                let f = r.chance(3, 4);
                pdu_with(&mut r, &e, f)
            };
            let extlen = l.saturating_sub(6);
            let cap = *r.pick(&caps_for(extlen));
            out(format!("DP {} {}", cap_str(cap), hex(&pdu)));
        }
    }
    // all 1-byte ext strings and all (flag byte 1) values through the public path
    for a in 0..=255u16 {
        let pdu = [0x08, 0x0c, 0x00, 0xff, 0x12, 0x34, a as u8];
        out(format!("DP {} {}", *r.pick(&[1usize, 8, 64]), hex(&pdu)));
        let pdu = [r.byte(), a as u8, r.byte(), r.byte(), r.byte(), r.byte()];
        out(format!("DP none {}", hex(&pdu)));
        let pdu = [a as u8, r.byte(), r.byte(), a as u8, r.byte(), r.byte(), 0x02, 0x55];
        out(format!("DP 8 {}", hex(&pdu)));
    }
    // reply sequences (previous diagnostics / previous ext content, wrong SAPs, SC, short PDUs in between)
    for _ in 0..(2500 * k) {
        let n = r.range(1, 5) as usize;
        let mut items = vec![];
        let mut maxext = 0usize;
        for _ in 0..n {
            let it = match r.below(12) {
                0 => "sc".to_string(),
                1 => { let e = structured_ext(&mut r, 30); format!("a:{}", hex(&pdu_with(&mut r, &e, true))) }
                2 => { let e = structured_ext(&mut r, 30); format!("b:{}", hex(&pdu_with(&mut r, &e, true))) }
                3 => { let l = r.below(6) as usize; hex(&r.bytes(l)) }
                _ => {
                    let e = if r.chance(1, 5) { let l = r.below(239) as usize; r.bytes(l) } else { structured_ext(&mut r, 238) };
                    maxext = maxext.max(e.len());
                    let f = r.chance(5, 6);
                    hex(&pdu_with(&mut r, &e, f))
                }
            };
            items.push(it);
        }
        let cap = *r.pick(&caps_for(maxext));
        out(format!("DP {} {}", cap_str(cap), items.join(",")));
    }

    // --- SCAN
    for l in 0..=20usize {
        for _ in 0..(4 * k) {
            let pdu = r.bytes(l);
            out(format!("SCAN {} {}", r.below(126), hex(&pdu)));
        }
    }
    for a in 0..=255u16 {
        let pdu = [r.byte(), r.byte(), r.byte(), a as u8, r.byte(), r.byte()];
        out(format!("SCAN {} {}", r.below(126), hex(&pdu)));
        let pdu = [r.byte(), r.byte(), r.byte(), r.byte(), a as u8, (255 - a) as u8, r.byte()];
        out(format!("SCAN {} {}", r.below(126), hex(&pdu)));
    }
}
